(* model side of the C13 correspondence.
   line: <id> <sheet> ; <node>
     sheet := S <nOwn> <tester>* <nImports> <sheet>*      tester := a+ | a- | n<uri>+ | q<uri>.<local>-   (+ strip, - preserve)
     node  := E<uri>.<local>:<nkids>[p|d|o] <node>*   (p/d/o: xml:space preserve / default / other value) | T<hex>.<hex>... | C | P
   line: <id> N <depth.from.count.stripped>*   (current node first, then its predecessors in reverse document order)
   out : <id> <number_any of the walk> <number_any of the physically stripped walk>
   out : <id> D=<0|1 per whitespace-only text node, 1 = stripped> SV=<hex code points joined by .> NN=<n> NT=<n> KC=<n,n,...> L=<tester list after postConstruction> *)
let tester_of (t : string) : tester =
  let n = String.length t in
  let strip = t.[n - 1] = '+' in
  let b = String.sub t 0 (n - 1) in
  let test =
    if b = "a" then NtAny
    else if b.[0] = 'n' then NtNs (n_of_int (int_of_string (String.sub b 1 (String.length b - 1))))
    else
      match String.split_on_char '.' (String.sub b 1 (String.length b - 1)) with
      | [u; l] -> NtQ (n_of_int (int_of_string u), n_of_int (int_of_string l))
      | _ -> failwith "bad tester" in
  { t_test = test; t_strip = strip }

let rec parse_sheet (l : string list) : sheet * string list =
  match l with
  | "S" :: n :: r ->
      let n = int_of_string n in
      let rec take k l acc = if k = 0 then (List.rev acc, l) else
        match l with x :: r -> take (k - 1) r (tester_of x :: acc) | [] -> failwith "short sheet" in
      let (own, r) = take n r [] in
      (match r with
       | m :: r ->
           let m = int_of_string m in
           let rec imps k l acc = if k = 0 then (List.rev acc, l) else
             let (s, r) = parse_sheet l in imps (k - 1) r (s :: acc) in
           let (is, r) = imps m r [] in
           (Sheet (own, is), r)
       | [] -> failwith "short sheet")
  | _ -> failwith "sheet expected"

let rec parse_node (l : string list) : node * string list =
  match l with
  | [] -> failwith "node expected"
  | t :: r ->
      if t = "C" then (Comment [], r)
      else if t = "P" then (PI (N0, []), r)
      else if t.[0] = 'T' then
        let body = String.sub t 1 (String.length t - 1) in
        let cs = if body = "" then [] else List.map (fun h -> n_of_int (int_of_string ("0x" ^ h))) (String.split_on_char '.' body) in
        (Text cs, r)
      else if t.[0] = 'E' then
        let body = String.sub t 1 (String.length t - 1) in
        (match String.split_on_char ':' body with
         | [nm; k] ->
             (* optional trailing letter: p = xml:space="preserve", d = "default", o = another value *)
             let kl = String.length k in
             let (k, xs) = if kl > 0 && (k.[kl - 1] = 'p' || k.[kl - 1] = 'd' || k.[kl - 1] = 'o')
                           then (String.sub k 0 (kl - 1), Some k.[kl - 1]) else (k, None) in
             let attrs = match xs with
               | Some 'p' -> [((xml_ns, space_local), preserve_value)]
               | Some 'd' -> [((xml_ns, space_local), default_value)]
               | Some _ -> [((xml_ns, space_local), [n_of_int 120])]
               | None -> [] in
             (match String.split_on_char '.' nm with
              | [u; lc] ->
                  let k = int_of_string k in
                  let rec kids k l acc = if k = 0 then (List.rev acc, l) else
                    let (x, r) = parse_node l in kids (k - 1) r (x :: acc) in
                  let (ks, r) = kids k r [] in
                  (Elem ((n_of_int (int_of_string u), n_of_int (int_of_string lc)), attrs, ks), r)
              | _ -> failwith "bad element name")
         | _ -> failwith "bad element")
      else failwith ("bad node token " ^ t)

let show_tester (t : tester) : string =
  (match t.t_test with
   | NtAny -> "a"
   | NtNs u -> Printf.sprintf "n%d" (int_of_n u)
   | NtQ (u, l) -> Printf.sprintf "q%d.%d" (int_of_n u) (int_of_n l)) ^ (if t.t_strip then "+" else "-")

let () =
  let ic = if Array.length Sys.argv > 1 then open_in Sys.argv.(1) else stdin in
  iter_lines ic (fun line ->
    match split_ws line with
    | id :: "N" :: items ->
        (* xsl:number level="any": the current node and its predecessors, each depth.from.count.stripped; both walks *)
        let w = List.map (fun it -> match String.split_on_char '.' it with
          | [d; f; c; s] -> { w_depth = nat_of_int (int_of_string d); w_from = (f = "1"); w_count = (c = "1"); w_stripped = (s = "1") }
          | _ -> failwith "bad walk item") items in
        Printf.printf "%s %d %d\n" id (int_of_nat (number_any w)) (int_of_nat (number_any (walk_strip w)))
    | id :: rest ->
        (try
          let (s, r) = parse_sheet rest in
          let r = (match r with ";" :: r -> r | _ -> failwith "; expected") in
          let (d, _) = parse_node r in
          let rep = model_report s d in
          Printf.printf "%s D=%s SV=%s NN=%d NT=%d KC=%s L=%s\n" id
            (String.concat "" (List.map (fun b -> if b then "1" else "0") rep.r_decisions))
            (String.concat "." (List.map (fun c -> Printf.sprintf "%x" (int_of_n c)) rep.r_string))
            (int_of_nat rep.r_nodes) (int_of_nat rep.r_texts)
            (String.concat "," (List.map (fun k -> string_of_int (int_of_nat k)) rep.r_kids))
            (String.concat "," (List.map show_tester (post_construction s)))
        with Failure m -> Printf.printf "%s error %s\n" id m)
    | _ -> ())
