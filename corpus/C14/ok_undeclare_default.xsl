# probed and fine (apply to <doc/>)
<xsl:stylesheet version="1.0" xmlns:xsl="http://www.w3.org/1999/XSL/Transform"><xsl:template match="/"><e xmlns="u4"><xsl:element name="f" namespace=""></xsl:element></e></xsl:template></xsl:stylesheet>
