# KN5 repaired by a fix: commit - regression case, must pass (apply to <doc/>)
<xsl:stylesheet version="1.0" xmlns:xsl="http://www.w3.org/1999/XSL/Transform"><xsl:template match="/"><e><xsl:attribute name="xml:a" namespace="u4">u4</xsl:attribute></e></xsl:template></xsl:stylesheet>
