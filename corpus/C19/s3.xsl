<?xml version="1.0"?>
<xsl:stylesheet version="1.0" xmlns:xsl="http://www.w3.org/1999/XSL/Transform">
  <xsl:output method="text"/>
  <xsl:decimal-format name="eu" decimal-separator="," grouping-separator="."/>
  <xsl:param name="sep" select="'|'"/>
  <xsl:template name="fmt">
    <xsl:param name="x"/>
    <xsl:param name="pat" select="'#,##0.00'"/>
    <xsl:value-of select="format-number($x, $pat)"/>
  </xsl:template>
  <xsl:template match="/">
    <xsl:for-each select="list/n">
      <xsl:sort select="@v" data-type="number"/>
      <xsl:call-template name="fmt"><xsl:with-param name="x" select="@v"/></xsl:call-template>
      <xsl:value-of select="$sep"/>
      <xsl:value-of select="format-number(@v, '#.##0,0', 'eu')"/>
      <xsl:if test="position() != last()"><xsl:text>&#10;</xsl:text></xsl:if>
    </xsl:for-each>
    <xsl:message>done <xsl:value-of select="sum(list/n/@v)"/></xsl:message>
  </xsl:template>
</xsl:stylesheet>
