From Coq Require Import NArith List Bool Lia.
Require Import XV.FixupDefs.
Import ListNotations.
Local Open Scope N_scope.

Lemma fix_comment_eq : forall c r, fix_comment (c :: r) =
  if c =? hyphen then
    match r with
    | [] => [hyphen; space]
    | d :: _ => if d =? hyphen then hyphen :: space :: fix_comment r else hyphen :: fix_comment r
    end
  else c :: fix_comment r.
Proof. reflexivity. Qed.

Lemma fix_pi_eq : forall c r, fix_pi (c :: r) =
  if c =? qmark then
    match r with
    | d :: r' => if d =? gt then qmark :: space :: gt :: fix_pi r' else qmark :: fix_pi r
    | [] => [qmark]
    end
  else c :: fix_pi r.
Proof. reflexivity. Qed.

Lemma fix_comment_head : forall s, match fix_comment s, s with
  | x :: _, c :: _ => x = c | [], [] => True | _, _ => False end.
Proof.
  destruct s as [|c r]; [exact I|]. rewrite fix_comment_eq.
  destruct (c =? hyphen) eqn:E.
  - apply N.eqb_eq in E. destruct r as [|d r']; [now subst|]. destruct (d =? hyphen); now subst.
  - reflexivity.
Qed.

Lemma has_pair_cons : forall a b c s, has_pair a b (c :: s) =
  match s with d :: _ => ((c =? a) && (d =? b)) || has_pair a b s | [] => false end.
Proof. intros; destruct s; reflexivity. Qed.

Lemma has_pair_skip : forall a b c s, (c =? a) = false -> has_pair a b (c :: s) = has_pair a b s.
Proof. intros a b c s H. rewrite has_pair_cons. destruct s as [|d t]; [reflexivity|]. now rewrite H. Qed.

Lemma has_pair_second : forall a b c d s, (d =? b) = false -> has_pair a b (c :: d :: s) = has_pair a b (d :: s).
Proof. intros a b c d s H. rewrite has_pair_cons. now rewrite H, andb_false_r. Qed.

Lemma head_of : forall (l : list N) c r, match l, c :: r with x :: _, c0 :: _ => x = c0 | [], [] => True | _, _ => False end ->
  exists t, l = c :: t.
Proof. intros l c r H. destruct l as [|x t]; [contradiction|]. subst x. now exists t. Qed.

Lemma fix_comment_no_pair : forall s, has_pair hyphen hyphen (fix_comment s) = false.
Proof.
  induction s as [|c r IH]; [reflexivity|].
  rewrite fix_comment_eq. destruct (c =? hyphen) eqn:E.
  - destruct r as [|d r']; [reflexivity|].
    destruct (d =? hyphen) eqn:E2.
    + rewrite has_pair_second by reflexivity. rewrite has_pair_skip by reflexivity. exact IH.
    + destruct (head_of (fix_comment (d :: r')) d r' (fix_comment_head (d :: r'))) as [t Ht]. rewrite Ht in *.
      rewrite has_pair_second by exact E2. exact IH.
  - rewrite has_pair_skip by exact E. exact IH.
Qed.

Lemma last_cons2 : forall (a b : N) l d, last (a :: b :: l) d = last (b :: l) d.
Proof. reflexivity. Qed.

Lemma fix_comment_nonempty : forall c r, fix_comment (c :: r) <> [].
Proof.
  intros c r. rewrite fix_comment_eq. destruct (c =? hyphen); [destruct r as [|d r']; [discriminate|destruct (d =? hyphen); discriminate]|discriminate].
Qed.

Lemma last_cons_ne : forall (a : N) l d, l <> [] -> last (a :: l) d = last l d.
Proof. intros a l d H; destruct l; [contradiction|reflexivity]. Qed.

Lemma fix_comment_last : forall s, ends_with hyphen (fix_comment s) = false.
Proof.
  unfold ends_with. induction s as [|c r IH]; [reflexivity|].
  rewrite fix_comment_eq. destruct (c =? hyphen) eqn:E.
  - destruct r as [|d r']; [reflexivity|].
    destruct (d =? hyphen).
    + rewrite last_cons2. rewrite last_cons_ne by apply fix_comment_nonempty. exact IH.
    + rewrite last_cons_ne by apply fix_comment_nonempty. exact IH.
  - destruct r as [|d r'].
    + cbn. exact E.
    + rewrite last_cons_ne by apply fix_comment_nonempty. exact IH.
Qed.

Theorem fix_comment_ok : forall s, comment_hyphens_ok (fix_comment s) = true.
Proof. intro s; unfold comment_hyphens_ok; now rewrite fix_comment_no_pair, fix_comment_last. Qed.

Theorem fix_comment_inserts_spaces_only : forall s, InsSp s (fix_comment s).
Proof.
  induction s as [|c r IH]; [constructor|].
  rewrite fix_comment_eq. destruct (c =? hyphen) eqn:E.
  - apply N.eqb_eq in E; subst c. destruct r as [|d r'].
    + repeat constructor.
    + destruct (d =? hyphen); [apply InsKeep, InsAdd, IH | apply InsKeep, IH].
  - apply InsKeep, IH.
Qed.

Lemma has_pair_false_tail : forall a b c s, has_pair a b (c :: s) = false -> has_pair a b s = false.
Proof. intros a b c s H; rewrite has_pair_cons in H; destruct s; [reflexivity|]; apply orb_false_iff in H; tauto. Qed.

Theorem fix_comment_identity : forall s, comment_hyphens_ok s = true -> fix_comment s = s.
Proof.
  unfold comment_hyphens_ok, ends_with. induction s as [|c r IH]; [reflexivity|].
  intro H. apply andb_true_iff in H. destruct H as [H1 H2]. apply negb_true_iff in H1, H2.
  rewrite fix_comment_eq. destruct (c =? hyphen) eqn:E.
  - apply N.eqb_eq in E. subst c. destruct r as [|d r'].
    + cbn in H2. discriminate.
    + rewrite has_pair_cons in H1. apply orb_false_iff in H1. destruct H1 as [H1 H1'].
      change (hyphen =? hyphen) with true in H1. cbn [andb] in H1. rewrite H1. f_equal. apply IH.
      rewrite H1'. rewrite last_cons2 in H2. rewrite H2. reflexivity.
  - f_equal. destruct r as [|d r']; [reflexivity|]. apply IH.
    rewrite (has_pair_false_tail _ _ _ _ H1). rewrite last_cons2 in H2. rewrite H2. reflexivity.
Qed.

Theorem fix_comment_changes_only_bad : forall s, fix_comment s = s -> comment_hyphens_ok s = true.
Proof. intros s H; rewrite <- H; apply fix_comment_ok. Qed.

(* ---- processing instructions ---- *)

Lemma fix_pi_head : forall s, match fix_pi s, s with
  | x :: _, c :: _ => x = c | [], [] => True | _, _ => False end.
Proof.
  destruct s as [|c r]; [exact I|]. rewrite fix_pi_eq.
  destruct (c =? qmark) eqn:E; [|reflexivity].
  apply N.eqb_eq in E. destruct r as [|d r']; [now subst|]. destruct (d =? gt); now subst.
Qed.

Theorem fix_pi_ok : forall s, pi_close_ok (fix_pi s) = true.
Proof.
  unfold pi_close_ok. intro s. apply negb_true_iff.
  remember (length s) as n eqn:Hn. revert s Hn.
  induction n as [n IHn] using (well_founded_induction Wf_nat.lt_wf).
  intros s Hn. destruct s as [|c r]; [reflexivity|].
  rewrite fix_pi_eq. destruct (c =? qmark) eqn:E.
  - destruct r as [|d r']; [reflexivity|].
    destruct (d =? gt) eqn:E2.
    + rewrite has_pair_second by reflexivity. rewrite has_pair_skip by reflexivity.
      rewrite has_pair_skip by reflexivity.
      apply (IHn (length r')); [subst n; cbn; lia|reflexivity].
    + destruct (head_of (fix_pi (d :: r')) d r' (fix_pi_head (d :: r'))) as [t Ht].
      assert (IH : has_pair qmark gt (fix_pi (d :: r')) = false) by (apply (IHn (length (d :: r'))); [subst n; cbn; lia|reflexivity]).
      rewrite Ht in *. rewrite has_pair_second by exact E2. exact IH.
  - rewrite has_pair_skip by exact E. apply (IHn (length r)); [subst n; cbn; lia|reflexivity].
Qed.

Theorem fix_pi_inserts_spaces_only : forall s, InsSp s (fix_pi s).
Proof.
  intro s. remember (length s) as n eqn:Hn. revert s Hn.
  induction n as [n IHn] using (well_founded_induction Wf_nat.lt_wf).
  intros s Hn. destruct s as [|c r]; [constructor|].
  rewrite fix_pi_eq. destruct (c =? qmark) eqn:E.
  - apply N.eqb_eq in E; subst c. destruct r as [|d r']; [repeat constructor|].
    destruct (d =? gt) eqn:E2.
    + apply N.eqb_eq in E2; subst d. apply InsKeep, InsAdd, InsKeep. apply (IHn (length r')); [subst n; cbn; lia|reflexivity].
    + apply InsKeep. apply (IHn (length (d :: r'))); [subst n; cbn; lia|reflexivity].
  - apply InsKeep. apply (IHn (length r)); [subst n; cbn; lia|reflexivity].
Qed.

Theorem fix_pi_identity : forall s, pi_close_ok s = true -> fix_pi s = s.
Proof.
  unfold pi_close_ok. induction s as [|c r IH]; [reflexivity|].
  intro H. apply negb_true_iff in H. rewrite fix_pi_eq. destruct (c =? qmark) eqn:E.
  - apply N.eqb_eq in E. subst c. destruct r as [|d r']; [reflexivity|].
    rewrite has_pair_cons in H. apply orb_false_iff in H. destruct H as [H H'].
    change (qmark =? qmark) with true in H. cbn [andb] in H. rewrite H. f_equal. apply IH. now rewrite H'.
  - f_equal. apply IH. now rewrite (has_pair_false_tail _ _ _ _ H).
Qed.
