(* C14 — whole-program theorem: for every list of the modelled constructors, if the run raises no
   hazard, the namespace-aware reader accepts every emitted start tag (elements and attributes have
   the requested expanded names, prefixes are declared, no duplicate expanded attribute names). *)
From Coq Require Import List NArith Bool Lia.
Require Import XV.GenNsfix XV.NsfixDefs XV.NsfixModel XV.NsfixStep.
Import ListNotations.
Local Open Scope N_scope.

(* ---------------------------------------------------------------------------------------- *)
(* equalities *)

Lemma qname_eqb_eq : forall a b : qname, qname_eqb a b = true <-> a = b.
Proof.
  intros [p l] [p' l']. unfold qname_eqb. simpl. rewrite andb_true_iff, pfx_eqb_eq, atom_eqb_eq.
  split; [intros [-> ->]; reflexivity | intro H; inversion H; auto].
Qed.

Lemma qname_eqb_refl : forall a, qname_eqb a a = true.
Proof. intro a. apply qname_eqb_eq. reflexivity. Qed.

Lemma ename_eqb_eq : forall a b : ename, ename_eqb a b = true <-> a = b.
Proof.
  intros [u l] [u' l']. unfold ename_eqb. simpl. rewrite andb_true_iff, N.eqb_eq, atom_eqb_eq.
  split; [intros [-> ->]; reflexivity | intro H; inversion H; auto].
Qed.

Lemma ename_eqb_refl : forall a, ename_eqb a a = true.
Proof. intro a. apply ename_eqb_eq. reflexivity. Qed.

Lemma forallb_ext' : forall {A} (f g : A -> bool) l, (forall x, In x l -> f x = g x) -> forallb f l = forallb g l.
Proof.
  induction l as [|a r IH]; simpl; intros H; [reflexivity|].
  rewrite (H a) by auto. rewrite IH; auto.
Qed.

(* ---------------------------------------------------------------------------------------- *)
(* resolution through the model's stack, mirroring the reader's resolution through its scope *)

Definition mresolve (k : list ctx) (p : pfx) : option uri :=
  match p with
  | None => Some (match stk_lookup None k with Some u => u | None => 0 end)
  | Some AXml => Some uXML
  | Some AXmlns => None
  | Some _ => match stk_lookup p k with
              | Some u => if N.eqb u 0 then None else Some u
              | None => None
              end
  end.

Definition mresolve_elem (k : list ctx) (q : qname) : option ename :=
  match mresolve k (fst q) with Some u => Some (u, snd q) | None => None end.

Definition mresolve_attr (k : list ctx) (q : qname) : option ename :=
  match fst q with
  | None => Some (0, snd q)
  | p => match mresolve k p with Some u => Some (u, snd q) | None => None end
  end.

Definition attr_okb (k : list ctx) (a : attr) : bool :=
  match decl_prefix (a_name a) with
  | Some p => decl_ok p (a_val a)
  | None => opt_ename_eqb (mresolve_attr k (a_name a)) (a_req a)
  end.

Definition lvl_eq (c : ctx) (l : list attr) : Prop := forall p, ctx_lookup p c = attrs_lookup p l.

Lemma lookup_agree : forall k sc, Forall2 lvl_eq k sc -> forall p, stk_lookup p k = scope_lookup p sc.
Proof.
  induction 1 as [|c l k sc H _ IH]; intro p; simpl; [reflexivity|].
  rewrite (H p). destruct (attrs_lookup p l); auto.
Qed.

Lemma mresolve_agree : forall k sc, (forall p, stk_lookup p k = scope_lookup p sc) ->
  forall p, mresolve k p = resolve_prefix sc p.
Proof.
  intros k sc H p. destruct p as [[]|]; simpl; rewrite ?H; reflexivity.
Qed.

(* ---------------------------------------------------------------------------------------- *)
(* the invariant *)

Definition Pcore (k : list ctx) (attrs : list attr) : Prop :=
  (exists top rest, k = top :: rest /\ lvl_eq top attrs)
  /\ forallb (attr_okb k) attrs = true
  /\ nodup_by qname_eqb (map a_name attrs) = true
  /\ nodup_by ename_eqb (map a_req (plain_attrs attrs)) = true.

Definition Pelem (k : list ctx) (q : qname) (req : ename) : Prop :=
  opt_ename_eqb (mresolve_elem k q) req = true.

(* everything but the resolution of the pending element's own name *)
Definition InvCoreF (k : list ctx) (pe : option (qname * ename)) (ats : list attr) (o : list event) : Prop :=
  exists sc, chk_run (rev o) = Some sc /\
    match pe with
    | None => ats = [] /\ Forall2 lvl_eq k sc
    | Some _ => exists top rest, k = top :: rest /\ Forall2 lvl_eq rest sc /\ Pcore k ats
    end.

Definition InvCore (s : st) : Prop := InvCoreF (stk s) (pend s) (pattrs s) (out s).

Definition PelemS (s : st) : Prop :=
  match pend s with Some (q, req) => Pelem (stk s) q req | None => True end.

Definition Inv (s : st) : Prop := InvCore s /\ PelemS s.

Lemma chk_run_snoc : forall evs e, chk_run (evs ++ [e]) = chk_step (chk_run evs) e.
Proof. intros. unfold chk_run. rewrite fold_left_app. reflexivity. Qed.

Lemma check_start_of_P : forall top rest sc q req ats,
  Forall2 lvl_eq rest sc -> Pcore (top :: rest) ats -> Pelem (top :: rest) q req ->
  check_start sc q req ats = true.
Proof.
  intros top rest sc q req ats HF [[top' [rest' [E Ht]]] [Hok [Hn Hr]]] He.
  inversion E; subst top' rest'; clear E.
  assert (HL : forall p, stk_lookup p (top :: rest) = scope_lookup p (ats :: sc)).
  { intro p. simpl. rewrite (Ht p). rewrite (lookup_agree _ _ HF p). reflexivity. }
  assert (HR := mresolve_agree _ _ HL).
  unfold check_start. rewrite Hn, Hr, !andb_true_r.
  apply andb_true_iff. split.
  - unfold Pelem, mresolve_elem in He. unfold resolve_elem. rewrite <- HR. exact He.
  - rewrite <- Hok. apply forallb_ext'. intros a _. unfold attr_okb.
    destruct (decl_prefix (a_name a)); [reflexivity|].
    unfold resolve_attr, mresolve_attr. destruct (fst (a_name a)) as [x|]; [|reflexivity].
    rewrite <- HR. reflexivity.
Qed.

Lemma flush_Inv : forall s, Inv s ->
  InvCore (flush s) /\ pend (flush s) = None /\ pattrs (flush s) = [] /\ stk (flush s) = stk s
  /\ hz (flush s) = hz s /\ ctr (flush s) = ctr s.
Proof.
  intros s [[sc [Hc H]] He]. unfold flush, InvCore, InvCoreF, PelemS in *.
  destruct (pend s) as [[q req]|] eqn:Ep.
  - destruct H as [top [rest [Ek [HF HP]]]]. cbn [stk pend pattrs out hz ctr].
    repeat split; auto.
    exists (pattrs s :: sc). split.
    + simpl. rewrite chk_run_snoc, Hc. simpl.
      rewrite Ek in HP, He. rewrite (check_start_of_P _ _ _ _ _ _ HF HP He). reflexivity.
    + split; [reflexivity|]. rewrite Ek. constructor; auto.
      destruct HP as [[t' [r' [E Ht]]] _]. rewrite Ek in E. inversion E; subst. exact Ht.
  - destruct H as [Ha HF]. repeat split; auto. exists sc. rewrite Ep. auto.
Qed.

Lemma text_Inv : forall s, Inv s -> Inv (text s).
Proof.
  intros s H. destruct (flush_Inv s H) as [[sc [Hc Hm]] [Hp [Ha [Hk _]]]].
  unfold text. cbv zeta. split; [|unfold PelemS; cbn [pend]; rewrite Hp; exact I].
  unfold InvCore, InvCoreF. cbn [stk pend pattrs out].
  exists sc. split.
  - simpl. rewrite chk_run_snoc, Hc. reflexivity.
  - exact Hm.
Qed.

Lemma end_Inv : forall s, Inv s -> Inv (end_elem s).
Proof.
  intros s H. unfold end_elem. destruct (stk s) as [|c r] eqn:Ek; [exact H|].
  destruct (flush_Inv s H) as [[sc [Hc Hm]] [Hp [Ha [Hk _]]]].
  rewrite Hp in Hm. destruct Hm as [_ HF]. rewrite Hk, Ek in HF.
  inversion HF as [|c' l r' sc' Hl HF']; subst.
  split; [|unfold PelemS; cbn [pend]; exact I].
  unfold InvCore, InvCoreF. cbn [stk pend pattrs out].
  exists sc'. split.
  - simpl. rewrite chk_run_snoc, Hc. reflexivity.
  - split; [exact Ha|]. rewrite Hk, Ek. exact HF'.
Qed.

Lemma Pcore_nil : forall rest, Pcore ([] :: rest) [].
Proof.
  intro rest. unfold Pcore. repeat split; try reflexivity.
  exists [], rest. split; [reflexivity|]. intro p. reflexivity.
Qed.

Lemma start_elem_InvCore : forall s q req, Inv s ->
  InvCore (start_elem s q req)
  /\ stk (start_elem s q req) = [] :: stk s
  /\ pend (start_elem s q req) = Some (q, req)
  /\ pattrs (start_elem s q req) = []
  /\ hz (start_elem s q req) = hz s /\ ctr (start_elem s q req) = ctr s.
Proof.
  intros s q req H. destruct (flush_Inv s H) as [[sc [Hc Hm]] [Hp [Ha [Hk [Hh Hctr]]]]].
  unfold start_elem. cbv zeta. cbn [stk pend pattrs out hz ctr]. rewrite Hk, Ha. repeat split; auto.
  unfold InvCore, InvCoreF. cbn [stk pend pattrs out].
  exists sc. split; [exact Hc|].
  rewrite Hp in Hm. destruct Hm as [_ HF]. rewrite Hk in HF.
  exists [], (stk s). repeat split; auto. apply Pcore_nil.
Qed.

(* ---------------------------------------------------------------------------------------- *)
(* the pending attribute list (AttributeListImpl::addAttribute) *)

Lemma decl_prefix_inj : forall n n' p, decl_prefix n = Some p -> decl_prefix n' = Some p -> n = n'.
Proof.
  intros [[a|] l] [[a'|] l'] p; simpl;
    repeat match goal with |- context [match ?x with _ => _ end] => destruct x end;
    intros H H'; try discriminate; inversion H; subst; inversion H'; subst; reflexivity.
Qed.

Lemma attrs_lookup_add : forall p l a,
  attrs_lookup p (add_attribute l a) =
  match decl_prefix (a_name a) with
  | Some p' => if pfx_eqb p p' then Some (a_val a) else attrs_lookup p l
  | None => attrs_lookup p l
  end.
Proof.
  intros p l a. induction l as [|b r IH]; simpl.
  - destruct (decl_prefix (a_name a)) as [p'|]; [destruct (pfx_eqb p p')|]; reflexivity.
  - destruct (qname_eqb (a_name b) (a_name a)) eqn:E.
    + apply qname_eqb_eq in E. simpl. rewrite E.
      destruct (decl_prefix (a_name a)) as [p'|]; [destruct (pfx_eqb p p')|]; reflexivity.
    + simpl. destruct (decl_prefix (a_name b)) as [pb|] eqn:Db.
      * destruct (pfx_eqb p pb) eqn:Q.
        -- apply pfx_eqb_eq in Q. subst pb.
           destruct (decl_prefix (a_name a)) as [p'|] eqn:Da; [|reflexivity].
           destruct (pfx_eqb p p') eqn:Q'; [|reflexivity].
           apply pfx_eqb_eq in Q'. subst p'.
           rewrite (decl_prefix_inj _ _ _ Db Da), qname_eqb_refl in E. discriminate.
        -- exact IH.
      * exact IH.
Qed.

Definition names (l : list attr) : list qname := map a_name l.

Lemma exists_name_add : forall n l a,
  existsb (qname_eqb n) (names (add_attribute l a)) = existsb (qname_eqb n) (names l) || qname_eqb n (a_name a).
Proof.
  intros n l a. induction l as [|b r IH]; simpl.
  - apply orb_comm.
  - destruct (qname_eqb (a_name b) (a_name a)) eqn:E; simpl.
    + apply qname_eqb_eq in E. rewrite E.
      destruct (qname_eqb n (a_name a)), (existsb (qname_eqb n) (names r)); reflexivity.
    + rewrite IH. rewrite orb_assoc. reflexivity.
Qed.

Lemma nodup_names_add : forall l a,
  nodup_by qname_eqb (names l) = true -> nodup_by qname_eqb (names (add_attribute l a)) = true.
Proof.
  induction l as [|b r IH]; intros a H; simpl in *; [reflexivity|].
  apply andb_true_iff in H. destruct H as [H1 H2].
  destruct (qname_eqb (a_name b) (a_name a)) eqn:E; simpl.
  - apply qname_eqb_eq in E. rewrite <- E. rewrite H1, H2. reflexivity.
  - fold (names (add_attribute r a)). rewrite exists_name_add.
    apply negb_true_iff in H1. fold (names r). rewrite H1, E. simpl. apply IH. exact H2.
Qed.

Local Arguments plain_attrs : simpl never.

Definition is_declb (a : attr) : bool := match decl_prefix (a_name a) with Some _ => true | None => false end.

Lemma plain_attrs_cons : forall b r,
  plain_attrs (b :: r) = if is_declb b then plain_attrs r else b :: plain_attrs r.
Proof. intros. unfold plain_attrs, is_declb. simpl. destruct (decl_prefix (a_name b)); reflexivity. Qed.

Lemma plain_add_decl : forall l a, is_declb a = true -> plain_attrs (add_attribute l a) = plain_attrs l.
Proof.
  intros l a Ha. induction l as [|b r IH]; simpl.
  - rewrite plain_attrs_cons, Ha. reflexivity.
  - destruct (qname_eqb (a_name b) (a_name a)) eqn:E.
    + apply qname_eqb_eq in E. rewrite !plain_attrs_cons.
      assert (Hb : is_declb b = true) by (unfold is_declb in *; rewrite E; exact Ha).
      rewrite Ha, Hb. reflexivity.
    + rewrite !plain_attrs_cons, IH. reflexivity.
Qed.

Definition exb (e : ename) (l : list attr) : bool := existsb (ename_eqb e) (map a_req (plain_attrs l)).
Local Arguments exb : simpl never.

Lemma exb_cons : forall e b r, exb e (b :: r) = if is_declb b then exb e r else ename_eqb e (a_req b) || exb e r.
Proof. intros. unfold exb. rewrite plain_attrs_cons. destruct (is_declb b); reflexivity. Qed.

Lemma exb_add : forall e l a, is_declb a = false ->
  exb e (add_attribute l a) = true -> exb e l = true \/ ename_eqb e (a_req a) = true.
Proof.
  intros e l a Ha. induction l as [|b r IH]; simpl.
  - rewrite exb_cons, Ha. unfold exb. simpl. rewrite orb_false_r. auto.
  - destruct (qname_eqb (a_name b) (a_name a)) eqn:E.
    + rewrite !exb_cons, Ha. intro H. apply orb_true_iff in H. destruct H as [H|H]; [auto|].
      left. destruct (is_declb b); [exact H|]. rewrite H. apply orb_true_r.
    + rewrite !exb_cons. destruct (is_declb b).
      * exact IH.
      * intro H. apply orb_true_iff in H. destruct H as [H|H].
        -- left. rewrite H. reflexivity.
        -- destruct (IH H) as [H'|H']; [left; rewrite H'; apply orb_true_r | auto].
Qed.

(* the K17 test of emit_attr *)
Definition clashb (l : list attr) (a : attr) : bool :=
  existsb (fun b => match decl_prefix (a_name b) with
                    | Some _ => false
                    | None => ename_eqb (a_req b) (a_req a) && negb (qname_eqb (a_name b) (a_name a))
                    end) l.

Lemma ename_eqb_sym : forall a b, ename_eqb a b = ename_eqb b a.
Proof.
  intros a b. destruct (ename_eqb a b) eqn:E.
  - apply ename_eqb_eq in E. subst. symmetry. apply ename_eqb_refl.
  - destruct (ename_eqb b a) eqn:E'; auto. apply ename_eqb_eq in E'. subst.
    rewrite ename_eqb_refl in E. discriminate.
Qed.

Lemma clash_none : forall l a, clashb l a = false -> existsb (qname_eqb (a_name a)) (names l) = false ->
  exb (a_req a) l = false.
Proof.
  induction l as [|b r IH]; intros a Hc Hn; [reflexivity|].
  simpl in Hc, Hn. apply orb_false_iff in Hc. destruct Hc as [Hc1 Hc2].
  apply orb_false_iff in Hn. destruct Hn as [Hn1 Hn2].
  rewrite exb_cons. unfold is_declb. destruct (decl_prefix (a_name b)); [auto|].
  rewrite (IH a Hc2 Hn2), orb_false_r.
  apply andb_false_iff in Hc1. destruct Hc1 as [H|H].
  - rewrite ename_eqb_sym. exact H.
  - apply negb_false_iff in H. apply qname_eqb_eq in H. rewrite H, qname_eqb_refl in Hn1. discriminate.
Qed.

Lemma nodup_reqs_add : forall l a, is_declb a = false ->
  nodup_by qname_eqb (names l) = true ->
  nodup_by ename_eqb (map a_req (plain_attrs l)) = true ->
  clashb l a = false ->
  nodup_by ename_eqb (map a_req (plain_attrs (add_attribute l a))) = true.
Proof.
  induction l as [|b r IH]; intros a Ha Hn Hr Hc.
  - simpl. rewrite plain_attrs_cons, Ha. reflexivity.
  - simpl in Hn. apply andb_true_iff in Hn. destruct Hn as [Hn1 Hn2].
    simpl in Hc. apply orb_false_iff in Hc. destruct Hc as [Hc1 Hc2].
    rewrite plain_attrs_cons in Hr. simpl.
    destruct (qname_eqb (a_name b) (a_name a)) eqn:E.
    + apply qname_eqb_eq in E.
      assert (Hb : is_declb b = false) by (unfold is_declb in *; rewrite E; exact Ha).
      rewrite Hb in Hr. simpl in Hr. apply andb_true_iff in Hr. destruct Hr as [_ Hr2].
      rewrite plain_attrs_cons, Ha. simpl. rewrite Hr2, andb_true_r.
      apply negb_true_iff. apply negb_true_iff in Hn1. rewrite E in Hn1.
      exact (clash_none r a Hc2 Hn1).
    + rewrite plain_attrs_cons. destruct (is_declb b) eqn:Hb.
      * apply IH; auto.
      * simpl in Hr. apply andb_true_iff in Hr. destruct Hr as [Hr1 Hr2]. simpl.
        rewrite (IH a Ha Hn2 Hr2 Hc2), andb_true_r.
        apply negb_true_iff. destruct (exb (a_req b) (add_attribute r a)) eqn:X; [|exact X].
        exfalso. destruct (exb_add _ _ _ Ha X) as [H|H].
        -- apply negb_true_iff in Hr1. unfold exb in H. rewrite H in Hr1. discriminate.
        -- unfold is_declb in Hb. destruct (decl_prefix (a_name b)); [discriminate|].
           rewrite H in Hc1. simpl in Hc1. discriminate.
Qed.

(* ---------------------------------------------------------------------------------------- *)
(* frame lemmas: what a new declaration on the pending element changes *)

Lemma nfp_raw : forall k p, p <> Some AXml -> p <> Some AXmlns -> ns_for_prefix k p = stk_lookup p k.
Proof.
  intros k p H1 H2. unfold ns_for_prefix.
  destruct p as [[]|]; try congruence;
    (destruct (all_empty k) eqn:E; [symmetry; apply all_empty_lookup; assumption | reflexivity]).
Qed.

Lemma stk_lookup_add : forall p q u k, k <> [] ->
  stk_lookup q (add_decl p u k) = if pfx_eqb q p then Some u else stk_lookup q k.
Proof.
  intros p q u [|c r] H; [contradiction|]. simpl. destruct (pfx_eqb q p); reflexivity.
Qed.

Lemma mresolve_add_other : forall k p u q, pfx_eqb q p = false -> mresolve (add_decl p u k) q = mresolve k q.
Proof.
  intros k p u q H. unfold mresolve. rewrite (add_decl_lookup_other p q u k H).
  destruct q as [[]|]; try reflexivity.
  rewrite (add_decl_lookup_other p None u k H). reflexivity.
Qed.

Lemma mresolve_const : forall k k' p, (p = Some AXml \/ p = Some AXmlns) -> mresolve k p = mresolve k' p.
Proof. intros k k' p [->| ->]; reflexivity. Qed.

Definition decl_name (p : pfx) : qname :=
  match p with None => (None, AXmlns) | Some x => (Some AXmlns, x) end.

Lemma decl_prefix_decl_name : forall p, decl_prefix (decl_name p) = Some p.
Proof. intros [x|]; reflexivity. Qed.

Lemma forallb_add : forall (f : attr -> bool) l a, forallb f l = true -> f a = true ->
  forallb f (add_attribute l a) = true.
Proof.
  induction l as [|b r IH]; intros a Hl Ha; simpl in *; [rewrite Ha; reflexivity|].
  apply andb_true_iff in Hl. destruct Hl as [H1 H2].
  destruct (qname_eqb (a_name b) (a_name a)); simpl.
  - rewrite Ha, H2. reflexivity.
  - rewrite H1. apply IH; assumption.
Qed.

Lemma Pcore_emit : forall k l a, Pcore k l -> is_declb a = false -> attr_okb k a = true ->
  clashb l a = false -> Pcore k (add_attribute l a).
Proof.
  intros k l a [[top [rest [Ek Ht]]] [Hok [Hn Hr]]] Ha Hka Hc. unfold Pcore. repeat split.
  - exists top, rest. split; [exact Ek|]. intro p. rewrite attrs_lookup_add.
    unfold is_declb in Ha. destruct (decl_prefix (a_name a)); [discriminate|]. apply Ht.
  - apply forallb_add; assumption.
  - apply nodup_names_add. exact Hn.
  - apply nodup_reqs_add; assumption.
Qed.

Lemma Pcore_decl : forall k l p u r, Pcore k l -> decl_ok p u = true ->
  forallb (attr_okb (add_decl p u k)) l = true ->
  Pcore (add_decl p u k) (add_attribute l (mkAttr (decl_name p) u r)).
Proof.
  intros k l p u r [[top [rest [Ek Ht]]] [Hok [Hn Hr]]] Hd Hfr. unfold Pcore. repeat split.
  - exists ((p, u) :: top), rest. split; [rewrite Ek; reflexivity|]. intro q.
    rewrite attrs_lookup_add. cbn [a_name a_val]. rewrite decl_prefix_decl_name. simpl.
    destruct (pfx_eqb q p); [reflexivity | apply Ht].
  - apply forallb_add; [exact Hfr|]. unfold attr_okb. cbn [a_name a_val].
    rewrite decl_prefix_decl_name. exact Hd.
  - apply nodup_names_add. exact Hn.
  - rewrite plain_add_decl; [exact Hr|]. unfold is_declb. cbn [a_name].
    rewrite decl_prefix_decl_name. reflexivity.
Qed.

(* an attribute that is fine keeps being fine when a prefix it does not use gets declared *)
Lemma attr_okb_frame_default : forall k u b, attr_okb (add_decl None u k) b = attr_okb k b.
Proof.
  intros k u b. unfold attr_okb. destruct (decl_prefix (a_name b)); [reflexivity|].
  unfold mresolve_attr. destruct (fst (a_name b)) as [y|]; [|reflexivity].
  rewrite mresolve_add_other; reflexivity.
Qed.

Lemma attr_okb_frame : forall k x u b, attr_okb k b = true ->
  (stk_lookup (Some x) k = None \/ attr_uses_prefix x b = false) ->
  attr_okb (add_decl (Some x) u k) b = true.
Proof.
  intros k x u b Hb Hc. unfold attr_okb in *. destruct (decl_prefix (a_name b)) eqn:Db; [exact Hb|].
  unfold mresolve_attr in *. destruct (fst (a_name b)) as [y|] eqn:Ey; [|exact Hb].
  destruct (plain_atom y) eqn:Py.
  - destruct (atom_eqb y x) eqn:Eyx.
    + apply atom_eqb_eq in Eyx. subst y. exfalso. destruct Hc as [Hc|Hc].
      * unfold mresolve in Hb. rewrite Hc in Hb. destruct x; simpl in Py, Hb; discriminate.
      * unfold attr_uses_prefix in Hc. rewrite Ey in Hc.
        destruct x; simpl in Py, Hc; rewrite ?N.eqb_refl in Hc; discriminate.
    + rewrite mresolve_add_other; [exact Hb|]. simpl. exact Eyx.
  - rewrite (mresolve_const (add_decl (Some x) u k) k (Some y)); [exact Hb|].
    destruct y; simpl in Py; try discriminate; auto.
Qed.

(* ---------------------------------------------------------------------------------------- *)
(* K17 repair: an attribute is stored under the name of a pending attribute with the same expanded name *)

Lemma same_exp_spec : forall k n b, same_exp k n b = true ->
  exists x l y u, n = (Some x, l) /\ a_name b = (Some y, l) /\ x <> y /\ y <> AXmlns
    /\ ns_for_prefix k (Some x) = Some u /\ ns_for_prefix k (Some y) = Some u.
Proof.
  intros k [[x|] l] b H; unfold same_exp in H; [|discriminate].
  destruct (a_name b) as [[y|] l'] eqn:E; [|discriminate].
  apply andb_true_iff in H. destruct H as [H H4]. apply andb_true_iff in H. destruct H as [H H3].
  apply andb_true_iff in H. destruct H as [H1 H2].
  apply atom_eqb_eq in H1. subst l'.
  destruct (ns_for_prefix k (Some x)) as [u|] eqn:Ex; [|discriminate].
  destruct (ns_for_prefix k (Some y)) as [w|] eqn:Ey; [|discriminate].
  apply N.eqb_eq in H4. subst w.
  exists x, l, y, u. repeat split; auto.
  - intro X. subst. rewrite atom_eqb_refl in H2. discriminate.
  - intro X. subst. discriminate.
Qed.

Lemma merge_target_some : forall k l n n', merge_target k l n = Some n' ->
  exists b, In b l /\ a_name b = n' /\ same_exp k n b = true.
Proof.
  intros k l n n' H. unfold merge_target in H. destruct (find (same_exp k n) l) as [b|] eqn:F; [|discriminate].
  inversion H; subst. apply find_some in F. exists b. tauto.
Qed.

Lemma merge_target_none : forall k l n, merge_target k l n = None -> forall b, In b l -> same_exp k n b = false.
Proof.
  intros k l n H b Hb. unfold merge_target in H. destruct (find (same_exp k n) l) as [b0|] eqn:F; [discriminate|].
  exact (find_none _ _ F b Hb).
Qed.

Lemma mresolve_of_nfp : forall k y u, y <> AXmlns -> ns_for_prefix k (Some y) = Some u -> u <> 0 ->
  mresolve k (Some y) = Some u.
Proof.
  intros k y u Hy H Hu. apply N.eqb_neq in Hu. destruct y; try congruence.
  - simpl in H. inversion H. reflexivity.
  - rewrite nfp_raw in H by discriminate. unfold mresolve. rewrite H, Hu. reflexivity.
  - rewrite nfp_raw in H by discriminate. unfold mresolve. rewrite H, Hu. reflexivity.
  - rewrite nfp_raw in H by discriminate. unfold mresolve. rewrite H, Hu. reflexivity.
Qed.

Lemma nfp_of_mresolve : forall k x u, mresolve k (Some x) = Some u ->
  ns_for_prefix k (Some x) = Some u /\ u <> 0 /\ x <> AXmlns.
Proof.
  intros k x u H. destruct x; simpl in H; try discriminate.
  - inversion H. repeat split; try discriminate. 
  - rewrite nfp_raw by discriminate. destruct (stk_lookup (Some (AXmlish n)) k) as [w|]; [|discriminate].
    destruct (N.eqb w 0) eqn:E; [discriminate|]. inversion H; subst. apply N.eqb_neq in E. repeat split; auto; discriminate.
  - rewrite nfp_raw by discriminate. destruct (stk_lookup (Some (AUser n)) k) as [w|]; [|discriminate].
    destruct (N.eqb w 0) eqn:E; [discriminate|]. inversion H; subst. apply N.eqb_neq in E. repeat split; auto; discriminate.
  - rewrite nfp_raw by discriminate. destruct (stk_lookup (Some (AGen n)) k) as [w|]; [|discriminate].
    destruct (N.eqb w 0) eqn:E; [discriminate|]. inversion H; subst. apply N.eqb_neq in E. repeat split; auto; discriminate.
Qed.

(* what "fine" says about a non-declaration attribute *)
Lemma okb_prefixed : forall k b y l, attr_okb k b = true -> is_declb b = false -> a_name b = (Some y, l) ->
  mresolve k (Some y) = Some (fst (a_req b)) /\ snd (a_req b) = l.
Proof.
  intros k b y l H Hd En. unfold attr_okb, is_declb in *. destruct (decl_prefix (a_name b)); [discriminate|].
  unfold mresolve_attr in H. rewrite En in H. cbn [fst snd] in H.
  destruct (mresolve k (Some y)) as [u|]; [|discriminate].
  simpl in H. apply ename_eqb_eq in H. rewrite <- H. auto.
Qed.

Lemma okb_unprefixed : forall k b l, attr_okb k b = true -> is_declb b = false -> a_name b = (None, l) ->
  a_req b = (0, l).
Proof.
  intros k b l H Hd En. unfold attr_okb, is_declb in *. destruct (decl_prefix (a_name b)); [discriminate|].
  unfold mresolve_attr in H. rewrite En in H. cbn [fst snd] in H. simpl in H. apply ename_eqb_eq in H. auto.
Qed.

Lemma exb_in : forall l b, In b l -> is_declb b = false -> exb (a_req b) l = true.
Proof.
  induction l as [|c r IH]; intros b Hin Hd; [contradiction|].
  rewrite exb_cons. destruct Hin as [->|Hin].
  - rewrite Hd, ename_eqb_refl. reflexivity.
  - rewrite (IH b Hin Hd). destruct (is_declb c); [reflexivity | apply orb_true_r].
Qed.

Lemma nodup_reqs_inj : forall l b b0,
  nodup_by ename_eqb (map a_req (plain_attrs l)) = true ->
  In b l -> In b0 l -> is_declb b = false -> is_declb b0 = false -> a_req b = a_req b0 -> b = b0.
Proof.
  induction l as [|c r IH]; intros b b0 Hn Hb Hb0 Hd Hd0 He; [contradiction|].
  rewrite plain_attrs_cons in Hn.
  destruct Hb as [->|Hb]; destruct Hb0 as [->|Hb0]; auto.
  - rewrite Hd in Hn. simpl in Hn. apply andb_true_iff in Hn. destruct Hn as [Hn _].
    apply negb_true_iff in Hn. pose proof (exb_in r b0 Hb0 Hd0) as X. unfold exb in X. rewrite <- He in X. congruence.
  - rewrite Hd0 in Hn. simpl in Hn. apply andb_true_iff in Hn. destruct Hn as [Hn _].
    apply negb_true_iff in Hn. pose proof (exb_in r b Hb Hd) as X. unfold exb in X. rewrite He in X. congruence.
  - apply IH; auto. destruct (is_declb c); [exact Hn|]. simpl in Hn. apply andb_true_iff in Hn. tauto.
Qed.

Lemma no_clash_by_names : forall l a,
  (forall b, In b l -> is_declb b = false -> a_req b = a_req a -> a_name b = a_name a) -> clashb l a = false.
Proof.
  intros l a H. unfold clashb. destruct (existsb _ l) eqn:E; [|reflexivity]. exfalso.
  apply existsb_exists in E. destruct E as [b [Hb Hc]].
  destruct (decl_prefix (a_name b)) eqn:D; [discriminate|].
  apply andb_true_iff in Hc. destruct Hc as [H1 H2]. apply ename_eqb_eq in H1.
  assert (Hd : is_declb b = false) by (unfold is_declb; rewrite D; reflexivity).
  rewrite (H b Hb Hd H1), qname_eqb_refl in H2. discriminate.
Qed.

Lemma forallb_In : forall {A} (f : A -> bool) l x, forallb f l = true -> In x l -> f x = true.
Proof. intros A f l x H Hin. rewrite forallb_forall in H. auto. Qed.

Lemma Pcore_addx : forall k l a, Pcore k l -> is_declb a = false -> attr_okb k a = true ->
  (k17_fixed = false -> clashb l a = false) -> Pcore k (add_attr_x k l a).
Proof.
  intros k l a HP Ha Hok Hcl. unfold add_attr_x. destruct k17_fixed eqn:F; [|apply Pcore_emit; auto; fail].
  pose proof HP as [_ [Hall [Hnn Hnr]]].
  destruct (merge_target k l (a_name a)) as [n'|] eqn:M.
  - (* stored under the name of the pending attribute b0 *)
    destruct (merge_target_some _ _ _ _ M) as [b0 [Hb0 [En0 Hs]]].
    destruct (same_exp_spec _ _ _ Hs) as (x & lo & y & u & En & Eb0 & Hxy & Hy & Nx & Ny).
    assert (Hd0 : is_declb b0 = false).
    { unfold is_declb. rewrite Eb0. rewrite decl_prefix_prefixed by assumption. reflexivity. }
    destruct (okb_prefixed k a x lo Hok Ha En) as [Mx Sx].
    destruct (nfp_of_mresolve _ _ _ Mx) as [Nx' [Hu _]]. rewrite Nx in Nx'. inversion Nx'. subst u.
    pose proof (mresolve_of_nfp k y _ Hy Ny Hu) as My.
    destruct (okb_prefixed k b0 y lo (forallb_In _ _ _ Hall Hb0) Hd0 Eb0) as [My0 Sy0].
    assert (Er0 : a_req b0 = a_req a).
    { rewrite My in My0. inversion My0. destruct (a_req b0), (a_req a). simpl in *. congruence. }
    assert (Hd' : is_declb (mkAttr n' (a_val a) (a_req a)) = false).
    { unfold is_declb. cbn [a_name]. rewrite <- En0, Eb0. rewrite decl_prefix_prefixed by assumption. reflexivity. }
    assert (OK' : attr_okb k (mkAttr n' (a_val a) (a_req a)) = true).
    { unfold attr_okb. cbn [a_name a_req]. rewrite <- En0, Eb0.
      rewrite decl_prefix_prefixed by assumption. unfold mresolve_attr. cbn [fst snd]. rewrite My.
      simpl. apply ename_eqb_eq. destruct (a_req a). simpl in *. congruence. }
    assert (NC' : clashb l (mkAttr n' (a_val a) (a_req a)) = false).
    { apply no_clash_by_names. cbn [a_name a_req]. intros b Hb Hd Er.
      rewrite <- En0. f_equal. apply (nodup_reqs_inj l); auto. congruence. }
    apply Pcore_emit; assumption.
  - assert (NC : clashb l a = false).
    { apply no_clash_by_names. intros b Hb Hd Er.
      pose proof (forallb_In _ _ _ Hall Hb) as Hbo.
      destruct (a_name a) as [[x|] lo] eqn:En; destruct (a_name b) as [[y|] lb] eqn:Eb.
      + destruct (okb_prefixed k a x lo Hok Ha En) as [Mx Sx].
        destruct (okb_prefixed k b y lb Hbo Hd Eb) as [My Sy].
        assert (Hl : lb = lo) by (rewrite <- Sx, <- Sy, Er; reflexivity). rewrite Hl in *.
        destruct (atom_eqb x y) eqn:Exy; [apply atom_eqb_eq in Exy; rewrite Exy; reflexivity|]. exfalso.
        destruct (nfp_of_mresolve _ _ _ Mx) as [Nx _]. destruct (nfp_of_mresolve _ _ _ My) as [Ny [_ Hy]].
        pose proof (merge_target_none _ _ _ M b Hb) as Hs. unfold same_exp in Hs. rewrite Eb in Hs.
        rewrite atom_eqb_refl, Exy, Nx, Ny, Er, N.eqb_refl in Hs. cbn [negb andb] in Hs.
        destruct (atom_eqb y AXmlns) eqn:Q; [apply atom_eqb_eq in Q; contradiction | discriminate].
      + exfalso. destruct (okb_prefixed k a x lo Hok Ha En) as [Mx _].
        destruct (nfp_of_mresolve _ _ _ Mx) as [_ [Hu _]].
        rewrite (okb_unprefixed k b lb Hbo Hd Eb) in Er. rewrite <- Er in Hu. apply Hu. reflexivity.
      + exfalso. destruct (okb_prefixed k b y lb Hbo Hd Eb) as [My _].
        destruct (nfp_of_mresolve _ _ _ My) as [_ [Hu _]].
        rewrite (okb_unprefixed k a lo Hok Ha En) in Er. rewrite Er in Hu. apply Hu. reflexivity.
      + rewrite (okb_unprefixed k a lo Hok Ha En), (okb_unprefixed k b lb Hbo Hd Eb) in Er. congruence. }
    apply Pcore_emit; assumption.
Qed.

Lemma exb_addx : forall e k l a, is_declb a = false -> (forall n', merge_target k l (a_name a) = Some n' -> decl_prefix n' = None) ->
  exb e (add_attr_x k l a) = true -> exb e l = true \/ ename_eqb e (a_req a) = true.
Proof.
  intros e k l a Ha Hm. unfold add_attr_x. destruct k17_fixed; [|apply exb_add; exact Ha].
  destruct (merge_target k l (a_name a)) as [n'|] eqn:M; [|apply exb_add; exact Ha].
  intro H. apply (exb_add e l (mkAttr n' (a_val a) (a_req a))) in H; [exact H|].
  unfold is_declb. cbn [a_name]. rewrite (Hm n' eq_refl). reflexivity.
Qed.

Lemma merge_target_plain : forall k l n n', merge_target k l n = Some n' -> decl_prefix n' = None.
Proof.
  intros k l n n' M. destruct (merge_target_some _ _ _ _ M) as [b0 [_ [En0 Hs]]].
  destruct (same_exp_spec _ _ _ Hs) as (x & lo & y & u & _ & Eb0 & _ & Hy & _).
  rewrite <- En0, Eb0. apply decl_prefix_prefixed. exact Hy.
Qed.

(* ---------------------------------------------------------------------------------------- *)
(* state-level lemmas while an element is pending *)

Definition upd (s : st) (k : list ctx) (l : list attr) : st := mkSt k (pend s) l (ctr s) (out s) (hz s).

Lemma ara_prefix_cases : forall s x u r, plain_atom x = true ->
  (add_result_attr s (Some AXmlns, x) u r = s /\ stk_lookup (Some x) (stk s) = Some u)
  \/ (stk_lookup (Some x) (stk s) <> Some u /\
      add_result_attr s (Some AXmlns, x) u r =
      upd s (add_decl (Some x) u (stk s)) (add_attribute (pattrs s) (mkAttr (Some AXmlns, x) u r))).
Proof.
  intros s x u r Hx.
  assert (Hn : ns_for_prefix (stk s) (Some x) = stk_lookup (Some x) (stk s)).
  { apply nfp_raw; intro E; inversion E; subst; discriminate. }
  unfold add_result_attr. destruct x; simpl in Hx; try discriminate; rewrite Hn;
    (destruct (stk_lookup (Some _) (stk s)) as [w|] eqn:E;
     [ destruct (N.eqb w u) eqn:Ew;
       [ apply N.eqb_eq in Ew; subst; left; split; reflexivity
       | right; split; [intro X; inversion X; subst; rewrite N.eqb_refl in Ew; discriminate | reflexivity] ]
     | right; split; [discriminate | reflexivity] ]).
Qed.

Lemma declare_default_spec : forall s u, stk s <> [] ->
  mresolve (stk (declare_default s u)) None = Some u
  /\ (declare_default s u = s
      \/ declare_default s u =
         upd s (add_decl None u (stk s)) (add_attribute (pattrs s) (mkAttr (None, AXmlns) u no_req))).
Proof.
  intros s u Hk. unfold declare_default, add_result_attr.
  rewrite (nfp_raw (stk s) None) by discriminate.
  assert (K : mresolve (add_decl None u (stk s)) None = Some u).
  { unfold mresolve. rewrite stk_lookup_add by assumption. reflexivity. }
  destruct (N.eqb u 0) eqn:Eu; cbn [negb].
  - apply N.eqb_eq in Eu. subst u.
    destruct (stk_lookup None (stk s)) as [c|] eqn:E.
    + destruct (N.eqb c 0) eqn:Ec; cbn [negb].
      * apply N.eqb_eq in Ec. subst c. split; [|left; reflexivity].
        unfold mresolve. rewrite E. reflexivity.
      * split; [exact K | right; reflexivity].
    + split; [|left; reflexivity]. unfold mresolve. rewrite E. reflexivity.
  - destruct (stk_lookup None (stk s)) as [c|] eqn:E.
    + destruct (N.eqb c u) eqn:Ec.
      * apply N.eqb_eq in Ec. subst c. split; [|left; reflexivity].
        unfold mresolve. rewrite E. reflexivity.
      * split; [exact K | right; reflexivity].
    + split; [exact K | right; reflexivity].
Qed.

Lemma InvCore_update : forall s pe k' l',
  InvCore s -> pend s = Some pe -> (exists top', k' = top' :: tl (stk s)) -> Pcore k' l' ->
  InvCoreF k' (Some pe) l' (out s).
Proof.
  intros s pe k' l' [sc [Hc H]] Hp [top' Ek] HP. rewrite Hp in H.
  destruct H as [top [rest [Es [HF _]]]]. exists sc. split; [exact Hc|].
  exists top', rest. rewrite Es in Ek. simpl in Ek. auto.
Qed.

Lemma InvCore_pending_stk : forall s pe, InvCore s -> pend s = Some pe ->
  exists top rest, stk s = top :: rest /\ Pcore (stk s) (pattrs s).
Proof.
  intros s pe [sc [_ H]] Hp. rewrite Hp in H. destruct H as [top [rest [Es [_ HP]]]]. eauto.
Qed.

Lemma forallb_impl : forall {A} (f g : A -> bool) l,
  (forall x, In x l -> f x = true -> g x = true) -> forallb f l = true -> forallb g l = true.
Proof.
  induction l as [|a r IH]; simpl; intros H Hf; [reflexivity|].
  apply andb_true_iff in Hf. destruct Hf as [H1 H2].
  rewrite (H a) by auto. apply IH; auto.
Qed.

Lemma L_default : forall s pe u, InvCore s -> pend s = Some pe ->
  let s' := declare_default s u in
  InvCore s' /\ pend s' = Some pe /\ hz s' = hz s /\ ctr s' = ctr s
  /\ mresolve (stk s') None = Some u
  /\ (forall y, y <> None -> stk_lookup y (stk s') = stk_lookup y (stk s))
  /\ (exists top', stk s' = top' :: tl (stk s)).
Proof.
  intros s pe u HI Hp. cbv zeta.
  destruct (InvCore_pending_stk s pe HI Hp) as [top [rest [Es HP]]].
  assert (Hk : stk s <> []) by (rewrite Es; discriminate).
  destruct (declare_default_spec s u Hk) as [Hm [E|E]]; rewrite E in *.
  - repeat split; auto. exists top. rewrite Es. reflexivity.
  - unfold upd. cbn [stk pend pattrs out hz ctr]. repeat split; auto.
    + unfold InvCore. cbn [stk pend pattrs out]. rewrite Hp.
      apply InvCore_update; auto.
      * exists ((None, u) :: top). rewrite Es. reflexivity.
      * apply (Pcore_decl (stk s) (pattrs s) None u no_req HP); [reflexivity|].
        destruct HP as [_ [Hok _]]. rewrite <- Hok. apply forallb_ext'. intros b _.
        apply attr_okb_frame_default.
    + intros y Hy. apply add_decl_lookup_other. destruct y; [reflexivity | congruence].
    + exists ((None, u) :: top). rewrite Es. reflexivity.
Qed.

Lemma L_prefix : forall s pe x u, InvCore s -> pend s = Some pe -> plain_atom x = true -> u <> 0 ->
  (stk_lookup (Some x) (stk s) = None \/ stk_lookup (Some x) (stk s) = Some u
   \/ existsb (attr_uses_prefix x) (pattrs s) = false) ->
  let s' := declare_prefix s x u in
  InvCore s' /\ pend s' = Some pe /\ hz s' = hz s /\ ctr s' = ctr s
  /\ stk_lookup (Some x) (stk s') = Some u
  /\ (forall y, pfx_eqb y (Some x) = false -> stk_lookup y (stk s') = stk_lookup y (stk s))
  /\ (exists top', stk s' = top' :: tl (stk s)).
Proof.
  intros s pe x u HI Hp Hx Hu Hc. cbv zeta. unfold declare_prefix.
  destruct (InvCore_pending_stk s pe HI Hp) as [top [rest [Es HP]]].
  assert (Hk : stk s <> []) by (rewrite Es; discriminate).
  destruct (ara_prefix_cases s x u no_req Hx) as [[E Hl]|[Hl E]]; rewrite E.
  - repeat split; auto. exists top. rewrite Es. reflexivity.
  - unfold upd. cbn [stk pend pattrs out hz ctr]. repeat split; auto.
    + unfold InvCore. cbn [stk pend pattrs out]. rewrite Hp.
      apply InvCore_update; auto.
      * exists ((Some x, u) :: top). rewrite Es. reflexivity.
      * apply (Pcore_decl (stk s) (pattrs s) (Some x) u no_req HP).
        -- simpl. destruct x; simpl in Hx; try discriminate; apply negb_true_iff, N.eqb_neq; exact Hu.
        -- destruct HP as [_ [Hok _]]. revert Hok. apply forallb_impl. intros b Hb Hbo.
           apply attr_okb_frame; [exact Hbo|].
           destruct Hc as [Hc|[Hc|Hc]]; [left; exact Hc | contradiction |].
           right. destruct (attr_uses_prefix x b) eqn:Q; [|reflexivity].
           assert (existsb (attr_uses_prefix x) (pattrs s) = true)
             by (apply existsb_exists; exists b; auto).
           congruence.
    + rewrite stk_lookup_add by assumption. rewrite pfx_eqb_refl. reflexivity.
    + intros y Hy. apply add_decl_lookup_other. exact Hy.
    + exists ((Some x, u) :: top). rewrite Es. reflexivity.
Qed.

Lemma emit_attr_plain_eq : forall s n v r, decl_prefix n = None ->
  emit_attr s n v r =
  (if clashb (pattrs s) (mkAttr n v r) && negb k17_fixed
   then upd (add_hz s HK17) (stk s) (add_attr_x (stk s) (pattrs s) (mkAttr n v r))
   else upd s (stk s) (add_attr_x (stk s) (pattrs s) (mkAttr n v r))).
Proof.
  intros s n v r Hn. unfold emit_attr. rewrite Hn. unfold add_hz_if at 1.
  rewrite add_result_attr_plain by assumption.
  change (existsb _ (pattrs s)) with (clashb (pattrs s) (mkAttr n v r)).
  destruct (clashb (pattrs s) (mkAttr n v r) && negb k17_fixed); reflexivity.
Qed.

Lemma L_emit : forall s pe n v r, InvCore s -> pend s = Some pe -> decl_prefix n = None ->
  attr_okb (stk s) (mkAttr n v r) = true -> hz (emit_attr s n v r) = [] ->
  let s' := emit_attr s n v r in
  InvCore s' /\ pend s' = Some pe /\ stk s' = stk s /\ hz s = [] /\ ctr s' = ctr s.
Proof.
  intros s pe n v r HI Hp Hn Hok Hh. cbv zeta.
  rewrite emit_attr_plain_eq in * by assumption.
  destruct (clashb (pattrs s) (mkAttr n v r) && negb k17_fixed) eqn:Hc; [discriminate|].
  unfold upd in *. cbn [stk pend pattrs out hz ctr] in *. repeat split; auto.
  destruct (InvCore_pending_stk s pe HI Hp) as [top [rest [Es HP]]].
  unfold InvCore. cbn [stk pend pattrs out]. rewrite Hp. apply InvCore_update; auto.
  - exists top. rewrite Es. reflexivity.
  - apply Pcore_addx; auto.
    + unfold is_declb. cbn [a_name]. rewrite Hn. reflexivity.
    + intro F. rewrite F in Hc. cbn [negb] in Hc. rewrite andb_true_r in Hc. exact Hc.
Qed.

Lemma L_gen : forall s g s1, gen_unique s = (g, s1) ->
  (InvCore s -> InvCore s1) /\ stk s1 = stk s /\ pend s1 = pend s /\ pattrs s1 = pattrs s
  /\ hz s1 = hz s /\ plain_atom g = true /\ stk_lookup (Some g) (stk s) = None.
Proof.
  intros s g s1 G. apply gen_unique_spec in G.
  destruct G as (Hf & Hs & Hp & Ha & Ho & Hh & n & -> & _ & _).
  repeat split; auto.
  - unfold InvCore. rewrite Hs, Hp, Ha, Ho. auto.
  - rewrite Hs in Hf. rewrite nfp_raw in Hf by discriminate. exact Hf.
Qed.

(* ---------------------------------------------------------------------------------------- *)
(* the pending element's own name *)

Lemma mresolve_ext : forall k k' p, stk_lookup p k' = stk_lookup p k -> mresolve k' p = mresolve k p.
Proof. intros k k' p H. unfold mresolve. destruct p as [[]|]; rewrite ?H; reflexivity. Qed.

Lemma Pelem_ext : forall k k' q req, stk_lookup (fst q) k' = stk_lookup (fst q) k ->
  Pelem k q req -> Pelem k' q req.
Proof. intros k k' q req H. unfold Pelem, mresolve_elem. rewrite (mresolve_ext k k' _ H). auto. Qed.

Lemma Pelem_plain_bound : forall k x l req, plain_atom x = true -> Pelem k (Some x, l) req ->
  stk_lookup (Some x) k <> None.
Proof.
  intros k x l req Hx H E. unfold Pelem, mresolve_elem, mresolve in H. simpl in H. rewrite E in H.
  destruct x; simpl in Hx, H; discriminate.
Qed.

Lemma emit_hz_nil : forall s n v r, hz (emit_attr s n v r) = [] -> decl_prefix n = None /\ hz s = [].
Proof.
  intros s n v r H. unfold emit_attr in H. rewrite add_result_attr_hz in H.
  destruct (decl_prefix n); unfold add_hz_if, add_hz in H; cbn [hz] in H.
  - discriminate.
  - split; [reflexivity|]. destruct (existsb _ (pattrs s) && negb k17_fixed); cbn [hz] in H; [discriminate | exact H].
Qed.

Lemma H_emit_only : forall s q req n v r, Inv s -> pend s = Some (q, req) ->
  attr_okb (stk s) (mkAttr n v r) = true -> hz (emit_attr s n v r) = [] -> Inv (emit_attr s n v r).
Proof.
  intros s q req n v r [HI He] Hp Hok Hh.
  destruct (emit_hz_nil _ _ _ _ Hh) as [Hn _].
  destruct (L_emit s (q, req) n v r HI Hp Hn Hok Hh) as (HI' & Hp' & Hk' & _).
  split; [exact HI'|]. unfold PelemS in *. rewrite Hp'. rewrite Hp in He. rewrite Hk'. exact He.
Qed.

Lemma not_pending_prefix : forall s q req x, pend s = Some (q, req) -> is_pending_prefix s x = false ->
  fst q <> Some x /\ existsb (attr_uses_prefix x) (pattrs s) = false.
Proof.
  intros s [qp ql] req x Hp H. unfold is_pending_prefix in H. rewrite Hp in H.
  apply orb_false_iff in H. destruct H as [H1 H2]. split; [|exact H2].
  simpl. destruct qp as [y|]; [|discriminate]. intro E. inversion E; subst.
  rewrite atom_eqb_refl in H1. discriminate.
Qed.

Lemma attr_okb_prefixed : forall k x L v u, plain_atom x = true -> u <> 0 ->
  stk_lookup (Some x) k = Some u -> attr_okb k (mkAttr (Some x, L) v (u, L)) = true.
Proof.
  intros k x L v u Hx Hu Hl. unfold attr_okb. cbn [a_name a_req].
  rewrite decl_prefix_prefixed by (apply plain_not_xmlns; exact Hx).
  unfold mresolve_attr, mresolve. cbn [fst snd]. rewrite Hl.
  apply N.eqb_neq in Hu. destruct x; simpl in Hx; try discriminate; rewrite Hu; apply ename_eqb_refl.
Qed.

Lemma H_declare_emit : forall s q req x u L v, Inv s -> pend s = Some (q, req) ->
  plain_atom x = true -> u <> 0 ->
  (stk_lookup (Some x) (stk s) = None \/ stk_lookup (Some x) (stk s) = Some u
   \/ is_pending_prefix s x = false) ->
  hz (emit_attr (declare_prefix s x u) (Some x, L) v (u, L)) = [] ->
  Inv (emit_attr (declare_prefix s x u) (Some x, L) v (u, L)).
Proof.
  intros s q req x u L v [HI He] Hp Hx Hu Hc Hh.
  assert (Hc' : stk_lookup (Some x) (stk s) = None \/ stk_lookup (Some x) (stk s) = Some u
                \/ existsb (attr_uses_prefix x) (pattrs s) = false).
  { destruct Hc as [H|[H|H]]; auto. right. right. apply (not_pending_prefix s q req x Hp H). }
  destruct (L_prefix s (q, req) x u HI Hp Hx Hu Hc') as (HI1 & Hp1 & Hh1 & _ & Hl1 & Hfr & _).
  apply (H_emit_only _ q req); auto.
  - split; [exact HI1|]. unfold PelemS in *. rewrite Hp1. rewrite Hp in He.
    apply (Pelem_ext (stk s)); [|exact He].
    destruct (pfx_eqb (fst q) (Some x)) eqn:Q; [|apply Hfr; exact Q].
    apply pfx_eqb_eq in Q. rewrite Q, Hl1. destruct q as [qp ql]. simpl in Q. subst qp.
    destruct Hc as [H|[H|H]].
    + exfalso. exact (Pelem_plain_bound _ _ _ _ Hx He H).
    + symmetry. exact H.
    + exfalso. destruct (not_pending_prefix s _ req x Hp H) as [Hne _]. apply Hne. reflexivity.
  - apply attr_okb_prefixed; assumption.
Qed.

Lemma H_gen_declare_emit : forall s q req u L v, Inv s -> pend s = Some (q, req) -> u <> 0 ->
  hz (let (g, s1) := gen_unique s in emit_attr (declare_prefix s1 g u) (Some g, L) v (u, L)) = [] ->
  Inv (let (g, s1) := gen_unique s in emit_attr (declare_prefix s1 g u) (Some g, L) v (u, L)).
Proof.
  intros s q req u L v [HI He] Hp Hu. destruct (gen_unique s) as [g s1] eqn:G.
  destruct (L_gen s g s1 G) as (HI1 & Hk1 & Hp1 & _ & _ & Hg & Hfresh). intro Hh.
  apply (H_declare_emit s1 q req); auto.
  - split; [auto|]. unfold PelemS in *. rewrite Hp1, Hk1. exact He.
  - congruence.
  - left. rewrite Hk1. exact Hfresh.
Qed.

(* ---------------------------------------------------------------------------------------- *)
(* xsl:attribute *)

Lemma new_decl_Inv : forall nr s q req P L u v, Inv s -> pend s = Some (q, req) -> u <> 0 ->
  hz (attr_new_decl nr s P L u v (u, L)) = [] -> Inv (attr_new_decl nr s P L u v (u, L)).
Proof.
  intros nr s q req P L u v HI Hp Hu. unfold attr_new_decl.
  destruct P as [a|]; [|apply (H_gen_declare_emit s q req); assumption].
  destruct a.
  - (* xmlns *) apply (H_gen_declare_emit s q req); assumption.
  - (* xml *)
    cbn [atom_eqb andb]. destruct (N.eqb u uXML) eqn:Eu; cbn [negb].
    + apply N.eqb_eq in Eu. subst u. cbn [ns_for_prefix]. rewrite N.eqb_refl. cbn [negb andb]. cbv zeta.
      change (declare_prefix s AXml uXML) with s. intro Hh.
      apply (H_emit_only s q req); auto.
      unfold attr_okb. cbn. apply atom_eqb_refl.
    + apply (H_gen_declare_emit s q req); assumption.
  - (* plain prefixes *)
    cbn [atom_eqb andb]. rewrite (nfp_raw (stk s) (Some (AXmlish n))) by discriminate.
    destruct (stk_lookup (Some (AXmlish n)) (stk s)) as [w|] eqn:E.
    + destruct (N.eqb w u) eqn:Ew; cbn [negb andb].
      * apply N.eqb_eq in Ew. subst w. cbv zeta. apply (H_declare_emit s q req); auto.
      * destruct (nr || is_pending_prefix s (AXmlish n)) eqn:Ei.
        -- apply (H_gen_declare_emit s q req); assumption.
        -- apply orb_false_iff in Ei. destruct Ei as [_ Ei]. cbv zeta. apply (H_declare_emit s q req); auto.
    + cbv zeta. apply (H_declare_emit s q req); auto.
  - cbn [atom_eqb andb]. rewrite (nfp_raw (stk s) (Some (AUser n))) by discriminate.
    destruct (stk_lookup (Some (AUser n)) (stk s)) as [w|] eqn:E.
    + destruct (N.eqb w u) eqn:Ew; cbn [negb andb].
      * apply N.eqb_eq in Ew. subst w. cbv zeta. apply (H_declare_emit s q req); auto.
      * destruct (nr || is_pending_prefix s (AUser n)) eqn:Ei.
        -- apply (H_gen_declare_emit s q req); assumption.
        -- apply orb_false_iff in Ei. destruct Ei as [_ Ei]. cbv zeta. apply (H_declare_emit s q req); auto.
    + cbv zeta. apply (H_declare_emit s q req); auto.
  - cbn [atom_eqb andb]. rewrite (nfp_raw (stk s) (Some (AGen n))) by discriminate.
    destruct (stk_lookup (Some (AGen n)) (stk s)) as [w|] eqn:E.
    + destruct (N.eqb w u) eqn:Ew; cbn [negb andb].
      * apply N.eqb_eq in Ew. subst w. cbv zeta. apply (H_declare_emit s q req); auto.
      * destruct (nr || is_pending_prefix s (AGen n)) eqn:Ei.
        -- apply (H_gen_declare_emit s q req); assumption.
        -- apply orb_false_iff in Ei. destruct Ei as [_ Ei]. cbv zeta. apply (H_declare_emit s q req); auto.
    + cbv zeta. apply (H_declare_emit s q req); auto.
Qed.

Lemma Inv_gen : forall s g s1, gen_unique s = (g, s1) -> Inv s -> Inv s1.
Proof.
  intros s g s1 G [HI He]. destruct (L_gen s g s1 G) as (HI1 & Hk1 & Hp1 & _).
  split; [auto|]. unfold PelemS in *. rewrite Hp1, Hk1. exact He.
Qed.

Lemma plain_ne : forall x, plain_atom x = true -> Some x <> Some AXml /\ Some x <> Some AXmlns.
Proof. intros x H. split; intro E; inversion E; subst; discriminate. Qed.

(* xsl:attribute without namespace=, prefix p that is neither xml nor xmlns, declared in the stylesheet *)
Lemma attr_nons_plain_Inv : forall s q req p L n v, plain_atom p = true -> Inv s -> pend s = Some (q, req) ->
  let conflict := match ns_for_prefix (stk s) (Some p) with Some w => negb (N.eqb n w) | None => false end in
  let body :=
    (let (p', s1) := if conflict then gen_unique s else (p, s) in
     if N.eqb n 0 then s1
     else
       let bound := match ns_for_prefix (stk s1) (Some p') with Some w => N.eqb w n | None => false end in
       if bound then emit_attr s1 (Some p', L) v (n, L)
       else emit_attr (declare_prefix s1 p' n) (Some p', L) v (n, L)) in
  hz body = [] -> Inv body.
Proof.
  intros s q req p L n v Hx HI Hp. cbv zeta.
  destruct (plain_ne p Hx) as [N1 N2]. rewrite (nfp_raw (stk s) (Some p) N1 N2).
  assert (NOCONF : forall s0, s0 = s ->
            stk_lookup (Some p) (stk s) = None \/ stk_lookup (Some p) (stk s) = Some n ->
            hz (if N.eqb n 0 then s0
                else if match ns_for_prefix (stk s0) (Some p) with Some w => N.eqb w n | None => false end
                     then emit_attr s0 (Some p, L) v (n, L)
                     else emit_attr (declare_prefix s0 p n) (Some p, L) v (n, L)) = [] ->
            Inv (if N.eqb n 0 then s0
                 else if match ns_for_prefix (stk s0) (Some p) with Some w => N.eqb w n | None => false end
                      then emit_attr s0 (Some p, L) v (n, L)
                      else emit_attr (declare_prefix s0 p n) (Some p, L) v (n, L))).
  { intros s0 -> Hl. destruct (N.eqb n 0) eqn:En; [intros _; exact HI|].
    assert (Hn : n <> 0) by (apply N.eqb_neq; exact En).
    rewrite (nfp_raw (stk s) (Some p) N1 N2).
    destruct Hl as [Hl|Hl]; rewrite Hl.
    - apply (H_declare_emit s q req); auto.
    - rewrite N.eqb_refl. intro Hh. apply (H_emit_only s q req); auto.
      apply attr_okb_prefixed; assumption. }
  destruct (stk_lookup (Some p) (stk s)) as [w|] eqn:E.
  - destruct (N.eqb n w) eqn:Enw; cbn [negb].
    + apply N.eqb_eq in Enw. subst w. apply NOCONF; auto.
    + destruct (gen_unique s) as [g s1] eqn:G.
      pose proof (Inv_gen s g s1 G HI) as HI1.
      destruct (L_gen s g s1 G) as (_ & Hk1 & Hp1 & _ & _ & Hg & Hfresh).
      destruct (N.eqb n 0) eqn:En; [intros _; exact HI1|].
      assert (Hn : n <> 0) by (apply N.eqb_neq; exact En).
      destruct (plain_ne g Hg) as [G1 G2]. rewrite (nfp_raw (stk s1) (Some g) G1 G2), Hk1, Hfresh.
      apply (H_declare_emit s1 q req); auto; [congruence | left; rewrite Hk1; exact Hfresh].
  - apply NOCONF; auto.
Qed.

Lemma attr_Inv : forall inset s name nsattr sns v, Inv s ->
  hz (exec_attr inset s name nsattr sns v) = [] -> Inv (exec_attr inset s name nsattr sns v).
Proof.
  intros inset s [P L] nsattr sns v HI. unfold exec_attr. cbv beta zeta iota delta [fst snd].
  destruct nsattr as [u|].
  - change (req_attr (P, L) (Some u) sns) with (u, L).
    destruct (pend s) as [[q req]|] eqn:Hp; [|intros _; exact HI].
    destruct (N.eqb u 0) eqn:Eu.
    + apply N.eqb_eq in Eu. subst u. intro Hh. apply (H_emit_only s q req); auto.
      destruct (emit_hz_nil _ _ _ _ Hh) as [Hn _].
      unfold attr_okb. cbn [a_name a_req]. rewrite Hn. cbn. rewrite atom_eqb_refl. reflexivity.
    + assert (Hu : u <> 0) by (apply N.eqb_neq; exact Eu).
      destruct (prefix_for_ns (stk s) u) as [[q'|]|] eqn:Ef;
        try (apply (new_decl_Inv _ s q req); assumption).
      destruct (match P with None => true | Some p => atom_eqb p q' end);
        [|apply (new_decl_Inv _ s q req); assumption].
      intro Hh. apply (H_emit_only s q req); auto.
      destruct (emit_hz_nil _ _ _ _ Hh) as [Hn _].
      apply prefix_for_ns_sound in Ef.
      unfold attr_okb. cbn [a_name a_req]. rewrite Hn. unfold mresolve_attr, mresolve. cbn [fst snd].
      destruct q'; try (simpl in Hn; discriminate).
      * simpl in Ef. inversion Ef. apply ename_eqb_refl.
      * rewrite nfp_raw in Ef by discriminate. rewrite Ef, Eu. apply ename_eqb_refl.
      * rewrite nfp_raw in Ef by discriminate. rewrite Ef, Eu. apply ename_eqb_refl.
      * rewrite nfp_raw in Ef by discriminate. rewrite Ef, Eu. apply ename_eqb_refl.
  - destruct (pend s) as [[q req]|] eqn:Hp; [|intros _; exact HI].
    destruct (qname_eqb (P, L) (None, AXmlns)); [intros _; exact HI|].
    destruct P as [a|].
    + destruct a.
      * intro Hh. destruct (emit_hz_nil _ _ _ _ Hh) as [Hn _]. simpl in Hn. discriminate.
      * intro Hh. apply (H_emit_only s q req); auto.
        unfold attr_okb. cbn. rewrite atom_eqb_refl. reflexivity.
      * destruct sns as [m|]; [|intros _; exact HI].
        change (req_attr (Some (AXmlish n), L) None (Some m)) with (m, L).
        apply (attr_nons_plain_Inv s q req (AXmlish n) L m v); auto.
      * destruct sns as [m|]; [|intros _; exact HI].
        change (req_attr (Some (AUser n), L) None (Some m)) with (m, L).
        apply (attr_nons_plain_Inv s q req (AUser n) L m v); auto.
      * destruct sns as [m|]; [|intros _; exact HI].
        change (req_attr (Some (AGen n), L) None (Some m)) with (m, L).
        apply (attr_nons_plain_Inv s q req (AGen n) L m v); auto.
    + intro Hh. apply (H_emit_only s q req); auto.
      destruct (emit_hz_nil _ _ _ _ Hh) as [Hn _].
      unfold attr_okb. cbn [a_name a_req]. rewrite Hn. cbn. rewrite atom_eqb_refl. reflexivity.
Qed.

(* ---------------------------------------------------------------------------------------- *)
(* xsl:element *)

Lemma hz_flush : forall s, hz (flush s) = hz s.
Proof. intro s. unfold flush. destruct (pend s) as [[q r]|]; reflexivity. Qed.

Lemma hz_start : forall s q r, hz (start_elem s q r) = hz s.
Proof. intros. unfold start_elem. cbv zeta. cbn [hz]. apply hz_flush. Qed.

Lemma Pelem_default : forall k L R, mresolve k None = Some R -> Pelem k (None, L) (R, L).
Proof.
  intros k L R H. unfold Pelem, mresolve_elem. cbn [fst snd]. rewrite H. apply ename_eqb_refl.
Qed.

Lemma Inv_of : forall s q req, InvCore s -> pend s = Some (q, req) -> Pelem (stk s) q req -> Inv s.
Proof. intros s q req HI Hp He. split; [exact HI|]. unfold PelemS. rewrite Hp. exact He. Qed.

Lemma mresolve_default_lookup : forall k u, stk_lookup None k = Some u -> mresolve k None = Some u.
Proof. intros k u H. unfold mresolve. rewrite H. reflexivity. Qed.

Lemma unprefixed_Inv : forall s L nsattr sdef pdef, Inv s ->
  let R := match nsattr with Some u => u | None => match sdef with Some d => d | None => 0 end end in
  Inv (elem_unprefixed s (None, L) (R, L) nsattr sdef pdef)
  /\ hz (elem_unprefixed s (None, L) (R, L) nsattr sdef pdef) = hz s.
Proof.
  intros s L nsattr sdef pdef HI. cbv zeta. unfold elem_unprefixed. cbv zeta.
  set (R := match nsattr with Some u => u | None => match sdef with Some d => d | None => 0 end end).
  destruct (start_elem_InvCore s (None, L) (R, L) HI) as (HI1 & Hk1 & Hp1 & Ha1 & Hh1 & _).
  set (s1 := start_elem s (None, L) (R, L)) in *.
  assert (DD : forall u, u = R -> Inv (declare_default s1 u) /\ hz (declare_default s1 u) = hz s).
  { intros u ->. destruct (L_default s1 _ R HI1 Hp1) as (HI2 & Hp2 & Hh2 & _ & Hm & _).
    split; [|congruence]. apply (Inv_of _ (None, L) (R, L)); auto. apply Pelem_default. exact Hm. }
  assert (SS : mresolve (stk s1) None = Some R -> Inv s1 /\ hz s1 = hz s).
  { intro Hm. split; [|exact Hh1]. apply (Inv_of _ (None, L) (R, L)); auto. apply Pelem_default. exact Hm. }
  rewrite (nfp_raw (stk s1) None) by discriminate.
  destruct nsattr as [u|].
  - destruct (N.eqb u 0) eqn:Eu; cbn [negb].
    + apply N.eqb_eq in Eu. subst u.
      destruct (negb (N.eqb pdef 0) || match stk_lookup None (stk s1) with Some _ => true | None => false end) eqn:C.
      * apply DD. reflexivity.
      * apply SS. apply orb_false_iff in C. destruct C as [_ C].
        unfold mresolve. destruct (stk_lookup None (stk s1)); [discriminate | reflexivity].
    + destruct (stk_lookup None (stk s1)) as [c|] eqn:E.
      * destruct (N.eqb c u) eqn:Ec.
        -- apply N.eqb_eq in Ec. subst c. apply SS. apply mresolve_default_lookup. exact E.
        -- apply DD. reflexivity.
      * apply DD. reflexivity.
  - destruct (stk_lookup None (stk s1)) as [c|] eqn:E; destruct sdef as [d|].
    + destruct (N.eqb c d) eqn:Ec.
      * apply N.eqb_eq in Ec. subst c. apply SS. apply mresolve_default_lookup. exact E.
      * apply DD. reflexivity.
    + apply DD. reflexivity.
    + apply DD. reflexivity.
    + apply SS. unfold mresolve. rewrite E. reflexivity.
Qed.

Lemma prefixed_plain_Inv : forall s p L ens, Inv s -> plain_atom p = true -> ens <> 0 ->
  let s1 := start_elem s (Some p, L) (ens, L) in
  let r := match ns_for_prefix (stk s1) (Some p) with
           | Some w => if N.eqb w ens then s1 else declare_prefix s1 p ens
           | None => declare_prefix s1 p ens
           end in
  Inv r /\ hz r = hz s.
Proof.
  intros s p L ens HI Hx He. cbv zeta.
  destruct (start_elem_InvCore s (Some p, L) (ens, L) HI) as (HI1 & Hk1 & Hp1 & Ha1 & Hh1 & _).
  set (s1 := start_elem s (Some p, L) (ens, L)) in *.
  destruct (plain_ne p Hx) as [N1 N2]. rewrite (nfp_raw (stk s1) (Some p) N1 N2).
  assert (PE : forall k, stk_lookup (Some p) k = Some ens -> Pelem k (Some p, L) (ens, L)).
  { intros k Hl. unfold Pelem, mresolve_elem, mresolve. cbn [fst snd]. rewrite Hl.
    apply N.eqb_neq in He. destruct p; simpl in Hx; try discriminate; rewrite He; apply ename_eqb_refl. }
  assert (DD : Inv (declare_prefix s1 p ens) /\ hz (declare_prefix s1 p ens) = hz s).
  { destruct (L_prefix s1 _ p ens HI1 Hp1 Hx He) as (HI2 & Hp2 & Hh2 & _ & Hl & _).
    - right. right. rewrite Ha1. reflexivity.
    - split; [|congruence]. apply (Inv_of _ (Some p, L) (ens, L)); auto. }
  destruct (stk_lookup (Some p) (stk s1)) as [w|] eqn:E; [|exact DD].
  destruct (N.eqb w ens) eqn:Ew; [|exact DD].
  apply N.eqb_eq in Ew. subst w. split; [|exact Hh1]. apply (Inv_of _ (Some p, L) (ens, L)); auto.
Qed.

Lemma prefixed_xml_Inv : forall s L ens, Inv s ->
  let s1 := start_elem s (Some AXml, L) (uXML, L) in
  let r := match ns_for_prefix (stk s1) (Some AXml) with
           | Some w => if N.eqb w ens then s1 else declare_prefix s1 AXml ens
           | None => declare_prefix s1 AXml ens
           end in
  Inv r /\ hz r = hz s.
Proof.
  intros s L ens HI. cbv zeta.
  destruct (start_elem_InvCore s (Some AXml, L) (uXML, L) HI) as (HI1 & Hk1 & Hp1 & Ha1 & Hh1 & _).
  set (s1 := start_elem s (Some AXml, L) (uXML, L)) in *.
  change (declare_prefix s1 AXml ens) with s1.
  assert (X : Inv s1 /\ hz s1 = hz s).
  { split; [|exact Hh1]. apply (Inv_of _ (Some AXml, L) (uXML, L)); auto.
    unfold Pelem, mresolve_elem. cbn. apply atom_eqb_refl. }
  destruct (ns_for_prefix (stk s1) (Some AXml)) as [w|]; [destruct (N.eqb w ens)|]; exact X.
Qed.

Definition h2_of (p : atom) (ens : uri) : bool :=
  match p with AXmlns => true | AXml => negb (N.eqb ens uXML) | _ => false end.

Lemma general_Inv : forall s p L ens R h1 hb, Inv s ->
  let s0 := add_hz_if hb HUnsupported (add_hz_if h1 HElemEmptyNs s) in
  let s1 := start_elem s0 (Some p, L) (R, L) in
  let r := match ns_for_prefix (stk s1) (Some p) with
           | Some w => if N.eqb w ens then s1 else declare_prefix s1 p ens
           | None => declare_prefix s1 p ens
           end in
  (hb = false -> h2_of p ens = false /\ N.eqb ens 0 = false) ->
  (h1 = false -> h2_of p ens = false -> N.eqb ens 0 = false ->
   R = match p with AXml => uXML | _ => ens end) ->
  hz r = [] -> Inv r.
Proof.
  intros s p L ens R h1 hb HI. cbv zeta. intros Hb HR Hh.
  assert (Hz : forall s0, hz (match ns_for_prefix (stk (start_elem s0 (Some p, L) (R, L))) (Some p) with
                    | Some w => if N.eqb w ens then start_elem s0 (Some p, L) (R, L)
                                else declare_prefix (start_elem s0 (Some p, L) (R, L)) p ens
                    | None => declare_prefix (start_elem s0 (Some p, L) (R, L)) p ens
                    end) = hz s0).
  { intro s0. set (t := start_elem s0 (Some p, L) (R, L)).
    assert (Ht : hz t = hz s0) by apply hz_start.
    destruct (ns_for_prefix (stk t) (Some p)) as [w'|]; [destruct (N.eqb w' ens)|];
      rewrite ?declare_prefix_hz; exact Ht. }
  rewrite Hz in Hh.
  destruct h1; [unfold add_hz_if in Hh; destruct hb; discriminate|].
  destruct hb; [discriminate|].
  destruct (Hb eq_refl) as [H2 H3].
  specialize (HR eq_refl H2 H3). unfold add_hz_if.
  assert (He : ens <> 0) by (apply N.eqb_neq; exact H3).
  destruct p; simpl in H2; try discriminate; subst R.
  - apply (prefixed_xml_Inv s L ens HI).
  - apply (prefixed_plain_Inv s (AXmlish n) L ens HI); auto.
  - apply (prefixed_plain_Inv s (AUser n) L ens HI); auto.
  - apply (prefixed_plain_Inv s (AGen n) L ens HI); auto.
Qed.

Lemma orb_false_split : forall a b, a || b = false -> a = false /\ b = false.
Proof. intros a b H. apply orb_false_iff. exact H. Qed.

Lemma elem_Inv : forall s name nsattr sns sdef pdef, Inv s ->
  hz (exec_elem s name nsattr sns sdef pdef) = [] -> Inv (exec_elem s name nsattr sns sdef pdef).
Proof.
  intros s [P L] nsattr sns sdef pdef HI. unfold exec_elem. cbv beta zeta iota delta [fst snd].
  destruct P as [p|].
  2:{ intros _. exact (proj1 (unprefixed_Inv s L nsattr sdef pdef HI)). }
  destruct sns as [n|]; destruct nsattr as [u|].
  - (* stylesheet binds p, namespace attribute given *)
    destruct (kn6_fixed && match u with 0 => negb (atom_eqb p AXmlns) | N.pos _ => false end) eqn:K6.
    { (* KN6 repair: namespace="" drops the declared prefix *)
      intros _. exact (proj1 (unprefixed_Inv s L (Some u) sdef pdef HI)). }
    destruct (negb (N.eqb u 0) && (atom_eqb p AXmlns || atom_eqb p AXml && negb (N.eqb u uXML))) eqn:C.
    + intros _. exact (proj1 (unprefixed_Inv s L (Some u) sdef pdef HI)).
    + apply (general_Inv s p L _ u _ _ HI); [apply orb_false_split|]. intros H1 H2 H3.
      destruct u as [|u'].
      * (* namespace="" : hazard KN6 unless the prefix is xmlns, which is unsupported *)
        cbn in H1. apply negb_false_iff in H1. apply atom_eqb_eq in H1. subst p. cbn in H2. discriminate.
      * change (N.pos u' =? 0) with false in *. cbn [andb] in *.
        destruct p; try reflexivity. unfold h2_of in H2. apply negb_false_iff in H2. apply N.eqb_eq in H2. exact H2.
  - (* stylesheet binds p, no namespace attribute *)
    rewrite andb_false_r. cbn [N.eqb negb andb]. apply (general_Inv s p L _ _ false _ HI); [apply orb_false_split|]. intros _ H2 H3.
    cbn [N.eqb andb] in *.
    destruct p; cbn [atom_eqb negb fst] in *; try reflexivity; try discriminate.
  - (* prefix not bound in the stylesheet, namespace attribute given *)
    destruct (N.eq_dec u 0) as [->|Hne].
    + intros _. exact (proj1 (unprefixed_Inv s L (Some 0) sdef pdef HI)).
    + assert (K6 : kn6_fixed && match u with 0 => false | N.pos _ => false end = false)
        by (destruct u; apply andb_false_r).
      rewrite K6.
      assert (Eu : N.eqb u 0 = false) by (apply N.eqb_neq; exact Hne). rewrite Eu. cbn [negb andb].
      destruct (atom_eqb p AXmlns || atom_eqb p AXml && negb (N.eqb u uXML)) eqn:C.
      * intros _. exact (proj1 (unprefixed_Inv s L (Some u) sdef pdef HI)).
      * apply (general_Inv s p L u u _ _ HI).
        -- intro H. apply orb_false_split in H. destruct H as [H _]. split; [exact H | exact Eu].
        -- intros _ H2 H3.
           destruct p; try reflexivity. simpl in H2. apply negb_false_iff in H2. apply N.eqb_eq in H2. exact H2.
  - (* illegal element name *)
    cbn [N.eqb]. unfold add_hz. cbn [hz]. discriminate.
Qed.

(* ---------------------------------------------------------------------------------------- *)
(* literal result elements *)

Definition alldecl (l : list attr) : bool := forallb is_declb l.

Lemma attr_okb_decl_any : forall k k' b, is_declb b = true -> attr_okb k b = attr_okb k' b.
Proof. intros k k' b H. unfold attr_okb, is_declb in *. destruct (decl_prefix (a_name b)); [reflexivity|discriminate]. Qed.

Lemma alldecl_add : forall l a, alldecl l = true -> is_declb a = true -> alldecl (add_attribute l a) = true.
Proof. intros. apply forallb_add; assumption. Qed.

(* declaring a prefix while only declarations are pending *)
Lemma L_prefix_decls : forall s pe x u, InvCore s -> pend s = Some pe -> plain_atom x = true -> u <> 0 ->
  alldecl (pattrs s) = true ->
  let s' := declare_prefix s x u in
  InvCore s' /\ pend s' = Some pe /\ hz s' = hz s /\ alldecl (pattrs s') = true
  /\ stk_lookup (Some x) (stk s') = Some u
  /\ (forall y, pfx_eqb y (Some x) = false -> stk_lookup y (stk s') = stk_lookup y (stk s)).
Proof.
  intros s pe x u HI Hp Hx Hu Had. cbv zeta. unfold declare_prefix.
  destruct (InvCore_pending_stk s pe HI Hp) as [top [rest [Es HP]]].
  assert (Hk : stk s <> []) by (rewrite Es; discriminate).
  destruct (ara_prefix_cases s x u no_req Hx) as [[E Hl]|[Hl E]]; rewrite E.
  - repeat split; auto.
  - unfold upd. cbn [stk pend pattrs out hz ctr]. repeat split; auto.
    + unfold InvCore. cbn [stk pend pattrs out]. rewrite Hp.
      apply InvCore_update; auto.
      * exists ((Some x, u) :: top). rewrite Es. reflexivity.
      * apply (Pcore_decl (stk s) (pattrs s) (Some x) u no_req HP).
        -- simpl. destruct x; simpl in Hx; try discriminate; apply negb_true_iff, N.eqb_neq; exact Hu.
        -- destruct HP as [_ [Hok _]]. rewrite <- Hok. apply forallb_ext'. intros b Hb.
           apply attr_okb_decl_any. unfold alldecl in Had. rewrite forallb_forall in Had. auto.
    + apply alldecl_add; [exact Had | reflexivity].
    + rewrite stk_lookup_add by assumption. rewrite pfx_eqb_refl. reflexivity.
    + intros y Hy. apply add_decl_lookup_other. exact Hy.
Qed.

Lemma L_default_decls : forall s pe u, InvCore s -> pend s = Some pe -> alldecl (pattrs s) = true ->
  alldecl (pattrs (declare_default s u)) = true.
Proof.
  intros s pe u HI Hp Had.
  destruct (InvCore_pending_stk s pe HI Hp) as [top [rest [Es _]]].
  assert (Hk : stk s <> []) by (rewrite Es; discriminate).
  destruct (declare_default_spec s u Hk) as [_ [E|E]]; rewrite E; [exact Had|].
  unfold upd. cbn [pattrs]. apply alldecl_add; [exact Had | reflexivity].
Qed.

(* what a processed declaration guarantees *)
Definition dres (k : list ctx) (d : pfx * uri) : Prop :=
  match fst d with
  | Some a => stk_lookup (Some a) k = Some (snd d)
  | None => mresolve k None = Some (snd d)
  end.

Definition entry_plain (d : pfx * uri) : Prop :=
  match fst d with Some a => plain_atom a = true /\ snd d <> 0 | None => True end.

Lemma output_ns_step : forall s pe d, InvCore s -> pend s = Some pe -> alldecl (pattrs s) = true ->
  entry_plain d ->
  let s' := output_ns s d in
  InvCore s' /\ pend s' = Some pe /\ hz s' = hz s /\ alldecl (pattrs s') = true /\ dres (stk s') d
  /\ (forall y, pfx_eqb y (fst d) = false -> stk_lookup y (stk s') = stk_lookup y (stk s)).
Proof.
  intros s pe [p u] HI Hp Had He. cbv zeta. unfold output_ns. unfold dres, entry_plain in *. cbn [fst snd] in *.
  destruct p as [a|].
  - destruct He as [Ha Hu]. destruct (plain_ne a Ha) as [N1 N2].
    rewrite (nfp_raw (stk s) (Some a) N1 N2).
    fold (declare_prefix s a u).
    destruct (L_prefix_decls s pe a u HI Hp Ha Hu Had) as (H1 & H2 & H3 & H4 & H5 & H6).
    destruct (stk_lookup (Some a) (stk s)) as [w|] eqn:E.
    + destruct (N.eqb w u) eqn:Ew.
      * apply N.eqb_eq in Ew. subst w. repeat split; auto.
      * repeat split; auto.
    + repeat split; auto.
  - rewrite (nfp_raw (stk s) None) by discriminate. fold (declare_default s u).
    destruct (L_default s pe u HI Hp) as (H1 & H2 & H3 & _ & H5 & H6 & _).
    pose proof (L_default_decls s pe u HI Hp Had) as H4.
    assert (FR : forall y, pfx_eqb y None = false ->
                  stk_lookup y (stk (declare_default s u)) = stk_lookup y (stk s)).
    { intros y Hy. apply H6. intro E. subst y. discriminate. }
    destruct (stk_lookup None (stk s)) as [w|] eqn:E.
    + destruct (N.eqb w u) eqn:Ew.
      * apply N.eqb_eq in Ew. subst w. repeat split; auto. apply mresolve_default_lookup. exact E.
      * repeat split; auto.
    + repeat split; auto.
Qed.

Lemma dres_ext : forall k k' d, stk_lookup (fst d) k' = stk_lookup (fst d) k -> dres k d -> dres k' d.
Proof.
  intros k k' [p u] H. unfold dres. cbn [fst snd] in *. destruct p as [a|].
  - rewrite H. auto.
  - rewrite (mresolve_ext k k' None H). auto.
Qed.

Lemma output_ns_fold : forall D s pe, NoDup (map fst D) -> Forall entry_plain D ->
  InvCore s -> pend s = Some pe -> alldecl (pattrs s) = true ->
  let s' := fold_left output_ns D s in
  InvCore s' /\ pend s' = Some pe /\ hz s' = hz s /\ alldecl (pattrs s') = true
  /\ (forall d, In d D -> dres (stk s') d)
  /\ (forall y, ~ In y (map fst D) -> stk_lookup y (stk s') = stk_lookup y (stk s)).
Proof.
  induction D as [|d D IH]; intros s pe Hnd Hen HI Hp Had; cbv zeta; simpl.
  - repeat split; auto. intros d [].
  - simpl in Hnd. apply NoDup_cons_iff in Hnd. destruct Hnd as [Hnin Hnd'].
    pose proof (Forall_inv Hen) as He. pose proof (Forall_inv_tail Hen) as Hen'.
    destruct (output_ns_step s pe d HI Hp Had He) as (H1 & H2 & H3 & H4 & H5 & H6).
    destruct (IH (output_ns s d) pe Hnd' Hen' H1 H2 H4) as (J1 & J2 & J3 & J4 & J5 & J6).
    repeat split; auto.
    + congruence.
    + intros d0 [E|Hin]; [subst d0|auto].
      apply (dres_ext (stk (output_ns s d))); [|exact H5]. apply J6. exact Hnin.
    + intros y Hy. rewrite J6 by (intro X; apply Hy; right; exact X).
      apply H6. destruct (pfx_eqb y (fst d)) eqn:Q; [|reflexivity].
      apply pfx_eqb_eq in Q. exfalso. apply Hy. left. auto.
Qed.

Lemma dedupe_lookup0 : forall p l, ctx_lookup p (dedupe l []) = ctx_lookup p l.
Proof. intros. apply dedupe_lookup. reflexivity. Qed.

Lemma in_lre_decls : forall name inscope excl attrs p u,
  ctx_lookup p inscope = Some u -> special_uri u = false ->
  (pfx_eqb p (fst name) = true \/ attr_prefix_active p attrs = true) ->
  In (p, u) (lre_decls name inscope excl attrs).
Proof.
  intros name inscope excl attrs p u Hl Hs Hc. unfold lre_decls. apply filter_In. split.
  - apply ctx_lookup_in. rewrite dedupe_lookup0. exact Hl.
  - unfold special_uri in Hs. apply orb_false_iff in Hs. destruct Hs as [H1 H2]. rewrite H1, H2. simpl.
    destruct Hc as [Hc|Hc]; rewrite Hc; destruct (negb (mem_uri u excl)); simpl; rewrite ?orb_true_r; reflexivity.
Qed.

Lemma lre_decls_plain : forall name inscope excl attrs,
  forallb inscope_entry_ok inscope = true -> Forall entry_plain (lre_decls name inscope excl attrs).
Proof.
  intros name inscope excl attrs H. apply Forall_forall. intros [p u] Hin.
  apply lre_decls_sound in Hin. destruct Hin as [Hin _].
  rewrite forallb_forall in H. specialize (H _ Hin). unfold inscope_entry_ok, entry_plain in *. cbn [fst snd] in *.
  destruct p as [a|]; [|exact I]. destruct a; try discriminate; (split; [reflexivity|]);
    apply N.eqb_neq; apply negb_true_iff; exact H.
Qed.

Lemma hz_default : forall s u, hz (declare_default s u) = hz s.
Proof. intros. apply add_result_attr_hz. Qed.

Lemma fixup_spec : forall s2 name inscope excl attrs,
  InvCore s2 -> pend s2 = Some (name, req_lre_elem name inscope) ->
  (forall d, In d (lre_decls name inscope excl attrs) -> dres (stk s2) d) ->
  forallb inscope_entry_ok inscope = true -> name_prefix_ok inscope (fst name) true = true ->
  let s3 := lre_fixup s2 name inscope in
  InvCore s3 /\ pend s3 = Some (name, req_lre_elem name inscope) /\ hz s3 = hz s2
  /\ Pelem (stk s3) name (req_lre_elem name inscope)
  /\ (forall a, stk_lookup (Some a) (stk s3) = stk_lookup (Some a) (stk s2))
  /\ (pattrs s3 = pattrs s2 \/ exists u, pattrs s3 = add_attribute (pattrs s2) (mkAttr (None, AXmlns) u no_req)).
Proof.
  intros s2 [P L] inscope excl attrs HI Hp HD W1 W2. cbv zeta. unfold lre_fixup, req_lre_elem in *. cbn [fst snd] in *.
  destruct P as [a|].
  - (* prefixed *)
    repeat split; auto.
    destruct a; simpl in W2; try discriminate.
    + unfold Pelem, mresolve_elem. cbn. apply atom_eqb_refl.
    + destruct (ctx_lookup (Some (AXmlish n)) inscope) as [u|] eqn:E; [|discriminate].
      apply negb_true_iff in W2.
      assert (Hin := in_lre_decls (Some (AXmlish n), L) inscope excl attrs _ _ E W2 (or_introl (pfx_eqb_refl _))).
      pose proof (HD _ Hin) as Hd. unfold dres in Hd. cbn [fst snd] in Hd.
      pose proof (proj1 (Forall_forall _ _) (lre_decls_plain (Some (AXmlish n), L) inscope excl attrs W1) _ Hin) as Hpl.
      unfold entry_plain in Hpl. cbn [fst snd] in Hpl. destruct Hpl as [_ Hu]. apply N.eqb_neq in Hu.
      unfold Pelem, mresolve_elem, mresolve, inscope_ns. cbn [fst snd]. rewrite Hd, Hu, E. apply ename_eqb_refl.
    + destruct (ctx_lookup (Some (AUser n)) inscope) as [u|] eqn:E; [|discriminate].
      apply negb_true_iff in W2.
      assert (Hin := in_lre_decls (Some (AUser n), L) inscope excl attrs _ _ E W2 (or_introl (pfx_eqb_refl _))).
      pose proof (HD _ Hin) as Hd. unfold dres in Hd. cbn [fst snd] in Hd.
      pose proof (proj1 (Forall_forall _ _) (lre_decls_plain (Some (AUser n), L) inscope excl attrs W1) _ Hin) as Hpl.
      unfold entry_plain in Hpl. cbn [fst snd] in Hpl. destruct Hpl as [_ Hu]. apply N.eqb_neq in Hu.
      unfold Pelem, mresolve_elem, mresolve, inscope_ns. cbn [fst snd]. rewrite Hd, Hu, E. apply ename_eqb_refl.
    + destruct (ctx_lookup (Some (AGen n)) inscope) as [u|] eqn:E; [|discriminate].
      apply negb_true_iff in W2.
      assert (Hin := in_lre_decls (Some (AGen n), L) inscope excl attrs _ _ E W2 (or_introl (pfx_eqb_refl _))).
      pose proof (HD _ Hin) as Hd. unfold dres in Hd. cbn [fst snd] in Hd.
      pose proof (proj1 (Forall_forall _ _) (lre_decls_plain (Some (AGen n), L) inscope excl attrs W1) _ Hin) as Hpl.
      unfold entry_plain in Hpl. cbn [fst snd] in Hpl. destruct Hpl as [_ Hu]. apply N.eqb_neq in Hu.
      unfold Pelem, mresolve_elem, mresolve, inscope_ns. cbn [fst snd]. rewrite Hd, Hu, E. apply ename_eqb_refl.
  - (* unprefixed *)
    rewrite (nfp_raw (stk s2) None) by discriminate. rewrite dedupe_lookup0.
    unfold inscope_ns. simpl in W2.
    assert (DD : forall u, (match ctx_lookup None inscope with Some d => d | None => 0 end) = u ->
              InvCore (declare_default s2 u) /\
              pend (declare_default s2 u) = Some ((None, L), (match ctx_lookup None inscope with Some d => d | None => 0 end, L)) /\
              hz (declare_default s2 u) = hz s2 /\
              Pelem (stk (declare_default s2 u)) (None, L) (match ctx_lookup None inscope with Some d => d | None => 0 end, L) /\
              (forall a, stk_lookup (Some a) (stk (declare_default s2 u)) = stk_lookup (Some a) (stk s2)) /\
              (pattrs (declare_default s2 u) = pattrs s2 \/
               exists u0, pattrs (declare_default s2 u) = add_attribute (pattrs s2) (mkAttr (None, AXmlns) u0 no_req))).
    { intros u Eu. destruct (L_default s2 _ u HI Hp) as (H1 & H2 & H3 & _ & H5 & H6 & _).
      repeat split; auto.
      - rewrite Eu. apply Pelem_default. exact H5.
      - intro a. apply H6. discriminate.
      - destruct (InvCore_pending_stk s2 _ HI Hp) as [top [rest [Es _]]].
        assert (Hk : stk s2 <> []) by (rewrite Es; discriminate).
        destruct (declare_default_spec s2 u Hk) as [_ [E|E]]; rewrite E; [left; reflexivity|].
        right. exists u. reflexivity. }
    assert (SS : mresolve (stk s2) None = Some (match ctx_lookup None inscope with Some d => d | None => 0 end) ->
              InvCore s2 /\ pend s2 = Some ((None, L), (match ctx_lookup None inscope with Some d => d | None => 0 end, L)) /\
              hz s2 = hz s2 /\
              Pelem (stk s2) (None, L) (match ctx_lookup None inscope with Some d => d | None => 0 end, L) /\
              (forall a, stk_lookup (Some a) (stk s2) = stk_lookup (Some a) (stk s2)) /\
              (pattrs s2 = pattrs s2 \/ exists u0, pattrs s2 = add_attribute (pattrs s2) (mkAttr (None, AXmlns) u0 no_req))).
    { intro Hm. repeat split; auto. apply Pelem_default. exact Hm. }
    destruct (ctx_lookup None inscope) as [d|] eqn:Ed.
    + (* the stylesheet has a default namespace d: it is among the declarations *)
      apply negb_true_iff in W2.
      assert (Hin := in_lre_decls (None, L) inscope excl attrs None d Ed W2 (or_introl eq_refl)).
      pose proof (HD _ Hin) as Hd. unfold dres in Hd. cbn [fst snd] in Hd.
      destruct (stk_lookup None (stk s2)) as [c|] eqn:E.
      * destruct (N.eqb c d) eqn:Ec.
        -- apply SS. exact Hd.
        -- apply DD. reflexivity.
      * apply SS. exact Hd.
    + destruct (stk_lookup None (stk s2)) as [c|] eqn:E.
      * apply DD. reflexivity.
      * apply SS. unfold mresolve. rewrite E. reflexivity.
Qed.

Lemma alldecl_exb : forall e l, alldecl l = true -> exb e l = false.
Proof.
  intros e l. induction l as [|b r IH]; intro H; [reflexivity|].
  simpl in H. apply andb_true_iff in H. destruct H as [H1 H2].
  rewrite exb_cons, H1. auto.
Qed.

Lemma clash_exb : forall l a, clashb l a = true -> exb (a_req a) l = true.
Proof.
  induction l as [|b r IH]; intros a H; [discriminate|].
  simpl in H. rewrite exb_cons. unfold is_declb.
  destruct (decl_prefix (a_name b)).
  - simpl in H. auto.
  - apply orb_true_iff in H. destruct H as [H|H].
    + apply andb_true_iff in H. destruct H as [H _]. rewrite ename_eqb_sym, H. reflexivity.
    + rewrite (IH a H). apply orb_true_r.
Qed.

Lemma lre_attrs_fold : forall (reqf : qname -> ename) l s pe,
  InvCore s -> pend s = Some pe ->
  (forall a, In a l -> decl_prefix (fst a) = None /\
                       attr_okb (stk s) (mkAttr (fst a) (snd a) (reqf (fst a))) = true) ->
  nodup_by ename_eqb (map (fun a => reqf (fst a)) l) = true ->
  (forall a, In a l -> exb (reqf (fst a)) (pattrs s) = false) ->
  let s' := fold_left (fun s a => add_result_attr s (fst a) (snd a) (reqf (fst a))) l s in
  InvCore s' /\ pend s' = Some pe /\ stk s' = stk s /\ hz s' = hz s.
Proof.
  intros reqf. induction l as [|a r IH]; intros s pe HI Hp Hok Hnd Hex; cbv zeta; simpl.
  - auto.
  - destruct (Hok a (or_introl eq_refl)) as [Hn Hka].
    rewrite (add_result_attr_plain s (fst a) (snd a) (reqf (fst a)) Hn).
    set (na := mkAttr (fst a) (snd a) (reqf (fst a))) in *.
    set (s1 := set_pattrs s (add_attr_x (stk s) (pattrs s) na)).
    simpl in Hnd. apply andb_true_iff in Hnd. destruct Hnd as [Hnd1 Hnd2].
    destruct (InvCore_pending_stk s pe HI Hp) as [top [rest [Es HP]]].
    assert (Hcl : clashb (pattrs s) na = false).
    { destruct (clashb (pattrs s) na) eqn:C; [|reflexivity].
      apply clash_exb in C. cbn [a_req na] in C. rewrite (Hex a (or_introl eq_refl)) in C. discriminate. }
    assert (HI1 : InvCore s1).
    { unfold InvCore, s1, set_pattrs. cbn [stk pend pattrs out]. rewrite Hp.
      apply InvCore_update; auto.
      - exists top. rewrite Es. reflexivity.
      - apply Pcore_addx; auto. unfold is_declb. cbn [a_name na]. rewrite Hn. reflexivity. }
    destruct (IH s1 pe HI1 Hp) as (J1 & J2 & J3 & J4); auto.
    + intros a' Ha'. exact (Hok a' (or_intror Ha')).
    + intros a' Ha'. unfold s1, set_pattrs. cbn [pattrs].
      destruct (exb (reqf (fst a')) (add_attr_x (stk s) (pattrs s) na)) eqn:X; [|reflexivity].
      exfalso. apply exb_addx in X; [|unfold is_declb; cbn [a_name na]; rewrite Hn; reflexivity
                                     |intros n' M; exact (merge_target_plain _ _ _ _ M)].
      destruct X as [X|X].
      * rewrite (Hex a' (or_intror Ha')) in X. discriminate.
      * cbn [a_req na] in X. apply negb_true_iff in Hnd1.
        assert (existsb (ename_eqb (reqf (fst a))) (map (fun a0 => reqf (fst a0)) r) = true).
        { apply existsb_exists. exists (reqf (fst a')). split.
          - apply in_map_iff. exists a'. auto.
          - rewrite ename_eqb_sym. exact X. }
        congruence.
Qed.

Lemma hz_output_ns : forall s d, hz (output_ns s d) = hz s.
Proof.
  intros s [p u]. unfold output_ns. destruct (ns_for_prefix (stk s) p) as [w|]; [destruct (N.eqb w u)|];
    rewrite ?add_result_attr_hz; reflexivity.
Qed.

Lemma hz_output_ns_fold : forall D s, hz (fold_left output_ns D s) = hz s.
Proof. induction D as [|d D IH]; intro s; simpl; [reflexivity|]. rewrite IH. apply hz_output_ns. Qed.

Lemma hz_lre_fixup : forall s name inscope, hz (lre_fixup s name inscope) = hz s.
Proof.
  intros s name inscope. unfold lre_fixup. destruct (fst name); [reflexivity|].
  destruct (ns_for_prefix (stk s) None) as [c|]; [|reflexivity].
  destruct (ctx_lookup None (dedupe inscope [])) as [d|]; [destruct (N.eqb c d)|];
    rewrite ?hz_default; reflexivity.
Qed.

Lemma hz_lre_attrs : forall inscope attrs s, hz (lre_attrs s inscope attrs) = hz s.
Proof.
  intros inscope. unfold lre_attrs. induction attrs as [|a r IH]; intro s; simpl; [reflexivity|].
  rewrite IH. apply add_result_attr_hz.
Qed.

Lemma lre_attr_ok : forall name inscope excl attrs k a,
  forallb inscope_entry_ok inscope = true ->
  (forall d, In d (lre_decls name inscope excl attrs) ->
     match fst d with Some x => stk_lookup (Some x) k = Some (snd d) | None => True end) ->
  In a attrs -> decl_prefix (fst a) = None -> name_prefix_ok inscope (fst (fst a)) false = true ->
  attr_okb k (mkAttr (fst a) (snd a) (req_lre_attr (fst a) inscope)) = true.
Proof.
  intros name inscope excl attrs k [[P L] v] W1 HD Hin Hn Hok. cbn [fst snd] in *.
  unfold attr_okb. cbn [a_name a_req]. rewrite Hn. unfold mresolve_attr, req_lre_attr. cbn [fst snd].
  destruct P as [x|]; [|apply ename_eqb_refl].
  assert (PL : forall x, plain_atom x = true ->
            match ctx_lookup (Some x) inscope with Some u => negb (special_uri u) | None => false end = true ->
            In ((Some x, L), v) attrs ->
            opt_ename_eqb (match mresolve k (Some x) with Some u => Some (u, L) | None => None end)
              (match ctx_lookup (Some x) inscope with Some u => u | None => 0 end, L) = true).
  { intros y Hy H Hi. destruct (ctx_lookup (Some y) inscope) as [u|] eqn:E; [|discriminate].
    apply negb_true_iff in H.
    assert (Hact : attr_prefix_active (Some y) attrs = true).
    { unfold attr_prefix_active. apply existsb_exists. exists ((Some y, L), v). split; [exact Hi|].
      cbn [fst]. apply pfx_eqb_refl. }
    assert (Hd := in_lre_decls name inscope excl attrs (Some y) u E H (or_intror Hact)).
    pose proof (HD _ Hd) as Hl. cbn [fst snd] in Hl.
    pose proof (proj1 (Forall_forall _ _) (lre_decls_plain name inscope excl attrs W1) _ Hd) as Hpl.
    unfold entry_plain in Hpl. cbn [fst snd] in Hpl. destruct Hpl as [_ Hu]. apply N.eqb_neq in Hu.
    unfold mresolve. rewrite Hl. destruct y; simpl in Hy; try discriminate; rewrite Hu; apply ename_eqb_refl. }
  destruct x; simpl in Hok; try discriminate.
  - cbn. apply atom_eqb_refl.
  - unfold inscope_ns. apply PL; auto.
  - unfold inscope_ns. apply PL; auto.
  - unfold inscope_ns. apply PL; auto.
Qed.

Definition hz_ext_pre (s s' : st) : Prop := exists l, hz s' = l ++ hz s.

Lemma hz_lre_open : forall s name inscope excl attrs,
  hz (lre_open s name inscope excl attrs) = hz (add_hz_if (negb (lre_wf name inscope attrs)) HUnsupported s).
Proof. intros. unfold lre_open. cbv zeta. rewrite hz_lre_fixup, hz_output_ns_fold, hz_start. reflexivity. Qed.

(* the state after the start tag, the declarations and the default-namespace check *)
Lemma open_facts : forall s name inscope excl attrs, Inv s ->
  hz (lre_open s name inscope excl attrs) = [] ->
  let s3 := lre_open s name inscope excl attrs in
  let req := req_lre_elem name inscope in
  InvCore s3 /\ pend s3 = Some (name, req) /\ Pelem (stk s3) name req /\ alldecl (pattrs s3) = true
  /\ lre_wf name inscope attrs = true
  /\ (forall d, In d (lre_decls name inscope excl attrs) ->
        match fst d with Some x => stk_lookup (Some x) (stk s3) = Some (snd d) | None => True end).
Proof.
  intros s name inscope excl attrs HI. rewrite hz_lre_open. unfold lre_open. cbv zeta.
  destruct (lre_wf name inscope attrs) eqn:W; cbn [negb]; unfold add_hz_if; [|discriminate].
  intros _. pose proof W as W0.
  unfold lre_wf in W. apply andb_true_iff in W. destruct W as [W W4].
  apply andb_true_iff in W. destruct W as [W W3]. apply andb_true_iff in W. destruct W as [W1 W2].
  set (req := req_lre_elem name inscope).
  destruct (start_elem_InvCore s name req HI) as (HI1 & Hk1 & Hp1 & Ha1 & _).
  set (s1 := start_elem s name req) in *.
  set (D := lre_decls name inscope excl attrs).
  assert (Had1 : alldecl (pattrs s1) = true) by (rewrite Ha1; reflexivity).
  destruct (output_ns_fold D s1 (name, req) (lre_decls_nodup _ _ _ _) (lre_decls_plain _ _ _ _ W1) HI1 Hp1 Had1)
    as (HI2 & Hp2 & _ & Had2 & HD2 & _).
  set (s2 := fold_left output_ns D s1) in *.
  destruct (fixup_spec s2 name inscope excl attrs HI2 Hp2 HD2 W1 W2) as (HI3 & Hp3 & _ & He3 & Hfr3 & Hpa3).
  set (s3 := lre_fixup s2 name inscope) in *.
  repeat split; auto.
  - destruct Hpa3 as [E|[u E]]; rewrite E; [exact Had2|]. apply alldecl_add; [exact Had2 | reflexivity].
  - intros d Hd. pose proof (HD2 d Hd) as X. unfold dres in X. destruct (fst d) as [x|]; [|exact I].
    rewrite Hfr3. exact X.
Qed.

Lemma open_Inv : forall s name inscope excl attrs, Inv s ->
  hz (lre_open s name inscope excl attrs) = [] -> Inv (lre_open s name inscope excl attrs).
Proof.
  intros s name inscope excl attrs HI Hh.
  destruct (open_facts s name inscope excl attrs HI Hh) as (HI3 & Hp3 & He3 & _).
  apply (Inv_of _ name (req_lre_elem name inscope)); auto.
Qed.

Lemma lre_Inv : forall s name inscope excl attrs, Inv s ->
  hz (exec_lre s name inscope excl attrs) = [] -> Inv (exec_lre s name inscope excl attrs).
Proof.
  intros s name inscope excl attrs HI. unfold exec_lre. rewrite hz_lre_attrs. intro Hh.
  destruct (open_facts s name inscope excl attrs HI Hh) as (HI3 & Hp3 & He3 & Had3 & W & HD3).
  set (s3 := lre_open s name inscope excl attrs) in *. set (req := req_lre_elem name inscope) in *.
  unfold lre_wf in W. apply andb_true_iff in W. destruct W as [W W4].
  apply andb_true_iff in W. destruct W as [W W3]. apply andb_true_iff in W. destruct W as [W1 W2].
  destruct (lre_attrs_fold (fun q => req_lre_attr q inscope) attrs s3 (name, req) HI3 Hp3) as (HI4 & Hp4 & Hk4 & _).
  - intros a Hin. rewrite forallb_forall in W3. specialize (W3 a Hin).
    destruct (decl_prefix (fst a)) eqn:Dn; [discriminate|]. split; [reflexivity|].
    apply (lre_attr_ok name inscope excl attrs (stk s3) a W1); auto.
  - exact W4.
  - intros a _. apply alldecl_exb. exact Had3.
  - unfold lre_attrs. apply (Inv_of _ name req); auto. rewrite Hk4. exact He3.
Qed.

(* literal attributes that arrive after the attribute sets *)
Lemma hz_ext_if_emit : forall b h s n v r, hz_ext_pre s (emit_attr (add_hz_if b h s) n v r).
Proof.
  intros b h s n v r. unfold hz_ext_pre. destruct (emit_attr_hz_mono (add_hz_if b h s) n v r) as [l Hl]. rewrite Hl.
  destruct b; unfold add_hz_if, add_hz; cbn [hz].
  - exists (l ++ [h]). rewrite <- app_assoc. reflexivity.
  - exists l. reflexivity.
Qed.

Lemma hz_ext_late_attr : forall s inscope a, hz_ext_pre s (late_attr s inscope a).
Proof.
  intros s inscope a. unfold late_attr. destruct (pend s); [|exists [HUnsupported]; reflexivity].
  cbv zeta. apply hz_ext_if_emit.
Qed.

Lemma hz_ext_late : forall inscope attrs s, hz_ext_pre s (lre_attrs_late s inscope attrs).
Proof.
  intros inscope. unfold lre_attrs_late. induction attrs as [|a r IH]; intro s; simpl.
  - exists []. reflexivity.
  - destruct (IH (late_attr s inscope a)) as [l2 H2]. destruct (hz_ext_late_attr s inscope a) as [l1 H1].
    exists (l2 ++ l1). rewrite H2, H1, app_assoc. reflexivity.
Qed.

Lemma late_attr_Inv : forall s inscope a, Inv s -> hz (late_attr s inscope a) = [] -> Inv (late_attr s inscope a).
Proof.
  intros s inscope [[P L] v] HI. unfold late_attr. cbn [fst snd].
  destruct (pend s) as [[q req]|] eqn:Hp; [|unfold add_hz; cbn [hz]; discriminate].
  cbv zeta. intro Hh.
  destruct (emit_hz_nil _ _ _ _ Hh) as [Hn Hh0].
  set (m := match P with
            | Some AXml | None => false
            | Some x => match ns_for_prefix (stk s) (Some x) with
                        | Some w => negb (N.eqb w (fst (req_lre_attr (P, L) inscope))) || N.eqb w 0
                        | None => true
                        end
            end) in *.
  destruct m eqn:Em; [unfold add_hz_if, add_hz in Hh0; cbn [hz] in Hh0; discriminate|].
  unfold add_hz_if in *. apply (H_emit_only s q req); auto.
  unfold attr_okb. cbn [a_name a_req]. rewrite Hn. unfold mresolve_attr, req_lre_attr. cbn [fst snd].
  destruct P as [x|]; [|apply ename_eqb_refl].
  assert (PL : forall y, plain_atom y = true ->
            match ns_for_prefix (stk s) (Some y) with
            | Some w => negb (N.eqb w (fst (req_lre_attr (Some y, L) inscope))) || N.eqb w 0
            | None => true
            end = false ->
            opt_ename_eqb (match mresolve (stk s) (Some y) with Some u => Some (u, L) | None => None end)
              (match inscope_ns inscope (Some y) with Some u => u | None => 0 end, L) = true).
  { intros y Hy H. destruct (plain_ne y Hy) as [N1 N2]. rewrite (nfp_raw (stk s) (Some y) N1 N2) in H.
    destruct (stk_lookup (Some y) (stk s)) as [w|] eqn:E; [|discriminate].
    apply orb_false_iff in H. destruct H as [H1 H2]. apply negb_false_iff in H1. apply N.eqb_eq in H1.
    unfold req_lre_attr in H1. cbn [fst snd] in H1.
    unfold mresolve. rewrite E. destruct y; simpl in Hy; try discriminate; rewrite H2, H1; apply ename_eqb_refl. }
  destruct x.
  - simpl in Hn. discriminate.
  - cbn. apply atom_eqb_refl.
  - apply PL; [reflexivity | exact Em].
  - apply PL; [reflexivity | exact Em].
  - apply PL; [reflexivity | exact Em].
Qed.

Lemma late_Inv : forall inscope attrs s, Inv s ->
  hz (lre_attrs_late s inscope attrs) = [] -> Inv (lre_attrs_late s inscope attrs).
Proof.
  intros inscope. unfold lre_attrs_late. induction attrs as [|a r IH]; intros s HI Hh; simpl in *; [exact HI|].
  apply IH; [|exact Hh]. apply late_attr_Inv; [exact HI|].
  destruct (hz_ext_late inscope r (late_attr s inscope a)) as [l Hl]. unfold lre_attrs_late in Hl.
  rewrite Hl in Hh. apply app_eq_nil in Hh. tauto.
Qed.

(* ---------------------------------------------------------------------------------------- *)
(* hazards only accumulate *)

Definition hz_ext (s s' : st) : Prop := exists l, hz s' = l ++ hz s.

Lemma hz_ext_refl : forall s, hz_ext s s.
Proof. intro s. exists []. reflexivity. Qed.

Lemma hz_ext_trans : forall a b c, hz_ext a b -> hz_ext b c -> hz_ext a c.
Proof. intros a b c [l1 H1] [l2 H2]. exists (l2 ++ l1). rewrite H2, H1, app_assoc. reflexivity. Qed.

Lemma hz_ext_eq : forall s s', hz s' = hz s -> hz_ext s s'.
Proof. intros s s' H. exists []. exact H. Qed.

Lemma hz_ext_nil : forall s s', hz_ext s s' -> hz s' = [] -> hz s = [].
Proof. intros s s' [l H] E. rewrite H in E. apply app_eq_nil in E. tauto. Qed.

Lemma hz_ext_if : forall b h s, hz_ext s (add_hz_if b h s).
Proof. intros [] h s; [exists [h]; reflexivity | apply hz_ext_refl]. Qed.

Lemma hz_ext_add : forall h s, hz_ext s (add_hz s h).
Proof. intros h s. exists [h]. reflexivity. Qed.

Lemma hz_ext_emit : forall s n v r, hz_ext s (emit_attr s n v r).
Proof. intros. destruct (emit_attr_hz_mono s n v r) as [l H]. exists l. exact H. Qed.

Lemma hz_ext_declare_emit : forall s x u n v r, hz_ext s (emit_attr (declare_prefix s x u) n v r).
Proof.
  intros. eapply hz_ext_trans; [|apply hz_ext_emit]. apply hz_ext_eq. apply declare_prefix_hz.
Qed.

Lemma hz_ext_gen_declare_emit : forall s u L v r,
  hz_ext s (let (g, s1) := gen_unique s in emit_attr (declare_prefix s1 g u) (Some g, L) v r).
Proof.
  intros. destruct (gen_unique s) as [g s1] eqn:G. apply gen_unique_spec in G.
  destruct G as (_ & _ & _ & _ & _ & Hh & _).
  eapply hz_ext_trans; [apply hz_ext_eq; exact Hh | apply hz_ext_declare_emit].
Qed.

Lemma hz_ext_new_decl : forall nr s P L u v r, hz_ext s (attr_new_decl nr s P L u v r).
Proof.
  intros. unfold attr_new_decl. cbv zeta.
  destruct (match P with
            | Some AXmlns => None
            | Some p => if atom_eqb p AXml && negb (N.eqb u uXML) then None
                        else match ns_for_prefix (stk s) (Some p) with
                             | Some w => if negb (N.eqb w u) && (nr || is_pending_prefix s p) then None else Some p
                             | None => Some p
                             end
            | None => None
            end) as [p|].
  - apply hz_ext_declare_emit.
  - apply hz_ext_gen_declare_emit.
Qed.

Lemma hz_ext_attr : forall inset s name nsattr sns v, hz_ext s (exec_attr inset s name nsattr sns v).
Proof.
  intros inset s [P L] nsattr sns v. unfold exec_attr. cbv beta zeta iota delta [fst snd].
  destruct nsattr as [u|].
  - destruct (pend s); [|apply hz_ext_refl].
    destruct (N.eqb u 0); [apply hz_ext_emit|].
    destruct (prefix_for_ns (stk s) u) as [[q'|]|]; try apply hz_ext_new_decl.
    destruct (match P with None => true | Some p => atom_eqb p q' end);
      [apply hz_ext_emit | apply hz_ext_new_decl].
  - destruct (pend s); [|apply hz_ext_refl].
    destruct (qname_eqb (P, L) (None, AXmlns)); [apply hz_ext_refl|].
    destruct P as [a|]; [|apply hz_ext_emit].
    destruct a; try apply hz_ext_emit;
      (destruct sns as [n'|]; [|apply hz_ext_refl];
       destruct (match ns_for_prefix (stk s) (Some _) with Some w => negb (N.eqb n' w) | None => false end);
       [ destruct (gen_unique s) as [g s1] eqn:G; apply gen_unique_spec in G;
         destruct G as (_ & _ & _ & _ & _ & Hh & _);
         (eapply hz_ext_trans; [apply hz_ext_eq; exact Hh|]);
         destruct (N.eqb n' 0); [apply hz_ext_refl|];
         destruct (match ns_for_prefix (stk s1) (Some g) with Some w => N.eqb w n' | None => false end);
         [apply hz_ext_emit | apply hz_ext_declare_emit]
       | destruct (N.eqb n' 0); [apply hz_ext_refl|];
         match goal with |- hz_ext _ (if ?c then _ else _) => destruct c end;
         [apply hz_ext_emit | apply hz_ext_declare_emit] ]).
Qed.

Lemma hz_unprefixed : forall s name req nsattr sdef pdef,
  hz (elem_unprefixed s name req nsattr sdef pdef) = hz s.
Proof.
  intros. unfold elem_unprefixed. cbv zeta.
  set (s1 := start_elem s name req). assert (H1 : hz s1 = hz s) by apply hz_start.
  destruct nsattr as [u|].
  - destruct (negb (N.eqb u 0)).
    + destruct (ns_for_prefix (stk s1) None) as [c|]; [destruct (N.eqb c u)|]; rewrite ?hz_default; exact H1.
    + match goal with |- hz (if ?c then _ else _) = _ => destruct c end; rewrite ?hz_default; exact H1.
  - destruct (ns_for_prefix (stk s1) None) as [c|]; destruct sdef as [d|];
      try destruct (N.eqb c d); rewrite ?hz_default; exact H1.
Qed.

Lemma hz_ext_elem : forall s name nsattr sns sdef pdef, hz_ext s (exec_elem s name nsattr sns sdef pdef).
Proof.
  intros s [P L] nsattr sns sdef pdef. unfold exec_elem. cbv beta zeta iota delta [fst snd].
  destruct P as [p|]; [|apply hz_ext_eq; apply hz_unprefixed].
  assert (G : forall s0 R ens, hz_ext s s0 ->
            hz_ext s (match ns_for_prefix (stk (start_elem s0 (Some p, L) R)) (Some p) with
                      | Some w => if N.eqb w ens then start_elem s0 (Some p, L) R
                                  else declare_prefix (start_elem s0 (Some p, L) R) p ens
                      | None => declare_prefix (start_elem s0 (Some p, L) R) p ens
                      end)).
  { intros s0 R ens H0. eapply hz_ext_trans; [exact H0|]. apply hz_ext_eq.
    set (t := start_elem s0 (Some p, L) R). assert (Ht : hz t = hz s0) by apply hz_start.
    destruct (ns_for_prefix (stk t) (Some p)) as [w|]; [destruct (N.eqb w ens)|];
      rewrite ?declare_prefix_hz; exact Ht. }
  assert (G2 : forall b1 b2, hz_ext s (add_hz_if b1 HUnsupported (add_hz_if b2 HElemEmptyNs s))).
  { intros. eapply hz_ext_trans; apply hz_ext_if. }
  destruct sns as [n|]; destruct nsattr as [u|].
  - match goal with |- hz_ext _ (if ?c then _ else _) => destruct c end;
      [apply hz_ext_eq; apply hz_unprefixed|].
    match goal with |- hz_ext _ (if ?c then _ else _) => destruct c end;
      [apply hz_ext_eq; apply hz_unprefixed | apply G; apply G2].
  - match goal with |- hz_ext _ (if ?c then _ else _) => destruct c end;
      [apply hz_ext_eq; apply hz_unprefixed|].
    match goal with |- hz_ext _ (if ?c then _ else _) => destruct c end;
      [apply hz_ext_eq; apply hz_unprefixed | apply G; apply G2].
  - destruct (N.eqb u 0); [apply hz_ext_eq; apply hz_unprefixed|].
    match goal with |- hz_ext _ (if ?c then _ else _) => destruct c end;
      [apply hz_ext_eq; apply hz_unprefixed|].
    match goal with |- hz_ext _ (if ?c then _ else _) => destruct c end;
      [apply hz_ext_eq; apply hz_unprefixed | apply G; apply G2].
  - cbn [N.eqb]. eapply hz_ext_trans; [|apply hz_ext_add]. apply hz_ext_eq. apply hz_start.
Qed.

Lemma hz_ext_open : forall s name inscope excl attrs, hz_ext s (lre_open s name inscope excl attrs).
Proof.
  intros. eapply hz_ext_trans; [apply hz_ext_if|]. apply hz_ext_eq. apply hz_lre_open.
Qed.

Lemma hz_ext_lre : forall s name inscope excl attrs, hz_ext s (exec_lre s name inscope excl attrs).
Proof.
  intros. unfold exec_lre. eapply hz_ext_trans; [apply hz_ext_open|]. apply hz_ext_eq. apply hz_lre_attrs.
Qed.

Lemma hz_ext_op : forall s o, hz_ext s (exec_op s o).
Proof.
  intros s o. destruct o; simpl.
  - apply hz_ext_eq. unfold text. cbv zeta. cbn [hz]. apply hz_flush.
  - apply hz_ext_eq. unfold end_elem. destruct (stk s); [reflexivity|]. cbv zeta. cbn [hz]. apply hz_flush.
  - apply hz_ext_attr.
  - apply hz_ext_attr.
  - apply hz_ext_elem.
  - apply hz_ext_lre.
  - apply hz_ext_open.
  - apply hz_ext_late.
Qed.

(* ---------------------------------------------------------------------------------------- *)
(* the whole-program theorem *)

Lemma op_Inv : forall s o, Inv s -> hz (exec_op s o) = [] -> Inv (exec_op s o).
Proof.
  intros s o HI Hh. destruct o; simpl in *.
  - apply text_Inv. exact HI.
  - apply end_Inv. exact HI.
  - apply attr_Inv; assumption.
  - apply attr_Inv; assumption.
  - apply elem_Inv; assumption.
  - apply lre_Inv; assumption.
  - apply open_Inv; assumption.
  - apply late_Inv; assumption.
Qed.

Lemma Inv_init : Inv init_st.
Proof.
  split; [|exact I]. unfold InvCore, InvCoreF, init_st. cbn [stk pend pattrs out].
  exists []. split; [reflexivity|]. split; [reflexivity|constructor].
Qed.

Lemma run_from_snoc : forall ops o s, run_from s (ops ++ [o]) = exec_op (run_from s ops) o.
Proof. intros. unfold run_from. rewrite fold_left_app. reflexivity. Qed.

Lemma run_Inv : forall ops, hz (run ops) = [] -> Inv (run ops).
Proof.
  unfold run. induction ops as [|o ops IH] using rev_ind; intro Hh.
  - exact Inv_init.
  - rewrite run_from_snoc in *.
    apply op_Inv; [|exact Hh]. apply IH. apply (hz_ext_nil _ _ (hz_ext_op _ o)). exact Hh.
Qed.

(* every start tag written so far is accepted by the namespace-aware reader; the start tag that is
   still pending (if any) would be accepted as well *)
Lemma result_ns_wellformed_l : forall ops, guard_ok ops = true -> wellformed (events (run ops)) = true.
Proof.
  intros ops Hg. unfold guard_ok in Hg. destruct (hz (run ops)) eqn:Hh; [|discriminate].
  destruct (run_Inv ops Hh) as [[sc [Hc _]] _]. unfold wellformed, events. rewrite Hc. reflexivity.
Qed.

Lemma result_ns_wellformed_closed_l : forall ops, guard_ok ops = true ->
  wellformed (events (flush (run ops))) = true.
Proof.
  intros ops Hg. unfold guard_ok in Hg. destruct (hz (run ops)) eqn:Hh; [|discriminate].
  destruct (flush_Inv _ (run_Inv ops Hh)) as [[sc [Hc _]] _]. unfold wellformed, events. rewrite Hc. reflexivity.
Qed.

Lemma k17_unreachable_l : k17_fixed = true -> forall s n v r,
  hz (emit_attr s n v r) = (match decl_prefix n with Some _ => [HDeclAttr] | None => [] end) ++ hz s.
Proof.
  intros F s n v r. unfold emit_attr. rewrite F, andb_false_r.
  rewrite add_result_attr_hz. destruct (decl_prefix n); reflexivity.
Qed.
