(* KeyHist.v — key() through the lazily filled per-document cache *)
From Coq Require Import List NArith Bool Arith Lia Sorted.
Require Import XV.GenKey XV.KeyDefs XV.KeyWalk XV.KeyModel.
Import ListNotations.

Lemma table_of_eq : forall t decls, table_of t decls = Some (build (idx t) decls (doc_nodes t)).
Proof. intros. unfold table_of. rewrite walkf_doc by lia. reflexivity. Qed.

Lemma table_get : forall t decls name v,
  get (build (idx t) decls (doc_nodes t)) name v = key_spec decls t name v.
Proof.
  intros. unfold key_spec. apply (build_spec (idx t) (doc_nodes t)).
  - apply idx_inj.
  - apply incl_refl.
  - apply doc_nodes_sorted.
  - tauto.
Qed.

(* any complete visiting order builds the same table entries *)
Lemma table_get_any_order : forall t decls vs name v,
  (forall x, In x vs <-> In x (doc_nodes t)) ->
  get (build (idx t) decls vs) name v = key_spec decls t name v.
Proof.
  intros. unfold key_spec. apply (build_spec (idx t) (doc_nodes t)).
  - apply idx_inj.
  - intros x Hx. apply H. exact Hx.
  - apply doc_nodes_sorted.
  - exact H.
Qed.

Definition cinv (W : world) (G : list gdecl) (c : cache) : Prop :=
  forall d m, cfind d c = Some m -> table_of (wdoc W d) (map (view d) G) = Some m.

Lemma cinv_nil : forall W G, cinv W G [].
Proof. intros W G d m H. discriminate. Qed.

Lemma cinv_cons : forall W G c d m, cinv W G c -> table_of (wdoc W d) (map (view d) G) = Some m ->
  cinv W G ((d, m) :: c).
Proof.
  intros W G c d m Hc Ht d' m' H. simpl in H. destruct (d' =? d) eqn:E.
  - apply Nat.eqb_eq in E. subst. congruence.
  - apply Hc; exact H.
Qed.

Lemma declared_view : forall G d name, declared (map (view d) G) name = gdeclared G name.
Proof.
  intros G d name. unfold declared, gdeclared. induction G as [|g r IH]; simpl; auto.
  rewrite IH. reflexivity.
Qed.

(* the answer of one lookup as a function of the arguments only *)
Definition lookup_pure (W : world) (G : list gdecl) (d : nat) (name v : str) (acc : list node) : result :=
  match G with
  | [] => UnknownKey
  | _ => match table_of (wdoc W d) (map (view d) G) with
         | None => OutOfFuel
         | Some m => match table_lookup m (map (view d) G) name v with
                     | Nodes nl => Nodes (merge_nodes (idx (wdoc W d)) acc nl)
                     | r => r
                     end
         end
  end.

Lemma root_lookup_res : forall W G c d name v acc, cinv W G c ->
  snd (root_lookup W G c d name v acc) = lookup_pure W G d name v acc /\
  cinv W G (fst (root_lookup W G c d name v acc)).
Proof.
  intros W G c d name v acc Hc. unfold root_lookup, lookup_pure.
  destruct G as [|d0 dl]. { split; auto. }
  destruct (cfind d c) as [m|] eqn:E.
  - rewrite (Hc _ _ E). split; auto.
  - destruct (table_of (wdoc W d) (map (view d) (d0 :: dl))) as [m|] eqn:Et; simpl; split; auto.
    apply cinv_cons; auto.
Qed.

Fixpoint refs_pure (W : world) (G : list gdecl) (d : nat) (name : str) (vs : list str)
         (acc : list node) : result :=
  match vs with
  | [] => Nodes acc
  | v :: r => if skip_empty_refs && str_empty v then refs_pure W G d name r acc
              else match lookup_pure W G d name v acc with
                   | Nodes acc' => refs_pure W G d name r acc'
                   | other => other
                   end
  end.

Lemma refs_loop_res : forall W G d name vs c acc, cinv W G c ->
  snd (refs_loop W G c d name vs acc) = refs_pure W G d name vs acc /\
  cinv W G (fst (refs_loop W G c d name vs acc)).
Proof.
  intros W G d name. induction vs as [|v r IH]; intros c acc Hc; cbn [refs_loop refs_pure]. { split; auto. }
  destruct (skip_empty_refs && str_empty v). { apply IH; exact Hc. }
  destruct (root_lookup_res W G c d name v acc Hc) as [H1 H2].
  destruct (root_lookup W G c d name v acc) as [c1 r1]. simpl in H1, H2. rewrite <- H1.
  destruct r1; simpl; auto.
Qed.

Definition key_pure (W : world) (G : list gdecl) (d : nat) (name : str) (arg : karg) : result :=
  match arg with
  | AStr s => lookup_pure W G d name s []
  | ANodes [] => Nodes []
  | ANodes [v] => lookup_pure W G d name v []
  | ANodes vs => refs_pure W G d name vs []
  end.

Lemma function_key_res : forall W G c d name arg, cinv W G c ->
  snd (function_key W G c d name arg) = key_pure W G d name arg /\
  cinv W G (fst (function_key W G c d name arg)).
Proof.
  intros W G c d name arg Hc. unfold function_key, key_pure.
  destruct arg as [s|vs]. { apply root_lookup_res; exact Hc. }
  destruct vs as [|v [|v2 r]]. { split; auto. } { apply root_lookup_res; exact Hc. }
  apply refs_loop_res; exact Hc.
Qed.

Lemma history_pure : forall W G ps c, cinv W G c ->
  run_history W G c ps = map (fun pr => key_pure W G (fst (fst pr)) (snd (fst pr)) (snd pr)) ps.
Proof.
  intros W G. induction ps as [|[[d name] arg] r IH]; intros c Hc; simpl. reflexivity.
  destruct (function_key_res W G c d name arg Hc) as [H1 H2].
  destruct (function_key W G c d name arg) as [c1 r1]. simpl in H1, H2.
  rewrite H1. f_equal. apply IH; exact H2.
Qed.

(* ---------- the pure answers equal the specification ---------- *)
Lemma lookup_pure_spec : forall W G d name v p, gdeclared G name = true ->
  lookup_pure W G d name v (filter p (doc_nodes (wdoc W d))) =
  Nodes (filter (fun n => p n || key_pred (map (view d) G) name v n) (doc_nodes (wdoc W d))).
Proof.
  intros W G d name v p H. unfold lookup_pure.
  destruct G as [|d0 dl] eqn:E. { discriminate. } rewrite <- E in *.
  rewrite table_of_eq. rewrite table_lookup_get by (rewrite declared_view; exact H).
  rewrite table_get. unfold key_spec.
  rewrite (merge_spec (idx (wdoc W d)) (doc_nodes (wdoc W d))); auto.
  apply idx_inj. apply doc_nodes_sorted. apply incl_refl.
Qed.

Lemma filter_false : forall (A : Type) (l : list A), filter (fun _ => false) l = [].
Proof. induction l; simpl; auto. Qed.

Lemma lookup_pure_first : forall W G d name v, gdeclared G name = true ->
  lookup_pure W G d name v [] = Nodes (key_spec (map (view d) G) (wdoc W d) name v).
Proof.
  intros W G d name v H.
  rewrite <- (filter_false node (doc_nodes (wdoc W d))). rewrite lookup_pure_spec by exact H.
  reflexivity.
Qed.

Lemma refs_pure_spec : forall W G d name vs p, gdeclared G name = true ->
  forallb (fun v => negb (skip_empty_refs && str_empty v)) vs = true ->
  refs_pure W G d name vs (filter p (doc_nodes (wdoc W d))) =
  Nodes (filter (fun n => p n || existsb (fun v => key_pred (map (view d) G) name v n) vs) (doc_nodes (wdoc W d))).
Proof.
  intros W G d name. induction vs as [|v r IH]; intros p H Hne; cbn [refs_pure existsb].
  - f_equal. apply filter_ext. intro n. rewrite orb_false_r. reflexivity.
  - cbn [forallb] in Hne. apply andb_true_iff in Hne. destruct Hne as [H1 H2].
    destruct (skip_empty_refs && str_empty v); [discriminate|].
    rewrite lookup_pure_spec by exact H. rewrite IH; auto.
    f_equal. apply filter_ext. intro n. rewrite orb_assoc. reflexivity.
Qed.

Lemma key_pure_spec : forall W G d name arg, gdeclared G name = true ->
  nodeset_arg_ok arg = true -> key_pure W G d name arg = key_fn_spec W G d name arg.
Proof.
  intros W G d name arg H Hg. unfold key_pure, key_fn_spec.
  destruct arg as [s|vs]. { apply lookup_pure_first; exact H. }
  destruct vs as [|v [|v2 r]].
  - unfold key_spec_set. simpl. rewrite filter_false. reflexivity.
  - rewrite lookup_pure_first by exact H. unfold key_spec, key_spec_set. f_equal.
    apply filter_ext. intro n. simpl. rewrite orb_false_r. reflexivity.
  - unfold nodeset_arg_ok in Hg. cbn [length Nat.leb orb] in Hg.
    rewrite <- (filter_false node (doc_nodes (wdoc W d))). rewrite refs_pure_spec; auto.
Qed.

Lemma history_spec : forall W G ps,
  Forall (fun pr : probe => gdeclared G (snd (fst pr)) = true /\ nodeset_arg_ok (snd pr) = true) ps ->
  run_history W G [] ps =
  map (fun pr : probe => key_fn_spec W G (fst (fst pr)) (snd (fst pr)) (snd pr)) ps.
Proof.
  intros W G ps H. rewrite history_pure by apply cinv_nil.
  apply map_ext_in. intros pr Hin. rewrite Forall_forall in H. destruct (H _ Hin).
  apply key_pure_spec; auto.
Qed.

(* undeclared name with a string argument: the lookup is an error *)
Lemma find_build_undeclared : forall ix decls name, declared decls name = false ->
  forall vs m, find name m = None -> find name (fold_left (process_node ix decls) vs m) = None.
Proof.
  intros ix decls name H.
  assert (A : forall d n m, str_eqb (dname d) name = false -> find name m = None ->
              find name (processKeyDeclaration ix m d n) = None).
  { intros d n m Hd Hm. unfold processKeyDeclaration.
    assert (B : forall v m, find name m = None -> find name (add_value ix (dname d) v n m) = None).
    { intros v m0 H0. unfold add_value. rewrite find_upd_other; auto. rewrite str_eqb_sym. exact Hd. }
    destruct (duse d n) as [s|vs]. apply B; exact Hm.
    revert m Hm. induction vs as [|v r IH]; intros m Hm; simpl; auto. }
  assert (C : forall n ds m, (forall d, In d ds -> str_eqb (dname d) name = false) -> find name m = None ->
              find name (process_node ix ds m n) = None).
  { intros n. unfold process_node. induction ds as [|d r IH]; intros m Hd Hm; simpl; auto.
    apply IH. intros; apply Hd; right; auto.
    destruct (dmatch d n); auto. apply A; auto. apply Hd; left; reflexivity. }
  assert (D : forall d, In d decls -> str_eqb (dname d) name = false).
  { intros d Hd. unfold declared in H. destruct (str_eqb (dname d) name) eqn:E; auto.
    assert (existsb (fun d => str_eqb (dname d) name) decls = true).
    { apply existsb_exists. exists d. auto. } congruence. }
  induction vs as [|n r IH]; intros m Hm; simpl; auto.
Qed.

Lemma undeclared_error : forall W G d name s, gdeclared G name = false ->
  key_pure W G d name (AStr s) = UnknownKey.
Proof.
  intros W G d name s H. unfold key_pure, lookup_pure. destruct G as [|d0 dl] eqn:E; auto.
  rewrite <- E in *. rewrite table_of_eq. unfold table_lookup.
  unfold build. rewrite find_build_undeclared; auto.
  rewrite declared_view, H. reflexivity. rewrite declared_view. exact H.
Qed.

(* ---------- consequences of the specification ---------- *)
Lemma key_spec_props : forall decls t name v,
  ssorted (idx t) (key_spec decls t name v) /\ NoDup (key_spec decls t name v) /\
  (forall n, In n (key_spec decls t name v) <-> In n (doc_nodes t) /\ key_pred decls name v n = true).
Proof.
  intros. unfold key_spec. split; [|split].
  - apply filter_sorted. apply doc_nodes_sorted.
  - apply NoDup_filter. apply doc_nodes_nodup.
  - intro n. apply filter_In.
Qed.

Lemma key_pred_app : forall d1 d2 name v n,
  key_pred (d1 ++ d2) name v n = key_pred d1 name v n || key_pred d2 name v n.
Proof. intros. unfold key_pred. apply existsb_app. Qed.

Lemma key_spec_app : forall d1 d2 t name v n,
  In n (key_spec (d1 ++ d2) t name v) <-> In n (key_spec d1 t name v) \/ In n (key_spec d2 t name v).
Proof.
  intros. unfold key_spec. rewrite !filter_In, key_pred_app, orb_true_iff. tauto.
Qed.

Lemma existsb_same_members : forall (A : Type) (f : A -> bool) l1 l2,
  (forall x, In x l1 <-> In x l2) -> existsb f l1 = existsb f l2.
Proof.
  intros A f l1 l2 H. destruct (existsb f l1) eqn:E1, (existsb f l2) eqn:E2; auto.
  - apply existsb_exists in E1. destruct E1 as [x [Hx Hf]].
    assert (existsb f l2 = true) by (apply existsb_exists; exists x; split; auto; apply H; auto). congruence.
  - apply existsb_exists in E2. destruct E2 as [x [Hx Hf]].
    assert (existsb f l1 = true) by (apply existsb_exists; exists x; split; auto; apply H; auto). congruence.
Qed.

Lemma key_spec_decl_order : forall ds1 ds2 t name v,
  (forall d, In d ds1 <-> In d ds2) -> key_spec ds1 t name v = key_spec ds2 t name v.
Proof.
  intros. unfold key_spec. apply filter_ext. intro n. unfold key_pred. apply existsb_same_members. exact H.
Qed.

(* ---------- declarations of imported stylesheets ---------- *)
Section SheetInd.
  Variable P : sheet -> Prop.
  Hypothesis step : forall own imps, Forall P imps -> P (Sheet own imps).
  Fixpoint sheet_ind2 (s : sheet) : P s :=
    match s with
    | Sheet own imps =>
        step own imps
          ((fix go (l : list sheet) : Forall P l :=
              match l with
              | [] => Forall_nil P
              | c :: r => Forall_cons c (sheet_ind2 c) (go r)
              end) imps)
    end.
End SheetInd.

Inductive in_import_tree : sheet -> sheet -> Prop :=
| it_self : forall s, in_import_tree s s
| it_imp : forall own imps i s', In i imps -> in_import_tree i s' -> in_import_tree (Sheet own imps) s'.

Definition own_of (s : sheet) : list gdecl := match s with Sheet own _ => own end.

Definition merged_list : list sheet -> list gdecl :=
  fix go (l : list sheet) : list gdecl := match l with [] => [] | i :: r => merged i ++ go r end.

Lemma merged_unfold : forall own imps, merged (Sheet own imps) = own ++ merged_list imps.
Proof. reflexivity. Qed.

Lemma merged_list_in : forall imps g, In g (merged_list imps) <-> exists i, In i imps /\ In g (merged i).
Proof.
  induction imps as [|i r IH]; intro g; simpl.
  - split. contradiction. intros [i [[] _]].
  - rewrite in_app_iff, IH. split.
    + intros [H|[i' [H1 H2]]]. exists i; auto. exists i'; auto.
    + intros [i' [[H1|H1] H2]]. subst; auto. right. exists i'; auto.
Qed.

Lemma merged_in : forall s g,
  In g (merged s) <-> exists s', in_import_tree s s' /\ In g (own_of s').
Proof.
  intros s g. split.
  - revert g. induction s using sheet_ind2. intros g Hg. rewrite merged_unfold, in_app_iff in Hg.
    destruct Hg as [Hg|Hg].
    + exists (Sheet own imps). split. constructor. exact Hg.
    + apply merged_list_in in Hg. destruct Hg as [i [Hi Hg]].
      rewrite Forall_forall in H. destruct (H i Hi g Hg) as [s' [H1 H2]].
      exists s'. split; auto. econstructor; eauto.
  - intros [s' [Ht Hg]]. induction Ht as [s|own imps i s' Hi Ht IH].
    + destruct s as [own imps]. rewrite merged_unfold. apply in_or_app. left. exact Hg.
    + rewrite merged_unfold. apply in_or_app. right. apply merged_list_in. exists i. auto.
Qed.
