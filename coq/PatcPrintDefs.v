(* PatcPrintDefs.v — C09 part "compile": the printer of compiled patterns (tree -> token queue), the canonical form of
   compiled patterns (what the compiler can produce for prefix-free patterns), and the reading of a compiled pattern as
   the expression it abbreviates.  Definitions only.

   Steps are printed unabbreviated (child::T / attribute::T, as XpcPrintDefs.pr prints expression steps); the separator
   behind a step is '/' '/' exactly when the step was compiled to eMATCH_ANY_ANCESTOR.  (An attribute step followed by
   '//' compiles to the same op codes as one followed by '/': the op map does not record that separator; both patterns
   select nothing beyond the attribute step, attributes having no children.) *)
From Coq Require Import List NArith Bool Arith.
Import ListNotations.
Require Import XV.XpAst XV.GenXpc XV.GenPatc XV.XpcLexDefs XV.XpcParseDefs XV.XpcPrintDefs XV.XpcPrintFacts XV.PatcDefs.

Definition step_kind_ok (k : pstep_kind) : bool :=
  match k with PkAttribute | PkImmediateAncestor | PkAnyAncestor => true | _ => false end.
Definition is_any (k : pstep_kind) : bool := match k with PkAnyAncestor => true | _ => false end.
Definition is_attr_kind (k : pstep_kind) : bool := match k with PkAttribute => true | _ => false end.
Definition axis_kw (k : pstep_kind) : str := if is_attr_kind k then kw_attribute else kw_child.
Definition sl : tok := [ch_solidus].

Definition pr_pstep (s : pstep) : list tok :=
  match s with (k, t, ps) => axis_kw k :: gen_xpc_kw_axis_sep :: pr_ntest t ++ pr_preds ps end.
Definition sep_after (s : pstep) : list tok := if is_any (fst (fst s)) then [sl; sl] else [sl].
Fixpoint ppr_steps (l : list pstep) : list tok :=
  match l with
  | [] => []
  | s :: r => pr_pstep s ++ match r with [] => [] | _ => sep_after s ++ ppr_steps r end
  end.

Fixpoint canon_psteps (l : list pstep) : bool :=
  match l with
  | [] => true
  | (k, t, ps) :: r =>
      (step_kind_ok k && ntest_ok t && canon_preds ps && (negb (is_any k) || negb (isnil r)) && canon_psteps r)%bool
  end.

Inductive phead := HdRel | HdRoot | HdAnyP | HdFn (f : expr) | HdFnAny (f : expr).
Definition split_head (a : lpattern) : phead * list pstep :=
  match a with
  | (PkRoot, TRoot, []) :: r => (HdRoot, r)
  | (PkAnyAncestorWithPredicate, TNode, []) :: r => (HdAnyP, r)
  | (PkFunction f, TNode, []) :: (PkAnyAncestorWithFunctionCall, TNode, []) :: r => (HdFnAny f, r)
  | (PkFunction f, TNode, []) :: r => (HdFn f, r)
  | r => (HdRel, r)
  end.
(* IdKeyPattern ::= 'id' '(' Literal ')' | 'key' '(' Literal ',' Literal ')' *)
Definition idkey_ok (f : expr) : bool :=
  match f with
  | EFunc name args =>
      (((str_eqb name kw_id && Nat.eqb (length args) 1) || (str_eqb name kw_key && Nat.eqb (length args) 2))
       && canon f && forallb is_elit args)%bool
  | _ => false
  end.
Definition canon_lp (a : lpattern) : bool :=
  let (h, r) := split_head a in
  (canon_psteps r &&
   match h with
   | HdRel | HdAnyP => negb (isnil r)
   | HdRoot => true
   | HdFn f => idkey_ok f
   | HdFnAny f => (idkey_ok f && negb (isnil r))%bool
   end)%bool.
Definition ppr_lp (a : lpattern) : list tok :=
  let (h, r) := split_head a in
  match h with
  | HdRel => ppr_steps r
  | HdRoot => sl :: ppr_steps r
  | HdAnyP => sl :: sl :: ppr_steps r
  | HdFn f => pr f ++ match r with [] => [] | _ => sl :: ppr_steps r end
  | HdFnAny f => pr f ++ sl :: sl :: ppr_steps r
  end.
Fixpoint ppr (P : pattern) : list tok :=
  match P with
  | [] => []
  | [a] => ppr_lp a
  | a :: r => ppr_lp a ++ [ch_bar] :: ppr r
  end.
Definition pcanon (P : pattern) : bool := (negb (isnil P) && forallb canon_lp P)%bool.

(* nesting the predicates / arguments of a pattern need inside Expr() *)
Fixpoint dep_psteps (l : list pstep) : nat :=
  match l with [] => 0 | (_, _, ps) :: r => Nat.max (dep_preds ps) (dep_psteps r) end.
Definition dep_lp (a : lpattern) : nat :=
  let (h, r) := split_head a in
  Nat.max (match h with HdFn f | HdFnAny f => idepth f | _ => 0 end) (dep_psteps r).
Fixpoint dep_pattern (P : pattern) : nat := match P with [] => 0 | a :: r => Nat.max (dep_lp a) (dep_pattern r) end.

(* the pattern read as an expression: '/' = the root step, '//' = /descendant-or-self::node()/, a child-like step = a
   child:: step, an attribute step = an attribute:: step, an id()/key() head = the filter-expression head of the path *)
Definition estep_of (s : pstep) : list step :=
  match s with (k, t, ps) =>
    ((if is_attr_kind k then AxAttribute else AxChild), t, ps) :: (if is_any k then [step_dos] else [])
  end.
Definition esteps_of (l : list pstep) : list step := flat_map estep_of l.
Definition expr_of_lp (a : lpattern) : expr :=
  let (h, r) := split_head a in
  match h with
  | HdRel => EPath None [] (esteps_of r)
  | HdRoot => EPath None [] (step_root :: esteps_of r)
  | HdAnyP => EPath None [] (step_root :: step_dos :: esteps_of r)
  | HdFn f => match r with [] => f | _ => EPath (Some f) [] (esteps_of r) end
  | HdFnAny f => EPath (Some f) [] (step_dos :: esteps_of r)
  end.
Definition expr_of (P : pattern) : expr :=
  match P with
  | [a] => expr_of_lp a
  | _ => EUnion (map expr_of_lp P)
  end.
