(* Extraction of the xsl:comment / xsl:processing-instruction fix-up loops. ExtrOcamlBasic only. *)
From Coq Require Import ZArith.
Require Import ExtrOcamlBasic.
Require Import XV.FixupDefs.
Definition fixup_z_probe : Z := Z.succ 0%Z.
Definition fixup_nat_probe : nat := S O.
Extraction "extracted/fixup_model.ml" fix_comment fix_pi fixup_z_probe fixup_nat_probe.
