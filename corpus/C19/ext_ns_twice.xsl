<?xml version="1.0"?>
<!-- extension-element-prefixes names the same namespace URI twice (two prefixes): Stylesheet::processExtensionNamespace -->
<xsl:stylesheet version="1.0" xmlns:xsl="http://www.w3.org/1999/XSL/Transform"
                xmlns:e1="http://verif.example/ext-elements" xmlns:e2="http://verif.example/ext-elements"
                extension-element-prefixes="e1 e2">
  <xsl:template match="/">
    <out><xsl:value-of select="count(//*)"/></out>
  </xsl:template>
</xsl:stylesheet>
