(* DomModel.v — facts about the node table of DomDefs.v and about the structural navigation the
   interpreter uses (first child / next sibling / previous sibling / parent), against the stored
   child lists: the sibling walks of XpDefs.v enumerate exactly the children, the following
   siblings and the preceding siblings (nearest first). *)
From Coq Require Import NArith List Bool Arith Lia.
Require Import XV.XpAst XV.DomDefs XV.NumDefs XV.XpDefs.
Import ListNotations.

(* local well-formedness of a node table: children lists are duplicate-free and agree with the
   parent links; children are not attribute nodes *)
Record wf (d : doc) : Prop := {
  wf_parent : forall i c, In c (n_children (get d i)) ->
      n_parent (get d c) = Some i /\ is_attr_kind (n_kind (get d c)) = false;
  wf_nodup : forall i, NoDup (n_children (get d i))
}.

Lemma next_in_head a l x : a <> x -> next_in (a :: l) x = next_in l x.
Proof.
  intros H. destruct l as [|b r]; cbn [next_in].
  - reflexivity.
  - destruct (Nat.eqb a x) eqn:E; [apply Nat.eqb_eq in E; contradiction | reflexivity].
Qed.

Lemma next_in_here x l : next_in (x :: l) x = hd_error l.
Proof. destruct l as [|b r]; cbn [next_in]; [reflexivity|]. rewrite Nat.eqb_refl. reflexivity. Qed.

Lemma next_in_app pre x post : NoDup (pre ++ x :: post) -> next_in (pre ++ x :: post) x = hd_error post.
Proof.
  induction pre as [|a pre IH]; intros H; cbn [app] in *.
  - apply next_in_here.
  - inversion H as [|? ? Hn Hd]; subst. rewrite next_in_head.
    + apply IH. exact Hd.
    + intros ->. apply Hn. apply in_or_app. right. left. reflexivity.
Qed.

Section Walks.
  Variable d : doc.
  Hypothesis Hwf : wf d.

  Lemma next_sibling_spec p pre x post :
    n_children (get d p) = pre ++ x :: post -> next_sibling d x = hd_error post.
  Proof.
    intros Hc. assert (Hin : In x (n_children (get d p))) by (rewrite Hc; apply in_or_app; right; left; reflexivity).
    destruct (wf_parent d Hwf p x Hin) as [Hp Hk].
    unfold next_sibling. rewrite Hk, Hp, Hc. apply next_in_app. rewrite <- Hc. apply (wf_nodup d Hwf).
  Qed.

  Lemma prev_sibling_spec p pre x post :
    n_children (get d p) = pre ++ x :: post -> prev_sibling d x = hd_error (rev pre).
  Proof.
    intros Hc. assert (Hin : In x (n_children (get d p))) by (rewrite Hc; apply in_or_app; right; left; reflexivity).
    destruct (wf_parent d Hwf p x Hin) as [Hp Hk].
    unfold prev_sibling. rewrite Hk, Hp, Hc.
    rewrite rev_app_distr. simpl. rewrite <- app_assoc. simpl.
    apply next_in_app.
    replace (rev post ++ x :: rev pre) with (rev (pre ++ x :: post)).
    - apply NoDup_rev. rewrite <- Hc. apply (wf_nodup d Hwf).
    - rewrite rev_app_distr. simpl. rewrite <- app_assoc. reflexivity.
  Qed.

  (* walking next-sibling links from a child enumerates the rest of the child list *)
  Lemma siblings_after_suffix p : forall post pre fuel,
    n_children (get d p) = pre ++ post -> length post <= fuel ->
    siblings_after d fuel (hd_error post) = post.
  Proof.
    induction post as [|x post IH]; intros pre fuel Hc Hf.
    - destruct fuel; reflexivity.
    - destruct fuel as [|f]; [simpl in Hf; lia|]. cbn [hd_error siblings_after].
      rewrite (next_sibling_spec p pre x post Hc). f_equal.
      apply (IH (pre ++ [x])); [rewrite <- app_assoc; exact Hc | simpl in Hf; lia].
  Qed.

  Lemma siblings_before_prefix p : forall pre post fuel,
    n_children (get d p) = pre ++ post -> length pre <= fuel ->
    siblings_before d fuel (hd_error (rev pre)) = rev pre.
  Proof.
    intros pre. induction pre as [|x pre IH] using rev_ind; intros post fuel Hc Hf.
    - destruct fuel; reflexivity.
    - rewrite rev_app_distr. simpl. destruct fuel as [|f]; [rewrite app_length in Hf; simpl in Hf; lia|].
      cbn [siblings_before]. rewrite <- app_assoc in Hc. simpl in Hc.
      rewrite (prev_sibling_spec p pre x post Hc). f_equal.
      apply (IH (x :: post)); [exact Hc | rewrite app_length in Hf; simpl in Hf; lia].
  Qed.

  (* child axis: first child, then next siblings = the stored child list *)
  Theorem child_walk p fuel : length (n_children (get d p)) <= fuel ->
    siblings_after d fuel (first_child d p) = n_children (get d p).
  Proof. intros H. unfold first_child. apply (siblings_after_suffix p _ []); [reflexivity | exact H]. Qed.

  (* following-sibling axis from a child x of p: the children after x, in document order *)
  Theorem following_sibling_walk p pre x post fuel :
    n_children (get d p) = pre ++ x :: post -> length post <= fuel ->
    siblings_after d fuel (next_sibling d x) = post.
  Proof.
    intros Hc Hf. rewrite (next_sibling_spec p pre x post Hc).
    apply (siblings_after_suffix p post (pre ++ [x])); [rewrite <- app_assoc; exact Hc | exact Hf].
  Qed.

  (* preceding-sibling axis from a child x of p: the children before x, nearest first *)
  Theorem preceding_sibling_walk p pre x post fuel :
    n_children (get d p) = pre ++ x :: post -> length pre <= fuel ->
    siblings_before d fuel (prev_sibling d x) = rev pre.
  Proof.
    intros Hc Hf. rewrite (prev_sibling_spec p pre x post Hc).
    apply (siblings_before_prefix p pre (x :: post)); assumption.
  Qed.
End Walks.
