"""gen_exec2 — regenerates coq/GenExec2.v: the BODIES of the specialised evaluation helpers of XPath
(src/xalanc/XPath/XPath.cpp, XPath.hpp) and of the arms of the six `executeMore` switches with those
helpers inlined, as terms of the language of coq/Exec2Defs.v.

The clang JSON AST (overloads resolved by the compiler; plumbing shared with gen_exec.py) of each body
is executed symbolically: the op-map position (opPos, opPos + 2, getNextOpCodePosition), the locals,
the out parameters of the entry point (bool& / double& / XalanDOMString& / FormatterListener +
member function / MutableNodeRefList&), the calls of other XPath members (inlined through the
declaration clang resolved), the static conversions of XObject, the member conversions of XObject and
XToken, DoubleSupport.  For every conversion of a node or a node list the term records whether the
overload taking the XPathExecutionContext is the one called.  Anything else is an AnchorError
(fail closed)."""
import os, re, hashlib
import srcfacts
from srcfacts import AnchorError, HEADER
import gen_exec as G

SKIP_WRAP = {"ExprWithCleanups", "MaterializeTemporaryExpr", "CXXBindTemporaryExpr", "ImplicitCastExpr", "ParenExpr",
             "ConstantExpr", "CXXFunctionalCastExpr", "CXXStaticCastExpr"}


def is_assert_rest(n):
    """static_cast<void>(0): what assert() expands to under NDEBUG"""
    while n.get("kind") in ("ParenExpr",) and len(n.get("inner", [])) == 1:
        n = n["inner"][0]
    if n.get("kind") == "CXXStaticCastExpr" and G.ty(n) == "void":
        return True
    return False


def T(n):
    """normalised expression"""
    while True:
        k = n.get("kind")
        inner = n.get("inner", [])
        if k in SKIP_WRAP and len(inner) == 1:
            n = inner[0]
        elif k == "CXXConstructExpr" and len(inner) == 1 and G.ty(n) in ("const XObjectPtr", "XObjectPtr"):
            n = inner[0]
        else:
            break
    if k == "DeclRefExpr":
        rd = n["referencedDecl"]
        if rd.get("kind") == "CXXMethodDecl":
            return ("fnref", rd.get("name"))
        if rd.get("kind") == "EnumConstantDecl":
            return ("enum", rd.get("name"))
        return ("ref", rd.get("name"))
    if k == "CXXBoolLiteralExpr":
        return ("lit", bool(n.get("value")))
    if k in ("IntegerLiteral", "FloatingLiteral"):
        return ("lit", str(n.get("value")))
    if k == "CXXThisExpr":
        return ("this",)
    if k == "MemberExpr":
        return ("member", n.get("name"), T(inner[0]) if inner else ("this",))
    if k == "CXXMemberCallExpr":
        me = inner[0]
        while me.get("kind") in SKIP_WRAP and len(me.get("inner", [])) == 1:
            me = me["inner"][0]
        if me.get("kind") != "MemberExpr":
            raise AnchorError("member call without MemberExpr")
        obj = T(me["inner"][0]) if me.get("inner") else ("this",)
        return ("mcall", me.get("name"), obj, tuple(T(a) for a in inner[1:]), me.get("referencedMemberDecl"),
                tuple(G.ty(G.strip(a)) for a in inner[1:]))
    if k == "CXXOperatorCallExpr":
        cal = G.strip(inner[0])
        op = cal.get("referencedDecl", {}).get("name", "?")
        args = tuple(T(a) for a in inner[1:])
        if op in ("operator*", "operator->") and len(args) == 1:
            return args[0]
        if op == "operator=" and len(args) == 2:
            return ("assign", args[0], args[1])
        return ("opcall", op, args)
    if k == "CallExpr":
        cal = G.strip(inner[0])
        if cal.get("kind") != "DeclRefExpr":
            raise AnchorError("call through something that is not a function name")
        rd = cal["referencedDecl"]
        return ("call", rd.get("name"), G.clean_ty(rd.get("type", {}).get("qualType")), tuple(T(a) for a in inner[1:]))
    if k == "BinaryOperator":
        if n.get("opcode") == "=":
            return ("assign", T(inner[0]), T(inner[1]))
        return ("bin", n.get("opcode"), T(inner[0]), T(inner[1]))
    if k == "CompoundAssignOperator":
        return ("cassign", n.get("opcode"), T(inner[0]), T(inner[1]))
    if k == "UnaryOperator":
        if n.get("opcode") in ("*", "&"):
            return T(inner[0])
        return ("un", n.get("opcode"), bool(n.get("isPostfix")), T(inner[0]))
    if k == "ConditionalOperator":
        return ("cond", T(inner[0]), T(inner[1]), T(inner[2]))
    if k in ("CXXTemporaryObjectExpr", "CXXConstructExpr"):
        return ("construct", G.ty(n), tuple(T(a) for a in inner))
    return ("other", k)


def stmt_repr(n):
    """structure of a statement (for the bodies that are recognised as a whole)"""
    k = n.get("kind")
    inner = n.get("inner", [])
    if k == "CompoundStmt":
        return ("block",) + tuple(stmt_repr(c) for c in inner if not is_assert_rest(c))
    if k == "DeclStmt":
        out = []
        for d in inner:
            if d.get("kind") == "VarDecl":
                init = [c for c in d.get("inner", []) if "Expr" in c.get("kind", "") or "Operator" in c.get("kind", "") or "Literal" in c.get("kind", "")]
                out.append(("var", d.get("name"), G.ty(d), T(init[0]) if init else None))
        return ("decl",) + tuple(out)
    if k in ("IfStmt", "WhileStmt", "ForStmt"):
        return (k,) + tuple(stmt_repr(c) for c in inner)
    if k == "ReturnStmt":
        return ("return", T(inner[0]) if inner else None)
    if k in ("BreakStmt", "NullStmt", "ContinueStmt"):
        return (k,)
    return ("expr", T(n))


def digest(x):
    """digest of a normalised statement; clang's node ids (0x...) are not part of it"""
    return hashlib.sha256(re.sub(r"'0x[0-9a-f]+'", "'id'", repr(x)).encode()).hexdigest()[:16]


# bodies recognised as a whole (the form of their loop / branch is pinned here; see Exec2Defs.v)
PINNED = {
    "getNumericOperand": None, "Union/list": None, "functionSum": None,
}

PRIMITIVE_OBJ = {"runFunction": "OFunction", "runExtFunction": "OExtFunction"}

ARITH = {"add": "AAdd", "subtract": "ASub", "multiply": "AMul", "divide": "ADiv", "modulus": "AMod"}
RND = {"floor": "RFloor", "ceiling": "RCeiling", "round": "RRound"}
CMP = {"equals": "CEq", "notEquals": "CNe", "lessThan": "CLt", "lessThanOrEquals": "CLe", "greaterThan": "CGt",
       "greaterThanOrEquals": "CGe"}


def cb(b):
    return "true" if b else "false"


class Store:
    def __init__(self):
        self.v = {}
        self.n = 0
        self.out = set()

    def new(self, val, out=False):
        self.n += 1
        self.v[self.n] = val
        if out:
            self.out.add(self.n)
        return self.n


class Ret(Exception):
    def __init__(self, val):
        self.val = val


class Frame:
    """symbolic execution of one function body"""

    def __init__(self, tr, store, env, what):
        self.tr, self.st, self.env, self.what = tr, store, env, what
        self.condobj = None
        self.failed = False

    def err(self, msg):
        raise AnchorError("%s: %s" % (self.what, msg))

    # ---- values
    def loc(self, t):
        if t[0] == "ref" and t[1] in self.env:
            return self.env[t[1]]
        if t[0] == "mcall" and t[1] == "get" and not t[3]:
            return self.loc(t[2])
        return None

    def rd(self, l):
        v = self.st.v[l]
        if v[0] == "alias":
            return self.rd(v[1])
        return v

    def target(self, l):
        while self.st.v[l][0] == "alias":
            l = self.st.v[l][1]
        return l

    def wr(self, l, val):
        self.st.v[self.target(l)] = val

    def is_out(self, l):
        return self.target(l) in self.st.out

    def operand(self, p):
        if p == ("off", 2):
            return 1
        if p[0] == "opnd":
            return p[1]
        self.err("executeMore on a position that is not an operand of this node: %r" % (p,))

    def ev(self, t):
        k = t[0]
        if k == "ref":
            if t[1] in self.env:
                v = self.rd(self.env[t[1]])
                if v[0] == "nllist":
                    if self.condobj is not None and self.condobj[1] == v[1]:
                        return ("L", "LEval %d" % v[1])
                    self.err("the list filled by executeMore is read without looking at the returned object")
                if v[0] == "cell":
                    self.err("an empty node list is read")
                return v
            if t[1] == "s_emptyString":
                return ("emptystr",)
            self.err("unknown name %s" % t[1])
        if k == "lit":
            if isinstance(t[1], bool):
                return ("B", "BLit %s" % cb(t[1]))
            return ("int", t[1])
        if k == "fnref":
            return ("fnref", t[1])
        if k == "enum":
            return ("enum", t[1])
        if k == "member":
            if t[2] == ("this",) and t[1] in ("m_expression", "m_locator", "m_inStylesheet"):
                return ("field", t[1])
            self.err("member %s" % t[1])
        if k == "bin":
            return self.ev_bin(t)
        if k == "un":
            if t[1] == "!":
                v = self.ev(t[3])
                if v[0] == "B":
                    return ("B", "BNot (%s)" % v[1])
            self.err("unary operator %s" % t[1])
        if k == "cond":
            c = self.ev(t[1])
            if c[0] == "notnull":
                old, self.condobj = self.condobj, c[1]
                a, b = self.ev(t[2]), self.ev(t[3])
                self.condobj = old
                if a != b:
                    self.err("the two branches of a '? :' on the returned object differ: %r / %r" % (a, b))
                return a
            self.err("conditional expression on %r" % (c,))
        if k == "call":
            return self.ev_call(t)
        if k == "mcall":
            return self.ev_mcall(t)
        if k == "construct":
            if t[1].endswith("XalanQNameByReference") and len(t[2]) == 2:
                return ("qname", self.ev(t[2][0]), self.ev(t[2][1]))
            self.err("construction of a %s" % t[1])
        if k == "assign":
            return self.do_assign(t)
        self.err("expression of kind %r" % (t[:2],))

    def ev_bin(self, t):
        op, a, b = t[1], self.ev(t[2]), self.ev(t[3])
        if op == "+" and a[0] == "off" and b[0] == "int":
            return ("off", a[1] + int(b[1]))
        if op in ("==", "!=") and b[0] == "B" and b[1] in ("BLit true", "BLit false"):
            want = (b[1] == "BLit true") == (op == "==")
            if a[0] == "B":
                return a if want else ("B", "BNot (%s)" % a[1])
            if a[0] == "isnull":
                return ("isnull", a[1]) if want else ("notnull", a[1])
            if a == ("field", "m_inStylesheet"):
                return ("instylesheet", want)
        if op == "==" and a[0] == "len" and b == ("int", "0"):
            return ("isempty", a[1])
        self.err("operator %s on %r, %r" % (op, a, b))

    def conv_args(self, args):
        """(values) -> aware?, rest"""
        aware = any(a == ("ec",) for a in args)
        return aware, [a for a in args if a != ("ec",) and a != ("mm",)]

    def send(self, rest, sterm):
        """the targets of a string conversion: XalanDOMString& or FormatterListener&, function"""
        if len(rest) == 1 and rest[0][0] == "lv":
            l = rest[0][1]
            v = self.rd(l)
            if v[0] == "sacc":
                self.wr(l, ("sacc", v[1] + [sterm]))
                return ("unit",)
        if len(rest) == 2 and rest[0][0] == "lv" and rest[1][0] in ("lv", "fnref"):
            v = self.rd(rest[0][1])
            if v[0] == "facc":
                f = self.rd(rest[1][1]) if rest[1][0] == "lv" else rest[1]
                if not ((f == ("ffn",)) or (f == ("fnref", "characters"))):
                    self.err("characters are sent through %r" % (f,))
                self.wr(rest[0][1], ("facc", v[1] + [sterm]))
                return ("unit",)
            if v[0] == "counter":
                if rest[1] != ("fnref", "characters"):
                    self.err("the counter is not driven through FormatterListener::characters")
                if v[1] is not None:
                    self.err("two conversions into one counter")
                self.wr(rest[0][1], ("counter", ("S", sterm)))
                return ("unit",)
        self.err("string conversion into %r" % (rest,))

    def arg_vals(self, args):
        """arguments of a conversion: locations of string / listener targets stay locations"""
        out = []
        for a in args:
            l = self.loc(a)
            if l is not None and self.rd(l)[0] in ("sacc", "facc", "counter", "ffn"):
                out.append(("lv", l))
            else:
                out.append(self.ev(a))
        return out

    def ev_call(self, t):
        name, fnty = t[1], t[2]
        vals = self.arg_vals(t[3])
        aware, rest = self.conv_args(vals)
        rest = [self.node_string(v) if v[0] == "Sfn" and v[2] == ("node", "ctx") else v for v in rest]
        if name == "boolean" and len(rest) == 1 and fnty.startswith("bool ("):
            v = rest[0]
            if v[0] == "N":
                return ("B", "BOfNum (%s)" % v[1])
            if v[0] == "S":
                return ("B", "BOfStr (%s)" % v[1])
            if v[0] == "L":
                return ("B", "BOfNodes (%s)" % v[1])
        if name == "number" and len(rest) == 1 and fnty.startswith("double ("):
            v = rest[0]
            if v[0] == "B":
                return ("N", "NOfBool (%s)" % v[1])
            if v[0] == "S":
                return ("N", "NOfStr (%s)" % v[1])
            if v[0] == "L":
                return ("N", "NOfNodes %s (%s)" % (cb(aware), v[1]))
            if v == ("node", "ctx"):
                return ("N", "NOfCtxNode %s" % cb(aware))
        if name in ("string", "stringToCharacters") and len(rest) >= 2 and fnty.startswith("void ("):
            v = rest[0]
            if v[0] == "B":
                return self.send(rest[1:], "SOfBool (%s)" % v[1])
            if v[0] == "N":
                return self.send(rest[1:], "SOfNum (%s)" % v[1])
            if v[0] == "L":
                return self.send(rest[1:], "SOfNodes %s (%s)" % (cb(aware), v[1]))
            if v[0] == "S":
                return self.send(rest[1:], v[1])
        if name in ARITH and len(rest) == 2 and rest[0][0] == "N" and rest[1][0] == "N":
            return ("N", "NArith %s (%s) (%s)" % (ARITH[name], rest[0][1], rest[1][1]))
        if name == "negative" and len(rest) == 1 and rest[0][0] == "N":
            return ("N", "NNeg (%s)" % rest[0][1])
        if name in RND and len(rest) == 1 and rest[0][0] == "N":
            return ("N", "NRnd %s (%s)" % (RND[name], rest[0][1]))
        if name == "getNameOfNode" and len(rest) == 1 and rest[0][0] == "node":
            return ("Sfn", "FnName", rest[0])
        if name == "getNodeData" and len(rest) == 3 and rest[0] == ("node", "ctx"):
            self.send(rest[1:], "@ctxnode %s" % cb(aware))
            return ("unit",)
        self.err("call of %s :: %s" % (name, fnty))

    def node_string(self, v):
        """Sfn value -> S value"""
        if v[0] == "Sfn":
            if v[2] == ("node", "ctx"):
                return ("S", "SOfCtx %s" % v[1])
            self.err("name of a node that is not the context node outside the empty-list test")
        return v

    def ev_mcall(self, t):
        name, objt, args, refid = t[1], t[2], t[3], t[4]
        if objt == ("this",):
            return self.call_member(name, args, refid)
        if objt == ("member", "m_expression", ("this",)):
            a = [self.ev(x) for x in args]
            if name == "getNextOpCodePosition" and len(a) == 1:
                if a[0] == ("off", 2):
                    return ("opnd", 2)
                if a[0][0] == "opnd":
                    return ("opnd", a[0][1] + 1)
            if name == "getOpCodeMapValue" and len(a) == 1 and a[0][0] == "off" and a[0][1] >= 2:
                return ("slot", a[0][1])
            if name == "getToken" and len(a) == 1 and a[0][0] == "slot":
                return ("tok", a[0][1])
            self.err("m_expression.%s(%r)" % (name, a))
        l = self.loc(objt)
        if l is not None and self.rd(l)[0] in ("sacc",) and name == "append" and len(args) == 1:
            s = self.node_string(self.ev(args[0]))
            if s[0] != "S":
                self.err("append of %r" % (s,))
            self.wr(l, ("sacc", self.rd(l)[1] + [s[1]]))
            return ("unit",)
        # FormatterStringLengthCounter: getCount() (UTF-16 code units) before the repair cf87ee6, getCharacterCount()
        # (code points) after it; what is counted per character is the string-length model of XpDefs / C02k, the
        # body language records only WHAT is sent to the counter
        if l is not None and self.rd(l)[0] == "counter" and name in ("getCount", "getCharacterCount") and not args:
            v = self.rd(l)[1]
            if v is None:
                self.err("the counter is read before anything was sent to it")
            if v[1].startswith("@ctxnode "):
                return ("N", "NLen (CCtxNode %s)" % v[1].split()[1])
            if v[0] == "C":
                return ("N", "NLen (%s)" % v[1])
            self.err("the counter received %r" % (v,))
        obj = self.ev(objt)
        vals = self.arg_vals(args)
        aware, rest = self.conv_args(vals)
        if obj == ("ec",):
            if name == "getXObjectFactory" and not args:
                return ("factory",)
            if name == "getMemoryManager" and not args:
                return ("mm",)
            if name == "getContextNodeListPosition" and vals == [("node", "ctx")]:
                return ("N", "NPosition")
            if name == "getContextNodeListLength" and not args:
                return ("N", "NLast")
            if name == "getVariable" and len(vals) == 2 and vals[0] == ("qname", ("S", "STok 2"), ("S", "STok 3")) and vals[1] == ("field", "m_locator"):
                return ("O", "OVariable")
            self.err("executionContext.%s(%r)" % (name, vals))
        if obj == ("factory",) and len(vals) == 1:
            v = self.node_string(vals[0])
            if name == "createBoolean" and v[0] == "B":
                return ("O", "OBool (%s)" % v[1])
            if name == "createNumber" and v[0] == "N":
                return ("O", "ONum (%s)" % v[1])
            if name == "createNumber" and v[0] == "tok":
                return ("O", "ONum (NTok %d)" % v[1])
            if name in ("createString", "createStringReference") and v[0] == "S":
                return ("O", "OStr (%s)" % v[1])
            if name == "createString" and v[0] == "tok":
                return ("O", "OStr (STok %d)" % v[1])
            if name == "createNodeSet" and v[0] == "L":
                return ("O", "ONodes (%s)" % v[1])
            self.err("factory.%s(%r)" % (name, v))
        if obj[0] == "tok":
            if name == "boolean" and not args:
                return ("B", "BTok %d" % obj[1])
            if name == "num" and not args:
                return ("N", "NTok %d" % obj[1])
            if name == "str" and not args:
                return ("S", "STok %d" % obj[1])
            if name == "str" and len(rest) == 2:
                return self.send(rest, "STok %d" % obj[1])
            self.err("token->%s" % name)
        if obj[0] == "O":
            if name == "get" and not args:
                return obj
            if name == "boolean" and not rest:
                return ("B", "BOfObj (%s)" % obj[1]) if aware else self.err("->boolean() without the execution context")
            if name == "num" and not rest:
                return ("N", "NOfObj %s (%s)" % (cb(aware), obj[1]))
            if name == "str" and rest:
                return self.send(rest, "SOfObj %s (%s)" % (cb(aware), obj[1]))
            if name in CMP and len(rest) == 1 and rest[0][0] == "O" and aware:
                return ("B", "BCmp %s (%s) (%s)" % (CMP[name], obj[1], rest[0][1]))
            self.err("object->%s(%r)" % (name, vals))
        if obj[0] == "nlobj":
            if name == "null" and not args:
                return ("isnull", obj)
            if name == "nodeset" and not args:
                if self.condobj == obj:
                    return ("L", "LEval %d" % obj[1])
                return ("objnodes", obj)
            self.err("returned object ->%s" % name)
        if obj[0] == "L":
            if name == "get" and not args:
                return obj
            if name == "getLength" and not args:
                return ("len", obj[1])
            if name == "item" and vals == [("int", "0")]:
                return ("node", "item0", obj[1])
            self.err("list.%s" % name)
        if obj[0] == "len":
            pass
        self.err("call of %s on %r" % (name, obj))

    def call_member(self, name, args, refid):
        tr = self.tr
        if name == "executeMore":
            return self.exec_more(args)
        if name in ("unknownOpCodeError", "notNodeSetError"):
            self.failed = True
            return ("unit",)
        if name in PRIMITIVE_OBJ:
            self.check_std_args(name, args, ["context", "opPos", "executionContext"])
            return ("O", PRIMITIVE_OBJ[name])
        if name == "getNumericOperand":
            tr.check_pinned("getNumericOperand")
            a = [self.ev(x) for x in args]
            if len(a) != 3 or a[0] != ("node", "ctx") or a[2] != ("ec",):
                self.err("getNumericOperand(%r)" % (a,))
            return ("N", "NOperand %d" % self.operand(a[1]))
        if name == "step":
            a = [self.ev(x) for x in args[:3]]
            l = self.loc(args[3]) if len(args) == 4 else None
            if a != [("ec",), ("node", "ctx"), ("off", 2)] or l is None or self.rd(l) != ("cell",):
                self.err("step(%r)" % (a,))
            self.wr(l, ("L", "LSteps"))
            return ("unit",)
        if name == "functionLocalName" and len(args) == 1:
            v = self.ev(args[0])
            if v[0] != "node":
                self.err("functionLocalName(%r)" % (v,))
            return ("Sfn", "FnLocalName", v)
        decl = tr.resolve(name, refid, self.what)
        params = tr.params(decl)
        if len(params) != len(args):
            self.err("call of %s with %d arguments" % (name, len(args)))
        key = tr.key(decl)
        if key == tr.union_list_key:
            tr.check_pinned("Union/list")
            a = [self.ev(x) for x in args[:3]]
            l = self.loc(args[3])
            if a != [("node", "ctx"), ("off", 0), ("ec",)] or l is None or self.rd(l) != ("cell",):
                self.err("Union(%r, list)" % (a,))
            self.wr(l, ("L", "LUnionOperands"))
            return ("unit",)
        if key == tr.sum_key:
            aware = tr.check_pinned("functionSum")
            a = [self.ev(x) for x in args]
            if a != [("node", "ctx"), ("off", 0), ("ec",)]:
                self.err("functionSum(%r)" % (a,))
            return ("N", "NSum %s (LEval 1)" % cb(aware))
        env = {}
        for (pn, pty), a in zip(params, args):
            l = self.loc(a)
            if l is not None and pty.endswith("&"):
                env[pn] = l
            elif a[0] in ("ref",) and a[1] in self.env and self.rd(self.env[a[1]])[0] in ("ffn",):
                env[pn] = self.env[a[1]]
            else:
                env[pn] = self.st.new(self.ev(a))
        fr = Frame(tr, self.st, env, "%s > %s" % (self.what, key))
        v = fr.run(decl)
        if fr.failed:
            self.failed = True
        return v

    def check_std_args(self, name, args, want):
        if [a[1] if a[0] == "ref" else None for a in args] != want:
            self.err("arguments of %s" % name)

    def exec_more(self, args):
        if len(args) < 3:
            self.err("executeMore with %d arguments" % len(args))
        a = [self.ev(x) for x in args[:3]]
        if a[0] != ("node", "ctx") or a[2] != ("ec",):
            self.err("executeMore not on the context node / execution context")
        k = self.operand(a[1])
        rest = args[3:]
        if not rest:
            return ("O", "OEval %d" % k)
        if len(rest) == 1:
            l = self.loc(rest[0])
            if l is None:
                self.err("executeMore writes to something that is not a variable")
            v = self.rd(l)
            if v == ("out", "B") or v == ("out", "N"):
                self.wr(l, ("deleg", k))
                return ("unit",)
            if v == ("sacc", []) and self.is_out(l):
                self.wr(l, ("deleg", k))
                return ("unit",)
            if v == ("uninit", "bool") or (v[0] == "B" and not self.is_out(l)):
                self.wr(l, ("B", "BEval %d" % k))
                return ("unit",)
            if v == ("uninit", "double") or (v[0] == "N" and not self.is_out(l)):
                self.wr(l, ("N", "NEvalLocal %d" % k))
                return ("unit",)
            if v == ("cell",):
                self.wr(l, ("nllist", k))
                return ("nlobj", k, self.target(l))
            self.err("executeMore writes to a variable holding %r" % (v,))
        if len(rest) == 2:
            l = self.loc(rest[0])
            v = self.rd(l) if l is not None else None
            if v == ("facc", []) and self.is_out(l):
                l2 = self.loc(rest[1])
                if l2 is None or self.rd(l2) != ("ffn",):
                    self.err("executeMore(listener) with another member function")
                self.wr(l, ("deleg", k))
                return ("unit",)
            if v == ("counter", None):
                if self.ev(rest[1]) != ("fnref", "characters"):
                    self.err("the counter is not driven through FormatterListener::characters")
                self.wr(l, ("counter", ("C", "CEval %d" % k)))
                return ("unit",)
        self.err("executeMore overload not recognised")

    def do_assign(self, t):
        lhs, rhs = t[1], t[2]
        l = self.loc(lhs)
        if l is None:
            self.err("assignment to %r" % (lhs,))
        cur = self.rd(l)
        v = self.ev(rhs)
        if cur[0] in ("off", "opnd"):
            if v[0] not in ("off", "opnd"):
                self.err("position assigned %r" % (v,))
            self.wr(l, v)
            return ("unit",)
        if cur == ("out", "B") or cur == ("uninit", "bool") or cur[0] == "B":
            if v[0] == "N":
                v = ("B", "BImplicit (%s)" % v[1])
            if v[0] != "B":
                self.err("bool assigned %r" % (v,))
            self.wr(l, v)
            return ("unit",)
        if cur == ("out", "N") or cur == ("uninit", "double") or cur[0] == "N":
            if v[0] != "N":
                self.err("double assigned %r" % (v,))
            self.wr(l, v)
            return ("unit",)
        if cur == ("objslot",):
            self.wr(l, v)
            return ("unit",)
        self.err("assignment to a variable holding %r" % (cur,))

    # ---- statements
    def run(self, decl):
        body = [c for c in decl.get("inner", []) if c.get("kind") == "CompoundStmt"]
        if len(body) != 1:
            self.err("no body")
        try:
            self.block(body[0])
        except Ret as r:
            if r.val[0] == "len":       # a size_type returned as a double
                return ("N", "NCount (%s)" % r.val[1])
            return r.val
        return ("unit",)

    def block(self, n):
        for st in n.get("inner", []):
            self.stmt(st)

    def stmt(self, st):
        k = st.get("kind")
        if is_assert_rest(st) or k == "NullStmt":
            return
        if k == "CompoundStmt":
            return self.block(st)
        if k == "DeclStmt":
            for d in st.get("inner", []):
                if d.get("kind") == "TypedefDecl":
                    continue
                if d.get("kind") != "VarDecl":
                    self.err("declaration of kind %s" % d.get("kind"))
                self.var_decl(d)
            return
        if k == "ReturnStmt":
            inner = st.get("inner", [])
            raise Ret(self.ev(T(inner[0])) if inner else ("unit",))
        if k == "IfStmt":
            return self.if_stmt(st)
        if k in ("WhileStmt", "ForStmt", "DoStmt", "SwitchStmt"):
            return self.loop_stmt(st)
        t = T(st)
        if t[0] == "cassign" and t[1] == "+=":
            l = self.loc(t[2])
            if l is not None and self.rd(l) == ("off", 0) and self.ev(t[3])[0] == "int":
                self.wr(l, ("off", int(self.ev(t[3])[1])))
                return
            self.err("compound assignment")
        v = self.ev(t)
        return

    def var_decl(self, d):
        name, ty = d.get("name"), G.ty(d)
        init = [c for c in d.get("inner", []) if c.get("kind") not in ("TypedefType", "ElaboratedType", "RecordType")]
        base = re.sub(r"^const\s+", "", ty)
        if base.endswith("BorrowReturnMutableNodeRefList"):
            self.env[name] = self.st.new(("cell",))
            return
        if base == "FormatterStringLengthCounter":
            self.env[name] = self.st.new(("counter", None))
            return
        if base in ("bool", "double") and not init:
            self.env[name] = self.st.new(("uninit", base))
            return
        if not init:
            self.err("variable %s : %s without initialiser" % (name, ty))
        t = T(init[0])
        if ty.endswith("&"):
            l = self.loc(t)
            if l is None:
                self.err("reference %s bound to something that is not a variable" % name)
            self.env[name] = l
            return
        v = self.ev(t)
        if v[0] == "objnodes":
            self.err("node-set of the returned object read without testing null()")
        self.env[name] = self.st.new(v)

    def branch_returns(self, n):
        """value returned by a branch consisting of one return statement"""
        sts = [c for c in (n.get("inner", []) if n.get("kind") == "CompoundStmt" else [n]) if not is_assert_rest(c)]
        if len(sts) != 1 or sts[0].get("kind") != "ReturnStmt" or not sts[0].get("inner"):
            return None
        return T(sts[0]["inner"][0])

    def if_stmt(self, st):
        inner = st.get("inner", [])
        c = self.ev(T(inner[0]))
        then, els = inner[1], inner[2] if len(inner) > 2 else None
        if c[0] == "instylesheet" and els is not None:
            a, b = self.branch_returns(then), self.branch_returns(els)
            if a is None or b is None:
                self.err("branches on m_inStylesheet that are not return statements")
            va, vb = self.ev(a), self.ev(b)
            if va != vb:
                self.err("the stylesheet / non-stylesheet branches return different values: %r / %r" % (va, vb))
            raise Ret(va)
        if c[0] == "isempty" and els is not None:
            a, b = self.branch_returns(then), self.branch_returns(els)
            if a is None or b is None:
                self.err("branches on getLength() == 0 that are not return statements")
            va, vb = self.ev(a), self.ev(b)
            if va == ("emptystr",) and vb[0] == "Sfn" and vb[2] == ("node", "item0", c[1]):
                raise Ret(("S", "SFirstOrEmpty %s (%s)" % (vb[1], c[1])))
            self.err("empty-list test with branches %r / %r" % (va, vb))
        if c[0] == "B" and els is None:
            # if (x == false) { ...; x = b }  /  if (x == true) { ...; x = b }: short circuit
            tc = T(inner[0])
            if tc[0] == "bin" and tc[2][0] == "ref" and tc[3][0] == "lit":
                l = self.loc(tc[2])
                if l is not None and self.rd(l)[0] == "B":
                    old = self.rd(l)
                    lit = tc[3][1] == (tc[1] == "==")
                    pos_l = self.env.get("opPos")
                    pos_old = self.rd(pos_l) if pos_l is not None else None
                    snapshot = dict(self.st.v)
                    self.stmt(then)
                    new = self.rd(l)
                    changed = [x for x in self.st.v if self.st.v[x] != snapshot.get(x) and x != self.target(l) and (pos_l is None or x != self.target(pos_l))]
                    if changed or new[0] != "B":
                        self.err("the guarded block of a short circuit changes more than the flag")
                    self.wr(l, ("B", ("BAndAlso (%s) (%s)" if lit else "BOrElse (%s) (%s)") % (old[1], new[1])))
                    if pos_l is not None and self.rd(pos_l) != pos_old:
                        self.wr(pos_l, ("posbad",))
                    return
        if c[0] == "notnull" and els is None:
            # group(list): a returned object is merged into the caller's list in document order
            obj = c[1]
            sts = [T(x) for x in (then.get("inner", []) if then.get("kind") == "CompoundStmt" else [then]) if not is_assert_rest(x)]
            if len(sts) == 2 and sts[0][0] == "mcall" and sts[0][1] == "addNodesInDocOrder" and sts[1][0] == "mcall" and sts[1][1] == "setDocumentOrder":
                l = self.loc(sts[0][2])
                if l is not None and self.target(l) == obj[2] and self.loc(sts[1][2]) is not None and self.target(self.loc(sts[1][2])) == obj[2] \
                        and self.rd(l) == ("nllist", obj[1]) and len(sts[0][3]) == 2 and self.ev(sts[0][3][0]) == ("objnodes", obj) and self.ev(sts[0][3][1]) == ("ec",):
                    self.wr(l, ("L", "LEvalMerged %d" % obj[1]))
                    return
            self.err("block guarded by null() == false not recognised")
        self.err("if statement on %r" % (c,))

    def loop_stmt(self, st):
        d = digest(stmt_repr(st))
        if d == self.tr.ANY_FILLS_LOOP:
            # Union(bool&) as a loop of its own: result = false before, true when an operand fills the list
            l = self.env.get("result")
            if l is not None and self.rd(l) == ("B", "BLit false"):
                self.wr(l, ("B", "BAnyOperandFills"))
                return
        self.err("loop not recognised (digest %s)" % d)


class Translator:
    # digest of the loop of the variant of Union(.., bool&) that does not build the union
    ANY_FILLS_LOOP = "ec1aab77ec1bb320"
    PINS = {"getNumericOperand": "ac697eec85593e10", "Union/list": "1def24049cfda8bf", "functionSum": "5ca7ba84d48390ce"}

    def __init__(self, objs):
        self.objs = objs
        self.by_id = {}
        self.defs = []
        for o in objs:
            if o.get("kind") != "CXXMethodDecl":
                continue
            if any(c.get("kind") == "CompoundStmt" for c in o.get("inner", [])):
                self.defs.append(o)
                self.by_id[o.get("id")] = o
                if o.get("previousDecl"):
                    self.by_id[o["previousDecl"]] = o
        self.union_list_key = None
        self.sum_key = None
        for o in self.defs:
            k = self.key(o)
            if o.get("name") == "Union" and "MutableNodeRefList &" in k:
                self.union_list_key = k
            if o.get("name") == "functionSum":
                self.sum_key = k
        if self.union_list_key is None or self.sum_key is None:
            raise AnchorError("Union(.., MutableNodeRefList&) / functionSum not found")
        self.pinned_seen = {}

    def key(self, decl):
        return "%s :: %s" % (decl.get("name"), G.clean_ty(decl.get("type", {}).get("qualType")))

    def params(self, decl):
        return [(c.get("name"), G.ty(c)) for c in decl.get("inner", []) if c.get("kind") == "ParmVarDecl"]

    def resolve(self, name, refid, what):
        d = self.by_id.get(refid)
        if d is None or d.get("name") != name:
            raise AnchorError("%s: the definition of XPath::%s called here was not found" % (what, name))
        return d

    def find(self, name, pred):
        c = [o for o in self.defs if o.get("name") == name and pred(self.key(o))]
        if len(c) != 1:
            raise AnchorError("definition of XPath::%s not found or ambiguous" % name)
        return c[0]

    def check_pinned(self, which):
        if which in self.pinned_seen:
            return self.pinned_seen[which]
        if which == "getNumericOperand":
            d = self.find("getNumericOperand", lambda k: True)
        elif which == "Union/list":
            d = self.find("Union", lambda k: k == self.union_list_key)
        else:
            d = self.find("functionSum", lambda k: True)
        body = [c for c in d.get("inner", []) if c.get("kind") == "CompoundStmt"][0]
        r = stmt_repr(body)
        aware = None
        if which == "functionSum":
            # the getNodeData call of the loop: with or without the execution context
            found = []

            def walk(x):
                if isinstance(x, tuple):
                    if len(x) >= 4 and x[0] == "call" and x[1] == "getNodeData":
                        found.append(x)
                    for y in x:
                        walk(y)
            walk(r)
            if len(found) != 1:
                raise AnchorError("functionSum: expected one getNodeData call")
            aware = any(a == ("ref", "executionContext") for a in found[0][3])

            def norm(x):
                if isinstance(x, tuple):
                    if len(x) >= 4 and x[0] == "call" and x[1] == "getNodeData":
                        return ("call", "getNodeData", "*", tuple(a for a in x[3] if a != ("ref", "executionContext")))
                    return tuple(norm(y) for y in x)
                return x
            r = norm(r)
        dg = digest(r)
        if dg != self.PINS[which]:
            raise AnchorError("the body of %s is not of the form the model's primitive was written from (digest %s)" % (which, dg))
        self.pinned_seen[which] = aware
        return aware

    # ---- running one helper body / one arm
    def fresh(self, entry, params):
        st = Store()
        env = {}
        for pn, pty in params:
            if pn == "context":
                env[pn] = st.new(("node", "ctx"))
            elif pn == "opPos":
                env[pn] = st.new(("off", 0))
            elif pn == "executionContext":
                env[pn] = st.new(("ec",))
            elif pty == "bool &":
                env[pn] = st.new(("out", "B"), out=True)
            elif pty == "double &":
                env[pn] = st.new(("out", "N"), out=True)
            elif pty == "XalanDOMString &":
                env[pn] = st.new(("sacc", []), out=True)
            elif pty == "FormatterListener &":
                env[pn] = st.new(("facc", []), out=True)
            elif pty == "XPath::MemberFunctionPtr":
                env[pn] = st.new(("ffn",))
            elif pty == "MutableNodeRefList &":
                env[pn] = st.new(("cell",), out=True)
            else:
                raise AnchorError("parameter %s : %s" % (pn, pty))
        return st, env

    def finish(self, fr, st, env, params, ret, what):
        """the one effect of a body"""
        effects = []
        if fr.failed:
            effects.append("Fail")
        for pn, pty in params:
            v = st.v[env[pn]]
            if pty == "bool &" and v != ("out", "B"):
                effects.append("Deleg %d" % v[1] if v[0] == "deleg" else "WrB (%s)" % v[1] if v[0] == "B" else None)
            elif pty == "double &" and v != ("out", "N"):
                effects.append("Deleg %d" % v[1] if v[0] == "deleg" else "WrN (%s)" % v[1] if v[0] == "N" else None)
            elif pty == "XalanDOMString &" and v != ("sacc", []):
                effects.append("Deleg %d" % v[1] if v[0] == "deleg" else "AppS (%s)" % v[1][0] if v[0] == "sacc" and len(v[1]) == 1 else None)
            elif pty == "FormatterListener &" and v != ("facc", []):
                effects.append("Deleg %d" % v[1] if v[0] == "deleg" else "SendF (%s)" % v[1][0] if v[0] == "facc" and len(v[1]) == 1 else None)
            elif pty == "MutableNodeRefList &" and v != ("cell",):
                if v[0] == "L":
                    effects.append("FillL (%s)" % v[1])
                elif v[0] == "nllist" and ret[0] == "nlobj" and ret[1] == v[1]:
                    effects.append("Deleg %d" % v[1])
                    ret = ("unit",)
                elif v[0] == "nllist" and ret == ("unit",):
                    # the object executeMore may have returned is dropped: only what it put into the list counts
                    effects.append("FillL (LEvalListOnly %d)" % v[1])
                else:
                    effects.append(None)
        if ret[0] == "Sfn":
            ret = fr.node_string(ret)
        if ret[0] in ("B", "N", "S", "O"):
            effects.append("Ret%s (%s)" % (ret[0], ret[1]))
        elif ret != ("unit",):
            raise AnchorError("%s: returns %r" % (what, ret))
        if None in effects or len(effects) != 1:
            raise AnchorError("%s: the body does not have exactly one recognised effect (%r)" % (what, effects))
        return effects[0]

    def helper_body(self, decl):
        what = self.key(decl)
        params = self.params(decl)
        st, env = self.fresh(None, params)
        fr = Frame(self, st, env, what)
        ret = fr.run(decl)
        return self.finish(fr, st, env, params, ret, what)

    def arm_body(self, entry, fn, stmts, what):
        params = self.params(fn)
        st, env = self.fresh(entry, params)
        if entry == "nodes":
            env["theXObject"] = st.new(("objslot",))
        fr = Frame(self, st, env, what)
        ret = ("unit",)
        try:
            for s in stmts:
                fr.stmt(s)
        except Ret as r:
            ret = r.val
        if entry == "nodes":
            v = st.v[env["theXObject"]]
            if v != ("objslot",):
                if ret != ("unit",):
                    raise AnchorError(what + ": returns and assigns theXObject")
                ret = v
        return self.finish(fr, st, env, params, ret, what)


# helpers whose overload bodies are reported one by one (GenExec2.helper_bodies)
REPORTED = [n for n in G.MODELLED if n not in ("getNumericOperand", "findNodeSet")]


def arms_of(entry, fn):
    """(labels, statements) of every arm of the switch, as gen_exec.switch_arms walks it"""
    body = [c for c in fn.get("inner", []) if c.get("kind") == "CompoundStmt"][0]
    sw = [c for c in body.get("inner", []) if c.get("kind") == "SwitchStmt"]
    if len(sw) != 1:
        raise AnchorError("executeMore(%s): expected exactly one switch" % entry)
    comp = sw[0]["inner"][-1]
    arms, cur = [], None
    for st in comp.get("inner", []):
        k = st.get("kind")
        if k in ("CaseStmt", "DefaultStmt"):
            if cur is not None:
                raise AnchorError("executeMore(%s) case %s: falls through" % (entry, "/".join(cur[0])))
            labels, n = [], st
            while n.get("kind") in ("CaseStmt", "DefaultStmt"):
                if n["kind"] == "DefaultStmt":
                    labels.append("default")
                    n = n["inner"][0]
                else:
                    lab = G.strip(n["inner"][0])
                    name = lab.get("referencedDecl", {}).get("name", "")
                    if not name.startswith("eOP_") or name[4:] not in G.OPCODES:
                        raise AnchorError("executeMore(%s): op-code %s is unknown to the model" % (entry, name))
                    labels.append(name[4:])
                    n = n["inner"][-1]
            cur = (labels, [n])
            if n.get("kind") == "ReturnStmt":
                arms.append(cur)
                cur = None
        elif k == "BreakStmt":
            if cur is not None:
                arms.append(cur)
                cur = None
        elif k == "ReturnStmt":
            if cur is not None:
                cur[1].append(st)
                arms.append(cur)
                cur = None
        else:
            if cur is None:
                raise AnchorError("executeMore(%s): statement outside any case" % entry)
            cur[1].append(st)
    if cur is not None:
        raise AnchorError("executeMore(%s): last arm falls out of the switch" % entry)
    return arms


OVL_OF = [("bool &", "OvOutB"), ("double &", "OvOutN"), ("XalanDOMString &)", "OvOutS"), ("FormatterListener &", "OvOutF"),
          ("MutableNodeRefList &", "OvOutL")]


def ovl_of(key):
    sig = key.split(" :: ", 1)[1]
    ret = sig.split("(")[0].strip()
    for pat, o in OVL_OF:
        if pat in sig and ret == "void":
            return o
    return {"bool": "OvBool", "double": "OvNum", "const XalanDOMString &": "OvStrRef", "const XObjectPtr": "OvObj"}.get(ret)


def gen_exec2():
    objs = G.load_ast()
    tr = Translator(objs)
    fns = {}
    for o in objs:
        if o.get("kind") == "CXXMethodDecl" and o.get("name") == "executeMore" and \
                any(c.get("kind") == "CompoundStmt" for c in o.get("inner", [])):
            e = G.entry_of(o)
            if e is None or e in fns:
                raise AnchorError("executeMore overload with an unknown or repeated signature")
            fns[e] = o
    if sorted(fns) != sorted(G.ENTRIES):
        raise AnchorError("executeMore overloads not found")
    tables = {}
    for e in G.ENTRIES:
        tab, default = {}, None
        for labels, stmts in arms_of(e, fns[e]):
            what = "executeMore(%s) case %s" % (e, "/".join(labels))
            b = tr.arm_body(e, fns[e], stmts, what)
            for l in labels:
                if l == "default":
                    default = b
                elif l in tab:
                    raise AnchorError(what + ": duplicate label")
                else:
                    tab[l] = b
        if default != "Fail":
            raise AnchorError("executeMore(%s): default arm is not unknownOpCodeError" % e)
        tables[e] = tab
    helpers = []
    for o in tr.defs:
        if o.get("name") in REPORTED:
            k = tr.key(o)
            ov = ovl_of(k)
            hk = (o.get("name"), any(pn == "opPos" for pn, _ in tr.params(o)))
            if ov is None or hk not in G.HELPERS:
                raise AnchorError("overload kind / helper constructor of %s" % k)
            ov = "%s, %s" % (G.HELPERS[hk], ov)
            if len(tr.params(o)) == 1 and o.get("name") == "functionLocalName":
                continue        # functionLocalName(XalanNode*): primitive FnLocalName
            if k == tr.union_list_key:
                tr.check_pinned("Union/list")
                helpers.append((k, ov, "FillL (LUnionOperands)"))
                continue
            if k == tr.sum_key:
                helpers.append((k, ov, "RetN (NSum %s (LEval 1))" % cb(tr.check_pinned("functionSum"))))
                continue
            helpers.append((k, ov, tr.helper_body(o)))
    tr.check_pinned("getNumericOperand")
    helpers.sort()
    out = HEADER
    out += "(* from the clang AST of src/xalanc/XPath/XPath.cpp + XPath.hpp: the bodies of the evaluation helpers and of the\n   arms of the six executeMore switches (helpers inlined), as terms of Exec2Defs.v *)\n"
    out += "From Coq Require Import NArith List String.\nRequire Import XV.XpDefs XV.ExecArms XV.Exec2Defs.\nImport ListNotations.\nLocal Open Scope string_scope.\n\n"
    for e in G.ENTRIES:
        out += "Definition body_%s (op : opcode) : body :=\n  match op with\n" % e
        for name in G.OPCODES:
            out += "  | OP_%s => %s\n" % (name, tables[e].get(name, "Fail"))
        out += "  end.\n\n"
    out += "(* every definition of a modelled helper: (name :: signature, helper, overload kind, body with its callees inlined) *)\n"
    out += "Definition helper_bodies : list (string * helper * ovl * body) := [\n"
    out += ";\n".join("  (%s, %s, %s)" % (G.coq_string(k), ov, b) for k, ov, b in helpers)
    out += "\n].\n"
    facts = {"helpers": len(helpers), "arms": {e: len(tables[e]) for e in G.ENTRIES},
             "context_free": [k for k, ov, b in helpers if re.search(r"\b(NOfNodes|NOfObj|NSum|NOfCtxNode|SOfNodes|SOfObj|CCtxNode) false", b)]
                             + ["%s/%s" % (e, n) for e in G.ENTRIES for n, b in tables[e].items()
                                if re.search(r"\b(NOfNodes|NOfObj|NSum|NOfCtxNode|SOfNodes|SOfObj|CCtxNode) false", b)]}
    return out, facts


GENERATORS = {"GenExec2": gen_exec2}

if __name__ == "__main__":
    import sys
    if len(sys.argv) > 1 and sys.argv[1] == "pins":
        tr = Translator(G.load_ast())
        for w in ("getNumericOperand", "Union/list", "functionSum"):
            try:
                tr.check_pinned(w)
                print(w, "ok")
            except AnchorError as ex:
                print(w, ex)
    else:
        text, facts = gen_exec2()
        print(text)
