"""C07 — compiled stylesheets and parsed sources can be shared by concurrent threads (PARTIAL).

proof : coq/Properties_C07.v — (A) generated census of direct shared-write capabilities == audited
        allow-list, every verdict non-SharedWrite except the listed finding; (B) non-interference of
        an abstract interpreter at step granularity under the frame condition, for all interleavings;
        (C) locked vs unlocked string-pool protocol.
tie   : translator/gen_thr.py -> coq/GenThr.v regenerated from /repo's sources on every run.
oracle: harness/thr.cpp, built against the ThreadSanitizer variant of the rebuilt library and
        plain: T threads x R rounds sharing one compiled stylesheet and/or one parsed source; every
        thread's bytes must equal the single-threaded run (done on separate, cold instances); any
        ThreadSanitizer report, crash or hang is a VIOLATION (replay = case + files + report).
Data races proper are only SAMPLED (schedules, stylesheets); said so in the claim."""
import os, re, shutil, time
from concurrent.futures import ThreadPoolExecutor
from vlib import core, thrgen

LEVEL = "proof"
FAMILY = "thr"
PID = "C07"
CORPUS = os.path.join(core.VERIF, "corpus", PID)
TSAN_OPTS = "halt_on_error=0 history_size=4 report_signal_unsafe=0 exitcode=66 second_deadlock_stack=1"

NOID_XML = ('<?xml version="1.0"?>\n<data><item id="i1"><name>a</name></item><item id="i2"><name>b</name></item>'
            '<ref to="i1"/><ref to="i2"/></data>\n')
IDONLY_XSL = ('<?xml version="1.0"?>\n<xsl:stylesheet version="1.0" xmlns:xsl="http://www.w3.org/1999/XSL/Transform">\n'
              '  <xsl:param name="tid"/>\n  <xsl:template match="/"><out tid="{$tid}" n="{count(id(\'i1 i2\'))}">'
              '<xsl:for-each select="//ref"><r><xsl:value-of select="count(id(@to))"/></r></xsl:for-each></out></xsl:template>\n'
              '</xsl:stylesheet>\n')


class Case:
    def __init__(self, cid, mode, sharexsl, T, R, yseed, xsl, xml, cls, facilities=(), pin=False):
        self.id, self.mode, self.sharexsl, self.T, self.R, self.yseed = cid, mode, sharexsl, T, R, yseed
        self.xsl, self.xml, self.cls, self.facilities, self.pin = xsl, xml, cls, tuple(facilities), pin

    def line(self, outdir):
        return "%s %s %d %d %d %d %s %s %s" % (self.id, self.mode, 1 if self.sharexsl else 0, self.T, self.R, self.yseed,
                                               outdir, self.xsl, self.xml)


def write(path, text):
    with open(path, "w", encoding="utf-8") as f:
        f.write(text)


def make_workdir(ctx):
    wd = os.path.join(core.OUT, PID, "work_%s_%d" % (ctx.tier, ctx.seed))
    shutil.rmtree(wd, ignore_errors=True)
    for old in os.listdir(os.path.join(core.OUT, PID)):
        if old.startswith("replay_"):
            os.remove(os.path.join(core.OUT, PID, old))
    os.makedirs(os.path.join(wd, "res_tsan"))
    os.makedirs(os.path.join(wd, "res_plain"))
    for f in ("doc2.xml", "imported.xsl", "noid.xml", "idonly.xsl", "uent.xsl"):
        shutil.copy(os.path.join(CORPUS, f), os.path.join(wd, f))
    return wd


def gen_cases(ctx, wd, n_random, tag="g"):
    r = ctx.rng
    cases = []
    facs = list(thrgen.SNIPPETS)
    if tag == "g":
        # corpus: every facility at once, every way of sharing
        write(os.path.join(wd, "all.xsl"), thrgen.make_xsl(facs))
        write(os.path.join(wd, "src0.xml"), thrgen.make_xml(r, 14))
        allx, src0 = os.path.join(wd, "all.xsl"), os.path.join(wd, "src0.xml")
        cases += [Case("c_native", "native", True, 8, 3, 0, allx, src0, "corpus", facs),
                  Case("c_wrap", "wrap", True, 8, 3, 0, allx, src0, "corpus", facs),
                  Case("c_own", "own", True, 8, 2, 0, allx, src0, "corpus", facs),
                  Case("c_ownxsl", "native", False, 8, 2, 0, allx, src0, "corpus", facs),
                  # regression cases of the repaired defects KT1 (4d62aaf) and KT2 (24f879b): must be clean
                  Case("r_xdom", "xdom", True, 8, 2, 0, allx, src0, "regression", facs),
                  Case("r_noid", "native", True, 16, 2, 7, os.path.join(wd, "idonly.xsl"), os.path.join(wd, "noid.xml"), "regression", ["id"]),
                  Case("r_uent", "native", True, 16, 2, 7, os.path.join(wd, "uent.xsl"), os.path.join(wd, "noid.xml"), "regression", ["uent"]),
                  Case("r_noid_w", "wrap", True, 16, 2, 3, os.path.join(wd, "idonly.xsl"), os.path.join(wd, "noid.xml"), "regression", ["id"]),
                  Case("c_sortcase", "native", True, 12, 3, 5, os.path.join(wd, "sortcase.xsl"), src0, "corpus", ["sortcase", "sort"])]
        write(os.path.join(wd, "sortcase.xsl"), thrgen.make_xsl(["sortcase", "sort"]))
    for i in range(n_random):
        k = r.choice([1, 2, 3, 4, 6, len(facs)])
        fs = r.sample(facs, k)
        # the facilities with per-locale / lazily built caches get extra weight: xsl:sort with lang x
        # case-order (the ICU functor caches one collator per locale and re-tunes its case-first attribute)
        if r.random() < 0.5 and "sort" not in fs:
            fs.append("sort")
        if r.random() < 0.4 and "sortcase" not in fs:
            fs.append("sortcase")
        # lookups in never-filled maps of the shared document (was KT2): id()/unparsed-entity-uri() without a DTD
        ids = r.random() >= 0.3
        if not ids:
            for extra in ("id", "uent"):
                if extra not in fs and r.random() < 0.7:
                    fs.append(extra)
        r.shuffle(fs)
        xsl = os.path.join(wd, "%s%d.xsl" % (tag, i))
        xml = os.path.join(wd, "%s%d.xml" % (tag, i))
        write(xsl, thrgen.make_xsl(fs))
        write(xml, thrgen.make_xml(r, r.choice([1, 3, 8, 14, 30, 60]), ids=ids, entity=ids and r.random() < 0.5))
        mode = r.choice(["native", "native", "wrap", "wrap", "xdom", "xdom", "own"])
        sharexsl = not (mode != "own" and r.random() < 0.2)
        T = r.choice([8, 8, 12, 16])
        R = r.choice([1, 2, 3])
        yseed = r.choice([0, r.randrange(1, 1 << 16), r.randrange(1, 1 << 16)])
        pin = ctx.thorough and r.random() < 0.25
        cases.append(Case("%s%d" % (tag, i), mode, sharexsl, T, R, yseed, xsl, xml, "random" if ids else "random-noids", fs, pin))
    return cases


def run_case(exe, case, outdir, variant, timeout=240):
    env = dict(os.environ)
    if variant == "tsan":
        env["TSAN_OPTIONS"] = TSAN_OPTS
    cmd = [exe]
    if case.pin and shutil.which("taskset"):
        cmd = ["taskset", "-c", "0,1"] + cmd
    import subprocess
    t0 = time.time()
    try:
        p = subprocess.run(cmd, input=case.line(outdir) + "\n", env=env, stdout=subprocess.PIPE, stderr=subprocess.PIPE,
                           timeout=timeout, universal_newlines=True, errors="replace")
        rc, out, err = p.returncode, p.stdout, p.stderr
    except subprocess.TimeoutExpired as ex:
        rc, out, err = 124, (ex.stdout or b"").decode("utf-8", "replace") if isinstance(ex.stdout, bytes) else (ex.stdout or ""), "[timeout after %d s]" % timeout
    return {"rc": rc, "out": out, "err": err, "secs": time.time() - t0}


def tsan_blocks(err):
    blocks = re.split(r"(?m)^(?==+\n?WARNING: ThreadSanitizer|WARNING: ThreadSanitizer)", err)
    return [b for b in blocks if "WARNING: ThreadSanitizer" in b]


def evaluate(ctx, cases, wd, exes):
    """run every case under both variants; returns list of failure dicts"""
    jobs = []
    for c in cases:
        for v in ("tsan", "plain"):
            jobs.append((c, v))
    par = max(2, core.NPROC // 4)
    with ThreadPoolExecutor(par) as ex:
        results = list(ex.map(lambda j: run_case(exes[j[1]], j[0], os.path.join(wd, "res_" + j[1]), j[1]), jobs))
    # a time-out under the parallel load is re-examined alone with a long limit before it counts as a hang
    for i, ((c, v), res) in enumerate(zip(jobs, results)):
        if res["rc"] == 124:
            ctx.count("rerun-after-timeout")
            results[i] = run_case(exes[v], c, os.path.join(wd, "res_" + v), v, timeout=1200)
    fails = []
    byc = {}
    for (c, v), res in zip(jobs, results):
        byc.setdefault(c.id, {})[v] = res
    for c in cases:
        ctx.count("mode:%s/%s" % (c.mode, "sharedxsl" if c.sharexsl else "ownxsl"))
        ctx.count("class:" + c.cls)
        ctx.count("T:%d" % c.T)
        for f in c.facilities:
            ctx.count("facility:" + f)
        for v in ("tsan", "plain"):
            res = byc[c.id][v]
            ctx.cov["evaluations"] += 1
            m = re.search(r"(?m)^%s (\w+) T=(\d+) R=(\d+) runs=(\d+) mismatches=(\d+) errors=(\d+) reflen=(\d+) refhash=(\w+) ?(.*)$" % re.escape(c.id), res["out"])
            known = None      # no known-finding class is left for C07 (KT1, KT2 repaired): every failure is a violation
            if res["rc"] == 124:
                fails.append({"case": c, "variant": v, "kind": "hang", "what": "no result within 240 s under load nor within 1200 s alone", "known": known, "report": ""})
                continue
            if not m:
                fails.append({"case": c, "variant": v, "kind": "crash", "what": "driver exited with status %d without a result line: %s" % (res["rc"], res["err"][-600:]),
                              "known": known, "report": res["err"][-3000:]})
                continue
            status, runs, mism, errs = m.group(1), int(m.group(4)), int(m.group(5)), int(m.group(6))
            ctx.cov["traces_validated_against_impl"] += runs
            if status == "referr":
                fails.append({"case": c, "variant": v, "kind": "generator", "what": "sequential reference run failed: " + m.group(9), "known": None, "report": ""})
                continue
            if status != "ok":
                fails.append({"case": c, "variant": v, "kind": status, "what": "%d of %d thread runs differ from the single-threaded bytes, %d errors %s" % (mism, runs, errs, m.group(9)),
                              "known": known, "report": ""})
            res["refhash"] = m.group(8)
            if v == "tsan":
                for b in tsan_blocks(res["err"]):
                    k = None
                    summ = re.search(r"SUMMARY: ThreadSanitizer: ([^\n]*)", b)
                    fails.append({"case": c, "variant": v, "kind": "tsan", "what": (summ.group(1) if summ else b.split("\n")[0])[:300], "known": k,
                                  "report": "\n".join(b.split("\n")[:70])})
                if res["rc"] not in (0, 66) and not tsan_blocks(res["err"]):
                    fails.append({"case": c, "variant": v, "kind": "crash", "what": "exit status %d: %s" % (res["rc"], res["err"][-400:]), "known": known, "report": res["err"][-3000:]})
            elif res["rc"] != 0:
                fails.append({"case": c, "variant": v, "kind": "crash", "what": "exit status %d: %s" % (res["rc"], res["err"][-400:]), "known": known, "report": res["err"][-3000:]})
        a, b = byc[c.id]["tsan"].get("refhash"), byc[c.id]["plain"].get("refhash")
        if a and b and a != b:
            fails.append({"case": c, "variant": "both", "kind": "refdiff", "what": "single-threaded output differs between the tsan and the plain build (%s vs %s)" % (a, b), "known": None, "report": ""})
    return fails


def replay_text(f, wd):
    c = f["case"]
    t = ["# C07 %s (%s build): %s" % (f["kind"], f["variant"], re.sub(r"\s+", " ", f["what"])[:600]),
         "# replay: TSAN_OPTIONS='%s' %s/.build/thr_tsan   (or thr_plain), stdin = the case line below" % (TSAN_OPTS, core.VERIF),
         "# case: mode=%s sharexsl=%s threads=%d rounds=%d yieldseed=%d facilities=%s" % (c.mode, c.sharexsl, c.T, c.R, c.yseed, ",".join(c.facilities)),
         c.line(os.path.join(wd, "res_" + (f["variant"] if f["variant"] != "both" else "tsan")))]
    if f["report"]:
        t.append("# --- ThreadSanitizer / stderr ---")
        t += ["# " + l for l in f["report"].split("\n")]
    return "\n".join(t)


def run(ctx):
    ctx.assumptions += [
        "PARTIAL: Coq proves non-interference of the abstract interpreter at step granularity under the frame condition; the frame condition for the C++ code rests on the syntactic census (direct writes only: mutable members, const_cast sites, non-const statics and every function mentioning them, function-local statics) and its audit; writes through aliases/pointers stored at construction, C++ memory-model races and real schedules are sampled by ThreadSanitizer, not proved",
        "census resolves #if for the configuration built here (Linux, XALAN_USE_ICU, in-memory message loader, Xerces 3.x); XercesParserLiaison/Deprecated is not compiled",
        "XalanTransformer::initialize()/terminate() and the install*/uninstall* function APIs are called while no other thread uses the library (documented contract)",
        "Xerces-C and ICU themselves are trusted to be thread safe for concurrent readers",
    ]
    ctx.notes["rule"] = ("distinct = distinct (stylesheet facilities set+order, source size, sharing mode, thread count, rounds, perturbation seed) cases; "
                         "non-trivial = at least 8 threads really ran >= 1 transformation each against a shared object and the reference run succeeded")
    ok_p, log_p = core.build_lib("plain")
    ok_t, log_t = core.build_lib("tsan")
    if not ok_p or not ok_t:
        ctx.broken.append("library does not build from the working tree (%s): %s" % ("plain" if not ok_p else "tsan", (log_p if not ok_p else log_t)[-500:]))
        return ctx.finish(LEVEL)
    proved = ctx.prove(["Properties_C07.v"], ["GenThr"])
    exes = {}
    for v in ("tsan", "plain"):
        exe, ok_h, hlog = core.build_harness("thr", v)
        if not ok_h:
            ctx.broken.append("harness thr (%s) does not compile against the working tree: %s" % (v, hlog[-500:]))
            return ctx.finish(LEVEL)
        exes[v] = exe
    wd = make_workdir(ctx)
    n = 14 if not ctx.thorough else 220
    cases = gen_cases(ctx, wd, n)
    ctx.cov["samples"] = [c.line("<outdir>") for c in cases[:3] + cases[6:9]]
    fails = evaluate(ctx, cases, wd, exes)
    new = [f for f in fails if not f["known"]]
    if not proved and not new and not ctx.thorough:
        # broken proof / census != audit: widen the sampling before the verdict
        ctx.escalated = True
        more = gen_cases(ctx, wd, 60, tag="e")
        cases += more
        fails += evaluate(ctx, more, wd, exes)
        new = [f for f in fails if not f["known"]]
    ctx.cov["distinct_nontrivial"] = len({(c.facilities, c.mode, c.sharexsl, c.T, c.R, c.yseed, os.path.getsize(c.xml)) for c in cases if c.T >= 8})
    known = {k["key"]: k for k in ctx.known.for_property(PID)}
    hits = {}
    for f in fails:
        if f["known"]:
            if f["known"] in known:
                hits[f["known"]] = hits.get(f["known"], 0) + 1
            else:
                new.append(f)          # class predicate without a registered finding line
    for k in sorted(hits):
        ctx.known_finding("%s %s" % (k, known[k]["what"]))
    ctx.notes["known_class_hits"] = hits
    ctx.notes["failures"] = len(new)
    # one replay per distinct (kind, summary); generator failures are a broken check, not a violation
    seen = set()
    for f in sorted(new, key=lambda f: (f["kind"] != "tsan", len(f["case"].facilities), f["case"].T)):
        if f["kind"] == "generator":
            ctx.broken.append("generator produced a case whose single-threaded run fails: %s: %s" % (f["case"].id, f["what"]))
            continue
        key = (f["kind"], re.sub(r"0x[0-9a-f]+|\d+", "N", f["what"])[:160])
        if key in seen or len(seen) >= 8:
            continue
        seen.add(key)
        ctx.violation(f["kind"], replay_text(f, wd))
    return ctx.finish(LEVEL, explanation="census==audit and non-interference theorems (Coq) + census regenerated from the sources + ThreadSanitizer/byte-equality sampling of real threads sharing compiled stylesheets and parsed sources (partial: see assumptions)")


def replay(ctx, path):
    core.build_lib("tsan")
    exe, ok_h, hlog = core.build_harness("thr", "tsan")
    lines = [l for l in open(path) if l.strip() and not l.startswith("#")]
    rc, out = core.sh([exe], input="".join(lines), env={"TSAN_OPTIONS": TSAN_OPTS})
    blocks = tsan_blocks(out)
    for l in out.split("\n"):
        if re.match(r"\S+ (ok|mismatch|error|referr) T=", l) or l.startswith("SUMMARY: ThreadSanitizer"):
            print(l[:400])
    print("ThreadSanitizer reports: %d; driver exit status %d" % (len(blocks), rc))
    if blocks:
        print("\n".join(blocks[0].split("\n")[:40]))
    return 1 if (blocks or rc not in (0,)) else 0
