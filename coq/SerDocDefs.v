(* SerDocDefs.v — C04: the guard and the expected result of the document-level theorem
   serialize_parse (parse_doc (serialize t) = t).  Definitions only.
   A "tree" is an event script that is a tree of the XPath data model: balanced, one root element,
   no empty and no adjacent text nodes, XML names, strings of Chars with paired surrogates. *)
From Coq Require Import NArith List Bool.
Require Import XV.SerDefs XV.XmlParseDefs XV.XmlDocDefs.
Import ListNotations.
Local Open Scope N_scope.

Definition pev_of (e : event) : pev :=
  match e with
  | EStart n a => PS n a
  | EEnd n => PE n
  | EText s => PT s
  | ECdata s => PT s
  | EComment s => PM s
  | EPI t d => PP t d
  end.

(* strings of Chars of the XML version with paired surrogates (the same function as SerEscModel.wf_text) *)
Fixpoint chars_ok (v11 : bool) (s : list N) : bool :=
  match s with
  | [] => true
  | c :: r => if x_high c then match r with lo :: r' => x_low lo && chars_ok v11 r' | [] => false end
              else if x_low c then false else xml_char v11 c && chars_ok v11 r
  end.

Definition name_ok (n : list N) : bool := valid_name n && forallb is_name_unit n.

Fixpoint has_sub (p s : list N) : bool :=
  match s with
  | [] => false
  | _ :: r => (match starts_with p s with Some _ => true | None => false end) || has_sub p r
  end.

Definition eol_free (v11 : bool) (s : list N) : bool :=
  forallb (fun c => negb ((c =? 13) || (v11 && ((c =? 133) || (c =? 8232))))) s.

(* data of a comment / PI: no escaping exists there, so it must be writable and readable as it is *)
Definition raw_data_ok (v11 : bool) (s : list N) : bool :=
  chars_ok v11 s && lit_run_ok v11 s && eol_free v11 s && forallb (fun c => negb (p_comment_error v11 c)) s.

Definition comment_ok (v11 : bool) (s : list N) : bool :=
  raw_data_ok v11 s && negb (has_sub [45; 45] s) && negb (last s 0 =? 45).

Definition pi_ok (v11 : bool) (t d : list N) : bool :=
  name_ok t && negb (is_xml_target t) && raw_data_ok v11 d && negb (has_sub [63; 62] d) &&
  match d with c :: _ => negb (is_space c) | [] => true end.

Definition event_ok (v11 : bool) (e : event) : bool :=
  match e with
  | EStart n attrs => name_ok n && forallb (fun a => name_ok (fst a) && chars_ok v11 (snd a)) attrs
  | EEnd n => name_ok n
  | EText s => chars_ok v11 s && match s with [] => false | _ => true end
  | ECdata _ => false                       (* no CDATA-section elements in this first version *)
  | EComment s => comment_ok v11 s
  | EPI t d => pi_ok v11 t d
  end.

Fixpoint events_ok (v11 : bool) (es : list event) (prev_text : bool) : bool :=
  match es with
  | [] => true
  | e :: r =>
      event_ok v11 e &&
      (match e with EText _ => negb prev_text | _ => true end) &&
      events_ok v11 r (match e with EText _ => true | _ => false end)
  end.

Definition tree_ok (v11 : bool) (es : list event) : bool :=
  events_ok v11 es false && well_nested (map pev_of es) [] 0.

(* the strings of the XML declaration *)
Definition decl_string_ok (s : list N) : bool := negb (has_sub [63; 62] s).

(* a UTF-8 document: strict UTF-8 decoding (SerUtfDefs.utf8_decode: shortest form, no surrogates), the code
   points as UTF-16 units, then the reader above *)
Definition parse_doc_utf8 (v11 : bool) (bytes : list N) : option (list pev) :=
  match utf8_decode (S (length bytes)) bytes with
  | Some cps => parse_doc v11 (flat_map units_of_cp cps)
  | None => None
  end.
