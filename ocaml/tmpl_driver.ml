(* model side of the C10 correspondence.
   One case per line, whitespace separated tokens:
     <id> V<0|1> <sheet> N <count> <key>* M <npat> <bits>* Q <nq> <query>*
     V1: findTemplate tests a table entry with its own alternative (GenTmpl.gen_per_alternative), V0: with the whole pattern
     sheet := S <nitems> item* <nimports> sheet*
     item  := T <id> <mode|-> <prio|-> <nalts> alt*  |  I <n> item*
     alt   := <patid> <tname> <ttype> <score>     tname: t c r p n a N<int>; ttype: e a y o; score 0..4
     key   := e<int> a<int> t c p r x o
     bits  := string of 0/1, one char per node (alternative <patid> alone matches the node)
     query := <quiet 0|1> <pathlen> <idx>* <only_imports 0|1> <mode|->
   Output: <id> then per query the chosen template ids for all nodes, comma separated
           (-1/-2/-3 = built-in children/text/nothing), queries separated by ';', and finally
           "|G" <uniform 0|1> <filed bits per node>  (the two guards of find_template_spec_partial)
           "|B" spec winners (best_5_5 over rules_of) for the root stylesheet per mode query with
           only_imports=0, in the same format (template id or -9 for none) *)

exception Bad of string

let () =
  let ic = if Array.length Sys.argv > 1 then open_in Sys.argv.(1) else stdin in
  iter_lines ic (fun line ->
    match split_ws line with
    | [] -> ()
    | id :: toks ->
      (try
        let arr = Array.of_list toks in
        let p = ref 0 in
        let next () = if !p >= Array.length arr then raise (Bad "eof") else (let t = arr.(!p) in incr p; t) in
        let int () = int_of_string (next ()) in
        let opt_n () = match next () with "-" -> None | s -> Some (n_of_int (int_of_string s)) in
        let opt_z () = match next () with "-" -> None | s -> Some (z_of_int (int_of_string s)) in
        let rec times k f = if k <= 0 then [] else (let x = f () in x :: times (k - 1) f) in
        let alt () =
          let pat = n_of_int (int ()) in
          let tn = match next () with
            | "t" -> TNText | "c" -> TNComment | "r" -> TNRoot | "p" -> TNPI | "n" -> TNNode | "a" -> TNAny
            | s when String.length s > 1 && s.[0] = 'N' -> TNName (n_of_int (int_of_string (String.sub s 1 (String.length s - 1))))
            | s -> raise (Bad ("tname " ^ s)) in
          let tt = match next () with
            | "e" -> TTElement | "a" -> TTAttribute | "y" -> TTAny | "o" -> TTOther | s -> raise (Bad ("ttype " ^ s)) in
          let score () = match int () with 0 -> ScNone | 1 -> ScNodeTest | 2 -> ScNSWild | 3 -> ScQName | _ -> ScOther in
          let sc = score () in
          { a_pat = pat; a_target = { tg_name = tn; tg_type = tt }; a_score = sc } in
        let rec item () =
          match next () with
          | "T" ->
            let tid = n_of_int (int ()) in
            let mode = opt_n () in
            let prio = opt_z () in
            let k = int () in
            let alts = times k alt in
            ITmpl { t_id = tid; t_mode = mode; t_prio = prio; t_alts = alts }
          | "I" -> let k = int () in IIncl (times k item)
          | s -> raise (Bad ("item " ^ s)) in
        let rec sheet () =
          match next () with
          | "S" ->
            let k = int () in
            let items = times k item in
            let m = int () in
            let imps = times m sheet in
            Sheet (items, imps)
          | s -> raise (Bad ("sheet " ^ s)) in
        let pa = (match next () with "V1" -> true | "V0" -> false | s -> raise (Bad ("variant " ^ s))) in
        let sh = sheet () in
        if next () <> "N" then raise (Bad "N");
        let cnt = int () in
        let keys = Array.of_list (times cnt (fun () ->
          let s = next () in
          let num () = n_of_int (int_of_string (String.sub s 1 (String.length s - 1))) in
          match s.[0] with
          | 'e' -> KElem (num ()) | 'a' -> KAttr (num ()) | 't' -> KText | 'c' -> KComment | 'p' -> KPI
          | 'r' -> KRoot | 'x' -> KNsDecl | _ -> KOther)) in
        if next () <> "M" then raise (Bad "M");
        let npat = int () in
        let bits = Array.of_list (times npat next) in
        let key_of (i : int) = keys.(i) in
        let pmatch (pat : n) (i : int) =
          let k = int_of_n pat in k < npat && i < String.length bits.(k) && bits.(k).[i] = '1' in
        if next () <> "Q" then raise (Bad "Q");
        let nq = int () in
        let cs = compile sh in
        let buf = Buffer.create 256 in
        let bbuf = Buffer.create 256 in
        let nodes = List.init cnt (fun i -> i) in
        for q = 0 to nq - 1 do
          let quiet = int () = 1 in
          let pl = int () in
          let path = times pl (fun () -> nat_of_int (int ())) in
          let only = int () = 1 in
          let mode = opt_n () in
          if q > 0 then Buffer.add_char buf ';';
          (match csubsheet cs path with
           | None -> Buffer.add_string buf "nosheet"
           | Some c ->
             Buffer.add_string buf (String.concat "," (List.map (fun i ->
               match choose key_of pmatch pa quiet c mode i only with
               | Rule t -> string_of_int (int_of_n t.t_id)
               | Builtin BChildren -> "-1" | Builtin BText -> "-2" | Builtin BNothing -> "-3") nodes)));
          if quiet && not only && pl = 0 then begin
            if Buffer.length bbuf > 0 then Buffer.add_char bbuf ';';
            let rules = rules_of sh in
            Buffer.add_string bbuf (String.concat "," (List.map (fun i ->
              match best_5_5 pmatch rules mode i with
              | Some r -> string_of_int (int_of_n r.r_tmpl.t_id)
              | None -> "-9") nodes))
          end
        done;
        let uni = if uniform_union_priorities sh then "1" else "0" in
        let filed = String.concat "" (List.map (fun i -> if filed_where_matching key_of pmatch sh i then "1" else "0") nodes) in
        Printf.printf "%s %s|G %s %s|B %s\n" id (Buffer.contents buf) uni filed (Buffer.contents bbuf)
      with
      | Bad m -> Printf.printf "%s error:%s\n" id m
      | Failure m -> Printf.printf "%s error:%s\n" id m
      | Invalid_argument m -> Printf.printf "%s error:%s\n" id m))
