(* PatcScoreModel.v — C09 part "compile": facts about the node-test / score model (PatcScoreDefs.v). *)
From Coq Require Import List NArith Bool Arith Lia.
Import ListNotations.
Require Import XV.XpAst XV.GenPatc XV.XpcLexDefs XV.XpcParseDefs XV.XpcPrintFacts XV.PatcScoreDefs.

Lemma str_eqb_iff : forall a b, str_eqb a b = true <-> a = b.
Proof. intros a b. split; [apply str_eqb_eq|intros ->; apply str_eqb_refl]. Qed.
Lemma isnil_iff : forall (s : str), isnil s = true <-> s = [].
Proof. intros [|c s]; cbn; split; congruence. Qed.

(* a node test of a compiled pattern step is never eNODETYPE_ROOT (NodeTest() cannot produce it) *)
Definition step_test (t : ntest) : bool := match t with TRoot => false | _ => true end.

(* the score is eMatchScoreNone exactly when the chosen test function refuses the node *)
Lemma score_none_iff_no_match_m : forall t attr x, step_test t = true ->
  (node_test_score t attr x = ScNone <-> tester_accepts (pick_tester t attr) x = false).
Proof.
  intros t attr x Ht. unfold node_test_score.
  destruct (tester_accepts (pick_tester t attr) x) eqn:E; [|tauto].
  split; [|discriminate]. intros H. exfalso. revert H.
  destruct t as [| |[s|]| |[| |u] [l|]|]; try discriminate; destruct attr; vm_compute; discriminate.
Qed.

(* whenever a node test matches, its score is the class of the test's shape: the class a default priority is computed from *)
Lemma score_class_by_test_shape_m : forall t attr x, step_test t = true ->
  node_test_score t attr x <> ScNone -> node_test_score t attr x = test_class t.
Proof.
  intros t attr x Ht. unfold node_test_score.
  destruct (tester_accepts (pick_tester t attr) x); [|congruence]. intros _.
  destruct t as [| |[s|]| |[| |u] [l|]|]; try discriminate; destruct attr; reflexivity.
Qed.

(* the declarative reading of a node test (XPath 1.0 section 2.3): principal node type of the axis, expanded names *)
Definition principal (attr : bool) (k : nkind) : bool :=
  match attr, k with true, NkAttr => true | false, NkElem => true | _, _ => false end.

Lemma score_some_iff_accepts : forall t attr x, step_test t = true ->
  (node_test_score t attr x <> ScNone <-> tester_accepts (pick_tester t attr) x = true).
Proof.
  intros t attr x Ht. pose proof (score_none_iff_no_match_m t attr x Ht) as [A B].
  destruct (tester_accepts (pick_tester t attr) x).
  - split; [reflexivity|]. intros _ C. specialize (A C). discriminate.
  - split; [|discriminate]. intros H. exfalso. apply H. apply B. reflexivity.
Qed.

Lemma name_test_matches_iff_expanded_names_equal_m : forall t attr x u l,
  test_expanded_name t = Some (u, l) ->
  (node_test_score t attr x <> ScNone <-> principal attr (xkind x) = true /\ xns x = u /\ xlocal x = l).
Proof.
  intros t attr x u l Ht.
  destruct t as [| |[s|]| |[| |u'] [l'|]|]; try discriminate; cbn in Ht; inversion Ht; subst; clear Ht;
    rewrite score_some_iff_accepts by reflexivity.
  - assert (P : pick_tester (TName NsEmpty (Some l)) attr = if attr then TsAttrNCName l else TsElemNCName l)
      by (destruct attr; reflexivity).
    rewrite P. destruct attr; cbn [tester_accepts]; rewrite !andb_true_iff, isnil_iff, str_eqb_iff;
      destruct (xkind x); cbn [principal]; intuition congruence.
  - assert (P : pick_tester (TName (NsUri u) (Some l)) attr = if attr then TsAttrQName u l else TsElemQName u l)
      by (destruct attr; reflexivity).
    rewrite P. destruct attr; cbn [tester_accepts]; rewrite !andb_true_iff, !str_eqb_iff;
      destruct (xkind x); cbn [principal]; intuition congruence.
Qed.

(* run time and compile time agree: the score getMatchScore returns for a one-step pattern without predicates is, when it
   is not eMatchScoreNone, the class getTargetData computes for that alternative *)
Lemma single_step_score_is_target_class_m : forall k t x sc, step_test t = true ->
  (k = PkAttribute \/ k = PkImmediateAncestor) ->
  single_step_score (k, t, []) x = Some sc -> sc <> ScNone -> sc = target_class [(k, t, [])].
Proof.
  intros k t x sc Ht Hk H Hn.
  destruct Hk as [-> | ->]; cbn [single_step_score target_class] in *.
  - destruct (match xkind x with NkAttr | NkNsDecl => true | _ => false end); inversion H; subst; [|congruence].
    apply score_class_by_test_shape_m; auto.
  - destruct ((match xkind x with NkAttr | NkNsDecl => true | _ => false end) || match xkind x with NkRoot => true | _ => false end)%bool;
      inversion H; subst; [congruence|].
    apply score_class_by_test_shape_m; auto.
Qed.
