(* Properties_C11hs.v — C11, part "helpers": the interpreter of the regenerated helper bodies gives the
   results of the interpreter that is extracted and run against the library (tables of GenExec.v +
   hand model of ExecDefs.v).  Depends on ExecModel.v, hence also on the digest fact kept there. *)
From Coq Require Import ZArith NArith List Bool.
Require Import XV.NumDefs XV.XpAst XV.DomDefs XV.XpDefs XV.XpModel XV.ExecArms XV.GenExec XV.ExecDefs.
Require Import XV.Exec2Defs XV.GenExec2 XV.Exec2Run XV.Exec2Base XV.Exec2Same.
Import ListNotations.

Theorem exec2_same_results_as_table_interpreter : forall c e, vars_ordered c ->
  forget (exec2_generic c e) = forget (exec_generic c e) /\
  forget (exec2_bool c e) = forget (exec_bool c e) /\
  forget (exec2_num c e) = forget (exec_num c e) /\
  (forall buf, forget (exec2_str c e buf) = forget (exec_str c e buf)) /\
  (forall acc, forget (exec2_chars c e acc) = forget (exec_chars c e acc)) /\
  forget (exec2_nodelist c e) = forget (exec_nodelist c e).
Proof. exact execs2_same_as_execs. Qed.
Print Assumptions exec2_same_results_as_table_interpreter.
