(* placeholder while the proofs are developed *)
Require Import XV.PatDefs.
