(* C06 — member / class names as lists of character codes, with string-literal syntax.
   (Coq's own [string] type is avoided so that the extracted model does not define an OCaml type
   called [string].) *)
From Coq Require Import List Bool NArith.
Require Coq.Strings.Byte.
Import ListNotations.

Inductive name := Name (l : list N).

Definition name_of_bytes (l : list Coq.Init.Byte.byte) : name := Name (map Coq.Strings.Byte.to_N l).
Definition bytes_of_name (n : name) : list Coq.Init.Byte.byte :=
  match n with
  | Name l => map (fun c => match Coq.Strings.Byte.of_N c with Some b => b | None => Coq.Init.Byte.x00 end) l
  end.

Declare Scope name_scope.
Delimit Scope name_scope with name.
String Notation name name_of_bytes bytes_of_name : name_scope.

Fixpoint codes_eqb (a b : list N) : bool :=
  match a, b with
  | [], [] => true
  | x :: a', y :: b' => N.eqb x y && codes_eqb a' b'
  | _, _ => false
  end.

Definition name_eqb (a b : name) : bool := match a, b with Name x, Name y => codes_eqb x y end.

Lemma codes_eqb_eq : forall a b, codes_eqb a b = true -> a = b.
Proof.
  induction a as [|x a IH]; destruct b as [|y b]; simpl; intro H; try discriminate; auto.
  apply andb_true_iff in H. destruct H as [H1 H2]. apply N.eqb_eq in H1. subst. f_equal. auto.
Qed.

Lemma codes_eqb_refl : forall a, codes_eqb a a = true.
Proof. induction a as [|x a IH]; simpl; auto. rewrite N.eqb_refl. exact IH. Qed.

Lemma name_eqb_eq : forall a b, name_eqb a b = true -> a = b.
Proof. intros [a] [b] H. simpl in H. apply codes_eqb_eq in H. subst. reflexivity. Qed.

Lemma name_eqb_refl : forall a, name_eqb a a = true.
Proof. intros [a]. simpl. apply codes_eqb_refl. Qed.
