(* model side of the C18 correspondence: same line protocol as harness/num.cpp *)
let show_dbl (x : spec_float) : string =
  match x with S754_nan -> "nan" | _ -> hex_of_z (to_bits x) 16

let () =
  let ic = if Array.length Sys.argv > 1 then open_in Sys.argv.(1) else stdin in
  iter_lines ic (fun line ->
    match split_ws line with
    | id :: "n2s" :: h :: _ ->
        let s = token_of_u16 (number_to_string (of_bits (z_of_hex h))) in
        Printf.printf "%s %s %s\n" id s s
    | id :: "s2n" :: t :: _ ->
        Printf.printf "%s %s\n" id (show_dbl (string_to_number (u16_of_token t)))
    | id :: "round" :: h :: _ -> Printf.printf "%s %s\n" id (show_dbl (d_round (of_bits (z_of_hex h))))
    | id :: "floor" :: h :: _ -> Printf.printf "%s %s\n" id (show_dbl (d_floor (of_bits (z_of_hex h))))
    | id :: "ceil" :: h :: _ -> Printf.printf "%s %s\n" id (show_dbl (d_ceiling (of_bits (z_of_hex h))))
    | _ -> ())
