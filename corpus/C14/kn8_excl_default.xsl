# KN8 repaired by a fix: commit - regression case, must pass (apply to <doc/>)
<xsl:stylesheet version="1.0" xmlns:xsl="http://www.w3.org/1999/XSL/Transform"><xsl:template match="/"><o><w:b xmlns:w="u5" xmlns="u4" xsl:exclude-result-prefixes="#default"></w:b></o></xsl:template></xsl:stylesheet>
