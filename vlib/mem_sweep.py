"""Fault-enumeration oracle for C19: drives harness/mem_sweep.cpp (see its head comment for the
command-line protocol).  Every random choice comes from the `rng` argument."""
import os, time, subprocess, collections
from concurrent.futures import ThreadPoolExecutor

from . import core

CORPUS = os.path.join(core.VERIF, "corpus", "C19")

SCENARIOS = ["ctor", "compile", "parse", "transform", "transform_compiled", "fail_message", "fail_xpath", "two"]


def _p(name):
    return os.path.join(CORPUS, name)


# (stylesheet, source) pairs for the succeeding scenarios
POOL = [(_p("s%d.xsl" % i), _p("s%d.xml" % i)) for i in range(1, 9)]
# inputs of the failing scenarios
FAIL_INPUTS = {
    "fail_message": (_p("fail_message.xsl"), _p("s1.xml")),
    "fail_xpath": (_p("fail_xpath.xsl"), _p("s1.xml")),
}


# per-transformation facilities that own heap objects keyed by document / fragment (key tables, counters, sorted
# node lists, format-number caches) used INSIDE result tree fragments, followed by a failure: on success all of
# them are released before the fragments are returned, so only a failing run shows a fragment's table that is
# dropped without being destroyed (seed C19_a).  (scenario, stylesheet, source)
EXTRA_INPUTS = [
    ("fail_message", _p("fail_rtf_key.xsl"), _p("s1.xml")),
    ("fail_xpath", _p("fail_rtf_xpath.xsl"), _p("s1.xml")),
    ("transform", _p("ok_rtf_key.xsl"), _p("s1.xml")),
    ("transform", _p("ext_ns_once.xsl"), _p("s1.xml")),
    ("compile", _p("ext_ns_twice.xsl"), _p("s1.xml")),
    # bounded caches with an eviction branch (seed C19_e): more distinct xsl:decimal-format symbol sets / sort languages
    # in one transformer than the ICU bridge caches hold (eCacheMax = 10), each used twice
    ("transform", _p("many_decimal_formats.xsl"), _p("s1.xml")),
    ("transform", _p("many_sort_langs.xsl"), _p("s1.xml")),
    ("two", _p("many_decimal_formats.xsl"), _p("s1.xml")),
    # top-level parameters held as XObjects and never cleared by the caller (seed C19_f: the holders outlive the factory)
    ("params", _p("s1.xsl"), _p("s1.xml")),
    ("params", _p("s3.xsl"), _p("s3.xml")),
    # the engine-level API: StylesheetConstructionContext::destroy(root) (repaired defect: plain delete of a root that
    # StylesheetRoot::create() took from the manager)
    ("lowlevel", _p("s1.xsl"), _p("s1.xml")),
    ("lowlevel", _p("s4.xsl"), _p("s4.xml")),
]

# inputs in the class of a known finding of the no-injection balance run: {stylesheet basename: finding id}
KNOWN_UNBALANCED = {}   # (K-new-7, ext_ns_twice.xsl, was repaired in /repo bd7b0fc: it runs as a regression input)


def build(variant="plain"):
    """Build library + harness; returns (exe, ok, log)."""
    ok, log = core.build_lib(variant)
    if not ok:
        return None, False, log
    return core.build_harness("mem_sweep", variant)


def env_for(variant="plain"):
    """Environment for running the harness built for `variant`."""
    e = dict(os.environ)
    if variant == "asan":
        # exitcode=99: the parent process of the harness reports `asan`; leaks are the manager's business;
        # the SEGV handler of ASan is kept (it prints the faulting frame) - the child then exits 99.
        e["ASAN_OPTIONS"] = "exitcode=99:detect_leaks=0:abort_on_error=0:allocator_may_return_null=1:handle_abort=0"
        e["UBSAN_OPTIONS"] = "halt_on_error=1:exitcode=99:print_stacktrace=1"
    return e


def _kv(line):
    d = {}
    for tok in line.split():
        if "=" in tok:
            a, b = tok.split("=", 1)
            d[a] = b
    return d


def _opts(throw, release):
    o = []
    if throw:
        o.append("--throw=" + throw)
    if release:
        o.append("--release")
    return o


def count(exe, scenario, xsl, xml, throw=None, release=False, env=None, timeout=120):
    """One run without injection.  Returns dict(N, outstanding, foreign, double, handler_allocs, status,
    nullfree, bytes, via, handler_sigs=[...], dtor_sigs=[(sig, first_k, count)...], raw, rc)."""
    p = subprocess.run([exe] + _opts(throw, release) + [scenario, xsl, xml, "count"],
                       stdout=subprocess.PIPE, stderr=subprocess.PIPE, universal_newlines=True,
                       errors="replace", timeout=timeout, env=env, cwd=CORPUS)
    res = {"rc": p.returncode, "raw": p.stdout, "handler_sigs": [], "dtor_sigs": [], "badfree": None, "N": None}
    for ln in p.stdout.splitlines():
        if ln.startswith("N="):
            d = _kv(ln)
            for k in ("N", "outstanding", "foreign", "double", "handler_allocs", "status", "nullfree", "bytes", "outlen", "written_after_release"):
                if k in d:
                    res[k] = int(d[k])
            res["via"] = d.get("via")
        elif ln.startswith("HANDLER "):
            res["handler_sigs"].append(ln[8:].strip())
        elif ln.startswith("DTOR "):
            f = ln.split()
            d = _kv(ln)
            res["dtor_sigs"].append((f[1], int(d.get("first_k", 0)), int(d.get("count", 0))))
        elif ln.startswith("BADFREE "):
            res["badfree"] = ln[8:].strip()
    if res["N"] is None:
        res["error"] = "no count line (rc=%s): %s" % (p.returncode, (p.stderr or "")[-400:])
    return res


def _ranges(ks):
    """compact k-list: 1,2,3,7 -> '1-3,7'"""
    out, i, ks = [], 0, sorted(set(ks))
    while i < len(ks):
        j = i
        while j + 1 < len(ks) and ks[j + 1] == ks[j] + 1:
            j += 1
        out.append(str(ks[i]) if i == j else "%d-%d" % (ks[i], ks[j]))
        i = j + 1
    return ",".join(out)


_INT_FIELDS = ("k", "outstanding", "size", "status", "N")


def _parse_record(ln):
    d = _kv(ln)
    if "k" not in d or "outcome" not in d:
        return None
    for f in _INT_FIELDS:
        v = d.get(f, "-")
        try:
            d[f] = int(v)
        except ValueError:
            d[f] = None
    hs = d.get("hsig", "-")
    d["hsig"] = [] if hs in ("-", "") else hs.split(";")
    return d


def _run_chunk(exe, scenario, xsl, xml, ks, mode, throw, release, env, timeout):
    try:
        p = subprocess.run([exe] + _opts(throw, release) + [scenario, xsl, xml, "sweep", mode, _ranges(ks)],
                           stdout=subprocess.PIPE, stderr=subprocess.PIPE, universal_newlines=True,
                           errors="replace", timeout=timeout, env=env, cwd=CORPUS)
        out, rc = p.stdout, p.returncode
    except subprocess.TimeoutExpired as ex:
        out = ex.stdout or ""
        if isinstance(out, bytes):
            out = out.decode("utf-8", "replace")
        rc = 124
    recs = [r for r in (_parse_record(ln) for ln in out.splitlines()) if r]
    seen = set(r["k"] for r in recs)
    for k in ks:                      # the harness itself died / timed out: never silently drop an index
        if k not in seen:
            recs.append({"k": k, "outcome": "harness-error", "via": "-", "outstanding": None, "after": "-",
                         "size": None, "status": None, "phase": "-", "end": "rc=%s" % rc, "ctx": "-", "N": None,
                         "dtor": "-", "hsig": [], "fsig": "-", "sig": "-"})
    return recs


def sweep(exe, scenario, xsl, xml, ks, mode="single", jobs=None, throw=None, release=False, env=None,
          timeout=600):
    """Inject a failure at every k of `ks` (one forked child each).  Returns the records sorted by k; each
    has k, outcome, via, outstanding, after, size, sig, and also status, phase (where the child was when it
    ended: call|destroy|after|done), end (how it ended), ctx (normal|catch|unwind at the refused allocation),
    N, out (same|diff|-), dtor (path  allocation<...<innermost destructor frame  of the refused allocation or
    '-'), hsig (list of signatures of allocations made inside handlers / during unwinding after the refusal),
    fsig (site of the first foreign/double free), and in persist mode refused, lsig, ldtor (last refusal)."""
    ks = sorted(set(int(k) for k in ks if k >= 1))
    if not ks:
        return []
    jobs = jobs or core.NPROC
    # every chunk is one harness process (start-up + warm-up = 0.15-0.3 s): at least ~12 indices per chunk
    nchunks = max(1, min(jobs, (len(ks) + 11) // 12))
    # interleave so that every chunk gets cheap (small k) and expensive (large k) indices
    chunks = [ks[i::nchunks] for i in range(nchunks)]
    recs = []
    with ThreadPoolExecutor(max_workers=jobs) as ex:
        futs = [ex.submit(_run_chunk, exe, scenario, xsl, xml, c, mode, throw, release, env, timeout) for c in chunks if c]
        for f in futs:
            recs.extend(f.result())
    recs.sort(key=lambda r: r["k"])
    return recs


def choose_ks(N, rng, quick=True, near=(), first=40, strat=110):
    """quick: the first `first` indices + ~`strat` stratified random ones + every index in `near` (+-1)
    + the last 3; thorough: all of 1..N."""
    if not quick or N <= first + strat:
        return list(range(1, N + 1))
    ks = set(range(1, min(N, first) + 1))
    lo, hi = first + 1, N
    width = (hi - lo + 1) / float(strat)
    for i in range(strat):
        a = lo + int(i * width)
        b = max(a, min(hi, lo + int((i + 1) * width) - 1))
        ks.add(rng.randint(a, b))
    for k in near:
        for d in (-1, 0, 1):
            if 1 <= k + d <= N:
                ks.add(k + d)
    ks.update(k for k in (N - 2, N - 1, N) if k >= 1)
    return sorted(ks)


def short_sig(sig, n=3):
    if not sig or sig == "-":
        return "-"
    return "<".join(sig.split("<")[:n])


def classify(rec):
    """-> (cls, detail).  cls == 'ok' for a contained failure (clean / notreached with after=ok);
    otherwise the finding class '<outcome>@<3 innermost frames of the failing allocation>'.
    A clean outcome whose follow-up transformation fails is 'after-bad@...'."""
    oc = rec.get("outcome")
    if oc in ("clean", "notreached"):
        if rec.get("after") == "ok":
            return "ok", ""
        return ("after-bad@" + short_sig(rec.get("sig")),
                "k=%s via=%s after=%s" % (rec.get("k"), rec.get("via"), rec.get("after")))
    sig = rec.get("sig")
    if oc == "swallowed" and rec.get("out") == "same" and rec.get("after") == "ok":
        # the refused allocation was optional (a cache that could not grow, a reset-for-reuse inside a destructor):
        # every API call succeeded, the result is identical to the run without injection, the manager is balanced
        # and a new transformer works: nothing to surface
        return "ok", "absorbed"
    if oc == "swallowed":
        # the API reported success although an allocation was refused; out=diff: the result differs from
        # the run without injection (e.g. document() catches everything and goes on with an empty node-set)
        return ("swallowed:%s@%s" % (rec.get("out"), short_sig(sig)),
                "k=%s status=0 out=%s after=%s" % (rec.get("k"), rec.get("out"), rec.get("after")))
    if oc in ("foreign", "double"):
        detail_sig = rec.get("fsig")
    else:
        detail_sig = rec.get("dtor")
    return ("%s@%s" % (oc, short_sig(sig)),
            "k=%s phase=%s end=%s ctx=%s size=%s where=%s" % (rec.get("k"), rec.get("phase"), rec.get("end"),
                                                             rec.get("ctx"), rec.get("size"), detail_sig))


def summarize(recs):
    """(Counter of outcomes, {class: [example records]}) - convenience for reports."""
    outcomes = collections.Counter(r["outcome"] + ("/" + r["via"] if r["outcome"] == "clean" else "") for r in recs)
    classes = collections.OrderedDict()
    for r in recs:
        c, _ = classify(r)
        if c != "ok":
            classes.setdefault(c, []).append(r)
    return outcomes, classes


# ---------------------------------------------------------------------------------------------------------
# glue for props/C19.py: known-site table, the check itself, replays

SITES_FILE = os.path.join(CORPUS, "known_sites.txt")
CRASHES = ("signal", "asan", "foreign", "double", "exit")


def uses_document(xsl):
    try:
        return "document(" in open(xsl, encoding="utf-8", errors="replace").read()
    except OSError:
        return False


CONTAINER_FRAMES = ("XalanVector::", "XalanList::", "XalanMap::", "XalanDeque::", "XalanDOMString::", "XalanSet::",
                    "ArenaAllocator::", "ReusableArenaAllocator::", "ArenaBlock", "ReusableArenaBlock", "XalanAllocator::",
                    "XalanConstruct", "XalanAllocationGuard", "XalanMemMgrAutoPtr", "XalanArrayAllocator::", "std::")


def norm_frames(sig, n):
    """the n innermost frames that are not internals of the containers / string / arena templates (whether those
    appear as frames of their own depends on the compiler's inlining, so they must not be part of a key)"""
    frames = (sig or "-").split("<")
    keep = [f for f in frames if not f.startswith(CONTAINER_FRAMES) or "::~" in f]
    return (keep or frames)[:n]


def site_key(rec, xsl=None, mode="single"):
    """Stable name of a non-contained outcome: the kind of outcome + the innermost frames of the refused
    allocation (+ the innermost destructor frame when the allocation was made inside a destructor).  No line
    numbers, no addresses, no allocation index.  In persist mode the allocation that matters for a terminate
    is the LAST refused one."""
    oc = rec.get("outcome") or "?"
    sig, dtor = rec.get("sig") or "-", rec.get("dtor") or "-"
    if mode == "persist" and oc == "terminate" and (rec.get("lsig") or "-") != "-":
        sig, dtor = rec.get("lsig"), rec.get("ldtor") or "-"
    if oc in ("clean", "notreached"):
        return "after-bad@" + "<".join(norm_frames(sig, 2))
    if oc == "terminate":
        if dtor != "-":
            # inside a destructor: the innermost destructor frame names the site
            return "terminate@|" + dtor.split("<")[-1]
        nf = norm_frames(sig, 2)
        # (the inlined ~GetAndReleaseCachedString shows as XalanDOMStringCache::release called from anywhere)
        return "terminate@" + (nf[0] if nf[0] == "XalanDOMStringCache::release" else "<".join(nf))
    if oc == "swallowed":
        return "swallowed:%s@%s" % (rec.get("out"), "document()" if (xsl and uses_document(xsl)) else "<".join(norm_frames(sig, 2)))
    if oc.split(":")[0] in CRASHES:
        return "crash@" + "<".join(norm_frames(sig, 3))
    return "%s@%s" % (oc, "<".join(norm_frames(sig, 2)))


HANDLER_SKIP = ("XalanVector::", "XalanList::", "XalanMap::", "XalanDeque::", "std::")


def handler_key(hs):
    """census key of an allocation made inside a catch handler: the frames that are not vector/list/map internals
    (the string class is kept: a string built inside a handler is exactly what the census is meant to see)"""
    frames = [f for f in hs[6:].split("<") if not f.startswith(HANDLER_SKIP)]
    return "handler@" + "<".join(frames[:4])


def handler_known(hs, sites):
    return handler_key(hs) in sites


def load_sites():
    """{key: finding id} from corpus/C19/known_sites.txt (lines: <finding id> <key>)"""
    sites = {}
    if os.path.exists(SITES_FILE):
        for ln in open(SITES_FILE):
            ln = ln.strip()
            if ln and not ln.startswith("#"):
                kid, _, key = ln.partition(" ")
                sites[key.strip()] = kid
    return sites


def plan(rng, thorough):
    """[(scenario, xsl, xml)]"""
    pool = list(POOL)
    pick = lambda n: rng.sample(pool, n)
    pairs = [("ctor",) + pool[0]]
    if not thorough:
        pairs += [("compile",) + pick(1)[0], ("parse",) + pick(1)[0]]
        pairs += [("transform",) + p for p in pick(3)]
        pairs += [("transform_compiled",) + pick(1)[0], ("two",) + pick(1)[0]]
    else:
        pairs += [("compile",) + p for p in pool] + [("parse",) + p for p in pool[:3]]
        pairs += [("transform",) + p for p in pool]
        pairs += [("transform_compiled",) + p for p in pick(3)] + [("two",) + p for p in pick(2)]
    pairs += [("fail_message",) + FAIL_INPUTS["fail_message"], ("fail_xpath",) + FAIL_INPUTS["fail_xpath"]]
    pairs += EXTRA_INPUTS
    return pairs


def replay_line(scenario, xsl, xml, mode, k, note=""):
    return "sweep %s %s %s %s %d%s" % (scenario, os.path.basename(xsl), os.path.basename(xml), mode, k,
                                       ("   # " + note) if note else "")


def check(ctx, known, widen=False, exe=None):
    """Fault enumeration on the real library.  Returns (new_failures [dict(case, what)], {finding id: hits})."""
    new, hits = [], {}
    if exe is None:
        exe, ok, log = core.build_harness("mem_sweep", "plain")
        if not ok:
            ctx.broken.append("oracle: harness/mem_sweep.cpp does not compile against the working tree: " + log[-400:])
            return new, hits
    sites = load_sites()
    if not sites:
        ctx.broken.append("oracle: corpus/C19/known_sites.txt is missing or empty")
    thorough = ctx.thorough or widen
    pairs = plan(ctx.rng, thorough)
    children = 0
    handler_new = set()
    summary = {}

    def one_pair(scenario, xsl, xml, mode, ks_of, env=None, exe_=None, with_plain=False):
        nonlocal children
        plain_ref = None
        exe_ = exe_ or exe
        c = count(exe_, scenario, xsl, xml, env=env)
        for _ in range(3):
            # the library under .build is shared with the other checks: when one of them relinks it while this
            # harness starts, the loader fails ("file too short", rc 127) - wait for the build lock and retry
            if c.get("N") is not None or not (c.get("rc") == 127 or "shared libraries" in c.get("error", "")):
                break
            core.build_lib("asan" if with_plain else "plain")
            time.sleep(2)
            c = count(exe_, scenario, xsl, xml, env=env)
        tag = "%s/%s" % (scenario, os.path.basename(xsl))
        if c.get("N") is None:
            new.append({"case": replay_line(scenario, xsl, xml, "count", 0), "what": "counting run failed: " + c.get("error", "?")})
            return []
        ctx.cov["evaluations"] += 1
        bal = (c.get("outstanding"), c.get("foreign"), c.get("double"))
        kid_bal = KNOWN_UNBALANCED.get(os.path.basename(xsl))
        if bal != (0, 0, 0) and kid_bal in known and bal[1:] == (0, 0):
            hits[kid_bal] = hits.get(kid_bal, 0) + 1
            return []
        if bal != (0, 0, 0):
            new.append({"case": replay_line(scenario, xsl, xml, "count", 0),
                        "what": "not balanced without any refusal: outstanding=%s foreign=%s double=%s after ~XalanTransformer %s" % (bal + (c.get("badfree") or "",))})
        if c.get("written_after_release"):
            new.append({"case": replay_line(scenario, xsl, xml, "count", 0),
                        "what": "%d block(s) were written to after they had been released to the manager (the quarantined blocks are filled with 0xDD at release and compared at exit)" % c["written_after_release"]})
        want_fail = scenario.startswith("fail_")
        if (c.get("status") != 0) != want_fail:
            new.append({"case": replay_line(scenario, xsl, xml, "count", 0), "what": "unexpected API status %s" % c.get("status")})
        for hs in c.get("handler_sigs", []):
            if hs.startswith("catch:"):
                if not handler_known(hs, sites):
                    handler_new.add(handler_key(hs))
        ks = ks_of(c["N"])
        recs = sweep(exe_, scenario, xsl, xml, ks, mode=mode, env=env)
        lost = [r["k"] for r in recs if r.get("outcome") == "harness-error"]
        if lost:
            core.build_lib("asan" if with_plain else "plain")
            time.sleep(2)
            again = {r["k"]: r for r in sweep(exe_, scenario, xsl, xml, lost, mode=mode, env=env)}
            recs = [again.get(r["k"], r) if r.get("outcome") == "harness-error" else r for r in recs]
        children += len(recs)
        if with_plain:
            plain_ref = {r["k"]: r for r in sweep(exe, scenario, xsl, xml, ks, mode=mode)}
        cnt = collections.Counter()
        for r in recs:
            cls, detail = classify(r)
            ctx.count("sweep:%s:%s" % (scenario, r.get("outcome", "?").split(":")[0]))
            cnt[r.get("outcome")] += 1
            if cls == "ok":
                continue
            key = site_key(r, xsl, mode)
            if plain_ref is not None:
                # sanitizer pass: the same index must also be a non-contained outcome of the plain library
                pr = plain_ref.get(r["k"])
                key = site_key(pr, xsl, mode) if (pr is not None and classify(pr)[0] != "ok") else "asan-only:" + key
            kid = sites.get(key)
            if kid and kid in known:
                hits[kid] = hits.get(kid, 0) + 1
            else:
                new.append({"case": replay_line(scenario, xsl, xml, mode, r["k"], key),
                            "what": "%s (%s); not a known site" % (cls, detail), "key": key})
        summary["%s %s%s" % (tag, mode, " asan" if with_plain else "")] = dict(cnt, N=c["N"])
        return recs

    for scenario, xsl, xml in pairs:
        one_pair(scenario, xsl, xml, "single",
                 lambda N: choose_ks(N, ctx.rng, quick=not thorough))
    if handler_new:
        ctx.broken.append("tie: allocation sites inside catch handlers that are not in corpus/C19/known_sites.txt: " + "; ".join(sorted(handler_new))[:600])
    if thorough or handler_new:
        # every allocation from the k-th on is refused until the API call returns: exercises allocations made in
        # handlers and during unwinding.  Almost every index ends in std::terminate through the K8 sites, so only
        # a sample is run and only non-K8 outcomes matter.
        for scenario in ("fail_xpath", "fail_message", "transform"):
            xsl, xml = FAIL_INPUTS.get(scenario, POOL[0])
            one_pair(scenario, xsl, xml, "persist", lambda N: choose_ks(N, ctx.rng, quick=True, first=20, strat=60))
    if ctx.tier == "thorough":
        ok_a, log_a = core.build_lib("asan")
        exe_a, ok_h, log_h = core.build_harness("mem_sweep", "asan") if ok_a else (None, False, log_a)
        if not ok_h:
            ctx.broken.append("oracle: asan variant of the sweep does not build: " + (log_h or log_a)[-300:])
        else:
            env = env_for("asan")
            for scenario, xsl, xml in [("ctor",) + POOL[0], ("parse",) + POOL[0], ("transform",) + POOL[2], ("fail_xpath",) + FAIL_INPUTS["fail_xpath"]]:
                one_pair(scenario, xsl, xml, "single", lambda N: choose_ks(N, ctx.rng, quick=True, first=40, strat=80),
                         env=env, exe_=exe_a, with_plain=True)
    ctx.notes["sweep_children"] = children
    ctx.notes["sweep_summary"] = summary
    return new, hits


def replay(lines, exe=None):
    """lines: 'sweep <scenario> <xsl> <xml> <mode> <k>'; returns 1 when some line does not end in a contained
    failure"""
    if exe is None:
        core.build_lib("plain")
        exe, ok, log = core.build_harness("mem_sweep", "plain")
    rc = 0
    for ln in lines:
        t = ln.split("#")[0].split()
        if len(t) >= 4 and t[0] == "multi":
            mexe, ok, log = core.build_harness("mem_multi", "plain", extra_flags=["-rdynamic"])
            res = run_multi(mexe, t[1], _p(t[2]), _p(t[3]))
            print(res.get("head"), [dict((k, m[k]) for k in ("name", "allocs", "outstanding", "foreign", "double", "cross")) for m in res["mgrs"]])
            bad, _ = multi_failures(res, t[2].startswith("fail_"), None, {})
            for b in bad:
                print("#   FAILS: " + b)
                rc = 1
            continue
        if len(t) < 6:
            continue
        _, scenario, xsl, xml, mode, k = t[:6]
        xsl, xml = _p(xsl), _p(xml)
        if mode == "count":
            c = count(exe, scenario, xsl, xml)
            print({k_: v for k_, v in c.items() if k_ != "raw"})
            if (c.get("outstanding"), c.get("foreign"), c.get("double")) != (0, 0, 0) or c.get("written_after_release"):
                rc = 1
            continue
        for r in sweep(exe, scenario, xsl, xml, [int(k)], mode=mode):
            cls, detail = classify(r)
            print("%s %s %s k=%s -> %s %s key=%s" % (scenario, os.path.basename(xsl), mode, k, cls, detail, site_key(r, xsl)))
            if cls != "ok":
                rc = 1
    return rc


def regen_sites(out=None):
    """Manual tool (never called by the check): full single-mode sweeps of every scenario x input and full
    persist-mode sweeps of the three persist scenarios on the CURRENT tree; returns {key: example} so that a
    human assigns every key to a finding."""
    exe, ok, log = build("plain")
    res = {}
    pairs = [("ctor",) + POOL[0]]
    for sc in ("compile", "parse", "transform", "transform_compiled", "two"):
        pairs += [(sc,) + p for p in POOL]
    pairs += [("fail_message",) + FAIL_INPUTS["fail_message"], ("fail_xpath",) + FAIL_INPUTS["fail_xpath"]]
    pairs += EXTRA_INPUTS
    jobs = [(sc, xsl, xml, "single") for sc, xsl, xml in pairs]
    jobs += [(sc,) + FAIL_INPUTS.get(sc, POOL[0]) + ("persist",) for sc in ("fail_xpath", "fail_message", "transform")]
    for scenario, xsl, xml, mode in jobs:
        c = count(exe, scenario, xsl, xml)
        for hs in c.get("handler_sigs", []):
            if hs.startswith("catch:"):
                res.setdefault(handler_key(hs), (scenario, os.path.basename(xsl), mode, 0, hs))
        for r in sweep(exe, scenario, xsl, xml, range(1, c["N"] + 1), mode=mode):
            if classify(r)[0] != "ok":
                res.setdefault(site_key(r, xsl, mode), (scenario, os.path.basename(xsl), mode, r["k"], r.get("sig")))
    return res


# ---------------------------------------------------------------------------------------------------------
# objects built on OTHER managers than the transformer's (harness/mem_multi.cpp)

MULTI_SCENARIOS = ["xerceswrap", "xerceswrap_rev", "stwrap", "compiled_other", "io_objects", "mixed"]
MULTI_FAIL = ["fail_message.xsl", "fail_xpath.xsl", "fail_rtf_key.xsl", "fail_rtf_xpath.xsl"]


def run_multi(exe, scenario, xsl, xml, env=None, timeout=120):
    p = subprocess.run([exe, scenario, xsl, xml], stdout=subprocess.PIPE, stderr=subprocess.PIPE,
                       universal_newlines=True, errors="replace", timeout=timeout, env=env, cwd=CORPUS)
    res = {"rc_proc": p.returncode, "mgrs": [], "sites": [], "head": None, "err": (p.stderr or "")[-300:]}
    for ln in p.stdout.splitlines():
        if ln.startswith("scenario="):
            res["head"] = _kv(ln)
        elif ln.startswith("MGR "):
            d = _kv(ln)
            d["name"] = ln.split()[1]
            for k in ("allocs", "outstanding", "foreign", "double", "intransform"):
                d[k] = int(d.get(k, -1))
            res["mgrs"].append(d)
        elif ln.startswith("SITE "):
            t = ln.split(None, 2)
            res["sites"].append((t[1], t[2] if len(t) > 2 else "?"))
        elif ln.startswith("EXCEPTION"):
            res["exception"] = ln
    return res


def multi_line(scenario, xsl, xml, note=""):
    return "multi %s %s %s%s" % (scenario, os.path.basename(xsl), os.path.basename(xml), ("   # " + note) if note else "")


def multi_failures(res, want_fail, ref_hash, allowed):
    """-> (violations [text], census deviations [text]) of one run of harness/mem_multi.cpp"""
    bad, census = [], []
    h = res.get("head")
    if h is None or res["rc_proc"] != 0:
        return ["the harness ended with status %s without a result (%s %s)" % (res["rc_proc"], res.get("exception", ""), res["err"][-160:])], []
    rc = int(h.get("rc", -99))
    if (rc != 0) != want_fail:
        bad.append("unexpected API status %d" % rc)
    if not want_fail and ref_hash is not None and h.get("outhash") != ref_hash:
        bad.append("the output differs from the output of the same transformation with everything on one manager")
    for m in res["mgrs"]:
        if m["outstanding"] != 0:
            bad.append("manager '%s': %d blocks still outstanding after its owner was destroyed" % (m["name"], m["outstanding"]))
        if m["foreign"] != 0:
            bad.append("manager '%s' was asked %d times to deallocate a block it did not hand out (first one belongs to '%s')" % (m["name"], m["foreign"], m.get("cross")))
        if m["double"] != 0:
            bad.append("manager '%s': %d double frees" % (m["name"], m["double"]))
    for name, sig in res["sites"]:
        if not any(f.rsplit("::", 1)[0] in allowed.get(name, ()) for f in sig.split("<")):
            census.append("manager '%s' served an allocation for the running transformation outside its owner's classes: %s" % (name, "<".join(sig.split("<")[:4])))
    return bad, census


def check_multi(ctx, known, exe=None):
    """Scenarios in which the objects handed to the transformer live on other managers than the transformer's.
    Returns new failures [dict(case, what)]."""
    new = []
    if exe is None:
        exe, ok, log = core.build_harness("mem_multi", "plain", extra_flags=["-rdynamic"])
        if not ok:
            ctx.broken.append("oracle: harness/mem_multi.cpp does not compile against the working tree: " + log[-400:])
            return new
    allowed = {}
    for key in load_sites():
        if key.startswith("other@"):
            _, name, cls = key.split("@", 2)
            allowed.setdefault(name, set()).add(cls)
    pool = list(POOL) if ctx.thorough else ctx.rng.sample(list(POOL), 2)
    jobs = []
    for xsl, xml in pool:
        for sc in MULTI_SCENARIOS:
            jobs.append((sc, xsl, xml, False))
    for f in MULTI_FAIL:
        for sc in (MULTI_SCENARIOS if ctx.thorough else ["xerceswrap", "stwrap", "compiled_other"]):
            jobs.append((sc, _p(f), _p("s1.xml"), True))
    jobs.append(("function", _p("ext_fn.xsl"), _p("s1.xml"), False))
    refs = {}
    for xsl, xml in set((j[1], j[2]) for j in jobs if not j[3] and j[0] != "function"):
        r = run_multi(exe, "plain", xsl, xml)
        refs[(xsl, xml)] = (r.get("head") or {}).get("outhash")
        jobs.append(("plain", xsl, xml, False))
    census_dev = set()
    with ThreadPoolExecutor(max_workers=core.NPROC) as ex:
        results = list(ex.map(lambda j: run_multi(exe, j[0], j[1], j[2]), jobs))
    for (sc, xsl, xml, want_fail), res in zip(jobs, results):
        if res["rc_proc"] == 127 or "shared libraries" in res["err"]:
            core.build_lib("plain")
            time.sleep(2)
            res = run_multi(exe, sc, xsl, xml)
        ctx.cov["evaluations"] += 1
        ctx.count("multi:" + sc)
        # (the reference run has no extension function installed: nothing to compare the function scenario with)
        bad, census = multi_failures(res, want_fail, None if sc == "function" else refs.get((xsl, xml)), allowed)
        for b in bad:
            new.append({"case": multi_line(sc, xsl, xml), "what": b})
        census_dev.update(census)
    if census_dev:
        ctx.broken.append("tie: allocations on behalf of a running transformation served by a manager other than the transformer's, outside the census of corpus/C19/known_sites.txt: " + "; ".join(sorted(census_dev))[:700])
    ctx.notes["multi_runs"] = len(jobs)
    return new
