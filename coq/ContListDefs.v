(* ContListDefs.v — executable model of xalanc::XalanList (Include/XalanList.hpp) at the level of node
   sequences: each list is the sequence of its nodes (node id, value) plus its LIFO chain of free
   nodes (m_freeListHeadPtr); constructNode takes the head of the free chain or allocates a fresh
   node, freeNode pushes the node on the chain, clear frees front to back, splice moves nodes between
   lists without touching any chain, swap exchanges list head and free chain.  The prev/next pointer
   surgery itself is not modelled (a node sequence is the abstraction of a well-formed ring).
   Specification: std::list as a list of values.  Definitions only. *)
From Coq Require Import List Arith Bool.
Require Import XV.ContVecDefs.
Import ListNotations.

Definition insert_at {A} (p : nat) (x : A) (l : list A) : list A := firstn p l ++ x :: skipn p l.
Definition remove_at {A} (p : nat) (l : list A) : list A := firstn p l ++ skipn (S p) l.
Definition move_in {A} (p : nat) (seg : list A) (l : list A) : list A := firstn p l ++ seg ++ skipn p l.

Record xl := mkxl { lo : list (nat * nat); lfree : list nat }.
Definition xl_empty : xl := mkxl [] [].

Record gstate := mkgs { g0 : xl; g1 : xl; gcur : bool; gnext : nat }.
Definition ginit : gstate := mkgs xl_empty xl_empty false 0.
Definition cur_g (s : gstate) := if gcur s then g1 s else g0 s.
Definition oth_g (s : gstate) := if gcur s then g0 s else g1 s.
Definition set_cur_g (s : gstate) (x : xl) (n : nat) := if gcur s then mkgs (g0 s) x true n else mkgs x (g1 s) false n.
Definition set_both_g (s : gstate) (c o : xl) := if gcur s then mkgs o c true (gnext s) else mkgs c o false (gnext s).

Definition construct_node (l : xl) (next p v : nat) : xl * nat :=
  match lfree l with
  | id :: rest => (mkxl (insert_at p (id, v) (lo l)) rest, next)
  | [] => (mkxl (insert_at p (next, v) (lo l)) [], S next)
  end.

Definition free_node (l : xl) (p : nat) : xl :=
  match nth_error (lo l) p with
  | Some (id, _) => mkxl (remove_at p (lo l)) (id :: lfree l)
  | None => l
  end.

Definition clear_list (l : xl) : xl := mkxl [] (rev (map fst (lo l)) ++ lfree l).

Inductive lop :=
| LPushB (v : nat) | LPushF (v : nat) | LPopB | LPopF | LIns (p v : nat) | LErase (p : nat) | LFront | LBack | LRIter
| LClear | LSwap | LSel (r : bool) | LSplice1 (p q : nat) | LSpliceN (p a b : nat) | LSpliceSelf (p q : nat).

Definition gstep (s : gstate) (o : lop) : option (gstate * ret) :=
  let l := cur_g s in
  let n := length (lo l) in
  let ot := oth_g s in
  match o with
  | LPushB v => let '(l', nx) := construct_node l (gnext s) n v in Some (set_cur_g s l' nx, RNone)
  | LPushF v => let '(l', nx) := construct_node l (gnext s) 0 v in Some (set_cur_g s l' nx, RNone)
  | LPopB => if n =? 0 then None else Some (set_cur_g s (free_node l (n - 1)) (gnext s), RNone)
  | LPopF => if n =? 0 then None else Some (set_cur_g s (free_node l 0) (gnext s), RNone)
  | LIns p v => if n <? p then None else let '(l', nx) := construct_node l (gnext s) p v in Some (set_cur_g s l' nx, RNum v)
  | LErase p => if p <? n then Some (set_cur_g s (free_node l p) (gnext s), RNone) else None
  | LFront => if n =? 0 then None else Some (s, RNum (snd (nth 0 (lo l) (0, 0))))
  | LBack => if n =? 0 then None else Some (s, RNum (snd (nth (n - 1) (lo l) (0, 0))))
  | LRIter => Some (s, RList (rev (map snd (lo l))))
  | LClear => Some (set_cur_g s (clear_list l) (gnext s), RNone)
  | LSwap => Some (mkgs (g1 s) (g0 s) (gcur s) (gnext s), RNone)
  | LSel r => Some (mkgs (g0 s) (g1 s) r (gnext s), RNone)
  | LSplice1 p q =>
      if ((p <=? n) && (q <? length (lo ot)))%bool
      then Some (set_both_g s (mkxl (move_in p (firstn 1 (skipn q (lo ot))) (lo l)) (lfree l))
                              (mkxl (remove_at q (lo ot)) (lfree ot)), RNone)
      else None
  | LSpliceN p a b =>
      if ((p <=? n) && (a <=? b) && (b <=? length (lo ot)))%bool
      then Some (set_both_g s (mkxl (move_in p (firstn (b - a) (skipn a (lo ot))) (lo l)) (lfree l))
                              (mkxl (firstn a (lo ot) ++ skipn b (lo ot)) (lfree ot)), RNone)
      else None
  | LSpliceSelf p q =>
      if ((p <=? n) && (q <? n))%bool
      then Some (set_cur_g s (if p =? q then l
                              else mkxl (move_in (if q <? p then p - 1 else p) (firstn 1 (skipn q (lo l))) (remove_at q (lo l))) (lfree l))
                             (gnext s), RNone)
      else None
  end.

(* observation: return value, size(), values, node ids (= order of first allocation), length of the free chain *)
Definition gobs : Type := option (ret * nat * list nat * list nat * nat).
Fixpoint grun (s : gstate) (ops : list lop) : list gobs :=
  match ops with
  | [] => []
  | o :: r =>
    match gstep s o with
    | None => None :: grun s r
    | Some (s', rt) =>
      let l := cur_g s' in
      Some (rt, length (lo l), map snd (lo l), map fst (lo l), length (lfree l)) :: grun s' r
    end
  end.

Fixpoint gfinal (s : gstate) (ops : list lop) : gstate :=
  match ops with
  | [] => s
  | o :: r => match gstep s o with None => gfinal s r | Some (s', _) => gfinal s' r end
  end.

(* specification: std::list *)
Definition set_both_l (s : lstate) (c o : list nat) := if lcur s then mkls o c true else mkls c o false.
Definition llstep (s : lstate) (o : lop) : option (lstate * ret) :=
  let l := cur_l s in
  let n := length l in
  let ot := oth_l s in
  match o with
  | LPushB v => Some (set_cur_l s (insert_at n v l), RNone)
  | LPushF v => Some (set_cur_l s (insert_at 0 v l), RNone)
  | LPopB => if n =? 0 then None else Some (set_cur_l s (remove_at (n - 1) l), RNone)
  | LPopF => if n =? 0 then None else Some (set_cur_l s (remove_at 0 l), RNone)
  | LIns p v => if n <? p then None else Some (set_cur_l s (insert_at p v l), RNum v)
  | LErase p => if p <? n then Some (set_cur_l s (remove_at p l), RNone) else None
  | LFront => if n =? 0 then None else Some (s, RNum (nth 0 l 0))
  | LBack => if n =? 0 then None else Some (s, RNum (nth (n - 1) l 0))
  | LRIter => Some (s, RList (rev l))
  | LClear => Some (set_cur_l s [], RNone)
  | LSwap => Some (mkls (l1 s) (l0 s) (lcur s), RNone)
  | LSel r => Some (mkls (l0 s) (l1 s) r, RNone)
  | LSplice1 p q =>
      if ((p <=? n) && (q <? length ot))%bool
      then Some (set_both_l s (move_in p (firstn 1 (skipn q ot)) l) (remove_at q ot), RNone) else None
  | LSpliceN p a b =>
      if ((p <=? n) && (a <=? b) && (b <=? length ot))%bool
      then Some (set_both_l s (move_in p (firstn (b - a) (skipn a ot)) l) (firstn a ot ++ skipn b ot), RNone) else None
  | LSpliceSelf p q =>
      if ((p <=? n) && (q <? n))%bool
      then Some (set_cur_l s (if p =? q then l else move_in (if q <? p then p - 1 else p) (firstn 1 (skipn q l)) (remove_at q l)), RNone)
      else None
  end.

Fixpoint llrun (s : lstate) (ops : list lop) : list (option (ret * nat * list nat)) :=
  match ops with
  | [] => []
  | o :: r =>
    match llstep s o with
    | None => None :: llrun s r
    | Some (s', rt) => Some (rt, length (cur_l s'), cur_l s') :: llrun s' r
    end
  end.

Definition strip_nodes (o : gobs) : option (ret * nat * list nat) :=
  match o with None => None | Some (r, n, vs, _, _) => Some (r, n, vs) end.
