(* Extraction of the character versions of string-length / substring / translate, the functions of
   this tree, and the expression evaluator that uses them. ExtrOcamlBasic only. *)
Require Import ExtrOcamlBasic.
Require Import XV.NumDefs XV.XpAst XV.DomDefs XV.XpDefs XV.XpCpDefs XV.XpCpTree.
Extraction "extracted/xpcp_model.ml"
  build_doc eval_this_tree eval_top to_string to_number to_boolean to_bits of_bits mkCtx
  length_this_tree substring_this_tree translate_this_tree length_of_events_this_tree
  cp_length cp_substring cp_translate cp_translate_chars counter_run counter_count f_substring f_translate
  decode encode well_formed this_flags.
