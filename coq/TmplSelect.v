(* TmplSelect.v — C10: lemmas about selection (part 2: first match = maximum, one level of the
   import tree against section 5.5, the import tree, apply-imports). *)
From Coq Require Import List Bool ZArith NArith Lia Sorting.Sorted.
From Coq Require Import ZifyBool ZifyNat ZifyN.
Require Import XV.TmplDefs XV.TmplModel.
Import ListNotations.
Local Open Scope Z_scope.

Section Sel.
  Variable node : Type.
  Variable key_of : node -> nkey.
  Variable pmatch : N -> node -> bool.
  Variable pa : bool.      (* per-alternative variant of findTemplate, see TmplDefs.per_alt *)

  Notation tmatch := (tmatch node pmatch).
  Notation ematch := (ematch node pmatch pa).
  Notation find_in_list := (find_in_list node pmatch pa).
  Notation applicable := (applicable node pmatch).
  Notation spec_choice := (spec_choice node pmatch).

  Definition ok (mode : option N) (n : node) (e : entry) : bool :=
    mode_eqb mode (t_mode (e_tmpl e)) && ematch e n.

  Lemma first_matching_some : forall alts n a,
    first_matching node pmatch alts n = Some a -> In a alts /\ pmatch (a_pat a) n = true.
  Proof.
    induction alts as [|x r IH]; intros n a H; cbn [first_matching] in H; [discriminate|].
    destruct (pmatch (a_pat x) n) eqn:E.
    - inversion H; subst. split; [left; reflexivity | exact E].
    - destruct (IH _ _ H). split; [right; assumption | assumption].
  Qed.

  Lemma first_matching_none : forall alts n,
    first_matching node pmatch alts n = None -> forall a, In a alts -> pmatch (a_pat a) n = false.
  Proof.
    induction alts as [|x r IH]; intros n H a Ha; cbn [first_matching] in H; [destruct Ha|].
    destruct (pmatch (a_pat x) n) eqn:E; [discriminate|].
    destruct Ha as [<-|Ha]; [exact E | apply IH; assumption].
  Qed.

  Lemma tmatch_iff : forall t n,
    tmatch t n = true <-> exists a, In a (t_alts t) /\ pmatch (a_pat a) n = true.
  Proof.
    intros t n. unfold TmplDefs.tmatch. destruct (first_matching node pmatch (t_alts t) n) eqn:E.
    - split; [intros _|reflexivity]. exists a. apply first_matching_some; exact E.
    - split; [discriminate|]. intros [a [Ha Hm]].
      rewrite (first_matching_none _ _ E a Ha) in Hm. discriminate.
  Qed.

  (* ------------------------------------------------------------------------------------ *)
  (* quiet path: the first hit of a sorted list is the maximum *)

  Lemma find_in_list_none : forall l mode n,
    find_in_list l mode n = None <-> forall e, In e l -> ok mode n e = false.
  Proof.
    induction l as [|x r IH]; intros mode n; cbn [TmplDefs.find_in_list].
    - split; [intros _ e [] | reflexivity].
    - fold (ok mode n x). destruct (ok mode n x) eqn:E.
      + split; [discriminate|]. intro H. rewrite (H x (or_introl eq_refl)) in E. discriminate.
      + rewrite IH. split.
        * intros H e [<-|He]; [exact E | apply H; exact He].
        * intros H e He. apply H. right; exact He.
  Qed.

  Lemma find_in_list_some : forall l mode n t,
    StronglySorted ge_entry l -> find_in_list l mode n = Some t ->
    exists e, In e l /\ e_tmpl e = t /\ ok mode n e = true /\
              forall e', In e' l -> ok mode n e' = true -> ge_entry e e'.
  Proof.
    induction l as [|x r IH]; intros mode n t Hs H; cbn [TmplDefs.find_in_list] in H; [discriminate|].
    fold (ok mode n x) in H. inversion Hs as [|? ? Hr Hall]; subst.
    destruct (ok mode n x) eqn:E.
    - inversion H; subst. exists x. split; [left; reflexivity|]. split; [reflexivity|]. split; [exact E|].
      intros e' [<-|He] _.
      + destruct (ge_entry_total x x); assumption.
      + rewrite Forall_forall in Hall. apply Hall; exact He.
    - destruct (IH mode n t Hr H) as [e [He [Ht [Hok Hmax]]]].
      exists e. split; [right; exact He|]. split; [exact Ht|]. split; [exact Hok|].
      intros e' [<-|He'] Hok'; [rewrite E in Hok'; discriminate | apply Hmax; assumption].
  Qed.

  (* ------------------------------------------------------------------------------------ *)
  (* entries and rules of one level *)

  Definition prio_of (t : template) (a : alt) : Z :=
    match t_prio t with Some p => p | None => score_value (a_score a) end.

  Lemma pairs_alts_facts : forall alts prec idx t cnt e r,
    In (e, r) (pairs_alts prec idx t alts cnt) ->
    e_tmpl e = t /\ r_tmpl r = t /\ r_alt r = e_alt e /\ In (e_alt e) alts /\ r_prec r = prec /\
    r_pos r = idx /\ r_prio r = prio_or_default e /\ r_prio r = prio_of t (e_alt e) /\
    (cnt <= e_pos e < cnt + N.of_nat (length alts))%N.
  Proof.
    induction alts as [|a l IH]; intros prec idx t cnt e r H; cbn [pairs_alts] in H; [destruct H|].
    destruct H as [H|H].
    - inversion H; subst; cbn. unfold prio_or_default, prio_of; cbn.
      repeat split; try reflexivity; try lia. left; reflexivity.
    - destruct (IH _ _ _ _ _ _ H) as (h1 & h2 & h3 & h4 & h5 & h6 & h7 & h8 & h9).
      repeat split; try assumption; cbn [length]; try lia. right; exact h4.
  Qed.

  Lemma pairs_alts_sibling : forall alts prec idx t cnt a,
    In a alts -> exists e r, In (e, r) (pairs_alts prec idx t alts cnt) /\ e_alt e = a.
  Proof.
    induction alts as [|x l IH]; intros prec idx t cnt a Ha; [destruct Ha|].
    cbn [pairs_alts]. destruct Ha as [<-|Ha].
    - eexists; eexists; split; [left; reflexivity | reflexivity].
    - destruct (IH prec idx t (N.succ cnt) a Ha) as (e & r & H1 & H2).
      exists e, r. split; [right; exact H1 | exact H2].
  Qed.

  Lemma pairs_facts : forall ts prec idx cnt e r,
    In (e, r) (pairs prec idx ts cnt) ->
    r_tmpl r = e_tmpl e /\ r_alt r = e_alt e /\ In (e_alt e) (t_alts (e_tmpl e)) /\ r_prec r = prec /\
    r_prio r = prio_or_default e /\ r_prio r = prio_of (e_tmpl e) (e_alt e) /\ In (e_tmpl e) ts /\
    (idx <= r_pos r)%nat /\ (cnt <= e_pos e)%N.
  Proof.
    induction ts as [|t l IH]; intros prec idx cnt e r H; cbn [pairs] in H; [destruct H|].
    apply in_app_iff in H. destruct H as [H|H].
    - destruct (pairs_alts_facts _ _ _ _ _ _ _ H) as (h1 & h2 & h3 & h4 & h5 & h6 & h7 & h8 & h9).
      subst t. repeat split; try assumption; try lia. left; reflexivity.
    - destruct (IH _ _ _ _ _ H) as (h1 & h2 & h3 & h4 & h5 & h6 & h7 & h8 & h9).
      repeat split; try assumption; try lia. right; exact h7.
  Qed.

  (* a later template has later positions *)
  Lemma pairs_mono : forall ts prec idx cnt e1 r1 e2 r2,
    In (e1, r1) (pairs prec idx ts cnt) -> In (e2, r2) (pairs prec idx ts cnt) ->
    (r_pos r1 < r_pos r2)%nat -> (e_pos e1 < e_pos e2)%N.
  Proof.
    induction ts as [|t l IH]; intros prec idx cnt e1 r1 e2 r2 H1 H2 Hlt; cbn [pairs] in *; [destruct H1|].
    apply in_app_iff in H1. apply in_app_iff in H2.
    destruct H1 as [H1|H1], H2 as [H2|H2].
    - destruct (pairs_alts_facts _ _ _ _ _ _ _ H1) as (_ & _ & _ & _ & _ & h6 & _).
      destruct (pairs_alts_facts _ _ _ _ _ _ _ H2) as (_ & _ & _ & _ & _ & g6 & _). lia.
    - destruct (pairs_alts_facts _ _ _ _ _ _ _ H1) as (_ & _ & _ & _ & _ & _ & _ & _ & h9).
      destruct (pairs_facts _ _ _ _ _ _ H2) as (_ & _ & _ & _ & _ & _ & _ & _ & g9). lia.
    - destruct (pairs_alts_facts _ _ _ _ _ _ _ H2) as (_ & _ & _ & _ & _ & g6 & _).
      destruct (pairs_facts _ _ _ _ _ _ H1) as (_ & _ & _ & _ & _ & _ & _ & h8 & _). lia.
    - eapply IH; eassumption.
  Qed.

  (* the other alternatives of the same template occurrence *)
  Lemma pairs_sibling : forall ts prec idx cnt e r a,
    In (e, r) (pairs prec idx ts cnt) -> In a (t_alts (e_tmpl e)) ->
    exists e' r', In (e', r') (pairs prec idx ts cnt) /\ r_pos r' = r_pos r /\
                  e_tmpl e' = e_tmpl e /\ e_alt e' = a.
  Proof.
    induction ts as [|t l IH]; intros prec idx cnt e r a H Ha; cbn [pairs] in *; [destruct H|].
    apply in_app_iff in H. destruct H as [H|H].
    - destruct (pairs_alts_facts _ _ _ _ _ _ _ H) as (h1 & _ & _ & _ & _ & h6 & _).
      rewrite h1 in Ha.
      destruct (pairs_alts_sibling (t_alts t) prec idx t cnt a Ha) as (e' & r' & H1 & H2).
      destruct (pairs_alts_facts _ _ _ _ _ _ _ H1) as (g1 & _ & _ & _ & _ & g6 & _).
      exists e', r'. split; [apply in_app_iff; left; exact H1|]. repeat split; congruence.
    - destruct (IH _ _ _ _ _ _ H Ha) as (e' & r' & H1 & H2).
      exists e', r'. split; [apply in_app_iff; right; exact H1 | exact H2].
  Qed.

  Lemma rules_of_template_pairs : forall alts prec idx t cnt,
    map snd (pairs_alts prec idx t alts cnt) =
    map (fun a => {| r_prec := prec;
                     r_prio := match t_prio t with Some p => p | None => score_value (a_score a) end;
                     r_pos := idx; r_tmpl := t; r_alt := a |}) alts.
  Proof.
    induction alts as [|a l IH]; intros; cbn [pairs_alts map snd]; [reflexivity|]. f_equal. apply IH.
  Qed.

  Lemma rules_of_level_pairs : forall ts prec idx cnt,
    rules_of_level prec idx ts = map snd (pairs prec idx ts cnt).
  Proof.
    induction ts as [|t l IH]; intros; cbn [rules_of_level pairs]; [reflexivity|].
    rewrite map_app. f_equal; [|apply IH].
    unfold rules_of_template. symmetry. apply rules_of_template_pairs.
  Qed.

  Lemma in_pairs_of_rule : forall ts prec idx cnt r,
    In r (rules_of_level prec idx ts) -> exists e, In (e, r) (pairs prec idx ts cnt).
  Proof.
    intros ts prec idx cnt r H. rewrite (rules_of_level_pairs ts prec idx cnt) in H.
    apply in_map_iff in H. destruct H as [[e r'] [Hr H]]. cbn in Hr. subst r'. exists e; exact H.
  Qed.

  Lemma in_pairs_of_entry : forall ts prec idx cnt e,
    In e (map fst (pairs 0 0 ts cnt)) -> exists r, In (e, r) (pairs prec idx ts cnt).
  Proof.
    intros ts prec idx cnt e H. rewrite (pairs_fst_indep ts 0%nat 0%nat prec idx cnt) in H.
    apply in_map_iff in H. destruct H as [[e' r] [He H]]. cbn in He. subst e'. exists r; exact H.
  Qed.

  (* ------------------------------------------------------------------------------------ *)
  (* the guards, per level *)

  Definition level_uniform (ts : list template) : bool := forallb uniform_template ts.

  Definition level_filed (ts : list template) (n : node) : bool :=
    forallb (fun t => forallb (fun a => implb (pmatch (a_pat a) n) (covers (a_target a) (key_of n)))
                              (t_alts t)) ts.

  Lemma uniform_prio : forall t a b,
    uniform_template t = true -> In a (t_alts t) -> In b (t_alts t) -> prio_of t a = prio_of t b.
  Proof.
    unfold uniform_template, prio_of. intros t a b H Ha Hb.
    destruct (t_prio t); [reflexivity|].
    destruct (t_alts t) as [|x l]; [destruct Ha|].
    rewrite forallb_forall in H.
    assert (Hx : forall y, In y (x :: l) -> score_value (a_score y) = score_value (a_score x)).
    { intros y [<-|Hy]; [reflexivity|]. specialize (H y Hy). lia. }
    rewrite (Hx a Ha), (Hx b Hb). reflexivity.
  Qed.

  (* one level (one Stylesheet object) against section 5.5 *)
  Definition level_find (ts : list template) (mode : option N) (n : node) : option template :=
    find_in_list (locate (build_tables ts) (key_of n)) mode n.

  Lemma level_spec : forall ts prec mode n,
    pa = true \/ level_uniform ts = true -> level_filed ts n = true ->
    spec_choice (rules_of_level prec 0 ts) mode n (level_find ts mode n).
  Proof.
    intros ts prec mode n Hu Hf. unfold level_find, level_uniform, level_filed in *.
    rewrite forallb_forall in Hf.
    (* an applicable rule has an ok entry in the node's list *)
    assert (Hrule : forall r, In r (rules_of_level prec 0 ts) -> applicable mode n r = true ->
              exists e, In (e, r) (pairs prec 0 ts 0) /\ In e (locate (build_tables ts) (key_of n)) /\ ok mode n e = true).
    { intros r Hr Ha. destruct (in_pairs_of_rule ts prec 0%nat 0%N r Hr) as [e He].
      exists e. split; [exact He|].
      destruct (pairs_facts _ _ _ _ _ _ He) as (h1 & h2 & h3 & h4 & h5 & h6 & h7 & h8 & h9).
      unfold TmplDefs.applicable in Ha. apply andb_true_iff in Ha. destruct Ha as [Hm Hp].
      rewrite h1 in Hm. rewrite h2 in Hp.
      split.
      - apply locate_contents. split.
        + unfold entries. rewrite (pairs_fst_indep ts 0%nat 0%nat prec 0%nat 0%N).
          apply in_map_iff. exists (e, r). split; [reflexivity | exact He].
        + specialize (Hf _ h7). rewrite forallb_forall in Hf. specialize (Hf _ h3).
          rewrite Hp in Hf. exact Hf.
      - unfold ok, TmplDefs.ematch. rewrite Hm. cbn. destruct pa; [exact Hp|].
        apply tmatch_iff. exists (e_alt e). split; assumption. }
    destruct (find_in_list (locate (build_tables ts) (key_of n)) mode n) as [t|] eqn:E; cbn.
    - destruct (find_in_list_some _ _ _ _ (locate_sorted ts (key_of n)) E) as (e & He & Ht & Hok & Hmax).
      apply locate_contents in He. destruct He as [HeE _]. unfold entries in HeE.
      destruct (in_pairs_of_entry ts prec 0%nat 0%N e HeE) as [re Hre].
      unfold ok, TmplDefs.ematch in Hok. apply andb_true_iff in Hok. destruct Hok as [Hmode Htm].
      destruct pa eqn:Epa.
      { (* per-alternative variant: the entry's own rule is the maximum *)
        destruct (pairs_facts _ _ _ _ _ _ Hre) as (h1 & h2 & h3 & h4 & h5 & h6 & h7 & h8 & h9).
        exists re. split.
        { rewrite (rules_of_level_pairs ts prec 0%nat 0%N). apply in_map_iff. exists (e, re). split; [reflexivity | exact Hre]. }
        split.
        { unfold TmplDefs.applicable. rewrite h1, h2, Hmode, Htm. reflexivity. }
        split; [congruence|].
        intros r2 Hr2 Ha2.
        destruct (Hrule r2 Hr2 Ha2) as (e2 & Hp2 & Hin2 & Hok2).
        specialize (Hmax e2 Hin2 Hok2).
        destruct (pairs_facts _ _ _ _ _ _ Hp2) as (k1 & k2 & k3 & k4 & k5 & k6 & k7 & k8 & k9).
        unfold rule_le. right. split; [congruence|].
        unfold ge_entry in Hmax. rewrite k5, h5.
        destruct Hmax as [Hlt|[Heq Hle]]; [left; exact Hlt|].
        right. split; [symmetry; exact Heq|].
        destruct (Nat.le_gt_cases (r_pos r2) (r_pos re)) as [Hc|Hc]; [exact Hc|].
        pose proof (pairs_mono _ _ _ _ _ _ _ _ Hre Hp2 Hc). lia. }
      destruct Hu as [Hu|Hu]; [discriminate|]. rewrite forallb_forall in Hu.
      apply tmatch_iff in Htm. destruct Htm as (a & Ha & Hpa).
      destruct (pairs_sibling _ _ _ _ _ _ a Hre Ha) as (e' & r' & Hp' & Hpos' & Htm' & Halt').
      destruct (pairs_facts _ _ _ _ _ _ Hre) as (h1 & h2 & h3 & h4 & h5 & h6 & h7 & h8 & h9).
      destruct (pairs_facts _ _ _ _ _ _ Hp') as (g1 & g2 & g3 & g4 & g5 & g6 & g7 & g8 & g9).
      exists r'. split.
      { rewrite (rules_of_level_pairs ts prec 0%nat 0%N). apply in_map_iff. exists (e', r'). split; [reflexivity | exact Hp']. }
      split.
      { unfold TmplDefs.applicable. rewrite g1, g2, Htm', Halt', Hmode, Hpa. reflexivity. }
      split; [congruence|].
      intros r2 Hr2 Ha2.
      destruct (Hrule r2 Hr2 Ha2) as (e2 & Hp2 & Hin2 & Hok2).
      specialize (Hmax e2 Hin2 Hok2).
      destruct (pairs_facts _ _ _ _ _ _ Hp2) as (k1 & k2 & k3 & k4 & k5 & k6 & k7 & k8 & k9).
      assert (Hprio : r_prio r' = prio_or_default e).
      { rewrite g6, Htm', Halt', <- h5, h6. apply uniform_prio; [apply Hu; exact h7 | exact Ha | exact h3]. }
      unfold rule_le. right. split; [congruence|].
      unfold ge_entry in Hmax. rewrite k5, Hprio.
      destruct Hmax as [Hlt|[Heq Hle]]; [left; exact Hlt|].
      right. split; [symmetry; exact Heq|].
      rewrite Hpos'.
      destruct (Nat.le_gt_cases (r_pos r2) (r_pos re)) as [Hc|Hc]; [exact Hc|].
      pose proof (pairs_mono _ _ _ _ _ _ _ _ Hre Hp2 Hc). lia.
    - intros r Hr. destruct (applicable mode n r) eqn:Ha; [|reflexivity].
      destruct (Hrule r Hr Ha) as (e & _ & Hin & Hok).
      rewrite (proj1 (find_in_list_none _ _ _) E e Hin) in Hok. discriminate.
  Qed.

  (* ------------------------------------------------------------------------------------ *)
  (* levels in increasing precedence *)

  Fixpoint first_some {A B : Type} (f : A -> option B) (l : list A) : option B :=
    match l with
    | [] => None
    | x :: r => match f x with Some y => Some y | None => first_some f r end
    end.

  Lemma first_some_app : forall {A B} (f : A -> option B) l1 l2,
    first_some f (l1 ++ l2) = match first_some f l1 with Some y => Some y | None => first_some f l2 end.
  Proof.
    induction l1 as [|x r IH]; intros; cbn [first_some app]; [reflexivity|].
    destruct (f x); [reflexivity | apply IH].
  Qed.

  Lemma rules_of_level_prec : forall ts prec idx r, In r (rules_of_level prec idx ts) -> r_prec r = prec.
  Proof.
    intros ts prec idx r H. destruct (in_pairs_of_rule ts prec idx 0%N r H) as [e He].
    apply pairs_facts in He. tauto.
  Qed.

  Lemma rules_of_levels_prec : forall ls base r, In r (rules_of_levels base ls) -> (base <= r_prec r)%nat.
  Proof.
    induction ls as [|ts l IH]; intros base r H; cbn [rules_of_levels] in H; [destruct H|].
    apply in_app_iff in H. destruct H as [H|H].
    - apply rules_of_level_prec in H. lia.
    - apply IH in H. lia.
  Qed.

  Definition levels_guard (ls : list (list template)) (n : node) : Prop :=
    forall ts, In ts ls -> (pa = true \/ level_uniform ts = true) /\ level_filed ts n = true.

  Lemma levels_spec : forall ls base mode n,
    levels_guard ls n ->
    spec_choice (rules_of_levels base ls) mode n (first_some (fun ts => level_find ts mode n) (rev ls)).
  Proof.
    induction ls as [|ts l IH]; intros base mode n Hg.
    - cbn. intros r [].
    - cbn [rev rules_of_levels]. rewrite first_some_app.
      assert (Hg' : levels_guard l n) by (intros x Hx; apply Hg; right; exact Hx).
      specialize (IH (S base) mode n Hg').
      destruct (first_some (fun ts0 => level_find ts0 mode n) (rev l)) as [t|] eqn:E.
      + cbn in IH |- *. destruct IH as (r & Hr & Ha & Ht & Hmax).
        exists r. split; [apply in_app_iff; right; exact Hr|]. split; [exact Ha|]. split; [exact Ht|].
        intros r' Hr' Ha'. apply in_app_iff in Hr'. destruct Hr' as [Hr'|Hr']; [|apply Hmax; assumption].
        apply rules_of_level_prec in Hr'. apply rules_of_levels_prec in Hr.
        unfold rule_le. left. lia.
      + cbn [first_some]. destruct (Hg ts (or_introl eq_refl)) as [Hu Hf].
        pose proof (level_spec ts base mode n Hu Hf) as Hl.
        destruct (level_find ts mode n) as [t|] eqn:El; cbn in *.
        * destruct Hl as (r & Hr & Ha & Ht & Hmax).
          exists r. split; [apply in_app_iff; left; exact Hr|]. split; [exact Ha|]. split; [exact Ht|].
          intros r' Hr' Ha'. apply in_app_iff in Hr'. destruct Hr' as [Hr'|Hr']; [apply Hmax; assumption|].
          rewrite (IH r' Hr') in Ha'. discriminate.
        * intros r Hr. apply in_app_iff in Hr. destruct Hr as [Hr|Hr]; [apply Hl | apply IH]; exact Hr.
  Qed.

End Sel.
