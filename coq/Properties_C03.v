(* Properties_C03.v — property theorems for C03 (no input crashes, hangs or corrupts memory; every
   failure is a reported error).  PARTIAL by design: Coq carries the enumerated logic mechanisms
   over facts regenerated from /repo (GenSafe.v); heap/stack safety of all other code is explored
   under sanitizers by props/C03.py.  Nothing here but statements closed by [exact]. *)
From Coq Require Import List NArith ZArith String Bool Lia SpecFloat.
Require Import XV.GenSafe XV.GenNum XV.NumDefs XV.NumModel XV.Num7FmtDefs XV.SafeDefs XV.SafeModel.
Import ListNotations.

(* (b) the census of fixed arrays, sprintf/strcpy/memcpy-like calls and double -> integer cast
   candidates of the library directories is covered by the audited list: a new site breaks this *)
Theorem census_complete : forall k, In k census_all -> exists a, In (k, a) allow_list.
Proof. exact census_complete_l. Qed.
Print Assumptions census_complete.

(* (a) double conversions: for every double, every precision the code tries and every stack buffer
   of NumberToDOMString / NumberToCharacters, sprintf's output with its NUL fits (C18's printf model) *)
Theorem buffer_bound_double : forall x p name size,
  valid_binary prec emax x = true -> In p safe_printf_precisions -> In (name, size) dbl_buffers ->
  (printf_bytes p x <= size)%nat.
Proof. exact buffer_bound_double_l. Qed.
Print Assumptions buffer_bound_double.

Example buffer_bound_double_nonvacuous :
  existsb (fun ns => String.eqb (fst ns) "NumberToDOMString.theBuffer" && Nat.leb 347 (snd ns)) dbl_buffers = true /\
  existsb (Nat.eqb 35) safe_printf_precisions = true /\
  valid_binary prec emax (of_bits 0xFFEFFFFFFFFFFFFF) = true /\
  printf_bytes 35 (of_bits 0xFFEFFFFFFFFFFFFF) = 347%nat.
Proof. vm_compute. repeat split. Qed.
Print Assumptions buffer_bound_double_nonvacuous.

(* integer conversions: any signed or unsigned 64-bit value stores at most 20 characters below the
   end pointer &theBuffer[e] and the terminator at e, inside XalanDOMChar theBuffer[size] *)
Theorem buffer_bound_integer_decimal : forall size e v,
  In (size, e) int_dec_buffers -> (- 2 ^ 63 <= v < 2 ^ 64)%Z ->
  exists n, scalar_dec_chars v = Some n /\ (N.of_nat n <= e)%N /\ (e < size)%N.
Proof. exact buffer_bound_dec_l. Qed.
Print Assumptions buffer_bound_integer_decimal.

Theorem integer_decimal_length : forall v, (- 2 ^ 63 <= v < 2 ^ 64)%Z ->
  exists n, scalar_dec_chars v = Some n /\ (1 <= n <= 20)%nat.
Proof. exact scalar_dec_bound. Qed.
Print Assumptions integer_decimal_length.

Example integer_decimal_length_tight :
  scalar_dec_chars (- 2 ^ 63) = Some 20%nat /\ scalar_dec_chars (2 ^ 64 - 1) = Some 20%nat /\
  scalar_dec_chars 0 = Some 1%nat /\ existsb (fun se => (20 <=? snd se)%N && (snd se <? fst se)%N) int_dec_buffers = true.
Proof. vm_compute. repeat split. Qed.
Print Assumptions integer_decimal_length_tight.

Theorem buffer_bound_integer_hexadecimal : forall size e v,
  In (size, e) int_hex_buffers -> (v < 2 ^ 64)%N ->
  exists n, scalar_hex_chars v = Some n /\ (N.of_nat n <= e)%N /\ (e < size)%N.
Proof. exact buffer_bound_hex_l. Qed.
Print Assumptions buffer_bound_integer_hexadecimal.

Theorem pointer_buffer_fits : forall v, (v < 2 ^ 64)%N ->
  exists n, scalar_hex_chars v = Some n /\ (2 + N.of_nat n + 1 <= pointer_buffer)%N.
Proof. exact pointer_buffer_fits_l. Qed.
Print Assumptions pointer_buffer_fits.

(* the atof stack buffer: under the coded length test every index the copy loop and the
   terminator write touch is inside char theBuffer[atof_buffer] *)
Theorem atof_buffer_guarded : forall len, atof_guard len atof_buffer = true ->
  forall i, atof_written i len -> (i < atof_buffer)%N.
Proof. exact atof_guarded_l. Qed.
Print Assumptions atof_buffer_guarded.

Example atof_buffer_guard_boundary :
  atof_guard (atof_buffer - 1) atof_buffer = true /\ atof_guard atof_buffer atof_buffer = false /\
  atof_written (atof_buffer - 1) (atof_buffer - 1).
Proof. vm_compute. repeat split. right. reflexivity. Qed.
Print Assumptions atof_buffer_guard_boundary.

(* the writers: for every constant-guarded store run found in XalanUTF8Writer / XalanUTF16Writer /
   XalanOtherEncodingWriter (guard constant, number of stores and decrement regenerated from the headers)
   and every fill state of the buffer, all stores land inside m_buffer and the unsigned counter does not
   wrap; same for the runs guarded by their own length *)
Theorem writer_runs_fit : forall cls k n d, In (cls, k, n, d) writer_runs ->
  forall r, (r <= writer_size cls)%N ->
  exists r2, guarded_run (writer_size cls) k n d r = Some r2 /\ (r2 <= writer_size cls)%N.
Proof. exact writer_runs_fit_l. Qed.
Print Assumptions writer_runs_fit.

Theorem writer_length_runs_fit : forall cls how, In (cls, how) writer_length_runs ->
  forall len r, (len <= writer_size cls)%N -> (r <= writer_size cls)%N ->
  exists r2, guarded_run (writer_size cls) len len len r = Some r2 /\ (r2 <= writer_size cls)%N.
Proof. exact writer_length_runs_fit_l. Qed.
Print Assumptions writer_length_runs_fit.

Example writer_run_off_by_one_is_caught :   (* a four-store run guarded by '< 3' with exactly 3 units left *)
  guarded_run 512 3 4 4 3 = None /\ guarded_run 512 4 4 4 3 = Some 508%N /\ guarded_run 512 4 4 4 4 = Some 0%N /\
  existsb (fun e => match e with (_, k, n, _) => (k =? 4)%N && (n =? 4)%N end) writer_runs = true.
Proof. vm_compute. repeat split. Qed.
Print Assumptions writer_run_off_by_one_is_caught.

(* XPathProcessorImpl::tokenize: the scans for the closing quote of a string literal read pat[k]
   only for k < nChars, for every string, start index and both quote characters *)
Theorem quote_scan_in_bounds : forall name test, In (name, test) quote_scan_tests ->
  forall fuel quote pat i n k, In k (scan_reads fuel test quote pat i n) -> (k < n)%N.
Proof. exact quote_scan_l. Qed.
Print Assumptions quote_scan_in_bounds.

Example quote_scan_unterminated :   (* 'ab  : reads 1, 2 and stops at nChars = 3 *)
  List.length quote_scan_tests = 2%nat /\
  scan_reads 10 N.ltb 39 (fun k => nth (N.to_nat k) [39; 97; 98]%N 0%N) 1 3 = [1; 2]%N.
Proof. vm_compute. split; reflexivity. Qed.
Print Assumptions quote_scan_unterminated.

(* int2alphaCount (model shared with C17): for every radix it is called with and every CountType
   value the loop terminates within its fuel and stores at most 14 characters, all inside buf[] *)
Theorem int2alpha_fits : forall name radix val,
  In (name, radix) alpha_radixes -> (val < 2 ^ count_type_bits)%N ->
  exists ix, alpha_indices radix val = Some ix /\ (List.length ix <= 14)%nat /\
             (N.of_nat (List.length ix) <= alpha_first_index + 1)%N /\ (alpha_first_index < alpha_buf_size)%N.
Proof. exact int2alpha_fits_l. Qed.
Print Assumptions int2alpha_fits.

Example int2alpha_fits_tight :
  option_map (@List.length N) (alpha_indices 25 (2 ^ 64 - 1)) = Some 14%nat /\
  option_map (@List.length N) (alpha_indices 26 (2 ^ 64 - 1)) = Some 14%nat /\
  existsb (fun nr => (snd nr =? 25)%N) alpha_radixes = true.
Proof. vm_compute. repeat split. Qed.
Print Assumptions int2alpha_fits_tight.

(* Stylesheet::findTemplate: when the visited patterns are distinct, carry a priority above the
   "none" score and are at most m_patternCount, the conflicts recorded never exceed the capacity
   of the storage the code selects (conflictsArray, or the vector resized to m_patternCount) *)
Theorem conflicts_bound : forall prio none_prio visited count,
  NoDup visited -> (forall p, In p visited -> (none_prio < prio p)%Z) ->
  (N.of_nat (List.length visited) <= count)%N ->
  (N.of_nat (List.length (conf (crun prio none_prio visited))) <= conflicts_capacity count)%N.
Proof. exact conflicts_bound_l. Qed.
Print Assumptions conflicts_bound.

Example conflicts_bound_instance :
  conf (crun (fun p => if (p =? 3)%N then 1%Z else 5%Z) (-1)%Z [1; 2; 3; 4]%N) = [1; 2; 4]%N /\
  conflicts_capacity conflicts_array = conflicts_array /\ conflicts_capacity (conflicts_array + 1) = (conflicts_array + 1)%N.
Proof. vm_compute. repeat split. Qed.
Print Assumptions conflicts_bound_instance.

(* (c) every catch clause found in doTransform / compileStylesheet / parseSource and the C-API
   wrappers yields a non-zero status, and (for the three C++ entry points) a message source *)
Theorem status_table_total : forall r, In r catch_table ->
  row_status r <> 0%Z /\ (in_transformer r = true -> row_sources r <> []).
Proof. exact status_table_total_l. Qed.
Print Assumptions status_table_total.

(* each of the five exception families is handled in each of the three entry points *)
Theorem catch_clauses_complete : forall fn e, In fn transformer_functions -> In e caught_classes ->
  exists st srcs, In (fn, e, st, srcs) catch_table /\ st <> 0%Z /\ srcs <> [].
Proof. exact catch_complete_l. Qed.
Print Assumptions catch_clauses_complete.

Theorem derived_handler_first : forall fn, In fn transformer_functions -> derived_first fn = true.
Proof. exact derived_first_l. Qed.
Print Assumptions derived_handler_first.

(* HYPOTHESIS of the property claim, stated explicitly: these are not handled by any clause and
   leave transform() as C++ exceptions (K19) *)
Theorem uncaught_exception_classes : forall fn e,
  In fn transformer_functions -> In e uncaught_classes -> ~ In e (clauses_of fn).
Proof. exact uncaught_l. Qed.
Print Assumptions uncaught_exception_classes.

(* double -> integer casts: guarded sites *)
Theorem cast_guarded_substring_start : forall r len, (0 <= len < 2 ^ 64)%Z -> (0 < r)%Z ->
  substring_start_casts r len = true -> in_uint64 r.
Proof. exact cast_substring_start_l. Qed.
Print Assumptions cast_guarded_substring_start.

Theorem cast_guarded_substring_length : forall l maxlen, (0 <= maxlen < 2 ^ 64 - 1)%Z -> (0 < l)%Z ->
  substring_length_casts l maxlen = true -> in_uint64 l.
Proof. exact cast_substring_length_l. Qed.
Print Assumptions cast_guarded_substring_length.

(* the former K9 sites and the two EXSLT sites: with the range guards now in the code (anchored by
   the translator) the casts are in range for every value that reaches them *)
Theorem cast_guarded_predicate : forall x len, (0 <= len < 2 ^ 64)%Z -> predicate_casts x len = true -> in_uint64 x.
Proof. exact cast_predicate_l. Qed.
Print Assumptions cast_guarded_predicate.

Theorem cast_guarded_count : forall x, count_casts x = true -> in_uint64 x.
Proof. exact cast_count_l. Qed.
Print Assumptions cast_guarded_count.

Theorem cast_guarded_int64 : forall x, int64_casts x = true -> in_int64 x.
Proof. exact cast_int64_l. Qed.
Print Assumptions cast_guarded_int64.

Theorem cast_guarded_padding : forall l, padding_casts l = true -> in_uint64 l.
Proof. exact cast_padding_l. Qed.
Print Assumptions cast_guarded_padding.

Theorem math_constant_index_in_table : forall p size, (0 < p)%Z -> (0 < size)%Z ->
  (0 <= math_constant_index p size < size)%Z.
Proof. exact math_constant_index_l. Qed.
Print Assumptions math_constant_index_in_table.

Example cast_guards_reject_the_former_witnesses :
  predicate_casts 99999999999999999999999 5 = false /\ count_casts (10 ^ 30) = false /\ int64_casts (2 ^ 63) = false /\
  padding_casts (-1) = false /\ math_constant_index 50 50 = 49%Z /\ predicate_casts 3 5 = true /\ count_casts 7 = true.
Proof. vm_compute. repeat split. Qed.
Print Assumptions cast_guards_reject_the_former_witnesses.
