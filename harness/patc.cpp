// Correspondence driver for the match-pattern compiler and the match scores (C09, part "compile", family patc).
// The strict op-map decoder is the one of harness/xpc.cpp (copied, so that the two protocols stay independent),
// extended by the MATCH_* step codes of patterns.
//
// Case line (fields separated by ONE space):   <id> <mode> <ns> <text> [<doc>]
//   <mode> P: compile <text> with XPathProcessorImpl::initMatchPattern and decode the op map
//          E: compile <text> with initXPath and decode the op map (same output as harness/xpc.cpp)
//          T: initMatchPattern, then XPath::getTargetData: one "<score>:<type>:<hexname>" per alternative
//          S: initMatchPattern, then XPath::getMatchScore for every node of <doc> (hex UTF-16 of an XML document)
//   <ns>   "-" or comma separated <hexprefix>=<hexuri>   (hex = 4 hex digits per UTF-16 unit, concatenated)
//   <text> the pattern / expression as hex UTF-16 units, "-" = the empty string
// Result line:  <id> ok <SEXPR>   |   <id> err <short ascii message>
//   P: (pattern (alt <pstep>...)...)   <pstep> = (ps <kind> <ntest> <pred>...) | (pf <func sexpr>)
//      <kind> = root | attr | imm | any | anyp | anyf
//   S: <id> ok <kind>:<hexns>:<hexlocal>:<score> ...   kind r e a n t c p; score - t w q o !
//      node order: document node, then pre-order: element, its attributes (as stored), children
// every length field must equal the decoded extent of its children (terminators included), every index must
// be in range; anything else prints  <id> ok (BADMAP <reason>).
#ifndef NDEBUG
#define NDEBUG 1
#endif
#include "common.hpp"
#include <map>
#include <stdexcept>
#include <xercesc/util/XMLException.hpp>
#include <xalanc/XalanDOM/XalanDOMException.hpp>
#include <xalanc/PlatformSupport/DOMStringHelper.hpp>
#include <xalanc/PlatformSupport/XSLException.hpp>
#include <xalanc/PlatformSupport/PrefixResolver.hpp>
#include <xalanc/XPath/XPath.hpp>
#include <xalanc/XPath/XPathExpression.hpp>
#include <xalanc/XPath/XPathFunctionTable.hpp>
#include <xalanc/XPath/XPathProcessorImpl.hpp>
#include <xalanc/XPath/XPathConstructionContextDefault.hpp>
#include <xalanc/XPath/XToken.hpp>
#include <xercesc/framework/MemBufInputSource.hpp>
#include <xalanc/XalanDOM/XalanDocument.hpp>
#include <xalanc/XalanDOM/XalanElement.hpp>
#include <xalanc/XalanDOM/XalanNamedNodeMap.hpp>
#include <xalanc/DOMSupport/DOMServices.hpp>
#include <xalanc/XPath/XObjectFactoryDefault.hpp>
#include <xalanc/XPath/XPathExecutionContextDefault.hpp>
#include <xalanc/XPath/XPathEnvSupportDefault.hpp>
#include <xalanc/XalanSourceTree/XalanSourceTreeDOMSupport.hpp>
#include <xalanc/XalanSourceTree/XalanSourceTreeParserLiaison.hpp>

using namespace xalanc;
using namespace verif;

typedef XPathExpression XE;

static std::string key_of(const XalanDOMString& s)
{
    std::string r;
    char buf[8];
    for (XalanDOMString::size_type i = 0; i < s.length(); ++i) {
        std::snprintf(buf, sizeof buf, "%04x", (unsigned) s[i]);
        r += buf;
    }
    return r;
}

static std::string str_of(const XalanDOMString& s) { return "#" + key_of(s); }

// first line only, printable ASCII only, bounded length
static std::string ascii_of(const XalanDOMString& s)
{
    std::string r;
    for (XalanDOMString::size_type i = 0; i < s.length() && r.size() < 160; ++i) {
        const unsigned c = s[i];
        if (c < 0x20) break;
        r += c < 0x7f ? (char) c : '?';
    }
    return r;
}

static std::string ascii_of(const char* s)
{
    std::string r;
    for (; s && *s && r.size() < 160; ++s) {
        if ((unsigned char) *s < 0x20) break;
        r += (unsigned char) *s < 0x7f ? *s : '?';
    }
    return r;
}

static bool unhex(const std::string& h, XalanDOMString& out)
{
    out.clear();
    if (h == "-") return true;
    if (h.empty() || h.size() % 4 != 0) return false;
    for (size_t i = 0; i < h.size(); i += 4) {
        unsigned v = 0;
        for (size_t k = 0; k < 4; ++k) {
            const char c = h[i + k];
            unsigned d;
            if (c >= '0' && c <= '9') d = c - '0';
            else if (c >= 'a' && c <= 'f') d = c - 'a' + 10;
            else if (c >= 'A' && c <= 'F') d = c - 'A' + 10;
            else return false;
            v = v * 16 + d;
        }
        out.append(1, (XalanDOMChar) v);
    }
    return true;
}

class MapResolver : public PrefixResolver
{
public:
    std::map<std::string, XalanDOMString> m_map;    // key: hex of the prefix
    XalanDOMString m_uri;
    virtual const XalanDOMString* getNamespaceForPrefix(const XalanDOMString& prefix) const
    {
        std::map<std::string, XalanDOMString>::const_iterator i = m_map.find(key_of(prefix));
        return i == m_map.end() ? 0 : &i->second;
    }
    virtual const XalanDOMString& getURI() const { return m_uri; }
};

struct Bad { std::string why; Bad(const std::string& w) : why(w) {} };

static std::string itos(long v) { char b[32]; std::snprintf(b, sizeof b, "%ld", v); return b; }

// Strict decoder of the op map of one compiled expression.
class Decoder
{
public:
    Decoder(const XE& e) : m_e(e), m_size(e.opCodeMapSize()), m_tokens(e.tokenQueueSize()), m_numbers(0) {}

    std::string run()
    {
        if (m_size < 2) bad("map-shorter-than-2", 0);
        if (at(0) != XE::eOP_XPATH) bad("no-eOP_XPATH-at-0", 0);
        if (at(1) != m_size) throw Bad("total-length-slot-" + itos(at(1)) + "-but-map-size-" + itos(m_size));
        int pos = 2;
        const std::string r = expr(pos, m_size);
        if (pos != m_size) throw Bad("map-not-consumed:decoded-" + itos(pos) + "-of-" + itos(m_size));
        return r;
    }

    // eOP_MATCHPATTERN total ( eOP_LOCATIONPATHPATTERN len <pstep>... eENDOP )... eENDOP
    std::string runPattern()
    {
        if (m_size < 3) bad("map-shorter-than-3", 0);
        if (at(0) != XE::eOP_MATCHPATTERN) bad("no-eOP_MATCHPATTERN-at-0", 0);
        if (at(1) != m_size) throw Bad("total-length-slot-" + itos(at(1)) + "-but-map-size-" + itos(m_size));
        int pos = 2;
        std::string r = "(pattern";
        int alts = 0;
        while (pos < m_size - 1) {
            if (at(pos) != XE::eOP_LOCATIONPATHPATTERN) throw Bad("alternative-expected-found-" + itos(at(pos)) + "@" + itos(pos));
            const int start = pos;
            const int end = start + len(start, m_size - 1, 3);
            pos = start + 2;
            r += " (alt";
            while (pos < end - 1) r += " " + pstep(pos, end - 1);
            if (pos != end - 1) bad("alternative-overrun", pos);
            endop(pos, "alternative");
            pos = end;
            r += ")";
            ++alts;
        }
        if (pos != m_size - 1) bad("pattern-overrun", pos);
        endop(pos, "pattern");
        if (alts == 0) throw Bad("pattern-without-alternative");
        return r + ")";
    }

private:
    const XE&   m_e;
    const int   m_size;
    const int   m_tokens;
    int         m_numbers;      // number literals met so far (their indices are handed out in map order)

    void bad(const char* what, int pos) const { throw Bad(std::string(what) + "@" + itos(pos)); }

    int at(int i) const
    {
        if (i < 0 || i >= m_size) bad("read-outside-map", i);
        return m_e.getOpCodeMapValue(XE::OpCodeMapSizeType(i));
    }

    // the length slot of the op at pos; the op must lie inside [pos, limit)
    int len(int pos, int limit, int minimum) const
    {
        if (pos + 1 >= limit) bad("no-room-for-length-slot", pos);
        const int l = at(pos + 1);
        if (l < minimum) throw Bad("length-" + itos(l) + "-below-" + itos(minimum) + "@" + itos(pos));
        if (l > limit - pos) throw Bad("length-" + itos(l) + "-beyond-parent-end-" + itos(limit) + "@" + itos(pos));
        return l;
    }

    std::string token(int slotPos) const
    {
        const int i = at(slotPos);
        if (i < 0 || i >= m_tokens) throw Bad("token-index-" + itos(i) + "-of-" + itos(m_tokens) + "@" + itos(slotPos));
        return str_of(m_e.getToken(i)->str());
    }

    void endop(int pos, const char* what) const
    {
        if (at(pos) != XE::eENDOP) throw Bad(std::string("no-eENDOP-closing-") + what + "@" + itos(pos) + ":found-" + itos(at(pos)));
    }

    static bool isAxis(int op) { return op >= XE::eFROM_ANCESTORS && op <= XE::eFROM_ROOT; }
    static bool isPred(int op) { return op == XE::eOP_PREDICATE || op == XE::eOP_PREDICATE_WITH_POSITION; }

    static const char* binName(int op)
    {
        switch (op) {
        case XE::eOP_OR: return "or";           case XE::eOP_AND: return "and";
        case XE::eOP_NOTEQUALS: return "ne";    case XE::eOP_EQUALS: return "eq";
        case XE::eOP_LTE: return "lte";         case XE::eOP_LT: return "lt";
        case XE::eOP_GTE: return "gte";         case XE::eOP_GT: return "gt";
        case XE::eOP_PLUS: return "plus";       case XE::eOP_MINUS: return "minus";
        case XE::eOP_MULT: return "mult";       case XE::eOP_DIV: return "div";
        case XE::eOP_MOD: return "mod";
        default: return 0;
        }
    }

    // specialised function op codes: XPath name, least and greatest argument count
    static const char* funcName(int op, int& lo, int& hi)
    {
        switch (op) {
        case XE::eOP_FUNCTION_POSITION: lo = hi = 0; return "position";
        case XE::eOP_FUNCTION_LAST: lo = hi = 0; return "last";
        case XE::eOP_FUNCTION_COUNT: lo = hi = 1; return "count";
        case XE::eOP_FUNCTION_NOT: lo = hi = 1; return "not";
        case XE::eOP_FUNCTION_TRUE: lo = hi = 0; return "true";
        case XE::eOP_FUNCTION_FALSE: lo = hi = 0; return "false";
        case XE::eOP_FUNCTION_BOOLEAN: lo = hi = 1; return "boolean";
        case XE::eOP_FUNCTION_NAME_0: lo = hi = 0; return "name";
        case XE::eOP_FUNCTION_NAME_1: lo = hi = 1; return "name";
        case XE::eOP_FUNCTION_LOCALNAME_0: lo = hi = 0; return "local-name";
        case XE::eOP_FUNCTION_LOCALNAME_1: lo = hi = 1; return "local-name";
        case XE::eOP_FUNCTION_FLOOR: lo = hi = 1; return "floor";
        case XE::eOP_FUNCTION_CEILING: lo = hi = 1; return "ceiling";
        case XE::eOP_FUNCTION_ROUND: lo = hi = 1; return "round";
        case XE::eOP_FUNCTION_NUMBER_0: lo = hi = 0; return "number";
        case XE::eOP_FUNCTION_NUMBER_1: lo = hi = 1; return "number";
        case XE::eOP_FUNCTION_STRING_0: lo = hi = 0; return "string";
        case XE::eOP_FUNCTION_STRING_1: lo = hi = 1; return "string";
        case XE::eOP_FUNCTION_STRINGLENGTH_0: lo = hi = 0; return "string-length";
        case XE::eOP_FUNCTION_STRINGLENGTH_1: lo = hi = 1; return "string-length";
        case XE::eOP_FUNCTION_NAMESPACEURI_0: lo = hi = 0; return "namespace-uri";
        case XE::eOP_FUNCTION_NAMESPACEURI_1: lo = hi = 1; return "namespace-uri";
        case XE::eOP_FUNCTION_SUM: lo = hi = 1; return "sum";
        case XE::eOP_FUNCTION_CONCAT: lo = 2; hi = 1 << 30; return "concat";
        default: return 0;
        }
    }

    static const char* axisName(int op)
    {
        switch (op) {
        case XE::eFROM_ANCESTORS: return "ancestor";
        case XE::eFROM_ANCESTORS_OR_SELF: return "ancestor-or-self";
        case XE::eFROM_ATTRIBUTES: return "attribute";
        case XE::eFROM_CHILDREN: return "child";
        case XE::eFROM_DESCENDANTS: return "descendant";
        case XE::eFROM_DESCENDANTS_OR_SELF: return "descendant-or-self";
        case XE::eFROM_FOLLOWING: return "following";
        case XE::eFROM_FOLLOWING_SIBLINGS: return "following-sibling";
        case XE::eFROM_PARENT: return "parent";
        case XE::eFROM_PRECEDING: return "preceding";
        case XE::eFROM_PRECEDING_SIBLINGS: return "preceding-sibling";
        case XE::eFROM_SELF: return "self";
        case XE::eFROM_NAMESPACE: return "namespace";
        case XE::eFROM_ROOT: return "root";
        default: return 0;
        }
    }

    // arguments: <E>... eENDOP, the terminator being the last slot of the op ending at end
    std::string args(int& pos, int end, int& count, const char* what)
    {
        std::string r;
        count = 0;
        while (pos < end - 1) {
            r += " " + expr(pos, end - 1);
            ++count;
        }
        if (pos != end - 1) bad("arguments-overrun", pos);
        endop(pos, what);
        pos = end;
        return r;
    }

    // decodes the expression starting at pos, which must end at or before limit; pos is moved behind it
    std::string expr(int& pos, int limit)
    {
        if (pos >= limit) bad("expression-expected", pos);
        const int start = pos;
        const int op = at(pos);
        int lo = 0, hi = 0;
        if (const char* const n = binName(op)) {
            const int end = start + len(start, limit, 2);
            pos = start + 2;
            const std::string l = expr(pos, end);
            const std::string r = expr(pos, end);
            if (pos != end) throw Bad(std::string(n) + "-length-" + itos(end - start) + "-but-operands-end-at-" + itos(pos) + "@" + itos(start));
            return std::string("(") + n + " " + l + " " + r + ")";
        }
        if (const char* const n = funcName(op, lo, hi)) {
            const int end = start + len(start, limit, 3);
            pos = start + 2;
            int count = 0;
            const std::string a = args(pos, end, count, "function");
            if (count < lo || count > hi) throw Bad(std::string("function-op-") + itos(op) + "-with-" + itos(count) + "-arguments@" + itos(start));
            return "(func " + str_of(XalanDOMString(n)) + a + ")";
        }
        switch (op) {
        case XE::eOP_NEG:
        case XE::eOP_GROUP: {
            const int end = start + len(start, limit, 2);
            pos = start + 2;
            const std::string e = expr(pos, end);
            if (pos != end) throw Bad(std::string(op == XE::eOP_NEG ? "neg" : "group") + "-length-" + itos(end - start) + "-but-operand-ends-at-" + itos(pos) + "@" + itos(start));
            return std::string(op == XE::eOP_NEG ? "(neg " : "(group ") + e + ")";
        }
        case XE::eOP_UNION: {
            const int end = start + len(start, limit, 3);
            pos = start + 2;
            int count = 0;
            const std::string a = args(pos, end, count, "union");
            if (count < 2) throw Bad("union-with-" + itos(count) + "-operands@" + itos(start));
            return "(union" + a + ")";
        }
        case XE::eOP_LITERAL: {
            const int l = len(start, limit, 3);
            if (l != 3) throw Bad("literal-length-" + itos(l) + "@" + itos(start));
            pos = start + 3;
            return "(lit " + token(start + 2) + ")";
        }
        case XE::eOP_VARIABLE: {
            const int l = len(start, limit, 4);
            if (l != 4) throw Bad("variable-length-" + itos(l) + "@" + itos(start));
            pos = start + 4;
            return "(var " + token(start + 2) + " " + token(start + 3) + ")";
        }
        case XE::eOP_NUMBERLIT: {
            const int l = len(start, limit, 4);
            if (l != 4) throw Bad("number-length-" + itos(l) + "@" + itos(start));
            const int idx = at(start + 2);
            // the table of number literals has no public size; the compiler hands the indices out in
            // map order, so the k-th literal of the map must carry index k (which is then in range)
            if (idx != m_numbers) throw Bad("number-literal-index-" + itos(idx) + "-expected-" + itos(m_numbers) + "@" + itos(start + 2));
            ++m_numbers;
            (void) token(start + 3);    // the token with the canonical text has to exist ...
            const double d = m_e.getNumberLiteral(idx);
            // ... and to be the token of this literal: the compiler stores the same double in it
            const double t = m_e.getToken(at(start + 3))->num();
            if (!((d != d && t != t) || bits_of_dbl(d) == bits_of_dbl(t)))
                throw Bad("number-literal-token-" + itos(at(start + 3)) + "-holds-another-number@" + itos(start + 3));
            char buf[64];
            if (d != d) std::snprintf(buf, sizeof buf, "d:nan");
            else std::snprintf(buf, sizeof buf, "d:%.17g", d);
            pos = start + 4;
            return std::string("(num ") + buf + ")";
        }
        case XE::eOP_FUNCTION: {
            const int end = start + len(start, limit, 5);
            const int id = at(start + 2);
            const int argc = at(start + 3);
            XalanDOMString name;
            if (id >= 0 && id < XPathFunctionTable::TableSize) XPath::getFunctionTable().idToName(id, name);
            if (name.empty() || XPath::getFunctionTable().nameToID(name) != id) throw Bad("function-id-" + itos(id) + "@" + itos(start + 2));
            pos = start + 4;
            int count = 0;
            const std::string a = args(pos, end, count, "function");
            if (count != argc) throw Bad("function-argument-count-slot-" + itos(argc) + "-but-" + itos(count) + "-arguments@" + itos(start + 3));
            return "(func " + str_of(name) + a + ")";
        }
        case XE::eOP_EXTFUNCTION: {
            const int end = start + len(start, limit, 5);
            const std::string ns = token(start + 2);
            const std::string name = token(start + 3);
            pos = start + 4;
            int count = 0;
            const std::string a = args(pos, end, count, "extension-function");
            return "(extfunc " + ns + " " + name + a + ")";
        }
        case XE::eOP_LOCATIONPATH:
            return path(pos, limit);
        default:
            throw Bad("unknown-op-code-" + itos(op) + "@" + itos(start));
        }
    }

    std::string path(int& pos, int limit)
    {
        const int start = pos;
        const int end = start + len(start, limit, 3);
        pos = start + 2;
        std::string head = "-", preds, steps;
        if (pos < end - 1 && !isAxis(at(pos))) {
            head = expr(pos, end - 1);
            while (pos < end - 1 && isPred(at(pos))) preds += " " + pred(pos, end - 1);
        }
        while (pos < end - 1) {
            if (!isAxis(at(pos))) throw Bad("step-expected-found-" + itos(at(pos)) + "@" + itos(pos));
            steps += " " + step(pos, end - 1);
        }
        if (pos != end - 1) bad("path-overrun", pos);
        endop(pos, "path");
        pos = end;
        return "(path " + head + " (preds" + preds + ") (steps" + steps + "))";
    }

    std::string pred(int& pos, int limit)
    {
        const int start = pos;
        const int op = at(start);
        const int end = start + len(start, limit, 4);
        pos = start + 2;
        const std::string e = expr(pos, end - 1);
        if (pos != end - 1) throw Bad("predicate-length-" + itos(end - start) + "-but-expression-ends-at-" + itos(pos) + "@" + itos(start));
        endop(pos, "predicate");
        pos = end;
        return std::string(op == XE::eOP_PREDICATE_WITH_POSITION ? "(p 1 " : "(p 0 ") + e + ")";
    }


    std::string pstep(int& pos, int limit)
    {
        const int start = pos;
        const int op = at(start);
        const char* kind = 0;
        switch (op) {
        case XE::eOP_FUNCTION: {
            const std::string f = expr(pos, limit);
            return "(pf " + f + ")";
        }
        case XE::eMATCH_ANY_ANCESTOR_WITH_FUNCTION_CALL: {
            const int l = len(start, limit, 3);
            if (l != 3 || at(start + 2) != 4) throw Bad("function-call-ancestor-step-" + itos(l) + "-" + itos(at(start + 2)) + "@" + itos(start));
            pos = start + 3;
            return "(ps anyf node)";
        }
        case XE::eFROM_ROOT: kind = "root"; break;
        case XE::eMATCH_ATTRIBUTE: kind = "attr"; break;
        case XE::eMATCH_IMMEDIATE_ANCESTOR: kind = "imm"; break;
        case XE::eMATCH_ANY_ANCESTOR: kind = "any"; break;
        case XE::eMATCH_ANY_ANCESTOR_WITH_PREDICATE: kind = "anyp"; break;
        default: throw Bad("pattern-step-expected-found-" + itos(op) + "@" + itos(start));
        }
        // same layout as an expression step: reuse the step decoder and replace the axis name
        const std::string st = stepBody(pos, limit);
        return std::string("(ps ") + kind + st + ")";
    }

    std::string step(int& pos, int limit)
    {
        const int axis = at(pos);
        const std::string b = stepBody(pos, limit);
        return std::string("(step ") + axisName(axis) + b + ")";
    }

    std::string stepBody(int& pos, int limit)
    {
        const int start = pos;
        const int end = start + len(start, limit, 4);
        const int testLen = at(start + 2);      // from the axis op up to the slot behind the node test
        if (testLen < 4 || start + testLen > end) throw Bad("node-test-length-" + itos(testLen) + "-in-step-of-" + itos(end - start) + "@" + itos(start + 2));
        const int test = at(start + 3);
        std::string nt;
        int expected = 4;
        switch (test) {
        case XE::eNODETYPE_COMMENT: nt = "comment"; break;
        case XE::eNODETYPE_TEXT: nt = "text"; break;
        case XE::eNODETYPE_NODE: nt = "node"; break;
        case XE::eNODETYPE_ROOT: nt = "root"; break;
        case XE::eNODETYPE_PI:
            if (testLen == 5) { nt = "(pi " + token(start + 4) + ")"; expected = 5; }
            else nt = "(pi)";
            break;
        case XE::eNODENAME: {
            expected = 6;
            if (testLen != 6) break;
            const int ns = at(start + 4), local = at(start + 5);
            nt = "(name ";
            if (ns == XE::eEMPTY) nt += "-";
            else if (ns == XE::eELEMWILDCARD) nt += "*";
            else nt += token(start + 4);
            nt += " ";
            if (local == XE::eELEMWILDCARD) nt += "*";
            else nt += token(start + 5);
            nt += ")";
            break;
        }
        default:
            throw Bad("unknown-node-test-" + itos(test) + "@" + itos(start + 3));
        }
        if (testLen != expected) throw Bad("node-test-" + itos(test) + "-with-length-slot-" + itos(testLen) + "-expected-" + itos(expected) + "@" + itos(start + 2));
        pos = start + testLen;
        std::string preds;
        while (pos < end) {
            if (!isPred(at(pos))) throw Bad("predicate-expected-in-step-found-" + itos(at(pos)) + "@" + itos(pos));
            preds += " " + pred(pos, end);
        }
        if (pos != end) bad("step-overrun", pos);
        return " " + nt + preds;
    }
};

static std::string dump_map(const XE& e)
{
    std::string r;
    const int n = e.opCodeMapSize();
    for (int i = 0; i < n; ++i) r += (i ? " " : "") + itos(e.getOpCodeMapValue(XE::OpCodeMapSizeType(i)));
    return r;
}

struct DocNodes {
    std::vector<XalanNode*> nodes;
    std::string kinds;
    void add(XalanNode* n, char k) { nodes.push_back(n); kinds += k; }
    void walk(XalanNode* n)
    {
        switch (n->getNodeType()) {
        case XalanNode::DOCUMENT_NODE: add(n, 'r'); break;
        case XalanNode::ELEMENT_NODE: add(n, 'e'); break;
        case XalanNode::TEXT_NODE: case XalanNode::CDATA_SECTION_NODE: add(n, 't'); break;
        case XalanNode::COMMENT_NODE: add(n, 'c'); break;
        case XalanNode::PROCESSING_INSTRUCTION_NODE: add(n, 'p'); break;
        default: add(n, '?'); break;
        }
        if (n->getNodeType() == XalanNode::ELEMENT_NODE) {
            const XalanNamedNodeMap* a = n->getAttributes();
            if (a) for (XalanSize_t i = 0; i < a->getLength(); ++i) {
                XalanNode* at = a->item(i);
                const XalanDOMString& nm = at->getNodeName();
                bool nsdecl = nm.length() >= 5 && nm[0] == 'x' && nm[1] == 'm' && nm[2] == 'l' && nm[3] == 'n' && nm[4] == 's' &&
                              (nm.length() == 5 || nm[5] == ':');
                add(at, nsdecl ? 'n' : 'a');
            }
        }
        for (XalanNode* c = n->getFirstChild(); c; c = c->getNextSibling()) walk(c);
    }
};

static std::string hexOrDash(const XalanDOMString& s) { return s.empty() ? std::string("-") : key_of(s); }

static char scoreChar(XPath::eMatchScore s)
{
    return s == XPath::eMatchScoreNone ? '-' : s == XPath::eMatchScoreNodeTest ? 't' : s == XPath::eMatchScoreNSWild ? 'w' :
           s == XPath::eMatchScoreQName ? 'q' : s == XPath::eMatchScoreOther ? 'o' : '?';
}

int main(int argc, char** argv)
{
    Init init;
    std::istream* in = &std::cin;
    std::ifstream f;
    bool dump = false;      // "-d": also print the raw op map (debugging aid) on a line starting with '#'
    for (int i = 1; i < argc; ++i) {
        if (std::string(argv[i]) == "-d") dump = true;
        else { f.open(argv[i]); in = &f; }
    }
    MemoryManager& mm = XalanMemMgrs::getDefaultXercesMemMgr();
    std::string line;
    while (std::getline(*in, line)) {
        if (!line.empty() && line[line.size() - 1] == '\r') line.erase(line.size() - 1);
        if (line.empty() || line[0] == '#' || line[0] == '!') continue;
        std::vector<std::string> fs;
        { size_t i = 0; while (true) { size_t j = line.find(' ', i); if (j == std::string::npos) { fs.push_back(line.substr(i)); break; } fs.push_back(line.substr(i, j - i)); i = j + 1; } }
        const std::string id = fs[0];
        if (!(fs.size() == 4 || fs.size() == 5) || fs[1].size() != 1) { std::cout << id << " err bad case line\n"; continue; }
        const char mode = fs[1][0];
        if (!((mode == 'P' || mode == 'E' || mode == 'T') && fs.size() == 4) && !(mode == 'S' && fs.size() == 5)) { std::cout << id << " err bad case line\n"; continue; }
        const std::string nsf = fs[2], xf = fs[3];
        MapResolver res;
        XalanDOMString expr;
        bool wellFormed = unhex(xf, expr);
        if (wellFormed && nsf != "-") {
            size_t i = 0;
            while (wellFormed && i <= nsf.size()) {
                size_t j = nsf.find(',', i);
                if (j == std::string::npos) j = nsf.size();
                const std::string kv = nsf.substr(i, j - i);
                const size_t e = kv.find('=');
                XalanDOMString p, u;
                if (e == std::string::npos || !unhex(kv.substr(0, e), p) || !unhex(kv.substr(e + 1), u) ||
                    kv.substr(0, e) == "-" || kv.substr(e + 1) == "-") wellFormed = false;
                else res.m_map[key_of(p)] = u;
                i = j + 1;
            }
        }
        XalanDOMString docText;
        if (wellFormed && mode == 'S') wellFormed = unhex(fs[4], docText);
        if (!wellFormed) { std::cout << id << " err bad case line\n"; continue; }

        XPathConstructionContextDefault cc(mm);     // owns the pooled strings the tokens point to
        XPath xpath(mm);
        std::string err;
        bool compiled = false;
        try {
            XPathProcessorImpl proc(mm);
            if (mode == 'E') proc.initXPath(xpath, cc, expr, res);
            else proc.initMatchPattern(xpath, cc, expr, res);
            compiled = true;
        }
        catch (const XSLException& e) {
            err = "XSLException";
            try { err = ascii_of(XalanDOMString(e.getType())) + ": " + ascii_of(e.getMessage()); } catch (...) {}
        }
        catch (const XalanDOMException& e) { err = "XalanDOMException code " + itos((long) e.getExceptionCode()); }
        catch (const xercesc::XMLException& e) { err = "XMLException"; try { err += ": " + ascii_of(XalanDOMString(e.getMessage())); } catch (...) {} }
        catch (const std::exception& e) { err = "std: " + ascii_of(e.what()); }
        catch (...) { err = "unknown exception"; }
        if (!compiled) { std::cout << id << " err " << err << '\n'; continue; }

        if (mode == 'P' || mode == 'E') {
            std::string sexpr;
            try {
                Decoder d(xpath.getExpression());
                sexpr = mode == 'E' ? d.run() : d.runPattern();
            }
            catch (const Bad& b) { sexpr = "(BADMAP " + b.why + ")"; }
            catch (...) { sexpr = "(BADMAP exception-while-decoding)"; }
            std::cout << id << " ok " << sexpr << '\n';
            if (dump) std::cout << "# " << id << " map: " << dump_map(xpath.getExpression()) << '\n';
            continue;
        }
        if (mode == 'T') {
            std::string out;
            try {
                XPath::TargetDataVectorType td(mm);
                xpath.getTargetData(td);
                for (XPath::TargetDataVectorType::size_type k = 0; k < td.size(); ++k) {
                    const XPath::TargetData& t = td[k];
                    const char ty = t.getTargetType() == XPath::TargetData::eAttribute ? 'a' : t.getTargetType() == XPath::TargetData::eElement ? 'e' :
                                    t.getTargetType() == XPath::TargetData::eAny ? 'y' : 'o';
                    XalanDOMString nm(t.getString());
                    out += std::string(" ") + scoreChar(t.getDefaultPriority()) + ":" + ty + ":" + hexOrDash(nm);
                }
            } catch (...) { out = " !"; }
            std::cout << id << " ok" << out << '\n';
            continue;
        }
        // mode S
        try {
            XalanSourceTreeDOMSupport dom;
            XalanSourceTreeParserLiaison liaison(dom, mm);
            dom.setParserLiaison(&liaison);
            // the document text as UTF-16 bytes (native order) with a BOM
            std::vector<XMLByte> bytes;
            const XalanDOMChar bom = 0xFEFF;
            bytes.insert(bytes.end(), (const XMLByte*) &bom, (const XMLByte*) &bom + 2);
            for (XalanDOMString::size_type k = 0; k < docText.length(); ++k) { const XalanDOMChar c = docText[k]; bytes.insert(bytes.end(), (const XMLByte*) &c, (const XMLByte*) &c + 2); }
            xercesc::MemBufInputSource src(&bytes[0], bytes.size(), "case");
            XalanDocument* const doc = liaison.parseXMLStream(src);
            DocNodes d;
            d.walk(doc);
            XPathEnvSupportDefault env(mm);
            XObjectFactoryDefault factory(mm);
            XPathExecutionContextDefault ec(mm);
            ec.setXPathEnvSupport(&env);
            ec.setXObjectFactory(&factory);
            ec.setDOMSupport(&dom);
            std::string out;
            for (size_t k = 0; k < d.nodes.size(); ++k) {
                char r = '!';
                try { r = scoreChar(xpath.getMatchScore(d.nodes[k], res, ec)); } catch (...) { r = '!'; }
                const XalanNode& n = *d.nodes[k];
                const char kd = d.kinds[k];
                std::string nsu = "-", loc = "-";
                if (kd == 'e' || kd == 'a' || kd == 'n') { nsu = hexOrDash(n.getNamespaceURI()); loc = hexOrDash(DOMServices::getLocalNameOfNode(n)); }
                else if (kd == 'p') loc = hexOrDash(n.getNodeName());
                out += std::string(" ") + kd + ":" + nsu + ":" + loc + ":" + r;
            }
            std::cout << id << " ok" << out << '\n';
        }
        catch (...) { std::cout << id << " err document\n"; }
    }
    std::cout.flush();
    return 0;
}
