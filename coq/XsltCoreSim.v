(* C01 core interpreter: the simulation. Every evaluation of the reference semantics is matched, step by step,
   by the explicit-stack machine (induction on the fuel of the semantics; inner inductions on instruction lists
   and node lists). *)
From Coq Require Import List NArith Bool Arith Lia.
Require Import XV.XsltEventsDefs XV.XsltEventsModel XV.XsltVarsDefs XV.XsltVarsModel XV.XsltCoreDefs XV.XsltCoreModel.
Import ListNotations.

Fixpoint rnames_ok (r : rnode) : bool :=
  match r with
  | RElem n _ ch => nonempty n && forallb rnames_ok ch
  | _ => true
  end.

Lemma names_ok_item_of_rnode : forall r, names_ok (item_of_rnode r) = rnames_ok r.
Proof.
  fix IH 1. destruct r; simpl; auto. f_equal.
  induction ch; simpl; auto. rewrite IH. rewrite IHch. reflexivity.
Qed.

Lemma forallb_app' : forall (A : Type) (p : A -> bool) a b, forallb p (a ++ b) = forallb p a && forallb p b.
Proof. induction a; simpl; intros; auto. rewrite IHa. rewrite andb_assoc. reflexivity. Qed.

Lemma index_of_app_nodup : forall done n r, NoDup (done ++ n :: r) -> index_of n (done ++ n :: r) = length done.
Proof.
  induction done; intros n r H; simpl.
  - rewrite N.eqb_refl. reflexivity.
  - inversion H; subst. destruct (N.eqb a n) eqn:E.
    + apply N.eqb_eq in E. subst. exfalso. apply H2. apply in_or_app. right. left. reflexivity.
    + f_equal. apply IHdone. assumption.
Qed.

(* param activation is idempotent *)
Lemma fl_act_idem : forall n F, fl n true (act n F) = (fst (fl n true F), act n F).
Proof.
  unfold act. induction F; simpl; auto. destruct a; simpl; auto.
  - destruct (fl n true F) eqn:E. simpl in *. rewrite IHF. reflexivity.
  - destruct (N.eqb n0 n) eqn:E1; simpl; rewrite ?E1; auto. destruct (fl n true F) eqn:E. simpl in *. rewrite E1. rewrite IHF. reflexivity.
  - destruct (N.eqb n0 n) eqn:E1; simpl; rewrite ?E1; auto. destruct (fl n true F) eqn:E. simpl in *. rewrite E1. rewrite IHF. reflexivity.
  - destruct (N.eqb n0 n) eqn:E1; simpl; rewrite ?E1; auto. destruct (fl n true F) eqn:E. simpl in *. rewrite E1. rewrite IHF. reflexivity.
Qed.

Lemma pos_succ : forall (done : list N) (n1 : N),
  N.succ (N.of_nat (S (length done))) = N.of_nat (S (length (done ++ [n1]))).
Proof.
  intros. symmetry. rewrite app_length. cbn [length]. rewrite Nat.add_1_r. apply Nat2N.inj_succ.
Qed.

Section CoreSim.
  Variable ev_value : N -> list value -> N -> N -> N -> value.
  Variable ev_string : N -> list value -> N -> N -> N -> str.
  Variable ev_bool : N -> list value -> N -> N -> N -> bool.
  Variable ev_nodes : N -> list value -> N -> N -> N -> list N.
  Variable ev_sort : N -> list value -> N -> N -> N -> list N -> list N.
  Variable sel_template : N -> N -> option N.
  Variable node_copy : N -> list item.
  Variable node_shallow : N -> shallow.
  Variable templates : list instr.

  (* what is assumed of the abstract mechanisms: node lists are sets, element names are not empty *)
  Hypothesis ev_nodes_nodup : forall id vs n p z, NoDup (ev_nodes id vs n p z).
  Hypothesis ev_sort_nodup : forall id vs n p z l, NoDup l -> NoDup (ev_sort id vs n p z l).
  Hypothesis node_copy_ok : forall n, forallb names_ok (node_copy n) = true.
  Hypothesis node_shallow_ok : forall n its, node_shallow n = ShLeaf its -> forallb names_ok its = true.
  Hypothesis ev_value_ok : forall id vs n p z t, ev_value id vs n p z = VRtf t -> forallb rnames_ok t = true.

  Notation step := (step ev_value ev_string ev_bool ev_nodes ev_sort sel_template node_copy node_shallow templates).
  Notation run := (run ev_value ev_string ev_bool ev_nodes ev_sort sel_template node_copy node_shallow templates).
  Notation sem := (sem ev_value ev_string ev_bool ev_nodes ev_sort sel_template node_copy node_shallow templates).
  Notation sem_tmpl := (sem_tmpl ev_value templates).
  Notation sem_wps := (sem_wps ev_value).
  Notation sem_vvalue := (sem_vvalue ev_value).
  Notation sem_params := (sem_params ev_value).
  Notation sel_nodes := (sel_nodes ev_nodes ev_sort).
  Notation get_template := (get_template templates).
  Notation run_to := (run_to ev_value ev_string ev_bool ev_nodes ev_sort sel_template node_copy node_shallow templates).

  Definition cxof (n : N) (l : list N) (md : N) : ctx := mkC n (pos_of n l) (N.of_nat (length l)) md.

  Lemma sel_nodes_nodup : forall lk c e srt l, sel_nodes lk c e srt = Some l -> NoDup l.
  Proof.
    intros lk c e srt l. unfold sel_nodes, gx. destruct (lk (xvars e)); try discriminate.
    destruct srt.
    - destruct (lk (xvars e0)); try discriminate. intros H. inversion H. apply ev_sort_nodup. apply ev_nodes_nodup.
    - intros H. inversion H. apply ev_nodes_nodup.
  Qed.

  (* ---- every item the semantics produces has non-empty element names ---- *)
  Lemma copy_items_ok : forall id vs n p z, forallb names_ok (copy_items node_copy (ev_value id vs n p z)) = true.
  Proof.
    intros. destruct (ev_value id vs n p z) eqn:E; simpl.
    - unfold text_items. destruct (nonempty sval); reflexivity.
    - clear E. induction l; simpl; auto. rewrite forallb_app'. rewrite node_copy_ok. exact IHl.
    - apply ev_value_ok in E. induction t; simpl in *; auto. apply andb_true_iff in E. destruct E.
      rewrite names_ok_item_of_rnode. rewrite H. auto.
  Qed.

  Definition gok (g : instr -> venv -> option (venv * list item)) : Prop :=
    forall x en en' o, g x en = Some (en', o) -> forallb names_ok o = true.

  Lemma sem_seq_ok : forall g, gok g -> forall l en o, sem_seq g l en = Some o -> forallb names_ok o = true.
  Proof.
    intros g H. induction l; intros en o; simpl.
    - intros X. inversion X. reflexivity.
    - destruct (g a en) as [[en' o1]|] eqn:E; try discriminate. destruct (sem_seq g l en') eqn:E2; try discriminate.
      intros X. inversion X. rewrite forallb_app'. rewrite (H _ _ _ _ E). rewrite (IHl _ _ E2). reflexivity.
  Qed.

  Lemma each_ok : forall (g : N -> N -> option (list item)), (forall n p o, g n p = Some o -> forallb names_ok o = true) ->
    forall l pos o, each g l pos = Some o -> forallb names_ok o = true.
  Proof.
    intros g H. induction l; intros pos o; simpl.
    - intros X. inversion X. reflexivity.
    - destruct (g a pos) eqn:E; try discriminate. destruct (each g l (N.succ pos)) eqn:E2; try discriminate.
      intros X. inversion X. rewrite forallb_app'. rewrite (H _ _ _ E). rewrite (IHl _ _ E2). reflexivity.
  Qed.

  Lemma sem_tmpl_ok : forall g, (forall pv c, gok (g pv c)) -> forall pv c t o, sem_tmpl g pv c t = Some o -> forallb names_ok o = true.
  Proof.
    intros g H pv c t o. unfold XsltCoreDefs.sem_tmpl. destruct (nth_error templates (N.to_nat t)); try discriminate.
    destruct i; try discriminate. destruct (sem_params pv c ps []); try discriminate. apply sem_seq_ok. apply H.
  Qed.

  Lemma sem_ok : forall f wp c, gok (sem f wp c).
  Proof.
    induction f; intros wp c x en en' o H. discriminate.
    assert (IHs : forall wp' c' l e1 o1, sem_seq (sem f wp' c') l e1 = Some o1 -> forallb names_ok o1 = true).
    { intros wp' c'. apply sem_seq_ok. apply IHf. }
    assert (IHt : forall pv c' t o1, sem_tmpl (sem f) pv c' t = Some o1 -> forallb names_ok o1 = true).
    { apply sem_tmpl_ok. intros. apply IHf. }
    revert H. cbn [XsltCoreDefs.sem]. destruct x; try discriminate.
    - destruct (nonempty n) eqn:En; try discriminate. destruct (ev_atts ev_string (slk en) c atts); try discriminate.
      destruct (sem_seq (sem f wp c) body en) eqn:E; try discriminate. intros X. inversion X. simpl. rewrite En. rewrite (IHs _ _ _ _ _ E). reflexivity.
    - intros X. inversion X. reflexivity.
    - destruct (gx ev_string (slk en) c e); try discriminate. intros X. inversion X. unfold text_items. destruct (nonempty s); reflexivity.
    - destruct (gx ev_bool (slk en) c e) as [[|]|]; try discriminate.
      + destruct (sem_seq (sem f wp c) body en) eqn:E; try discriminate. intros X. inversion X. subst. eapply IHs; eauto.
      + intros X. inversion X. reflexivity.
    - destruct (pick ev_bool (slk en) c branches) as [[x|]|]; try discriminate.
      + destruct (sem f wp c x en) as [[e1 o1]|] eqn:E; try discriminate. intros X. inversion X. subst. eapply IHf; eauto.
      + intros X. inversion X. reflexivity.
    - destruct (sem_seq (sem f wp c) body en) eqn:E; try discriminate. intros X. inversion X. subst. eapply IHs; eauto.
    - destruct (sem_seq (sem f wp c) body en) eqn:E; try discriminate. intros X. inversion X. subst. eapply IHs; eauto.
    - destruct body. intros X; inversion X; reflexivity.
      destruct (sel_nodes (slk en) c e srt); try discriminate.
      match goal with |- match each ?g ?l ?p with _ => _ end = _ -> _ => destruct (each g l p) eqn:E; try discriminate end.
      intros X. inversion X. subst. eapply each_ok; [|exact E]. intros n0 p0 o0. apply IHs.
    - destruct (sem_wps (sem_seq (sem f wp c)) c en wps); try discriminate.
      destruct (sem_tmpl (sem f) v c t) eqn:E2; try discriminate. intros X. inversion X. subst. eapply IHt; eauto.
    - match goal with |- match XsltCoreDefs.sem_wps _ ?s ?c1 _ _ with _ => _ end = _ -> _ => destruct (sem_wps s c1 en wps); try discriminate end.
      match goal with |- match XsltCoreDefs.sel_nodes _ _ _ ?c1 _ _ with _ => _ end = _ -> _ => destruct (sel_nodes (slk en) c1 e srt); try discriminate end.
      match goal with |- match each ?g ?l ?p with _ => _ end = _ -> _ => destruct (each g l p) eqn:E3; try discriminate end.
      intros X. inversion X. subst. eapply each_ok; [|exact E3]. intros n0 p0 o0. cbv beta.
      destruct (sel_template n0 _). apply IHt. intros Y. inversion Y. reflexivity.
    - destruct (lookup_v n en); try discriminate.
      destruct (sem_vvalue (sem_seq (sem f wp c)) c sel body en); try discriminate. intros X. inversion X. reflexivity.
    - destruct (node_shallow (cnode c)) eqn:Es; try discriminate.
      + destruct (nonempty n) eqn:En; try discriminate. destruct (sem_seq (sem f wp c) body en) eqn:E; try discriminate.
        intros X. inversion X. simpl. rewrite En. rewrite (IHs _ _ _ _ _ E). reflexivity.
      + destruct (sem_seq (sem f wp c) body en) eqn:E; try discriminate. intros X. inversion X. subst. eapply IHs; eauto.
      + intros X. inversion X. subst. eapply node_shallow_ok; eauto.
    - unfold gx. destruct (slk en (xvars e)); try discriminate. intros X. inversion X. apply copy_items_ok.
    - destruct (ev_avt ev_string (slk en) c v); try discriminate. intros X. inversion X. reflexivity.
  Qed.

  (* ================= simulation ================= *)
  Definition SimI (f : nat) : Prop :=
    forall i wp n l md en en' items,
      sem f wp (cxof n l md) i en = Some (en', items) ->
    forall stk nodes cnl cur modes ifs pvs store o F R benv wpb,
      GoodR F R -> Fr true F benv wpb -> Res store benv en ->
    exists k store' V newb,
      run k (CStart i) (mkM stk nodes (l :: cnl) (n :: cur) (md :: modes) ifs pvs (VS F R) store o)
      = Run CNext (mkM stk nodes (l :: cnl) (n :: cur) (md :: modes) ifs pvs (VS (V ++ F) R) store' (emit (ops_of items) o))
      /\ Forall is_varE V /\ Fr true (V ++ F) (newb ++ benv) wpb /\ Res store' (newb ++ benv) en'
      /\ (exists ext, store' = store ++ ext) /\ (is_decl i = false -> V = []).

  Lemma ops_of_app : forall a b, ops_of (a ++ b) = ops_of a ++ ops_of b.
  Proof. intros. unfold ops_of. apply flat_map_app. Qed.

  Lemma GoodR_vars : forall V F R, Forall is_varE V -> GoodR F R -> GoodR (V ++ F) R.
  Proof. intros. apply Good_app; auto. apply is_varE_not_ctx; auto. Qed.

  Lemma ext_trans : forall (s s1 s2 : list value), (exists e, s1 = s ++ e) -> (exists e, s2 = s1 ++ e) -> exists e, s2 = s ++ e.
  Proof. intros s s1 s2 [e1 H1] [e2 H2]. subst. exists (e1 ++ e2). rewrite app_assoc. reflexivity. Qed.

  Lemma ext_refl : forall (s : list value), exists e, s = s ++ e.
  Proof. intros. exists []. rewrite app_nil_r. reflexivity. Qed.

  Lemma Res_ext' : forall s s' b e, (exists x, s' = s ++ x) -> Res s b e -> Res s' b e.
  Proof. intros s s' b e [x H] HR. subst. apply Res_ext. assumption. Qed.

  (* a list of sibling instructions under an open element p *)
  Lemma seq_sim : forall f, SimI f ->
    forall body wp n l md en items,
      sem_seq (sem f wp (cxof n l md)) body en = Some items ->
    forall p stk nodes cnl cur modes ifs pvs store o F R benv wpb,
      GoodR F R -> Fr true F benv wpb -> Res store benv en ->
    exists k store' V,
      run k CNext (mkM ((p, body, false) :: stk) nodes (l :: cnl) (n :: cur) (md :: modes) ifs pvs (VS F R) store o)
      = Run CNext (mkM ((p, [], false) :: stk) nodes (l :: cnl) (n :: cur) (md :: modes) ifs pvs (VS (V ++ F) R) store' (emit (ops_of items) o))
      /\ Forall is_varE V /\ (exists ext, store' = store ++ ext) /\ (has_decl body = false -> V = []).
  Proof.
    intros f Hf. induction body as [|x r IH]; intros wp n l md en items Hs p stk nodes cnl cur modes ifs pvs store o F R benv wpb HG HF HR.
    - simpl in Hs. inversion Hs; subst. exists 0, store, []. simpl. rewrite emit_nil. repeat split; auto. apply ext_refl.
    - cbn [sem_seq] in Hs.
      destruct (sem f wp (cxof n l md) x en) as [[en1 o1]|] eqn:E1; try discriminate.
      match type of Hs with match ?t with _ => _ end = _ => destruct t as [o2|] eqn:E2; try discriminate end.
      inversion Hs; subst items. clear Hs.
      destruct (Hf _ _ _ _ _ _ _ _ E1 ((p, r, false) :: stk) nodes cnl cur modes ifs pvs store o F R benv wpb HG HF HR)
        as [k1 [store1 [V1 [newb [Hrun1 [HV1 [HF1 [HR1 [Hext1 Hnil1]]]]]]]]].
      assert (HG1 : GoodR (V1 ++ F) R) by (apply GoodR_vars; auto).
      destruct (IH _ _ _ _ _ _ E2 p stk nodes cnl cur modes ifs pvs store1 (emit (ops_of o1) o) (V1 ++ F) R (newb ++ benv) wpb HG1 HF1 HR1)
        as [k2 [store2 [V2 [Hrun2 [HV2 [Hext2 Hnil2]]]]]].
      exists (1 + (k1 + k2)), store2, (V2 ++ V1). repeat split.
      + rewrite (run_to 1 _ _ _ (CStart x) (mkM ((p, r, false) :: stk) nodes (l :: cnl) (n :: cur) (md :: modes) ifs pvs (VS F R) store o)) by reflexivity.
        rewrite (run_to _ _ _ _ _ _ Hrun1). rewrite Hrun2. rewrite ops_of_app. rewrite emit_app. rewrite <- app_assoc. reflexivity.
      + apply Forall_app. split; auto.
      + eapply ext_trans; eauto.
      + simpl. intros X. apply orb_false_iff in X. destruct X as [X1 X2]. rewrite (Hnil1 X1). rewrite (Hnil2 X2). reflexivity.
  Qed.

  Lemma end_children_VS : forall body V F R, GoodR F R -> Forall is_varE V -> (has_decl body = false -> V = []) ->
    end_children body (VS (V ++ (if has_decl body then EFrame 0%N :: F else F)) R) = Some (VS F R).
  Proof.
    intros body V F R HG HV Hn. unfold end_children. destruct (has_decl body).
    - unfold VS. rewrite <- app_assoc. cbn [app]. apply pop_frame_st; auto. destruct F; discriminate.
    - rewrite Hn by reflexivity. reflexivity.
  Qed.

  (* the children of a container: beginExecuteChildren ... the state in which endExecuteChildren will run *)
  Lemma block_sim : forall f, SimI f ->
    forall body wp n l md en items,
      sem_seq (sem f wp (cxof n l md)) body en = Some items ->
    forall p stk nodes cnl cur modes ifs pvs store o F R benv wpb,
      GoodR F R -> Fr true F benv wpb -> Res store benv en ->
    exists k store' v1,
      run k CNext (mkM ((p, body, false) :: stk) nodes (l :: cnl) (n :: cur) (md :: modes) ifs pvs (begin_children body (VS F R)) store o)
      = Run CNext (mkM ((p, [], false) :: stk) nodes (l :: cnl) (n :: cur) (md :: modes) ifs pvs v1 store' (emit (ops_of items) o))
      /\ end_children body v1 = Some (VS F R) /\ (exists ext, store' = store ++ ext).
  Proof.
    intros f Hf body wp n l md en items Hs p stk nodes cnl cur modes ifs pvs store o F R benv wpb HG HF HR.
    unfold begin_children. destruct (has_decl body) eqn:Ehv.
    - unfold VS at 1. rewrite push_st.
      assert (HG1 : GoodR (EFrame 0%N :: F) R) by (apply Good_cons; simpl; auto).
      destruct (seq_sim f Hf _ _ _ _ _ _ _ Hs p stk nodes cnl cur modes ifs pvs store o (EFrame 0%N :: F) R benv wpb HG1 (Fr_push_frame _ _ _ _ _ HF) HR)
        as [k [store' [V [Hrun [HV [Hext Hnil]]]]]].
      exists k, store', (VS (V ++ EFrame 0%N :: F) R). split; [exact Hrun|]. split; auto.
      pose proof (end_children_VS body V F R HG HV) as X. rewrite Ehv in X. apply X. intros; discriminate.
    - destruct (seq_sim f Hf _ _ _ _ _ _ _ Hs p stk nodes cnl cur modes ifs pvs store o F R benv wpb HG HF HR)
        as [k [store' [V [Hrun [HV [Hext Hnil]]]]]].
      exists k, store', (VS (V ++ F) R). split; [exact Hrun|]. split; auto.
      pose proof (end_children_VS body V F R HG HV) as X. rewrite Ehv in X. apply X. intros _. apply Hnil. exact Ehv.
  Qed.

  (* ---- xsl:param children of a template instance ---- *)
  Lemma step_param_start : forall nm sel stk nodes l cnl n cur md modes ifs pvs v store o,
    step (CStart (IParam nm sel)) (mkM stk nodes (l :: cnl) (n :: cur) (md :: modes) ifs pvs v store o) =
    match get_param_variable nm v with
    | (Some _, v1) => Run (CEnd (IParam nm sel)) (mkM stk nodes (l :: cnl) (n :: cur) (md :: modes) ifs pvs v1 store o)
    | (None, v1) =>
        match start_value ev_value (mlk v1 store) (cxof n l md) sel [] with
        | Some (Some val) =>
            match push_variable nm (N.of_nat (length store)) 0%N v1 with
            | Some v' => Run (CEnd (IParam nm sel)) (mkM stk nodes (l :: cnl) (n :: cur) (md :: modes) ifs pvs v' (store ++ [val]) o)
            | None => Stuck
            end
        | _ => Stuck
        end
    end.
  Proof. reflexivity. Qed.

  Lemma step_param_end : forall nm sel stk nodes l cnl n cur md modes ifs pvs v store o,
    step (CEnd (IParam nm sel)) (mkM stk nodes (l :: cnl) (n :: cur) (md :: modes) ifs pvs v store o) =
    match get_param_variable nm v with
    | (Some _, v1) => Run CNext (mkM stk nodes (l :: cnl) (n :: cur) (md :: modes) ifs pvs v1 store o)
    | (None, _) => Run CNext (mkM stk nodes (l :: cnl) (n :: cur) (md :: modes) ifs pvs v store o)
    end.
  Proof. reflexivity. Qed.

  Lemma Res_cons_new : forall store nm v b e, Res store b e ->
    Res (store ++ [v]) ((nm, N.of_nat (length store)) :: b) ((nm, v) :: e).
  Proof. intros. apply (Res_app _ [_] [_]). apply Res_new. apply Res_ext. assumption. Qed.

  Lemma params_sim : forall tmi body pv n l md ps en en0,
    sem_params pv (cxof n l md) ps en = Some en0 ->
    forall stk nodes cnl cur modes ifs pvs store o V Fp R benv wpb,
      GoodR Fp R -> Forall is_varE V -> Fr true (V ++ EFrame 0%N :: Fp) benv wpb -> TFw Fp wpb ->
      Res store benv en -> Res store wpb pv ->
    exists k store' V' Fp' benv',
      run k CNext (mkM ((tmi, ps ++ body, false) :: stk) nodes (l :: cnl) (n :: cur) (md :: modes) ifs pvs (VS (V ++ EFrame 0%N :: Fp) R) store o)
      = Run CNext (mkM ((tmi, body, false) :: stk) nodes (l :: cnl) (n :: cur) (md :: modes) ifs pvs (VS (V' ++ EFrame 0%N :: Fp') R) store' o)
      /\ Forall is_varE V' /\ Fr true (V' ++ EFrame 0%N :: Fp') benv' wpb /\ TFw Fp' wpb /\ GoodR Fp' R
      /\ Res store' benv' en0 /\ Res store' wpb pv /\ (exists ext, store' = store ++ ext).
  Proof.
    intros tmi body pv n l md. induction ps as [|x r IH]; intros en en0 Hs stk nodes cnl cur modes ifs pvs store o V Fp R benv wpb HG HV HF HT HR HP.
    - simpl in Hs. inversion Hs; subst. exists 0, store, V, Fp, benv.
      exact (conj eq_refl (conj HV (conj HF (conj HT (conj HG (conj HR (conj HP (ext_refl _)))))))).
    - cbn [XsltCoreDefs.sem_params] in Hs. destruct x; try discriminate.
      destruct (lookup_v n0 en) eqn:Eo; try discriminate.
      pose proof (Res_lookup_none _ _ _ _ HR Eo) as Hnb.
      set (F := V ++ EFrame 0%N :: Fp) in *.
      assert (HGF : GoodR F R).
      { unfold F. apply GoodR_vars; auto. apply Good_cons; simpl; auto. }
      pose proof HF as [H0 [Ha [Hb [Hc Hd]]]].
      pose proof (Hc n0 Hnb) as Hv.
      assert (HvV : has_var n0 V = false).
      { unfold F in Hv. rewrite has_var_app in Hv. apply orb_false_iff in Hv. tauto. }
      assert (Hfst : fst (fl n0 true F) = lookup n0 (rev wpb)).
      { rewrite fl_true_fst by assumption. apply Hd. }
      assert (Hstep1 : forall st0, run 1 CNext (mkM ((tmi, (IParam n0 sel :: r) ++ body, false) :: stk) nodes (l :: cnl) (n :: cur) (md :: modes) ifs pvs st0 store o)
                       = Run (CStart (IParam n0 sel)) (mkM ((tmi, r ++ body, false) :: stk) nodes (l :: cnl) (n :: cur) (md :: modes) ifs pvs st0 store o)) by reflexivity.
      destruct (lookup_v n0 (rev pv)) as [v|] eqn:Ep.
      + (* passed: the entry is activated *)
        destruct (Res_lookup_some _ _ _ _ _ (Res_rev _ _ _ HP) Ep) as [i [Hi1 Hi2]].
        assert (Hpv : pval n0 F = Some i) by (rewrite <- Hd in Hi1; exact Hi1).
        assert (Hact : act n0 F = V ++ EFrame 0%N :: act n0 Fp) by (unfold F; apply act_app_vars; auto).
        assert (HF' : Fr true (V ++ EFrame 0%N :: act n0 Fp) ((n0, i) :: benv) wpb).
        { rewrite <- Hact. apply Fr_act; auto. }
        assert (HG' : GoodR (act n0 Fp) R).
        { destruct HG as [G0 [G1 G2]]. repeat split; auto. apply act_not_ctx; auto. }
        assert (HR' : Res store ((n0, i) :: benv) ((n0, v) :: en)).
        { constructor; auto. }
        destruct (IH _ _ Hs stk nodes cnl cur modes ifs pvs store o V (act n0 Fp) R ((n0, i) :: benv) wpb HG' HV HF' (TFw_act _ _ _ HT) HR' HP)
          as [k [store' [V' [Fp' [benv' [Hrun X]]]]]].
        exists (1 + (1 + (1 + k))), store', V', Fp', benv'. split; [|exact X].
        rewrite (run_to 1 _ _ _ _ _ (Hstep1 _)).
        rewrite (run_to 1 _ _ _ (CEnd (IParam n0 sel)) (mkM ((tmi, r ++ body, false) :: stk) nodes (l :: cnl) (n :: cur) (md :: modes) ifs pvs (VS (act n0 F) R) store o)).
        2:{ cbn [XsltCoreDefs.run]. rewrite step_param_start. rewrite get_param_VS by assumption. rewrite Hfst. rewrite Hi1. reflexivity. }
        rewrite (run_to 1 _ _ _ CNext (mkM ((tmi, r ++ body, false) :: stk) nodes (l :: cnl) (n :: cur) (md :: modes) ifs pvs (VS (act n0 F) R) store o)).
        2:{ cbn [XsltCoreDefs.run]. rewrite step_param_end. rewrite get_param_VS.
            - rewrite fl_act_idem. cbn [fst]. rewrite Hfst. rewrite Hi1.
              replace (act n0 (act n0 F)) with (act n0 F). reflexivity.
              symmetry. unfold act at 1. rewrite fl_act_idem. reflexivity.
            - rewrite Hact. apply GoodR_vars; auto. apply Good_cons; simpl; auto. }
        rewrite Hact. exact Hrun.
      + (* not passed: the default, as a variable *)
        pose proof (Res_lookup_none _ _ _ _ (Res_rev _ _ _ HP) Ep) as Hi1.
        assert (Hpv : pval n0 F = None) by (rewrite <- Hd in Hi1; exact Hi1).
        assert (Hact : act n0 F = F) by (apply fl_true_none; auto).
        match type of Hs with match ?t with _ => _ end = _ => destruct t as [v|] eqn:Ev; try discriminate end.
        set (b := N.of_nat (length store)).
        assert (HF' : Fr true ((EVar n0 b :: V) ++ EFrame 0%N :: Fp) ((n0, b) :: benv) wpb).
        { cbn [app]. apply Fr_push_var; auto. }
        assert (HV' : Forall is_varE (EVar n0 b :: V)) by (constructor; simpl; auto).
        assert (HR' : Res (store ++ [v]) ((n0, b) :: benv) ((n0, v) :: en)) by (apply Res_cons_new; auto).
        destruct (IH _ _ Hs stk nodes cnl cur modes ifs pvs (store ++ [v]) o (EVar n0 b :: V) Fp R ((n0, b) :: benv) wpb HG HV' HF' HT HR' (Res_ext _ _ _ _ HP))
          as [k [store' [V' [Fp' [benv' [Hrun [A1 [A2 [A3 [A4 [A5 [A6 A7]]]]]]]]]]]].
        exists (1 + (1 + (1 + k))), store', V', Fp', benv'. split; [|exact (conj A1 (conj A2 (conj A3 (conj A4 (conj A5 (conj A6 (ext_trans store (store ++ [v]) store' (ex_intro _ [v] eq_refl) A7)))))))].
        rewrite (run_to 1 _ _ _ _ _ (Hstep1 _)).
        rewrite (run_to 1 _ _ _ (CEnd (IParam n0 sel)) (mkM ((tmi, r ++ body, false) :: stk) nodes (l :: cnl) (n :: cur) (md :: modes) ifs pvs (VS (EVar n0 b :: F) R) (store ++ [v]) o)).
        2:{ cbn [XsltCoreDefs.run]. rewrite step_param_start. rewrite get_param_VS by assumption. rewrite Hfst. rewrite Hi1. rewrite Hact.
            assert (Esv : start_value ev_value (mlk (VS F R) store) (cxof n l md) sel [] = Some (Some v)).
            { unfold start_value. destruct sel.
              - rewrite (gx_ext _ _ (fun xs => mlk_slk F R benv wpb store en xs HGF HF HR)). rewrite Ev. reflexivity.
              - inversion Ev. reflexivity. }
            rewrite Esv. rewrite push_variable_VS by assumption. reflexivity. }
        rewrite (run_to 1 _ _ _ CNext (mkM ((tmi, r ++ body, false) :: stk) nodes (l :: cnl) (n :: cur) (md :: modes) ifs pvs (VS (EVar n0 b :: F) R) (store ++ [v]) o)).
        2:{ cbn [XsltCoreDefs.run]. rewrite step_param_end. rewrite get_param_VS by (apply Good_cons; simpl; auto).
            unfold act. cbn [fl]. rewrite N.eqb_refl. reflexivity. }
        exact Hrun.
  Qed.

  (* ---- a template instance ---- *)
  Lemma step_tmpl_start : forall ps body stk nodes l cnl n cur md modes ifs pvs v store o,
    step (CStart (ITemplate ps body)) (mkM stk nodes (l :: cnl) (n :: cur) (md :: modes) ifs pvs v store o) =
    Run CNext (mkM ((ITemplate ps body, ps ++ body, false) :: stk) nodes (l :: cnl) (n :: cur) (md :: modes) ifs pvs
                   (begin_children (ps ++ body) v) store o).
  Proof. reflexivity. Qed.

  Lemma step_tmpl_end : forall ps body stk nodes l cnl n cur md modes ifs pvs v store o,
    step (CEnd (ITemplate ps body)) (mkM stk nodes (l :: cnl) (n :: cur) (md :: modes) ifs pvs v store o) =
    if has_decl (ps ++ body) then
      match pop_frame v with
      | Some v' => Run CNext (mkM stk nodes (l :: cnl) (n :: cur) (md :: modes) ifs pvs (reset_params v') store o)
      | None => Stuck
      end
    else Run CNext (mkM stk nodes (l :: cnl) (n :: cur) (md :: modes) ifs pvs v store o).
  Proof. reflexivity. Qed.

  Lemma tmpl_sim : forall f, SimI f -> forall pv n l md t items,
    sem_tmpl (sem f) pv (cxof n l md) t = Some items ->
    exists tmi, get_template t = Some tmi /\
    forall stk nodes cnl cur modes ifs pvs store o Fp R wpb,
      GoodR Fp R -> TF true Fp wpb -> Res store wpb pv ->
    exists k store' Fp',
      run k (CStart tmi) (mkM stk nodes (l :: cnl) (n :: cur) (md :: modes) ifs pvs (VS Fp R) store o)
      = Run CNext (mkM stk nodes (l :: cnl) (n :: cur) (md :: modes) ifs pvs (VS Fp' R) store' (emit (ops_of items) o))
      /\ TF true Fp' wpb /\ GoodR Fp' R /\ Res store' wpb pv /\ (exists ext, store' = store ++ ext).
  Proof.
    intros f Hf pv n l md t items Hs. unfold XsltCoreDefs.sem_tmpl in Hs.
    destruct (nth_error templates (N.to_nat t)) as [tmi|] eqn:Et; try discriminate.
    destruct tmi; try discriminate.
    exists (ITemplate ps body). split. { unfold XsltCoreDefs.get_template. rewrite Et. reflexivity. }
    destruct (sem_params pv (cxof n l md) ps []) as [en0|] eqn:Ep; try discriminate.
    intros stk nodes cnl cur modes ifs pvs store o Fp R wpb HG HT HP.
    set (tmi := ITemplate ps body).
    destruct (has_decl (ps ++ body)) eqn:Ehv.
    - assert (HF0 : Fr true ([] ++ EFrame 0%N :: Fp) [] wpb) by (apply Fr_push_frame; apply TF_Fr; auto).
      destruct HT as [HTw HT5].
      destruct (params_sim tmi body pv n l md ps [] en0 Ep stk nodes cnl cur modes ifs pvs store o [] Fp R [] wpb HG (Forall_nil _) HF0 HTw (Forall2_nil _) HP)
        as [k1 [store1 [V1 [Fp1 [benv1 [Hrun1 [A1 [A2 [A3 [A4 [A5 [A6 A7]]]]]]]]]]]].
      assert (HG1 : GoodR (V1 ++ EFrame 0%N :: Fp1) R) by (apply GoodR_vars; auto; apply Good_cons; simpl; auto).
      destruct (seq_sim f Hf _ _ _ _ _ _ _ Hs tmi stk nodes cnl cur modes ifs pvs store1 o (V1 ++ EFrame 0%N :: Fp1) R benv1 wpb HG1 A2 A5)
        as [k2 [store2 [V2 [Hrun2 [HV2 [Hext2 Hnil2]]]]]].
      exists (1 + (k1 + (k2 + (1 + 1)))), store2, (map deact1 Fp1).
      split.
      + rewrite (run_to 1 _ _ _ CNext (mkM ((tmi, ps ++ body, false) :: stk) nodes (l :: cnl) (n :: cur) (md :: modes) ifs pvs (VS ([] ++ EFrame 0%N :: Fp) R) store o)).
        2:{ cbn [XsltCoreDefs.run]. unfold tmi. rewrite step_tmpl_start. unfold begin_children. rewrite Ehv. unfold VS. rewrite push_st. reflexivity. }
        rewrite (run_to _ _ _ _ _ _ Hrun1). rewrite (run_to _ _ _ _ _ _ Hrun2).
        rewrite (run_to 1 _ _ _ (CEnd tmi) (mkM stk nodes (l :: cnl) (n :: cur) (md :: modes) ifs pvs (VS (V2 ++ V1 ++ EFrame 0%N :: Fp1) R) store2 (emit (ops_of items) o))) by reflexivity.
        cbn [XsltCoreDefs.run]. unfold tmi. rewrite step_tmpl_end. rewrite Ehv.
        unfold VS. replace ((V2 ++ V1 ++ EFrame 0%N :: Fp1) ++ ECtx :: R) with ((V2 ++ V1) ++ EFrame 0%N :: (Fp1 ++ ECtx :: R)).
        2:{ rewrite <- !app_assoc. cbn [app]. reflexivity. }
        rewrite pop_frame_st.
        * destruct A4 as [G0 [G1 G2]]. rewrite reset_params_st by assumption. reflexivity.
        * apply Forall_app. split; auto.
        * destruct Fp1; discriminate.
      + split. { apply TF_deact. assumption. }
        split. { destruct A4 as [G0 [G1 G2]]. repeat split; auto. apply deact1_not_ctx; auto. }
        split. { eapply Res_ext'; [exact Hext2|]. assumption. }
        eapply ext_trans; eauto.
    - assert (ps = []).
      { destruct ps; auto. simpl in Ep. destruct i; discriminate. }
      subst ps. simpl in Ep. inversion Ep; subst en0. cbn [app] in *.
      destruct (seq_sim f Hf _ _ _ _ _ _ _ Hs tmi stk nodes cnl cur modes ifs pvs store o Fp R [] wpb HG (TF_Fr _ _ _ HT) (Forall2_nil _))
        as [k2 [store2 [V2 [Hrun2 [HV2 [Hext2 Hnil2]]]]]].
      rewrite (Hnil2 Ehv) in Hrun2. cbn [app] in Hrun2.
      exists (1 + (k2 + (1 + 1))), store2, Fp. split.
      + rewrite (run_to 1 _ _ _ CNext (mkM ((tmi, body, false) :: stk) nodes (l :: cnl) (n :: cur) (md :: modes) ifs pvs (VS Fp R) store o)).
        2:{ cbn [XsltCoreDefs.run]. unfold tmi. rewrite step_tmpl_start. unfold begin_children. cbn [app]. rewrite Ehv. reflexivity. }
        rewrite (run_to _ _ _ _ _ _ Hrun2).
        rewrite (run_to 1 _ _ _ (CEnd tmi) (mkM stk nodes (l :: cnl) (n :: cur) (md :: modes) ifs pvs (VS Fp R) store2 (emit (ops_of items) o))) by reflexivity.
        cbn [XsltCoreDefs.run]. unfold tmi. rewrite step_tmpl_end. cbn [app]. rewrite Ehv. reflexivity.
      + split; auto. split; auto. split; auto. eapply Res_ext'; eauto.
  Qed.

  (* ---- result tree fragments: the body runs against a fresh formatter, which is popped at endElement ---- *)
  Definition binder (i : instr) : Prop :=
    (exists nm sel body, i = IWithParam nm sel body) \/ (exists nm sel body, i = IVar nm sel body).

  Lemma step_leave_binder : forall i stk nodes l cnl n cur md modes ifs pvs v store o, binder i ->
    step CNext (mkM ((i, [], false) :: stk) nodes (l :: cnl) (n :: cur) (md :: modes) ifs pvs v store o)
    = Run (CEnd i) (mkM stk nodes (l :: cnl) (n :: cur) (md :: modes) ifs pvs v store o).
  Proof. intros. destruct H as [[nm [sel [body H]]]|[nm [sel [body H]]]]; subst; reflexivity. Qed.

  Lemma rtf_sim : forall f, SimI f ->
    forall i body wp n l md en its, binder i ->
      sem_seq (sem f wp (cxof n l md)) body en = Some its ->
    forall stk nodes cnl cur modes ifs pvs store o F R benv wpb,
      GoodR F R -> Fr true F benv wpb -> Res store benv en ->
    exists k store' v1 e1,
      run k CNext (mkM ((i, body, false) :: stk) nodes (l :: cnl) (n :: cur) (md :: modes) ifs pvs (begin_children body (VS F R)) store (e_init :: o))
      = Run (CEnd i) (mkM stk nodes (l :: cnl) (n :: cur) (md :: modes) ifs pvs v1 store' (e1 :: o))
      /\ end_children body v1 = Some (VS F R) /\ pop_rtf (e1 :: o) = Some (spec_tree false its, o)
      /\ (exists ext, store' = store ++ ext).
  Proof.
    intros f Hf i body wp n l md en its Hi Hs stk nodes cnl cur modes ifs pvs store o F R benv wpb HG HF HR.
    destruct (block_sim f Hf _ _ _ _ _ _ _ Hs i stk nodes cnl cur modes ifs pvs store (e_init :: o) F R benv wpb HG HF HR)
      as [k [store' [v1 [Hrun [Hend Hext]]]]].
    exists (k + 1), store', v1, (run_ops (ops_of its) e_init). split; [|split; [exact Hend|split; [|exact Hext]]].
    - rewrite (run_to _ _ _ _ _ _ Hrun). cbn [XsltCoreDefs.run]. rewrite step_leave_binder by assumption. reflexivity.
    - unfold pop_rtf.
      assert (X : machine_tree (ops_of its) = Some (spec_tree false its)).
      { apply pending_machine_builds_tree_thm. eapply sem_seq_ok; [|exact Hs]. apply sem_ok. }
      unfold machine_tree, events_of in X. rewrite X. reflexivity.
  Qed.

  (* ---- xsl:with-param children ---- *)
  Lemma step_wp_start : forall nm sel body stk nodes l cnl n cur md modes ifs pvs v store o,
    step (CStart (IWithParam nm sel body)) (mkM stk nodes (l :: cnl) (n :: cur) (md :: modes) ifs pvs v store o) =
    match start_value ev_value (mlk v store) (cxof n l md) sel body with
    | Some (Some val) =>
        match pvs with
        | top :: pr => Run (CEnd (IWithParam nm sel body)) (mkM stk nodes (l :: cnl) (n :: cur) (md :: modes) ifs ((top ++ [(nm, N.of_nat (length store))]) :: pr) v (store ++ [val]) o)
        | [] => Stuck
        end
    | Some None => Run CNext (mkM ((IWithParam nm sel body, body, false) :: stk) nodes (l :: cnl) (n :: cur) (md :: modes) ifs pvs (begin_children body v) store (e_init :: o))
    | None => Stuck
    end.
  Proof. reflexivity. Qed.

  Lemma step_wp_end : forall nm sel body stk nodes l cnl n cur md modes ifs pvs v store o,
    step (CEnd (IWithParam nm sel body)) (mkM stk nodes (l :: cnl) (n :: cur) (md :: modes) ifs pvs v store o) =
    if is_rtf_def sel body then
      match end_children body v, pop_rtf o, pvs with
      | Some v', Some (t, o'), top :: pr =>
          Run CNext (mkM stk nodes (l :: cnl) (n :: cur) (md :: modes) ifs ((top ++ [(nm, N.of_nat (length store))]) :: pr) v' (store ++ [VRtf t]) o')
      | _, _, _ => Stuck
      end
    else Run CNext (mkM stk nodes (l :: cnl) (n :: cur) (md :: modes) ifs pvs v store o).
  Proof. reflexivity. Qed.

  Lemma start_value_sel : forall F R benv wpb store en c e v,
    GoodR F R -> Fr true F benv wpb -> Res store benv en ->
    gx ev_value (slk en) c e = Some v ->
    forall body, start_value ev_value (mlk (VS F R) store) c (Some e) body = Some (Some v).
  Proof.
    intros. unfold start_value. rewrite (gx_ext _ _ (fun xs => mlk_slk F R benv wpb store en xs H H0 H1)). rewrite H2. reflexivity.
  Qed.

  Lemma wps_sim : forall f, SimI f ->
    forall wps wp n l md en pv,
      sem_wps (sem_seq (sem f wp (cxof n l md))) (cxof n l md) en wps = Some pv ->
    forall p stk nodes cnl cur modes ifs top pr store o F R benv wpb,
      GoodR F R -> Fr true F benv wpb -> Res store benv en ->
    exists k store' pb,
      run k CNext (mkM ((p, wps, false) :: stk) nodes (l :: cnl) (n :: cur) (md :: modes) ifs (top :: pr) (VS F R) store o)
      = Run CNext (mkM ((p, [], false) :: stk) nodes (l :: cnl) (n :: cur) (md :: modes) ifs ((top ++ pb) :: pr) (VS F R) store' o)
      /\ Res store' pb pv /\ (exists ext, store' = store ++ ext).
  Proof.
    intros f Hf. induction wps as [|x r IH]; intros wp n l md en pv Hs p stk nodes cnl cur modes ifs top pr store o F R benv wpb HG HF HR.
    - simpl in Hs. inversion Hs; subst. exists 0, store, []. rewrite app_nil_r. split; [reflexivity|]. split. constructor. apply ext_refl.
    - cbn [XsltCoreDefs.sem_wps] in Hs. destruct x; try discriminate.
      destruct (sem_vvalue (sem_seq (sem f wp (cxof n l md))) (cxof n l md) sel body en) as [v|] eqn:Ev; try discriminate.
      match type of Hs with match ?t with _ => _ end = _ => destruct t as [pv1|] eqn:E2; try discriminate end.
      inversion Hs; subst pv. clear Hs.
      set (i := IWithParam n0 sel body).
      assert (Hstep1 : run 1 CNext (mkM ((p, i :: r, false) :: stk) nodes (l :: cnl) (n :: cur) (md :: modes) ifs (top :: pr) (VS F R) store o)
                       = Run (CStart i) (mkM ((p, r, false) :: stk) nodes (l :: cnl) (n :: cur) (md :: modes) ifs (top :: pr) (VS F R) store o)) by reflexivity.
      (* in every case the with-param ends in this state *)
      assert (Hone : exists k1 store1, 
                run k1 (CStart i) (mkM ((p, r, false) :: stk) nodes (l :: cnl) (n :: cur) (md :: modes) ifs (top :: pr) (VS F R) store o)
                = Run CNext (mkM ((p, r, false) :: stk) nodes (l :: cnl) (n :: cur) (md :: modes) ifs ((top ++ [(n0, N.of_nat (length store1))]) :: pr) (VS F R) (store1 ++ [v]) o)
                /\ (exists ext, store1 = store ++ ext)).
      { unfold XsltCoreDefs.sem_vvalue in Ev. destruct sel as [e|].
        - exists 2, store. split; [|apply ext_refl]. cbn [XsltCoreDefs.run]. unfold i. rewrite step_wp_start.
          rewrite (start_value_sel F R benv wpb store en _ _ _ HG HF HR Ev). rewrite step_wp_end. reflexivity.
        - destruct body as [|b0 body'].
          + inversion Ev; subst v. exists 2, store. split; [|apply ext_refl]. reflexivity.
          + match type of Ev with match ?t with _ => _ end = _ => destruct t as [its|] eqn:Eb; try discriminate end.
            inversion Ev; subst v. clear Ev.
            destruct (rtf_sim f Hf i (b0 :: body') wp n l md en its (or_introl (ex_intro _ n0 (ex_intro _ None (ex_intro _ (b0 :: body') eq_refl)))) Eb
                        ((p, r, false) :: stk) nodes cnl cur modes ifs (top :: pr) store o F R benv wpb HG HF HR)
              as [k [store1 [v1 [e1 [Hrun [Hend [Hpop Hext]]]]]]].
            exists (1 + (k + 1)), store1. split; [|exact Hext].
            rewrite (run_to 1 _ _ _ CNext (mkM ((i, b0 :: body', false) :: (p, r, false) :: stk) nodes (l :: cnl) (n :: cur) (md :: modes) ifs (top :: pr) (begin_children (b0 :: body') (VS F R)) store (e_init :: o))) by reflexivity.
            rewrite (run_to _ _ _ _ _ _ Hrun). cbn [XsltCoreDefs.run]. unfold i. rewrite step_wp_end. cbn [is_rtf_def].
            rewrite Hend. rewrite Hpop. reflexivity. }
      destruct Hone as [k1 [store1 [Hrun1 Hext1]]].
      assert (HR1 : Res (store1 ++ [v]) benv en).
      { apply Res_ext. eapply Res_ext'; eauto. }
      destruct (IH _ _ _ _ _ _ E2 p stk nodes cnl cur modes ifs (top ++ [(n0, N.of_nat (length store1))]) pr (store1 ++ [v]) o F R benv wpb HG HF HR1)
        as [k2 [store2 [pb [Hrun2 [HP2 Hext2]]]]].
      exists (1 + (k1 + k2)), store2, ((n0, N.of_nat (length store1)) :: pb). split; [|split].
      + rewrite (run_to _ _ _ _ _ _ Hstep1). rewrite (run_to _ _ _ _ _ _ Hrun1). rewrite Hrun2. rewrite <- app_assoc. reflexivity.
      + constructor; auto. simpl. split; auto. destruct Hext2 as [x Hx]. rewrite Hx. rewrite Nat2N.id.
        rewrite nth_error_app1 by (rewrite app_length; simpl; lia). rewrite nth_error_app2 by lia. rewrite Nat.sub_diag. reflexivity.
      + eapply ext_trans; [|exact Hext2]. eapply ext_trans; [exact Hext1|]. eexists; reflexivity.
  Qed.

  (* ---- xsl:for-each: one run of the children per selected node ---- *)
  Lemma cxof_at : forall done n1 rest md, NoDup (done ++ n1 :: rest) ->
    mkC n1 (N.of_nat (S (length done))) (N.of_nat (length (done ++ n1 :: rest))) md = cxof n1 (done ++ n1 :: rest) md.
  Proof. intros. unfold cxof, pos_of. rewrite index_of_app_nodup by assumption. reflexivity. Qed.

  Lemma step_fe_next : forall e srt body stk n2 r nodes l cnl n cur md modes ifs pvs v v' store o,
    end_children body v = Some v' ->
    step CNext (mkM ((IForEach e srt body, [], false) :: stk) ((n2 :: r) :: nodes) (l :: cnl) (n :: cur) (md :: modes) ifs pvs v store o)
    = Run CNext (mkM ((IForEach e srt body, body, false) :: stk) (r :: nodes) (l :: cnl) (n2 :: cur) (md :: modes) ifs pvs (begin_children body v') store o).
  Proof. intros. cbn [XsltCoreDefs.step]. rewrite H. reflexivity. Qed.

  Lemma foreach_loop : forall f, SimI f -> forall e srt body wp md en sl, NoDup sl ->
    forall rest n1 done items, sl = done ++ n1 :: rest ->
      each (fun n pos => sem_seq (sem f wp (mkC n pos (N.of_nat (length sl)) md)) body en) (n1 :: rest) (N.of_nat (S (length done))) = Some items ->
    forall stk nodes cnl cur modes ifs pvs store o F R benv wpb,
      GoodR F R -> Fr true F benv wpb -> Res store benv en ->
    exists k store' v1 nl,
      run k CNext (mkM ((IForEach e srt body, body, false) :: stk) (rest :: nodes) (sl :: cnl) (n1 :: cur) (md :: modes) ifs pvs (begin_children body (VS F R)) store o)
      = Run CNext (mkM ((IForEach e srt body, [], false) :: stk) ([] :: nodes) (sl :: cnl) (nl :: cur) (md :: modes) ifs pvs v1 store' (emit (ops_of items) o))
      /\ end_children body v1 = Some (VS F R) /\ (exists ext, store' = store ++ ext).
  Proof.
    intros f Hf e srt body wp md en sl Hnd. induction rest as [|n2 r IH]; intros n1 done items Hsl Hs stk nodes cnl cur modes ifs pvs store o F R benv wpb HG HF HR.
    - cbn [each] in Hs.
      match type of Hs with match ?t with _ => _ end = _ => destruct t as [o1|] eqn:E1; try discriminate end.
      inversion Hs; subst items. rewrite app_nil_r. clear Hs.
      rewrite Hsl in E1. rewrite cxof_at in E1 by (rewrite <- Hsl; assumption). rewrite <- Hsl in E1.
      destruct (block_sim f Hf _ _ _ _ _ _ _ E1 (IForEach e srt body) stk ([] :: nodes) cnl cur modes ifs pvs store o F R benv wpb HG HF HR)
        as [k [store' [v1 [Hrun [Hend Hext]]]]].
      exists k, store', v1, n1. auto.
    - cbn [each] in Hs.
      match type of Hs with match ?t with _ => _ end = _ => destruct t as [o1|] eqn:E1; try discriminate end.
      match type of Hs with match ?t with _ => _ end = _ => destruct t as [o2|] eqn:E2; try discriminate end.
      inversion Hs; subst items. clear Hs.
      rewrite Hsl in E1. rewrite cxof_at in E1 by (rewrite <- Hsl; assumption). rewrite <- Hsl in E1.
      destruct (block_sim f Hf _ _ _ _ _ _ _ E1 (IForEach e srt body) stk ((n2 :: r) :: nodes) cnl cur modes ifs pvs store o F R benv wpb HG HF HR)
        as [k1 [store1 [v1 [Hrun1 [Hend1 Hext1]]]]].
      assert (Hsl2 : sl = (done ++ [n1]) ++ n2 :: r) by (rewrite <- app_assoc; exact Hsl).
      assert (Hpos : N.succ (N.of_nat (S (length done))) = N.of_nat (S (length (done ++ [n1])))).
      { apply pos_succ. }
      rewrite Hpos in E2.
      destruct (IH n2 (done ++ [n1]) o2 Hsl2 E2 stk nodes cnl cur modes ifs pvs store1 (emit (ops_of o1) o) F R benv wpb HG HF (Res_ext' _ _ _ _ Hext1 HR))
        as [k2 [store2 [v2 [nl [Hrun2 [Hend2 Hext2]]]]]].
      exists (k1 + (1 + k2)), store2, v2, nl. split; [|split; [exact Hend2|eapply ext_trans; eauto]].
      rewrite (run_to _ _ _ _ _ _ Hrun1).
      rewrite (run_to 1 _ _ _ CNext (mkM ((IForEach e srt body, body, false) :: stk) (r :: nodes) (sl :: cnl) (n2 :: cur) (md :: modes) ifs pvs (begin_children body (VS F R)) store1 (emit (ops_of o1) o))).
      2:{ cbn [XsltCoreDefs.run]. rewrite (step_fe_next _ _ _ _ _ _ _ _ _ _ _ _ _ _ _ _ _ _ _ Hend1). reflexivity. }
      rewrite Hrun2. rewrite ops_of_app. rewrite emit_app. reflexivity.
  Qed.

  (* ---- xsl:apply-templates: one template instance per selected node that has a template ---- *)
  Definition after_find (p : instr) (stk' : list frame) (nodes' cnl : list (list N)) (sl cur' : list N) (md1 : N) (modes : list N)
             (ifs : list bool) (pvs : list (list (N * N))) (Fp R : list entry) (fn : option (N * N * list N))
             (store : list value) (o : list est) : res :=
    match fn with
    | Some (n1, t, rest') =>
        match get_template t with
        | Some tmi => Run (CStart tmi) (mkM ((p, [], true) :: stk') (rest' :: nodes') (sl :: cnl) (n1 :: cur') (md1 :: modes) ifs pvs (VS Fp R) store o)
        | None => Stuck
        end
    | None => Run (CEnd p) (mkM stk' ([] :: nodes') (sl :: cnl) cur' (md1 :: modes) ifs pvs (VS Fp R) store o)
    end.

  Lemma step_apply_next : forall e m srt wps stk' rest nodes' sl cnl n1 cur' md1 modes ifs pvs Fp R store o,
    step CNext (mkM ((IApply e m srt wps, [], true) :: stk') (rest :: nodes') (sl :: cnl) (n1 :: cur') (md1 :: modes) ifs pvs (VS Fp R) store o)
    = after_find (IApply e m srt wps) stk' nodes' cnl sl cur' md1 modes ifs pvs Fp R (find_next sel_template md1 rest) store o.
  Proof. intros. cbn [XsltCoreDefs.step]. unfold after_find. destruct (find_next sel_template md1 rest) as [[[a b] c]|]; reflexivity. Qed.

  Lemma apply_loop : forall f, SimI f -> forall e m srt wps pv md1 sl, NoDup sl ->
    forall rest done items, sl = done ++ rest ->
      each (fun n pos => match sel_template n md1 with
                         | Some t => sem_tmpl (sem f) pv (mkC n pos (N.of_nat (length sl)) md1) t
                         | None => Some []
                         end) rest (N.of_nat (S (length done))) = Some items ->
    forall stk' nodes' cnl cur' modes ifs pvs store o Fp R wpb,
      GoodR Fp R -> TF true Fp wpb -> Res store wpb pv ->
    exists k store' Fp',
      (forall c0 s0, step c0 s0 = after_find (IApply e m srt wps) stk' nodes' cnl sl cur' md1 modes ifs pvs Fp R (find_next sel_template md1 rest) store o ->
         run (S k) c0 s0 = Run (CEnd (IApply e m srt wps)) (mkM stk' ([] :: nodes') (sl :: cnl) cur' (md1 :: modes) ifs pvs (VS Fp' R) store' (emit (ops_of items) o)))
      /\ TF true Fp' wpb /\ GoodR Fp' R /\ (exists ext, store' = store ++ ext).
  Proof.
    intros f Hf e m srt wps pv md1 sl Hnd. induction rest as [|n1 r IH]; intros done items Hsl Hs stk' nodes' cnl cur' modes ifs pvs store o Fp R wpb HG HT HP.
    - simpl in Hs. inversion Hs; subst items. exists 0, store, Fp. split; [|split; [exact HT|split; [exact HG|apply ext_refl]]].
      intros c0 s0 H. cbn [XsltCoreDefs.run]. rewrite H. cbn [find_next after_find]. rewrite emit_nil. reflexivity.
    - cbn [each] in Hs.
      assert (Hsl2 : sl = (done ++ [n1]) ++ r) by (rewrite <- app_assoc; exact Hsl).
      assert (Hpos : N.succ (N.of_nat (S (length done))) = N.of_nat (S (length (done ++ [n1])))).
      { apply pos_succ. }
      destruct (sel_template n1 md1) as [t|] eqn:Et.
      + match type of Hs with match ?t with _ => _ end = _ => destruct t as [o1|] eqn:E1; try discriminate end.
        match type of Hs with match ?t with _ => _ end = _ => destruct t as [o2|] eqn:E2; try discriminate end.
        inversion Hs; subst items. clear Hs.
        rewrite Hsl in E1. rewrite cxof_at in E1 by (rewrite <- Hsl; assumption). rewrite <- Hsl in E1.
        destruct (tmpl_sim f Hf _ _ _ _ _ _ E1) as [tmi [Hgt Htm]].
        destruct (Htm ((IApply e m srt wps, [], true) :: stk') (r :: nodes') cnl cur' modes ifs pvs store o Fp R wpb HG HT HP)
          as [k1 [store1 [Fp1 [Hrun1 [HT1 [HG1 [HP1 Hext1]]]]]]].
        rewrite Hpos in E2.
        destruct (IH (done ++ [n1]) o2 Hsl2 E2 stk' nodes' cnl cur' modes ifs pvs store1 (emit (ops_of o1) o) Fp1 R wpb HG1 HT1 HP1)
          as [k2 [store2 [Fp2 [Hrun2 [HT2 [HG2 Hext2]]]]]].
        exists (k1 + S k2), store2, Fp2. split; [|split; [exact HT2|split; [exact HG2|eapply ext_trans; eauto]]].
        intros c0 s0 H. cbn [XsltCoreDefs.run]. rewrite H. cbn [find_next]. rewrite Et. cbn [after_find]. rewrite Hgt.
        rewrite (run_to _ _ _ _ _ _ Hrun1). rewrite (Hrun2 _ _ (step_apply_next _ _ _ _ _ _ _ _ _ _ _ _ _ _ _ _ _ _ _)).
        rewrite ops_of_app. rewrite emit_app. reflexivity.
      + match type of Hs with match ?t with _ => _ end = _ => destruct t as [o2|] eqn:E2; try discriminate end.
        inversion Hs; subst items. clear Hs. cbn [app].
        rewrite Hpos in E2.
        destruct (IH (done ++ [n1]) o2 Hsl2 E2 stk' nodes' cnl cur' modes ifs pvs store o Fp R wpb HG HT HP)
          as [k2 [store2 [Fp2 [Hrun2 X]]]].
        exists k2, store2, Fp2. split; [|exact X].
        intros c0 s0 H. apply Hrun2. rewrite H. cbn [find_next]. rewrite Et. reflexivity.
  Qed.

  Lemma step_apply_select : forall e m srt wps stk nodes l cnl n cur md1 modes' ifs top pr F R store o sl,
    sel_nodes (mlk (VS F R) store) (cxof n l md1) e srt = Some sl ->
    step CNext (mkM ((IApply e m srt wps, [], false) :: stk) nodes (l :: cnl) (n :: cur) (md1 :: modes') ifs (top :: pr) (VS F R) store o)
    = after_find (IApply e m srt wps) stk nodes (l :: cnl) sl (n :: cur) md1 modes' ifs pr
                 (rev (map (fun p => EParam (fst p) (snd p)) top)) (F ++ ECtx :: R) (find_next sel_template md1 sl) store o.
  Proof.
    intros. cbn [XsltCoreDefs.step]. fold (cxof n l md1). rewrite H.
    assert (Hpush : push_params top (push ECtx (VS F R)) = VS (rev (map (fun p => EParam (fst p) (snd p)) top)) (F ++ ECtx :: R)).
    { unfold VS. rewrite push_st. rewrite push_params_st. reflexivity. }
    rewrite Hpush. unfold after_find. destruct (find_next sel_template md1 sl) as [[[a b] c]|]; reflexivity.
  Qed.

  (* ---- one instruction ---- *)
  Lemma step_var_start : forall nm sel body stk nodes l cnl n cur md modes ifs pvs v store o,
    step (CStart (IVar nm sel body)) (mkM stk nodes (l :: cnl) (n :: cur) (md :: modes) ifs pvs v store o) =
    match start_value ev_value (mlk v store) (cxof n l md) sel body with
    | Some (Some val) =>
        match push_variable nm (N.of_nat (length store)) 0%N v with
        | Some v' => Run (CEnd (IVar nm sel body)) (mkM stk nodes (l :: cnl) (n :: cur) (md :: modes) ifs pvs v' (store ++ [val]) o)
        | None => Stuck
        end
    | Some None => Run CNext (mkM ((IVar nm sel body, body, false) :: stk) nodes (l :: cnl) (n :: cur) (md :: modes) ifs pvs (begin_children body v) store (e_init :: o))
    | None => Stuck
    end.
  Proof. reflexivity. Qed.

  Lemma step_var_end : forall nm sel body stk nodes l cnl n cur md modes ifs pvs v store o,
    step (CEnd (IVar nm sel body)) (mkM stk nodes (l :: cnl) (n :: cur) (md :: modes) ifs pvs v store o) =
    if is_rtf_def sel body then
      match end_children body v, pop_rtf o with
      | Some v', Some (t, o') =>
          match push_variable nm (N.of_nat (length store)) 0%N v' with
          | Some v'' => Run CNext (mkM stk nodes (l :: cnl) (n :: cur) (md :: modes) ifs pvs v'' (store ++ [VRtf t]) o')
          | None => Stuck
          end
      | _, _ => Stuck
      end
    else Run CNext (mkM stk nodes (l :: cnl) (n :: cur) (md :: modes) ifs pvs v store o).
  Proof. reflexivity. Qed.

  Lemma emit_elem : forall n pre body o,
    emit [IEnd n] (emit (ops_of body) (emit (IStart n :: map (fun p => IAttr (fst p) (snd p)) pre) o)) = emit (ops_of [GElem n pre body]) o.
  Proof.
    intros. rewrite <- !emit_app. f_equal. unfold ops_of. simpl. rewrite app_nil_r. reflexivity.
  Qed.

  Lemma pick_kind : forall lk c l x, pick ev_bool lk c l = Some (Some x) -> is_decl x = false.
  Proof.
    induction l; simpl; intros x H; try discriminate. destruct a; try discriminate.
    - destruct (gx ev_bool lk c e) as [[|]|]; try discriminate. inversion H; reflexivity. auto.
    - inversion H; reflexivity.
  Qed.

  Ltac one c' s' := rewrite (run_to 1 _ _ _ c' s') by reflexivity.
  Ltac close_nd k store' Hext HF HR :=
    exists k, store', (@nil entry), (@nil (N * N));
    split; [| split; [constructor | split; [exact HF | split; [eapply Res_ext'; [exact Hext | exact HR] | split; [exact Hext | intros _; reflexivity]]]]].

  Lemma sim_S : forall f, SimI f -> SimI (S f).
  Proof.
    intros f Hf i wp n l md en en' items Hs stk nodes cnl cur modes ifs pvs store o F R benv wpb HG HF HR.
    pose proof (fun xs => mlk_slk F R benv wpb store en xs HG HF HR) as Hlk.
    cbn [XsltCoreDefs.sem] in Hs. destruct i; try discriminate.
    - (* literal result element *)
      destruct (nonempty n0) eqn:En; try discriminate.
      destruct (ev_atts ev_string (slk en) (cxof n l md) atts) as [pre|] eqn:Ea; try discriminate.
      destruct (sem_seq (sem f wp (cxof n l md)) body en) as [o1|] eqn:Eb; try discriminate.
      inversion Hs; subst en' items. clear Hs.
      set (i := ILre n0 atts body).
      destruct (block_sim f Hf _ _ _ _ _ _ _ Eb i stk nodes cnl cur modes ifs pvs store (emit (IStart n0 :: map (fun p => IAttr (fst p) (snd p)) pre) o) F R benv wpb HG HF HR)
        as [k [store' [v1 [Hrun [Hend Hext]]]]].
      close_nd (1 + (k + (1 + 1))) store' Hext HF HR.
      rewrite (run_to 1 _ _ _ CNext (mkM ((i, body, false) :: stk) nodes (l :: cnl) (n :: cur) (md :: modes) ifs pvs (begin_children body (VS F R)) store (emit (IStart n0 :: map (fun p => IAttr (fst p) (snd p)) pre) o))).
      2:{ cbn [XsltCoreDefs.run XsltCoreDefs.step i]. fold (cxof n l md). rewrite (ev_atts_ext _ _ _ Hlk). rewrite Ea. rewrite emit_lre_start_ops by assumption. reflexivity. }
      rewrite (run_to _ _ _ _ _ _ Hrun).
      one (CEnd i) (mkM stk nodes (l :: cnl) (n :: cur) (md :: modes) ifs pvs v1 store' (emit (ops_of o1) (emit (IStart n0 :: map (fun p => IAttr (fst p) (snd p)) pre) o))).
      cbn [XsltCoreDefs.run XsltCoreDefs.step i]. rewrite Hend. rewrite emit_elem. reflexivity.
    - (* text *)
      inversion Hs; subst en' items. close_nd 2 store (ext_refl store) HF HR. reflexivity.
    - (* value-of *)
      destruct (gx ev_string (slk en) (cxof n l md) e) as [t|] eqn:Eg; try discriminate.
      inversion Hs; subst en' items. close_nd 2 store (ext_refl store) HF HR.
      cbn [XsltCoreDefs.run XsltCoreDefs.step]. fold (cxof n l md). rewrite (gx_ext _ _ Hlk). rewrite Eg. reflexivity.
    - (* if *)
      destruct (gx ev_bool (slk en) (cxof n l md) e) as [[|]|] eqn:Eg; try discriminate.
      + destruct (sem_seq (sem f wp (cxof n l md)) body en) as [o1|] eqn:Eb; try discriminate.
        inversion Hs; subst en' items. clear Hs.
        set (i := IIf e body).
        destruct (block_sim f Hf _ _ _ _ _ _ _ Eb i stk nodes cnl cur modes (true :: ifs) pvs store o F R benv wpb HG HF HR)
          as [k [store' [v1 [Hrun [Hend Hext]]]]].
        close_nd (1 + (k + (1 + 1))) store' Hext HF HR.
        rewrite (run_to 1 _ _ _ CNext (mkM ((i, body, false) :: stk) nodes (l :: cnl) (n :: cur) (md :: modes) (true :: ifs) pvs (begin_children body (VS F R)) store o)).
        2:{ cbn [XsltCoreDefs.run XsltCoreDefs.step i]. fold (cxof n l md). rewrite (gx_ext _ _ Hlk). rewrite Eg. reflexivity. }
        rewrite (run_to _ _ _ _ _ _ Hrun).
        one (CEnd i) (mkM stk nodes (l :: cnl) (n :: cur) (md :: modes) (true :: ifs) pvs v1 store' (emit (ops_of o1) o)).
        cbn [XsltCoreDefs.run XsltCoreDefs.step i]. rewrite Hend. reflexivity.
      + inversion Hs; subst en' items. close_nd 2 store (ext_refl store) HF HR.
        cbn [XsltCoreDefs.run XsltCoreDefs.step]. fold (cxof n l md). rewrite (gx_ext _ _ Hlk). rewrite Eg. cbn [ops_of flat_map]. rewrite emit_nil. reflexivity.
    - (* choose *)
      destruct (pick ev_bool (slk en) (cxof n l md) branches) as [[x|]|] eqn:Ep; try discriminate.
      + destruct (sem f wp (cxof n l md) x en) as [[e1 o1]|] eqn:Ex; try discriminate.
        inversion Hs; subst en' items. clear Hs.
        set (i := IChoose branches).
        destruct (Hf _ _ _ _ _ _ _ _ Ex ((i, [], false) :: stk) nodes cnl cur modes ifs pvs store o F R benv wpb HG HF HR)
          as [k [store' [V [newb [Hrun [HV [HF1 [HR1 [Hext Hnil]]]]]]]]].
        rewrite (Hnil (pick_kind _ _ _ _ Ep)) in Hrun. cbn [app] in Hrun.
        close_nd (1 + (k + (1 + 1))) store' Hext HF HR.
        rewrite (run_to 1 _ _ _ (CStart x) (mkM ((i, [], false) :: stk) nodes (l :: cnl) (n :: cur) (md :: modes) ifs pvs (VS F R) store o)).
        2:{ cbn [XsltCoreDefs.run XsltCoreDefs.step i]. fold (cxof n l md). rewrite (pick_ext _ _ _ Hlk). rewrite Ep. reflexivity. }
        rewrite (run_to _ _ _ _ _ _ Hrun). reflexivity.
      + inversion Hs; subst en' items. close_nd 2 store (ext_refl store) HF HR.
        cbn [XsltCoreDefs.run XsltCoreDefs.step]. fold (cxof n l md). rewrite (pick_ext _ _ _ Hlk). rewrite Ep. cbn [ops_of flat_map]. rewrite emit_nil. reflexivity.
    - (* when *)
      destruct (sem_seq (sem f wp (cxof n l md)) body en) as [o1|] eqn:Eb; try discriminate.
      inversion Hs; subst en' items. clear Hs.
      set (i := IWhen e body).
      destruct (block_sim f Hf _ _ _ _ _ _ _ Eb i stk nodes cnl cur modes ifs pvs store o F R benv wpb HG HF HR)
        as [k [store' [v1 [Hrun [Hend Hext]]]]].
      close_nd (1 + (k + (1 + 1))) store' Hext HF HR.
      one CNext (mkM ((i, body, false) :: stk) nodes (l :: cnl) (n :: cur) (md :: modes) ifs pvs (begin_children body (VS F R)) store o).
      rewrite (run_to _ _ _ _ _ _ Hrun).
      one (CEnd i) (mkM stk nodes (l :: cnl) (n :: cur) (md :: modes) ifs pvs v1 store' (emit (ops_of o1) o)).
      cbn [XsltCoreDefs.run XsltCoreDefs.step i]. rewrite Hend. reflexivity.
    - (* otherwise *)
      destruct (sem_seq (sem f wp (cxof n l md)) body en) as [o1|] eqn:Eb; try discriminate.
      inversion Hs; subst en' items. clear Hs.
      set (i := IOtherwise body).
      destruct (block_sim f Hf _ _ _ _ _ _ _ Eb i stk nodes cnl cur modes ifs pvs store o F R benv wpb HG HF HR)
        as [k [store' [v1 [Hrun [Hend Hext]]]]].
      close_nd (1 + (k + (1 + 1))) store' Hext HF HR.
      one CNext (mkM ((i, body, false) :: stk) nodes (l :: cnl) (n :: cur) (md :: modes) ifs pvs (begin_children body (VS F R)) store o).
      rewrite (run_to _ _ _ _ _ _ Hrun).
      one (CEnd i) (mkM stk nodes (l :: cnl) (n :: cur) (md :: modes) ifs pvs v1 store' (emit (ops_of o1) o)).
      cbn [XsltCoreDefs.run XsltCoreDefs.step i]. rewrite Hend. reflexivity.
    - (* for-each *)
      destruct body as [|b0 body'].
      + inversion Hs; subst en' items. close_nd 2 store (ext_refl store) HF HR. cbn [ops_of flat_map]. rewrite emit_nil. reflexivity.
      + set (body := b0 :: body') in *.
        destruct (sel_nodes (slk en) (cxof n l md) e srt) as [sl|] eqn:Esl; try discriminate.
        match type of Hs with match ?t with _ => _ end = _ => destruct t as [o1|] eqn:Ee; try discriminate end.
        inversion Hs; subst en' items. clear Hs.
        pose proof (sel_nodes_nodup _ _ _ _ _ Esl) as Hnd.
        set (i := IForEach e srt body).
        destruct sl as [|n1 rest].
        * simpl in Ee. inversion Ee; subst o1. close_nd 2 store (ext_refl store) HF HR.
          cbn [XsltCoreDefs.run XsltCoreDefs.step i body]. fold (cxof n l md). rewrite (sel_nodes_ext _ _ _ _ Hlk). rewrite Esl.
          cbn [ops_of flat_map tl_or_nil]. rewrite emit_nil. reflexivity.
        * cbn [cmode cxof] in Ee.
          destruct (foreach_loop f Hf e srt body wp md en (n1 :: rest) Hnd rest n1 [] o1 eq_refl Ee stk nodes (l :: cnl) (n :: cur) modes ifs pvs store o F R benv wpb HG HF HR)
            as [k [store' [v1 [nl [Hrun [Hend Hext]]]]]].
          close_nd (1 + (k + (1 + 1))) store' Hext HF HR.
          rewrite (run_to 1 _ _ _ CNext (mkM ((i, body, false) :: stk) (rest :: nodes) ((n1 :: rest) :: l :: cnl) (n1 :: n :: cur) (md :: modes) ifs pvs (begin_children body (VS F R)) store o)).
          2:{ cbn [XsltCoreDefs.run XsltCoreDefs.step i body]. fold (cxof n l md). rewrite (sel_nodes_ext _ _ _ _ Hlk). rewrite Esl. reflexivity. }
          rewrite (run_to _ _ _ _ _ _ Hrun).
          one (CEnd i) (mkM stk ([] :: nodes) ((n1 :: rest) :: l :: cnl) (n :: cur) (md :: modes) ifs pvs v1 store' (emit (ops_of o1) o)).
          cbn [XsltCoreDefs.run XsltCoreDefs.step i body]. fold body. rewrite Hend. reflexivity.
    - (* call-template *)
      destruct (sem_wps (sem_seq (sem f wp (cxof n l md))) (cxof n l md) en wps) as [pv|] eqn:Ew; try discriminate.
      destruct (sem_tmpl (sem f) pv (cxof n l md) t) as [o1|] eqn:Et; try discriminate.
      inversion Hs; subst en' items. clear Hs.
      set (i := ICall t wps).
      destruct (tmpl_sim f Hf _ _ _ _ _ _ Et) as [tmi [Hgt Htm]].
      assert (Hpush : forall pb, push_params pb (push ECtx (VS F R)) = VS (rev (map (fun p => EParam (fst p) (snd p)) pb)) (F ++ ECtx :: R)).
      { intros. unfold VS. rewrite push_st. rewrite push_params_st. reflexivity. }
      assert (Hfin : forall Fp2 store2 pb, TF true Fp2 pb ->
                     run (1 + 1) CNext (mkM ((i, [], true) :: stk) nodes (l :: cnl) (n :: cur) (md :: modes) ifs pvs (VS Fp2 (F ++ ECtx :: R)) store2 (emit (ops_of o1) o))
                     = Run CNext (mkM stk nodes (l :: cnl) (n :: cur) (md :: modes) ifs pvs (VS F R) store2 (emit (ops_of o1) o))).
      { intros Fp2 store2 pb HT2. cbn [XsltCoreDefs.run XsltCoreDefs.step i plus]. unfold VS. rewrite pop_ctx_st. reflexivity. destruct HT2 as [[T0 _] _]; auto. }
      destruct wps as [|w0 wps'].
      + (* no with-param: the marker is pushed by startElement *)
        simpl in Ew. inversion Ew; subst pv.
        assert (HTP : TF true [] []) by apply (TF_params true []).
        assert (HGP : GoodR [] (F ++ ECtx :: R)) by (apply Good_nested; auto).
        destruct (Htm ((i, [], true) :: stk) nodes cnl cur modes ifs pvs store o [] (F ++ ECtx :: R) [] HGP HTP (Forall2_nil _))
          as [k2 [store2 [Fp2 [Hrun2 [HT2 [HG2 [HP2 Hext2]]]]]]].
        close_nd (1 + (k2 + (1 + 1))) store2 Hext2 HF HR.
        rewrite (run_to 1 _ _ _ (CStart tmi) (mkM ((i, [], true) :: stk) nodes (l :: cnl) (n :: cur) (md :: modes) ifs pvs (VS [] (F ++ ECtx :: R)) store o)).
        2:{ cbn [XsltCoreDefs.run XsltCoreDefs.step i]. rewrite Hgt. unfold VS. rewrite push_st. reflexivity. }
        rewrite (run_to _ _ _ _ _ _ Hrun2). exact (Hfin _ _ _ HT2).
      + destruct (wps_sim f Hf _ _ _ _ _ _ _ Ew i stk nodes cnl cur modes ifs [] pvs store o F R benv wpb HG HF HR)
          as [k1 [store1 [pb [Hrun1 [HP1 Hext1]]]]].
        cbn [app] in Hrun1.
        set (P := rev (map (fun p => EParam (fst p) (snd p)) pb)).
        assert (HTP : TF true P pb) by apply TF_params.
        assert (HGP : GoodR P (F ++ ECtx :: R)).
        { apply Good_nested; auto. destruct HTP as [[T0 _] _]; auto. }
        destruct (Htm ((i, [], true) :: stk) nodes cnl cur modes ifs pvs store1 o P (F ++ ECtx :: R) pb HGP HTP HP1)
          as [k2 [store2 [Fp2 [Hrun2 [HT2 [HG2 [HP2 Hext2]]]]]]].
        assert (Hext : exists ext, store2 = store ++ ext) by (eapply ext_trans; eauto).
        close_nd (1 + (k1 + (1 + (k2 + (1 + 1))))) store2 Hext HF HR.
        one CNext (mkM ((i, w0 :: wps', false) :: stk) nodes (l :: cnl) (n :: cur) (md :: modes) ifs ([] :: pvs) (VS F R) store o).
        rewrite (run_to _ _ _ _ _ _ Hrun1).
        rewrite (run_to 1 _ _ _ (CStart tmi) (mkM ((i, [], true) :: stk) nodes (l :: cnl) (n :: cur) (md :: modes) ifs pvs (VS P (F ++ ECtx :: R)) store1 o)).
        2:{ cbn [XsltCoreDefs.run XsltCoreDefs.step i]. rewrite Hgt. rewrite Hpush. reflexivity. }
        rewrite (run_to _ _ _ _ _ _ Hrun2). exact (Hfin _ _ _ HT2).
    - (* apply-templates *)
      set (md1 := match m with Some m' => m' | None => md end).
      change (match m with Some m' => m' | None => cmode (cxof n l md) end) with md1 in Hs.
      change (mkC (cnode (cxof n l md)) (cpos (cxof n l md)) (csize (cxof n l md)) md1) with (cxof n l md1) in Hs.
      destruct (sem_wps (sem_seq (sem f wp (cxof n l md1))) (cxof n l md1) en wps) as [pv|] eqn:Ew; try discriminate.
      destruct (sel_nodes (slk en) (cxof n l md1) e srt) as [sl|] eqn:Esl; try discriminate.
      match type of Hs with match ?t with _ => _ end = _ => destruct t as [o1|] eqn:Ee; try discriminate end.
      inversion Hs; subst en' items. clear Hs.
      pose proof (sel_nodes_nodup _ _ _ _ _ Esl) as Hnd.
      set (i := IApply e m srt wps).
      set (modes' := match m with Some _ => md :: modes | None => modes end).
      destruct (wps_sim f Hf _ _ _ _ _ _ _ Ew i stk nodes cnl cur modes' ifs [] pvs store o F R benv wpb HG HF HR)
        as [k1 [store1 [pb [Hrun1 [HP1 Hext1]]]]].
      cbn [app] in Hrun1.
      set (P := rev (map (fun p => EParam (fst p) (snd p)) pb)).
      assert (HTP : TF true P pb) by apply TF_params.
      assert (HGP : GoodR P (F ++ ECtx :: R)).
      { apply Good_nested; auto. destruct HTP as [[T0 _] _]; auto. }
      destruct (apply_loop f Hf e m srt wps pv md1 sl Hnd sl [] o1 eq_refl Ee stk nodes (l :: cnl) (n :: cur) modes' ifs pvs store1 o P (F ++ ECtx :: R) pb HGP HTP HP1)
        as [k2 [store2 [Fp2 [Hrun2 [HT2 [HG2 Hext2]]]]]].
      assert (Hext : exists ext, store2 = store ++ ext) by (eapply ext_trans; eauto).
      assert (Hsel : sel_nodes (mlk (VS F R) store1) (cxof n l md1) e srt = Some sl).
      { rewrite (sel_nodes_ext _ _ _ _ (fun xs => mlk_slk F R benv wpb store1 en xs HG HF (Res_ext' _ _ _ _ Hext1 HR))). exact Esl. }
      close_nd (1 + (k1 + (S k2 + 1))) store2 Hext HF HR.
      rewrite (run_to 1 _ _ _ CNext (mkM ((i, wps, false) :: stk) nodes (l :: cnl) (n :: cur) (md1 :: modes') ifs ([] :: pvs) (VS F R) store o)).
      2:{ unfold i, md1, modes'. destruct m; destruct wps; reflexivity. }
      rewrite (run_to _ _ _ _ _ _ Hrun1).
      rewrite (run_to _ _ _ _ _ _ (Hrun2 _ _ (step_apply_select e m srt wps stk nodes l cnl n cur md1 modes' ifs pb pvs F R store1 o sl Hsel))).
      cbn [XsltCoreDefs.run XsltCoreDefs.step i]. unfold VS. rewrite pop_ctx_st by (destruct HT2 as [[T0 _] _]; auto).
      unfold md1, modes'. destruct m; reflexivity.
    - (* variable *)
      destruct (lookup_v n0 en) eqn:Eo; try discriminate.
      pose proof (Res_lookup_none _ _ _ _ HR Eo) as Hnb.
      destruct (sem_vvalue (sem_seq (sem f wp (cxof n l md))) (cxof n l md) sel body en) as [v|] eqn:Ev; try discriminate.
      inversion Hs; subst en' items. clear Hs. cbn [ops_of flat_map]. rewrite emit_nil.
      set (i := IVar n0 sel body).
      assert (Hone : exists k1 store1,
                run k1 (CStart i) (mkM stk nodes (l :: cnl) (n :: cur) (md :: modes) ifs pvs (VS F R) store o)
                = Run CNext (mkM stk nodes (l :: cnl) (n :: cur) (md :: modes) ifs pvs (VS (EVar n0 (N.of_nat (length store1)) :: F) R) (store1 ++ [v]) o)
                /\ (exists ext, store1 = store ++ ext)).
      { unfold XsltCoreDefs.sem_vvalue in Ev. destruct sel as [e|].
        - exists 2, store. split; [|apply ext_refl]. cbn [XsltCoreDefs.run]. unfold i. rewrite step_var_start.
          rewrite (start_value_sel F R benv wpb store en _ _ _ HG HF HR Ev). rewrite push_variable_VS by assumption. rewrite step_var_end. reflexivity.
        - destruct body as [|b0 body'].
          + inversion Ev; subst v. exists 2, store. split; [|apply ext_refl].
            cbn [XsltCoreDefs.run]. unfold i. rewrite step_var_start. cbn [start_value]. rewrite push_variable_VS by assumption. rewrite step_var_end. reflexivity.
          + match type of Ev with match ?t with _ => _ end = _ => destruct t as [its|] eqn:Eb; try discriminate end.
            inversion Ev; subst v. clear Ev.
            destruct (rtf_sim f Hf i (b0 :: body') wp n l md en its (or_intror (ex_intro _ n0 (ex_intro _ None (ex_intro _ (b0 :: body') eq_refl)))) Eb
                        stk nodes cnl cur modes ifs pvs store o F R benv wpb HG HF HR)
              as [k [store1 [v1 [e1 [Hrun [Hend [Hpop Hext]]]]]]].
            exists (1 + (k + 1)), store1. split; [|exact Hext].
            rewrite (run_to 1 _ _ _ CNext (mkM ((i, b0 :: body', false) :: stk) nodes (l :: cnl) (n :: cur) (md :: modes) ifs pvs (begin_children (b0 :: body') (VS F R)) store (e_init :: o))) by reflexivity.
            rewrite (run_to _ _ _ _ _ _ Hrun). cbn [XsltCoreDefs.run]. unfold i. rewrite step_var_end. cbn [is_rtf_def].
            rewrite Hend. rewrite Hpop. rewrite push_variable_VS by assumption. reflexivity. }
      destruct Hone as [k1 [store1 [Hrun1 Hext1]]].
      exists k1, (store1 ++ [v]), [EVar n0 (N.of_nat (length store1))], [(n0, N.of_nat (length store1))].
      split; [exact Hrun1|]. split; [constructor; simpl; auto|]. split; [apply Fr_push_var; auto|].
      split; [apply Res_cons_new; eapply Res_ext'; eauto|]. split; [eapply ext_trans; [exact Hext1|eexists; reflexivity]|]. intros; discriminate.
    - (* copy *)
      cbn [cnode cxof] in Hs. destruct (node_shallow n) as [nm| |its] eqn:Esh.
      + destruct (nonempty nm) eqn:En; try discriminate.
        match type of Hs with match ?t with _ => _ end = _ => destruct t as [o1|] eqn:Eb; try discriminate end.
        inversion Hs; subst en' items. clear Hs. fold (cxof n l md) in Eb.
        set (i := ICopy body).
        destruct (block_sim f Hf _ _ _ _ _ _ _ Eb i stk nodes cnl cur modes ifs pvs store (emit [IStart nm] o) F R benv wpb HG HF HR)
          as [k [store' [v1 [Hrun [Hend Hext]]]]].
        close_nd (1 + (k + (1 + 1))) store' Hext HF HR.
        rewrite (run_to 1 _ _ _ CNext (mkM ((i, body, false) :: stk) nodes (l :: cnl) (n :: cur) (md :: modes) ifs pvs (begin_children body (VS F R)) store (emit [IStart nm] o))).
        2:{ cbn [XsltCoreDefs.run XsltCoreDefs.step i]. rewrite Esh. reflexivity. }
        rewrite (run_to _ _ _ _ _ _ Hrun).
        one (CEnd i) (mkM stk nodes (l :: cnl) (n :: cur) (md :: modes) ifs pvs v1 store' (emit (ops_of o1) (emit [IStart nm] o))).
        cbn [XsltCoreDefs.run XsltCoreDefs.step i]. rewrite Esh. rewrite Hend.
        rewrite <- (emit_elem nm [] o1 o). reflexivity.
      + match type of Hs with match ?t with _ => _ end = _ => destruct t as [o1|] eqn:Eb; try discriminate end.
        inversion Hs; subst en' items. clear Hs. fold (cxof n l md) in Eb.
        set (i := ICopy body).
        destruct (block_sim f Hf _ _ _ _ _ _ _ Eb i stk nodes cnl cur modes ifs pvs store o F R benv wpb HG HF HR)
          as [k [store' [v1 [Hrun [Hend Hext]]]]].
        close_nd (1 + (k + (1 + 1))) store' Hext HF HR.
        rewrite (run_to 1 _ _ _ CNext (mkM ((i, body, false) :: stk) nodes (l :: cnl) (n :: cur) (md :: modes) ifs pvs (begin_children body (VS F R)) store o)).
        2:{ cbn [XsltCoreDefs.run XsltCoreDefs.step i]. rewrite Esh. reflexivity. }
        rewrite (run_to _ _ _ _ _ _ Hrun).
        one (CEnd i) (mkM stk nodes (l :: cnl) (n :: cur) (md :: modes) ifs pvs v1 store' (emit (ops_of o1) o)).
        cbn [XsltCoreDefs.run XsltCoreDefs.step i]. rewrite Esh. rewrite Hend. reflexivity.
      + inversion Hs; subst en' items. close_nd 2 store (ext_refl store) HF HR.
        cbn [XsltCoreDefs.run XsltCoreDefs.step]. rewrite Esh. cbn [XsltCoreDefs.run XsltCoreDefs.step]. rewrite Esh. reflexivity.
    - (* copy-of *)
      destruct (gx ev_value (slk en) (cxof n l md) e) as [v|] eqn:Eg; try discriminate.
      inversion Hs; subst en' items. close_nd 2 store (ext_refl store) HF HR.
      cbn [XsltCoreDefs.run XsltCoreDefs.step]. fold (cxof n l md). rewrite (gx_ext _ _ Hlk). rewrite Eg. reflexivity.
    - (* attribute *)
      destruct (ev_avt ev_string (slk en) (cxof n l md) v) as [t|] eqn:Eg; try discriminate.
      inversion Hs; subst en' items. close_nd 2 store (ext_refl store) HF HR.
      cbn [XsltCoreDefs.run XsltCoreDefs.step]. fold (cxof n l md). rewrite (ev_avt_ext _ _ _ Hlk). rewrite Eg. reflexivity.
  Qed.

  Lemma sim_all : forall f, SimI f.
  Proof.
    induction f. intros i wp n l md en en' items Hs. discriminate. apply sim_S. assumption.
  Qed.

  (* ================= the whole transformation ================= *)
  Notation sem_main := (sem_main ev_value ev_string ev_bool ev_nodes ev_sort sel_template node_copy node_shallow templates).
  Notation machine_main := (machine_main ev_value ev_string ev_bool ev_nodes ev_sort sel_template node_copy node_shallow templates).

  Lemma init_vs : impl_start [] = VS [] [EFrame 0%N; ECtx].
  Proof. rewrite impl_start_st. reflexivity. Qed.

  Lemma init_good : GoodR [] [EFrame 0%N; ECtx].
  Proof. repeat split. constructor. discriminate. exists [ECtx]. reflexivity. Qed.

  Lemma init_ctx : forall root, mkC root 1%N 1%N 0%N = cxof root [root] 0%N.
  Proof. intros. unfold cxof, pos_of. simpl. rewrite N.eqb_refl. reflexivity. Qed.

  Theorem machine_refines_sem_thm : forall f root items,
    sem_main f root = Some items ->
    exists k s, (forall j, machine_main (k + j) root = Done s) /\ result_tree s = Some (result_of items).
  Proof.
    intros f root items H. unfold XsltCoreDefs.sem_main in H. unfold XsltCoreDefs.machine_main.
    destruct (sel_template root 0%N) as [t|]; try discriminate.
    rewrite init_ctx in H.
    assert (Hok : forallb names_ok items = true).
    { eapply sem_tmpl_ok; [|exact H]. intros. apply sem_ok. }
    destruct (tmpl_sim f (sim_all f) _ _ _ _ _ _ H) as [tmi [Hgt Htm]]. rewrite Hgt.
    destruct (Htm [] [] [] [] [] [] [] [] [e_init] [] [EFrame 0%N; ECtx] [] init_good (TF_params true []) (Forall2_nil _))
      as [k [store' [Fp' [Hrun _]]]].
    unfold m_init. rewrite init_vs.
    exists (k + 1). eexists. split.
    - intros j. apply run_done_more. rewrite (run_to _ _ _ _ _ _ Hrun). reflexivity.
    - unfold result_tree, result_of. cbn [m_out emit].
      pose proof (pending_machine_builds_tree_thm items Hok) as X. unfold machine_tree, events_of in X. exact X.
  Qed.

  Lemma run_done_le : forall a b c st s, run a c st = Done s -> a <= b -> run b c st = Done s.
  Proof.
    intros. replace b with (a + (b - a)) by lia. apply run_done_more. assumption.
  Qed.

  Theorem machine_deterministic_thm : forall f root items n s',
    sem_main f root = Some items -> machine_main n root = Done s' ->
    result_tree s' = Some (result_of items).
  Proof.
    intros f root items n s' H Hm.
    destruct (machine_refines_sem_thm f root items H) as [k [s [Hk Hr]]].
    specialize (Hk n). unfold XsltCoreDefs.machine_main in *.
    destruct (sel_template root 0%N); try discriminate. destruct (get_template n0); try discriminate.
    assert (E1 : run (k + n) (CStart i) (m_init root) = Done s') by (eapply run_done_le; [exact Hm|lia]).
    rewrite E1 in Hk. inversion Hk; subst. exact Hr.
  Qed.

  Theorem sem_main_fuel_mono_thm : forall f f' root items,
    sem_main f root = Some items -> f <= f' -> sem_main f' root = Some items.
  Proof.
    intros f f' root items H Hle. unfold XsltCoreDefs.sem_main in *. destruct (sel_template root 0%N); try discriminate.
    eapply sem_tmpl_mono; [|exact H]. intros. apply sem_fuel_le. assumption.
  Qed.
End CoreSim.

(* ================= packaged statements (consumed by Properties_C01core.v) ================= *)
(* an instantiation of the abstract mechanisms + a program *)
Record mech := mkMech {
  mc_value : N -> list value -> N -> N -> N -> value;
  mc_string : N -> list value -> N -> N -> N -> str;
  mc_bool : N -> list value -> N -> N -> N -> bool;
  mc_nodes : N -> list value -> N -> N -> N -> list N;
  mc_sort : N -> list value -> N -> N -> N -> list N -> list N;
  mc_template : N -> N -> option N;
  mc_copy : N -> list item;
  mc_shallow : N -> shallow;
  mc_program : list instr }.

(* what is assumed of them: node lists are sets; element names (in copies of source nodes and in fragments an
   expression returns) are not empty *)
Definition mech_ok (m : mech) : Prop :=
  (forall id vs n p z, NoDup (mc_nodes m id vs n p z)) /\
  (forall id vs n p z l, NoDup l -> NoDup (mc_sort m id vs n p z l)) /\
  (forall n, forallb names_ok (mc_copy m n) = true) /\
  (forall n its, mc_shallow m n = ShLeaf its -> forallb names_ok its = true) /\
  (forall id vs n p z t, mc_value m id vs n p z = VRtf t -> forallb rnames_ok t = true).

Definition Sem (m : mech) := sem (mc_value m) (mc_string m) (mc_bool m) (mc_nodes m) (mc_sort m) (mc_template m) (mc_copy m) (mc_shallow m) (mc_program m).
Definition SemMain (m : mech) := sem_main (mc_value m) (mc_string m) (mc_bool m) (mc_nodes m) (mc_sort m) (mc_template m) (mc_copy m) (mc_shallow m) (mc_program m).
Definition SemTmpl (m : mech) := sem_tmpl (mc_value m) (mc_program m).
Definition Run_ (m : mech) := run (mc_value m) (mc_string m) (mc_bool m) (mc_nodes m) (mc_sort m) (mc_template m) (mc_copy m) (mc_shallow m) (mc_program m).
Definition MachineMain (m : mech) := machine_main (mc_value m) (mc_string m) (mc_bool m) (mc_nodes m) (mc_sort m) (mc_template m) (mc_copy m) (mc_shallow m) (mc_program m).
Definition Sim (m : mech) := SimI (mc_value m) (mc_string m) (mc_bool m) (mc_nodes m) (mc_sort m) (mc_template m) (mc_copy m) (mc_shallow m) (mc_program m).

Lemma machine_refines_sem_pkg : forall m, mech_ok m -> forall f root items,
  SemMain m f root = Some items ->
  exists k s, (forall j, MachineMain m (k + j) root = Done s) /\ result_tree s = Some (result_of items).
Proof. intros m (H1 & H2 & H3 & H4 & H5). exact (machine_refines_sem_thm _ _ _ _ _ _ _ _ _ H1 H2 H3 H4 H5). Qed.

Lemma machine_deterministic_pkg : forall m, mech_ok m -> forall f root items n s',
  SemMain m f root = Some items -> MachineMain m n root = Done s' -> result_tree s' = Some (result_of items).
Proof. intros m (H1 & H2 & H3 & H4 & H5). exact (machine_deterministic_thm _ _ _ _ _ _ _ _ _ H1 H2 H3 H4 H5). Qed.

Lemma sem_main_fuel_mono_pkg : forall m f f' root items,
  SemMain m f root = Some items -> f <= f' -> SemMain m f' root = Some items.
Proof. intros m. exact (sem_main_fuel_mono_thm _ _ _ _ _ _ _ _ _). Qed.

Lemma sem_fuel_mono_pkg : forall m f f' wp c i en r, f <= f' -> Sem m f wp c i en = Some r -> Sem m f' wp c i en = Some r.
Proof. intros m f f' wp c i en r H. exact (sem_fuel_le _ _ _ _ _ _ _ _ _ f f' wp c H i en r). Qed.

Lemma sim_all_pkg : forall m, mech_ok m -> forall f, Sim m f.
Proof. intros m (H1 & H2 & H3 & H4 & H5). exact (sim_all _ _ _ _ _ _ _ _ _ H1 H2 H3 H4 H5). Qed.

(* a sequence of sibling instructions: the machine emits the concatenation, in order, and leaves every stack as it was *)
Lemma seq_pkg : forall m, mech_ok m -> forall f body wp n l md en items,
  sem_seq (Sem m f wp (cxof n l md)) body en = Some items ->
  forall p stk nodes cnl cur modes ifs pvs store o F R benv wpb,
    GoodR F R -> Fr true F benv wpb -> Res store benv en ->
  exists k store' V,
    Run_ m k CNext (mkM ((p, body, false) :: stk) nodes (l :: cnl) (n :: cur) (md :: modes) ifs pvs (VS F R) store o)
    = Run CNext (mkM ((p, [], false) :: stk) nodes (l :: cnl) (n :: cur) (md :: modes) ifs pvs (VS (V ++ F) R) store' (emit (ops_of items) o))
    /\ Forall is_varE V /\ (exists ext, store' = store ++ ext) /\ (has_decl body = false -> V = []).
Proof. intros m Hm f. exact (seq_sim _ _ _ _ _ _ _ _ _ f (sim_all_pkg m Hm f)). Qed.

(* xsl:for-each: the children run once per selected node, in order, each with its position and the size of the list;
   afterwards the node-list stack holds the exhausted list and the frame of the last iteration is the one endElement pops *)
Lemma foreach_pkg : forall m, mech_ok m -> forall f e srt body wp md en sl, NoDup sl ->
  forall rest n1 done items, sl = done ++ n1 :: rest ->
    each (fun n pos => sem_seq (Sem m f wp (mkC n pos (N.of_nat (length sl)) md)) body en) (n1 :: rest) (N.of_nat (S (length done))) = Some items ->
  forall stk nodes cnl cur modes ifs pvs store o F R benv wpb,
    GoodR F R -> Fr true F benv wpb -> Res store benv en ->
  exists k store' v1 nl,
    Run_ m k CNext (mkM ((IForEach e srt body, body, false) :: stk) (rest :: nodes) (sl :: cnl) (n1 :: cur) (md :: modes) ifs pvs (begin_children body (VS F R)) store o)
    = Run CNext (mkM ((IForEach e srt body, [], false) :: stk) ([] :: nodes) (sl :: cnl) (nl :: cur) (md :: modes) ifs pvs v1 store' (emit (ops_of items) o))
    /\ end_children body v1 = Some (VS F R) /\ (exists ext, store' = store ++ ext).
Proof.
  intros m Hm f. exact (foreach_loop _ _ _ _ _ _ _ _ _ f (sim_all_pkg m Hm f)).
Qed.

(* a template instance (call-template / apply-templates): it runs against the frame of its params only - whatever
   the caller's frames R below the context marker are, they are neither read nor changed - and leaves the params
   deactivated for the next instance *)
Lemma tmpl_pkg : forall m, mech_ok m -> forall f pv n l md t items,
  SemTmpl m (Sem m f) pv (cxof n l md) t = Some items ->
  exists tmi, get_template (mc_program m) t = Some tmi /\
  forall stk nodes cnl cur modes ifs pvs store o Fp R wpb,
    GoodR Fp R -> TF true Fp wpb -> Res store wpb pv ->
  exists k store' Fp',
    Run_ m k (CStart tmi) (mkM stk nodes (l :: cnl) (n :: cur) (md :: modes) ifs pvs (VS Fp R) store o)
    = Run CNext (mkM stk nodes (l :: cnl) (n :: cur) (md :: modes) ifs pvs (VS Fp' R) store' (emit (ops_of items) o))
    /\ TF true Fp' wpb /\ GoodR Fp' R /\ Res store' wpb pv /\ (exists ext, store' = store ++ ext).
Proof.
  intros m Hm f. exact (tmpl_sim _ _ _ _ _ _ _ _ _ f (sim_all_pkg m Hm f)).
Qed.

(* a result tree fragment (body of xsl:variable / xsl:with-param): built against a fresh formatter; what endElement pops
   is the tree of the items the body yields at binding time, and the outer output target is untouched *)
Lemma rtf_pkg : forall m, mech_ok m -> forall f i body wp n l md en its, binder i ->
  sem_seq (Sem m f wp (cxof n l md)) body en = Some its ->
  forall stk nodes cnl cur modes ifs pvs store o F R benv wpb,
    GoodR F R -> Fr true F benv wpb -> Res store benv en ->
  exists k store' v1 e1,
    Run_ m k CNext (mkM ((i, body, false) :: stk) nodes (l :: cnl) (n :: cur) (md :: modes) ifs pvs (begin_children body (VS F R)) store (e_init :: o))
    = Run (CEnd i) (mkM stk nodes (l :: cnl) (n :: cur) (md :: modes) ifs pvs v1 store' (e1 :: o))
    /\ end_children body v1 = Some (VS F R) /\ pop_rtf (e1 :: o) = Some (spec_tree false its, o)
    /\ (exists ext, store' = store ++ ext).
Proof.
  intros m Hm f. pose proof (sim_all_pkg m Hm f) as Hf. destruct Hm as (H1 & H2 & H3 & H4 & H5).
  exact (rtf_sim _ _ _ _ _ _ _ _ _ H3 H4 H5 f Hf).
Qed.
