"""C15 — facts of XSLT/KeyTable.cpp, FunctionKey.cpp, StylesheetRoot.cpp, Stylesheet.cpp consumed by
coq/KeyDefs.v (GenKey.v): whether FunctionKey skips empty string-values of a multi-node argument (a
model parameter), and the recognised shape of the construction walk, the insertion, the lookup, the
per-document cache and the merge of imported declarations (anchors; fail closed)."""
import re
import srcfacts
from srcfacts import AnchorError, need, read, strip_comments, function_body, HEADER


def _squeeze(s):
    s = re.sub(r"\s+", " ", s).strip()
    return re.sub(r"(?<![A-Za-z0-9_]) | (?![A-Za-z0-9_])", "", s)


def _norm(s):
    return _squeeze(strip_comments(s))


def lit(snippet):
    """regex for a literal C++ snippet (whitespace-insensitive); @ANY@ matches anything (lazy)"""
    rx = ""
    for p in re.split(r"(@ANY@)", snippet):
        rx += r".*?" if p == "@ANY@" else (re.escape(_squeeze(p)) if p.strip() else "")
    return rx


def gen_key():
    facts = {}
    kt = read("XSLT/KeyTable.cpp")
    ctor = _norm(function_body(kt, r"KeyTable::KeyTable\s*\(", "KeyTable constructor"))
    # the order in which the constructor visits the nodes is deliberately not anchored: theorem
    # table_walk_order_irrelevant shows that any complete visiting order builds the same table, and the
    # correspondence checks completeness on every run
    need(lit("kd.getMatchPattern()->getMatchScore( testNode, resolver, executionContext); if (score != XPath::eMatchScoreNone) "
             "{ processKeyDeclaration( m_keys, kd, testNode, resolver, executionContext); }"),
         ctor, "KeyTable: a matching node is handed to processKeyDeclaration")
    # the namespace context of match and use is the one of the xsl:key element, not the one of the instruction that
    # calls key() first (the `resolver` of the two calls above is this local, not the constructor's parameter)
    need(lit("const KeyDeclaration::PrefixResolverProxy resolver(kd);") + ".*?" + lit("kd.getMatchPattern()->getMatchScore( testNode, resolver,"),
         ctor, "KeyTable: match and use are evaluated with the prefix resolver of the declaration")
    # insertion
    need(lit("addIfNotFound( StylesheetExecutionContext& executionContext, MutableNodeRefList& theNodeList, XalanNode* theNode) "
             "{ theNodeList.addNodeInDocOrder(theNode, executionContext); }"), _norm(kt), "addIfNotFound = addNodeInDocOrder")
    pk = _norm(function_body(kt, r"KeyTable::processKeyDeclaration\s*\(", "processKeyDeclaration"))
    # context node list of the use expression: just the tested node (XSLT 12.2; former finding K-C15-2)
    need(lit("BorrowReturnMutableNodeRefList theContextNodeList(executionContext); theContextNodeList->addNode(testNode); "
             "const XObjectPtr xuse(kd.getUse()->execute(testNode, resolver, *theContextNodeList, executionContext)); "
             "if(xuse->getType() != XObject::eTypeNodeSet) { @ANY@ addIfNotFound( executionContext, "
             "theKeys[*kd.getQName()][xuse->str(executionContext)], testNode); }"),
         pk, "processKeyDeclaration: use evaluated with the one-node context list; non-node-set use value converted to a string")
    facts["use_context_singleton"] = True
    need(lit("const NodeRefListBase::size_type nUseValues = nl.getLength();") + ".*?" +
         lit("for (NodeRefListBase::size_type i = 0; i < nUseValues; ++i) {") + ".*?" +
         lit("DOMServices::getNodeData(*nl.item(i), executionContext, nodeData);") + ".*?" +
         lit("addIfNotFound( executionContext, theKeys[*kd.getQName()][nodeData], testNode); nodeData.clear(); }"),
         pk, "processKeyDeclaration: one entry per node of a node-set use value")
    # lookup
    lk = _norm(function_body(kt, r"KeyTable::getNodeSetByKey\s*\(", "KeyTable::getNodeSetByKey"))
    need(lit("const KeysMapType::const_iterator i = m_keys.find(qname); if (i != m_keys.end()) { const NodeListMapType& theMap = (*i).second; "
             "const NodeListMapType::const_iterator j = theMap.find(ref); if (j != theMap.end()) { return &(*j).second; } else { return &s_dummyList; } }"),
         lk, "KeyTable::getNodeSetByKey: two level find, empty list for an unknown value")
    need(lit("if (*m_allKeys[i].getQName()==qname) { return &s_dummyList; }") + ".*?" + lit("return 0;"), lk,
         "KeyTable::getNodeSetByKey: null only for an undeclared name")
    # FunctionKey
    fk = _norm(function_body(read("XSLT/FunctionKey.cpp"), r"FunctionKey::execute\s*\(", "FunctionKey::execute"))
    need(lit("if (arg2->getType() != XObject::eTypeNodeSet) { getNodeSet( executionContext, context, keyname, arg2->str(executionContext), locator, *theNodeRefList.get()); }"),
         fk, "FunctionKey: non-node-set argument converted to a string")
    need(lit("const NodeRefListBase::size_type nRefs = theNodeSet.getLength(); if (nRefs == 1) { getNodeSet( executionContext, context, keyname, arg2->str(executionContext), locator, *theNodeRefList.get()); } else if (nRefs > 1) {"),
         fk, "FunctionKey: one-node shortcut, loop for more than one node")
    # the order in which the argument nodes are taken is not anchored (the union is ordered by insertion)
    loop = need(r"for\([^{}]*\)\{(?:assert\([^;]*\);)?" + lit("DOMServices::getNodeData(*theNodeSet.item(i), executionContext, ref);") + "(.*?)" + lit("ref.clear(); }"),
                fk, "FunctionKey: loop over the argument nodes").group(1)
    call = lit("getNodeSet( executionContext, context, keyname, ref, locator, *theNodeRefList.get());")
    if re.search(lit("if (0 != ref.length()) {") + call + lit("}"), loop):
        skip = True
    elif re.search(call, loop) and "if" not in loop:
        skip = False
    else:
        raise AnchorError("FunctionKey: the body of the loop over the argument nodes is not one of the two recognised shapes")
    facts["skip_empty_refs"] = skip
    # cache
    sr = _norm(function_body(read("XSLT/StylesheetRoot.cpp"), r"StylesheetRoot::getNodeSetByKey\s*\(", "StylesheetRoot::getNodeSetByKey"))
    need(lit("XalanNode* const theKeyNode = getKeyNode(context);"), sr, "cache key = key node of the context")
    need(lit("if (m_needToBuildKeysTable == true) {") + ".*?" +
         lit("const KeyTablesTableType::const_iterator i = theKeysTable.find(theKeyNode); if (i != theKeysTable.end()) { nl = i->second->getNodeSetByKey(qname, ref); } else {") + ".*?" +
         lit("KeyTable::create( executionContext.getMemoryManager(), theKeyNode, resolver, m_keyDeclarations, executionContext));") + ".*?" +
         lit("theKeysTable[theKeyNode] = kt.get();") + ".*?" + lit("nl = theNewTable->getNodeSetByKey(qname, ref); } }"),
         sr, "StylesheetRoot::getNodeSetByKey: find the table of the key node or build and store it")
    need(lit("if (nl == 0) {") + ".*?" + lit("XalanMessages::UnknownKey_1Param") + ".*?" +
         lit("else if (nodelist.empty() == true) { nodelist = *nl; } else { nodelist.addNodesInDocOrder(*nl, executionContext); }"),
         sr, "StylesheetRoot::getNodeSetByKey: error / copy / ordered merge")
    kn = _norm(function_body(read("XSLT/StylesheetRoot.cpp"), r"getKeyNode\s*\(", "getKeyNode"))
    need(lit("XalanNode::DOCUMENT_NODE == context->getNodeType() ? static_cast<XalanDocument*>(context) : context->getOwnerDocument();") + ".*?" +
         lit("if (docNode->getFirstChild() != 0) { return docNode; }"), kn, "getKeyNode: the document of the context node")
    # imports
    pc = _norm(function_body(read("XSLT/Stylesheet.cpp"), r"Stylesheet::postConstruction\s*\(", "Stylesheet::postConstruction"))
    need(lit("m_keyDeclarations.insert( m_keyDeclarations.end(), (*i)->m_keyDeclarations.begin(), (*i)->m_keyDeclarations.end());"),
         pc, "postConstruction: declarations of the imports are appended")
    need(lit("m_keyDeclarations.push_back( KeyDeclaration("), _norm(read("XSLT/Stylesheet.cpp")), "processKeyElement appends the declaration")

    out = HEADER
    out += "(* FunctionKey.cpp, loop over a node-set argument with more than one node: is the lookup guarded by\n"
    out += "   'if (0 != ref.length())' *)\n"
    out += "Definition skip_empty_refs : bool := %s.\n\n" % ("true" if skip else "false")
    out += "(* shapes recognised (anchors; the generator fails closed when one is not found):\n"
    out += "   KeyTable constructor: getMatchScore != none -> processKeyDeclaration (the visiting order is not\n"
    out += "   anchored: any complete order builds the same table, theorem table_walk_order_irrelevant);\n"
    out += "   addIfNotFound = addNodeInDocOrder; use value: string or one\n"
    out += "   entry per node; getNodeSetByKey: two-level find, dummy list, 0 for an undeclared name;\n"
    out += "   FunctionKey: string conversion, nRefs == 1 shortcut, loop; StylesheetRoot::getNodeSetByKey: table\n"
    out += "   per key node found or built and stored, unknown-key error, copy or addNodesInDocOrder;\n"
    out += "   getKeyNode: document of the context; postConstruction appends the imports' declarations *)\n"
    return out, facts


GENERATORS = {"GenKey": gen_key}
