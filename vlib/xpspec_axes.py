"""The twelve XPath 1.0 axes other than `namespace`, computed straight from the tree by the
declarative definitions of the Recommendation (sections 2.2 and 5) - the oracle of the C02 "spec"
part (props/C02_spec.py).

Deliberately NOT shared with vlib/xpref.py (the reference evaluator of the main C02 stream) and
not written after the C++: no sibling walks, no "next node in document order" navigation.  Every
axis is a SET defined from the two primitive relations `child` and `attribute` (and their inverse,
`parent`) plus the document order, and is put in axis order only at the very end:

    child(n)              the children list of n                                   (5.1, 5.2)
    attribute(n)          the attribute nodes of the element n, xmlns declarations excluded (5.3)
    parent(n)             the m with n in child(m) or n in attribute(m)            (5.2, 5.3)
    descendant(n)         least fixpoint: child+                                   (2.2)
    ancestor(n)           least fixpoint: parent+                                  (2.2)
    following-sibling(n)  {m in child(parent(n)) : n << m}, empty for attribute nodes
    preceding-sibling(n)  {m in child(parent(n)) : m << n}, empty for attribute nodes
    following(n)          {m : n << m, m not in descendant(n), m not an attribute/namespace node}
    preceding(n)          {m : m << n, m not in ancestor(n),   m not an attribute/namespace node}
    self, descendant-or-self, ancestor-or-self

(`<<` = document order.)  Forward axes are listed in document order, the four reverse axes
(ancestor, ancestor-or-self, preceding, preceding-sibling) in reverse document order, so that the
k-th member of the returned list is the node whose PROXIMITY POSITION is k (2.4).

Input: the nested tuple tree of vlib/xpgen.py (gen_doc / doc_tokens):
    [top-level items]   item = ('e', qname, [(aqname, value)...], [children]) | ('t', s) | ('c', s) | ('p', target, data)
The node numbers are those of Xalan's source tree as harness/xp.cpp reports them (coq/DomDefs.v):
document node 0, then pre-order; after an element come ALL its attribute items in source order -
xmlns declarations included, the document element carries an implicit xmlns:xml in front - then
its children.  The xmlns items get a number (kind 'nsdecl') but are not XPath attribute nodes and
are on none of the twelve axes (the namespace axis is known finding K21 and is not computed here).
"""

FORWARD_AXES = ("child", "descendant", "descendant-or-self", "following", "following-sibling",
                "attribute", "parent", "self")
REVERSE_AXES = ("ancestor", "ancestor-or-self", "preceding", "preceding-sibling")
AXES = ("ancestor", "ancestor-or-self", "attribute", "child", "descendant", "descendant-or-self",
        "following", "following-sibling", "parent", "preceding", "preceding-sibling", "self")


def _is_nsdecl(qname):
    return qname == "xmlns" or qname.startswith("xmlns:")


class Table:
    """the node table of one document: kind[], owner[] (the element/document a node hangs under),
    kids[] (ordered children), atts[] (ordered REAL attributes), decls[] (xmlns items), order[]
    (document-order index), seq (all node numbers in document order)"""

    def __init__(self, top):
        self.kind, self.owner, self.kids, self.atts, self.decls, self.name = [], [], [], [], [], []
        self.seq = []
        self._memo = {}
        self._new("doc", None, "#document")
        first_element = [True]

        def put(item, under):
            if item[0] == "e":
                me = self._new("elem", under, item[1])
                items = list(item[2])
                if first_element[0]:
                    first_element[0] = False
                    items.insert(0, ("xmlns:xml", "http://www.w3.org/XML/1998/namespace"))
                for q, _v in items:
                    if _is_nsdecl(q):
                        self.decls[me].append(self._new("nsdecl", me, q))
                    else:
                        self.atts[me].append(self._new("attr", me, q))
                for ch in item[3]:
                    self.kids[me].append(put(ch, me))
                return me
            return self._new({"t": "text", "c": "comment", "p": "pi"}[item[0]], under, item[1] if item[0] == "p" else "")

        for item in top:
            self.kids[0].append(put(item, 0))
        # document order: the order in which the nodes were created (element, its namespace and attribute
        # nodes, its children: XPath 1.0 section 5)
        self.order = [0] * len(self.kind)
        for i, n in enumerate(self.seq):
            self.order[n] = i

    def _new(self, kind, under, name):
        n = len(self.kind)
        self.kind.append(kind)
        self.owner.append(under)
        self.kids.append([])
        self.atts.append([])
        self.decls.append([])
        self.name.append(name)
        self.seq.append(n)
        return n

    # ---- the data model's primitive relations -------------------------------------------------
    def xpath_nodes(self):
        """the nodes of the XPath data model (everything but the xmlns items)"""
        return [n for n in self.seq if self.kind[n] != "nsdecl"]

    def child_set(self, n):
        return set(self.kids[n])

    def attribute_set(self, n):
        return set(self.atts[n])

    def parent_set(self, n):
        """{m : n is a child of m or an attribute of m} - found by SEARCHING the two relations"""
        return {m for m in self.seq if n in self.kids[m] or n in self.atts[m]}

    def is_attr_like(self, n):
        return self.kind[n] in ("attr", "nsdecl")

    # ---- closures ---------------------------------------------------------------------------------
    def _plus(self, rel, n):
        """the transitive closure rel+ applied to n, as a set (least fixpoint)"""
        got = set(rel(n))
        while True:
            more = set()
            for m in got:
                more |= rel(m)
            if more <= got:
                return got
            got |= more

    def descendant_set(self, n):
        return self._plus(self.child_set, n)

    def ancestor_set(self, n):
        return self._plus(self.parent_set, n)

    def sibling_set(self, n):
        """the other children of n's parent; attribute nodes have no siblings (2.2)"""
        if self.is_attr_like(n):
            return set()
        out = set()
        for p in self.parent_set(n):
            out |= self.child_set(p)
        out.discard(n)
        return out

    # ---- the axes as sets ---------------------------------------------------------------------------
    def axis_set(self, axis, n):
        before = lambda m: self.order[m] < self.order[n]
        after = lambda m: self.order[m] > self.order[n]
        if axis == "child":
            return self.child_set(n)
        if axis == "attribute":
            return self.attribute_set(n)
        if axis == "parent":
            return self.parent_set(n)
        if axis == "self":
            return {n}
        if axis == "descendant":
            return self.descendant_set(n)
        if axis == "descendant-or-self":
            return self.descendant_set(n) | {n}
        if axis == "ancestor":
            return self.ancestor_set(n)
        if axis == "ancestor-or-self":
            return self.ancestor_set(n) | {n}
        if axis == "following-sibling":
            return {m for m in self.sibling_set(n) if after(m)}
        if axis == "preceding-sibling":
            return {m for m in self.sibling_set(n) if before(m)}
        if axis == "following":
            desc = self.descendant_set(n)
            return {m for m in self.seq if after(m) and m not in desc and not self.is_attr_like(m)}
        if axis == "preceding":
            anc = self.ancestor_set(n)
            return {m for m in self.seq if before(m) and m not in anc and not self.is_attr_like(m)}
        raise ValueError("axis %r" % (axis,))

    def axis(self, axis, n):
        """the nodes of the axis from n, in AXIS order: [k-1] is the node with proximity position k"""
        got = self._memo.get((axis, n))
        if got is None:
            got = sorted(self.axis_set(axis, n), key=lambda m: self.order[m], reverse=axis in REVERSE_AXES)
            self._memo[(axis, n)] = got
        return list(got)

    # ---- node tests ------------------------------------------------------------------------------------
    def principal_kind(self, axis):
        """2.3: attribute axis -> attribute; (namespace axis -> namespace;) every other axis -> element"""
        return "attr" if axis == "attribute" else "elem"

    def passes(self, axis, test, m):
        if test == "node":
            return True
        if test == "*":
            return self.kind[m] == self.principal_kind(axis)
        raise ValueError("node test %r" % (test,))

    def select(self, axis, test, n):
        """axis::test from n, in axis order"""
        return [m for m in self.axis(axis, n) if self.passes(axis, test, m)]

    # ---- steps with a positional predicate, paths ------------------------------------------------------
    def step(self, axis, test, pred, n):
        """axis::test[pred] from n, in axis order.  pred: None | ('num', k) | ('poseq', k) | ('last',)
        - 2.4: the predicate is evaluated with the proximity position w.r.t. the axis and the size of the
        node-test-filtered set; a number k means position() = k"""
        l = self.select(axis, test, n)
        if pred is None:
            return l
        size = len(l)
        keep = []
        for pos, m in enumerate(l, 1):
            if pred[0] in ("num", "poseq"):
                ok = pos == pred[1]
            elif pred[0] == "last":
                ok = pos == size
            else:
                raise ValueError("predicate %r" % (pred,))
            if ok:
                keep.append(m)
        return keep

    def path(self, steps, n):
        """the location path steps = [(axis, test, pred)...] from n: relational composition of the steps
        (2: each step is evaluated from every node the steps before selected, the results are united);
        returned as a list in document order"""
        cur = {n}
        for axis, test, pred in steps:
            nxt = set()
            for m in cur:
                nxt |= set(self.step(axis, test, pred, m))
            cur = nxt
        return sorted(cur, key=lambda m: self.order[m])


def parse_doc_tokens(field):
    """the inverse of xpgen.doc_tokens: '(a @x=u:31 t=u:61 (b ) )' -> nested tuple tree (values decoded)"""
    def val(tokn):
        body = tokn[2:]
        if not body:
            return ""
        units = [int(h, 16) for h in body.split(",")]
        return b"".join(bytes((u & 0xff, u >> 8)) for u in units).decode("utf-16-le", "surrogatepass")
    top, stack = [], []
    for t in field.split():
        if t[0] == "(":
            el = ("e", t[1:], [], [])
            (stack[-1][3] if stack else top).append(el)
            stack.append(el)
        elif t == ")":
            stack.pop()
        elif t[0] == "@":
            q, _, v = t[1:].partition("=")
            stack[-1][2].append((q, val(v)))
        else:
            k, _, rest = t.partition("=")
            if k == "p":
                target, _, data = rest.partition("=")
                item = ("p", target, val(data))
            else:
                item = (k, val(rest))
            (stack[-1][3] if stack else top).append(item)
    if stack:
        raise ValueError("unbalanced document tokens")
    return top
