(* DomDescModel.v — the descendant walk of the interpreter (XPath::findDescendants: first child,
   else next sibling, else climb to the first ancestor below [top] that has a next sibling) visits
   exactly the pre-order list of the subtree:  walk n = n :: concat (map walk (children n)). *)
From Coq Require Import NArith List Bool Arith Lia.
Require Import XV.XpAst XV.DomDefs XV.NumDefs XV.XpDefs XV.DomModel.
Import ListNotations.

Section Desc.
  Variable d : doc.
  Hypothesis Hwf : wf d.
  (* parents have smaller ids (pre-order numbering) *)
  Hypothesis Hpar : forall x p, parent_of d x = Some p -> p < x.

  Let ch (n : nat) : list nat := n_children (get d n).

  Lemma child_gt p c : In c (ch p) -> p < c.
  Proof. intros H. apply Hpar. unfold parent_of. apply (wf_parent d Hwf p c H). Qed.

  (** the specification: pre-order list of the proper descendants, by recursion on fuel *)
  Fixpoint dspec (f : nat) (n : nat) : list nat :=
    match f with
    | O => []
    | S f' => flat_map (fun c => c :: dspec f' c) (ch n)
    end.

  Lemma flat_map_ext_in {A B} (f g : A -> list B) l :
    (forall a, In a l -> f a = g a) -> flat_map f l = flat_map g l.
  Proof.
    induction l as [|a l IH]; intros H; simpl; [reflexivity|].
    rewrite (H a (or_introl eq_refl)), IH; [reflexivity|]. intros b Hb. apply H. right. exact Hb.
  Qed.

  Lemma ch_out_of_range n : length d <= n -> ch n = [].
  Proof. intros H. unfold ch. rewrite (get_out_of_range _ _ H). reflexivity. Qed.

  (* enough fuel: length d - n *)
  Lemma dspec_stable : forall f1 f2 n, length d - n <= f1 -> length d - n <= f2 -> dspec f1 n = dspec f2 n.
  Proof.
    induction f1 as [|f1 IH]; intros f2 n H1 H2.
    - assert (Hn : length d <= n) by lia. destruct f2; [reflexivity|]. simpl. rewrite (ch_out_of_range n Hn). reflexivity.
    - destruct f2 as [|f2].
      + assert (Hn : length d <= n) by lia. simpl. rewrite (ch_out_of_range n Hn). reflexivity.
      + simpl. apply flat_map_ext_in. intros c Hc. f_equal. pose proof (child_gt n c Hc). apply IH; lia.
  Qed.

  Definition subtree (n : nat) : list nat := n :: dspec (length d) n.

  Lemma subtree_unfold n : n < length d ->
    subtree n = n :: flat_map subtree (ch n).
  Proof.
    intros Hn. unfold subtree.
    replace (dspec (length d) n) with (dspec (S (length d - 1)) n) by (f_equal; lia).
    cbn [dspec]. f_equal.
    apply flat_map_ext_in. intros c Hc. f_equal. pose proof (child_gt n c Hc).
    apply dspec_stable; lia.
  Qed.

  (** subtrees are duplicate-free and fit in the table *)
  Fixpoint up (j : nat) (x : nat) : option nat :=
    match j with
    | O => Some x
    | S j' => match parent_of d x with Some p => up j' p | None => None end
    end.

  Lemma up_le j : forall x y, up j x = Some y -> y <= x.
  Proof.
    induction j as [|j IH]; intros x y H; simpl in H; [inversion H; lia|].
    destruct (parent_of d x) as [p|] eqn:E; [|discriminate].
    specialize (IH _ _ H). pose proof (Hpar _ _ E). lia.
  Qed.

  Lemma up_snoc j : forall x y p, up j x = Some y -> parent_of d y = Some p -> up (S j) x = Some p.
  Proof.
    induction j as [|j IH]; intros x y p H Hp; simpl in H.
    - inversion H; subst. simpl. rewrite Hp. reflexivity.
    - change (up (S (S j)) x) with (match parent_of d x with Some q => up (S j) q | None => None end).
      destruct (parent_of d x) as [q|]; [|discriminate]. eapply IH; eauto.
  Qed.

  Lemma up_add a : forall b x, up (a + b) x = match up a x with Some y => up b y | None => None end.
  Proof.
    induction a as [|a IH]; intros b x; simpl; [reflexivity|].
    destruct (parent_of d x); [apply IH | reflexivity].
  Qed.

  Lemma child_parent p c : In c (ch p) -> parent_of d c = Some p.
  Proof. intros H. unfold parent_of. apply (wf_parent d Hwf p c H). Qed.

  Lemma dspec_up f : forall c x, In x (dspec f c) -> exists j, up (S j) x = Some c.
  Proof.
    induction f as [|f IH]; intros c x H; simpl in H; [contradiction|].
    apply in_flat_map in H. destruct H as [c' [Hc' [<-|Hx]]].
    - exists 0. simpl. rewrite (child_parent c c' Hc'). reflexivity.
    - destruct (IH c' x Hx) as [j Hj]. exists (S j). eapply up_snoc; [exact Hj | apply child_parent; exact Hc'].
  Qed.

  Lemma dspec_gt f c x : In x (dspec f c) -> c < x.
  Proof.
    intros H. destruct (dspec_up f c x H) as [j Hj]. simpl in Hj.
    destruct (parent_of d x) as [p|] eqn:E; [|discriminate].
    pose proof (up_le _ _ _ Hj). pose proof (Hpar _ _ E). lia.
  Qed.

  Lemma dspec_in_table f c x : In x (dspec f c) -> x < length d.
  Proof.
    intros H. destruct (dspec_up f c x H) as [j Hj]. simpl in Hj.
    destruct (Nat.lt_ge_cases x (length d)) as [Hlt|Hge]; [exact Hlt|].
    unfold parent_of in Hj. rewrite (get_out_of_range _ _ Hge) in Hj. discriminate.
  Qed.

  Lemma NoDup_app' (l1 l2 : list nat) :
    NoDup l1 -> NoDup l2 -> (forall x, In x l1 -> ~ In x l2) -> NoDup (l1 ++ l2).
  Proof.
    induction l1 as [|a l1 IH]; intros H1 H2 Hd; simpl; [exact H2|].
    inversion H1 as [|? ? Hn Hr]; subst. constructor.
    - intros Hin. apply in_app_or in Hin. destruct Hin as [Hin|Hin]; [contradiction|].
      exact (Hd a (or_introl eq_refl) Hin).
    - apply IH; [exact Hr | exact H2 |]. intros x Hx. apply Hd. right. exact Hx.
  Qed.

  (* two different children of one node have disjoint subtrees *)
  Lemma sibling_subtrees_disjoint f p c1 c2 x :
    In c1 (ch p) -> In c2 (ch p) -> c1 <> c2 ->
    In x (c1 :: dspec f c1) -> In x (c2 :: dspec f c2) -> False.
  Proof.
    intros H1 H2 Hne Hx1 Hx2.
    assert (E1 : exists j, up j x = Some c1).
    { destruct Hx1 as [<-|Hx1]; [exists 0; reflexivity|]. destruct (dspec_up _ _ _ Hx1) as [j Hj]. eauto. }
    assert (E2 : exists j, up j x = Some c2).
    { destruct Hx2 as [<-|Hx2]; [exists 0; reflexivity|]. destruct (dspec_up _ _ _ Hx2) as [j Hj]. eauto. }
    destruct E1 as [j1 E1], E2 as [j2 E2].
    assert (Hcase : forall ja jb ca cb, In ca (ch p) -> In cb (ch p) -> up ja x = Some ca -> up jb x = Some cb -> ja < jb -> False).
    { intros ja jb ca cb Ha Hb Ea Eb Hlt.
      replace jb with (ja + S (jb - ja - 1)) in Eb by lia. rewrite up_add, Ea in Eb. simpl in Eb.
      rewrite (child_parent p ca Ha) in Eb. pose proof (up_le _ _ _ Eb). pose proof (child_gt p cb Hb). lia. }
    destruct (Nat.lt_trichotomy j1 j2) as [Hlt|[Heq|Hgt]].
    - exact (Hcase _ _ _ _ H1 H2 E1 E2 Hlt).
    - subst j2. rewrite E1 in E2. inversion E2. contradiction.
    - exact (Hcase _ _ _ _ H2 H1 E2 E1 Hgt).
  Qed.

  Lemma dspec_nodup f : forall c, NoDup (dspec f c).
  Proof.
    induction f as [|f IH]; intros c; simpl; [constructor|].
    pose proof (wf_nodup d Hwf c) as Hnd. fold (ch c) in Hnd.
    assert (G : forall l, incl l (ch c) -> NoDup l -> NoDup (flat_map (fun c' => c' :: dspec f c') l)).
    { induction l as [|a l IHl]; intros Hi Hn; simpl; [constructor|].
      inversion Hn as [|? ? Hna Hnl]; subst.
      assert (Ha : In a (ch c)) by (apply Hi; left; reflexivity).
      constructor.
      - intros Hin. apply in_app_or in Hin. destruct Hin as [Hin|Hin].
        + pose proof (dspec_gt _ _ _ Hin). lia.
        + apply in_flat_map in Hin. destruct Hin as [b [Hb Hin]].
          assert (Hb' : In b (ch c)) by (apply Hi; right; exact Hb).
          apply (sibling_subtrees_disjoint f c a b a Ha Hb'); [intros ->; contradiction | left; reflexivity | exact Hin].
      - apply NoDup_app'; [apply IH | apply IHl; [intros y Hy; apply Hi; right; exact Hy | exact Hnl] |].
        intros x Hx Hin. apply in_flat_map in Hin. destruct Hin as [b [Hb Hin]].
        assert (Hb' : In b (ch c)) by (apply Hi; right; exact Hb).
        apply (sibling_subtrees_disjoint f c a b x Ha Hb'); [intros ->; contradiction | right; exact Hx | exact Hin]. }
    apply G; [apply incl_refl | exact Hnd].
  Qed.

  Lemma subtree_nodup n : NoDup (subtree n).
  Proof.
    unfold subtree. constructor; [|apply dspec_nodup].
    intros Hin. pose proof (dspec_gt _ _ _ Hin). lia.
  Qed.

  Lemma subtree_bound n : n < length d -> length (subtree n) <= length d.
  Proof.
    intros Hn. rewrite <- (seq_length (length d) 0). apply NoDup_incl_length; [apply subtree_nodup|].
    intros x [<-|Hx]; apply in_seq; split; try lia. simpl. eapply dspec_in_table; eauto.
  Qed.

  (** the climb *)
  Variable top : nat.

  Lemma up_fuel : forall pos f, S pos <= f -> next_preorder_up d f top pos = next_preorder_up d (S pos) top pos.
  Proof.
    induction pos as [pos IH] using lt_wf_ind. intros f Hf.
    destruct f as [|f]; [lia|]. cbn [next_preorder_up].
    destruct (Nat.eqb pos top); [reflexivity|].
    destruct (next_sibling d pos); [reflexivity|].
    destruct (parent_of d pos) as [p|] eqn:Ep; [|reflexivity].
    destruct (Nat.eqb p top); [reflexivity|].
    pose proof (Hpar _ _ Ep) as Hlt.
    rewrite (IH p Hlt f) by lia. rewrite (IH p Hlt pos) by lia. reflexivity.
  Qed.

  Definition kc (pos : nat) : option nat := next_preorder_up d (S pos) top pos.

  Lemma kc_top : kc top = None.
  Proof. unfold kc. cbn [next_preorder_up]. rewrite Nat.eqb_refl. reflexivity. Qed.

  Lemma kc_inner p pre x y post : ch p = pre ++ x :: y :: post -> x <> top -> kc x = Some y.
  Proof.
    intros Hc Hx. unfold kc. cbn [next_preorder_up].
    destruct (Nat.eqb_spec x top); [contradiction|].
    rewrite (next_sibling_spec d Hwf p pre x (y :: post) Hc). reflexivity.
  Qed.

  Lemma kc_last p pre x : ch p = pre ++ [x] -> x <> top -> kc x = if Nat.eqb p top then None else kc p.
  Proof.
    intros Hc Hx. unfold kc at 1. cbn [next_preorder_up].
    destruct (Nat.eqb_spec x top); [contradiction|].
    rewrite (next_sibling_spec d Hwf p pre x [] Hc). cbn [hd_error].
    assert (Hin : In x (ch p)) by (rewrite Hc; apply in_or_app; right; left; reflexivity).
    destruct (wf_parent d Hwf p x Hin) as [Hp _]. unfold parent_of. rewrite Hp.
    destruct (Nat.eqb p top); [reflexivity|].
    pose proof (child_gt p x Hin). unfold kc. apply up_fuel. lia.
  Qed.

  Definition cont (k : nat) (pos : nat) : list nat :=
    match kc pos with Some nx => descend d k top nx | None => [] end.

  (* one subtree: with fuel for the subtree plus k, the walk from pos lists the subtree and then
     continues with k fuel at the node the climb finds *)
  Lemma walk_subtree : forall f pos k, length d - pos <= f -> pos < length d -> top <= pos ->
    descend d (length (subtree pos) + k) top pos = subtree pos ++ cont k pos.
  Proof.
    induction f as [|f IH]; intros pos k Hf Hpos Htop; [lia|].
    rewrite (subtree_unfold pos Hpos). cbn [length]. cbn [plus descend app]. f_equal.
    unfold first_child. fold (ch pos).
    destruct (ch pos) as [|c1 cs] eqn:Ech.
    - (* leaf *)
      cbn [hd_error flat_map length plus app]. unfold cont.
      rewrite (up_fuel pos (S (length d))) by lia. fold (kc pos). reflexivity.
    - cbn [hd_error].
      (* walk the children from any non-empty suffix *)
      assert (Hsuf : forall s pre, ch pos = pre ++ s -> s <> [] ->
                descend d (length (flat_map subtree s) + k) top (hd 0 s) = flat_map subtree s ++ cont k pos).
      { induction s as [|x s IHs]; intros pre Hc Hne; [congruence|].
        assert (Hin : In x (ch pos)) by (rewrite Hc; apply in_or_app; right; left; reflexivity).
        pose proof (child_gt pos x Hin) as Hgt.
        assert (Hxtop : x <> top) by lia.
        cbn [hd flat_map]. rewrite app_length, <- Nat.add_assoc, <- app_assoc.
        destruct (Nat.lt_ge_cases x (length d)) as [Hx|Hx].
        2:{ (* a child id outside the table cannot occur: its parent link would be the dummy's *)
            destruct (wf_parent d Hwf pos x Hin) as [Hp _]. rewrite (get_out_of_range _ _ Hx) in Hp. discriminate. }
        rewrite (IH x (length (flat_map subtree s) + k)) by lia. f_equal.
        unfold cont at 1. destruct s as [|y s'].
        - rewrite (kc_last pos pre x Hc Hxtop). cbn [flat_map length plus app].
          unfold cont. destruct (Nat.eqb_spec pos top) as [->|Hn]; [rewrite kc_top; reflexivity | reflexivity].
        - rewrite (kc_inner pos pre x y s' Hc Hxtop).
          apply (IHs (pre ++ [x])); [rewrite <- app_assoc; exact Hc | discriminate]. }
      apply (Hsuf (c1 :: cs) []); [exact Ech | discriminate].
  Qed.
End Desc.

(* the descendant-or-self walk started at n, with any fuel that covers the subtree, is the pre-order
   list of the subtree *)
Theorem descend_is_preorder d (Hwf : wf d) (Hpar : forall x p, parent_of d x = Some p -> p < x) n fuel :
  n < length d -> length (subtree d n) <= fuel ->
  descend d fuel n n = subtree d n.
Proof.
  intros Hn Hf.
  replace fuel with (length (subtree d n) + (fuel - length (subtree d n))) by lia.
  rewrite (walk_subtree d Hwf Hpar n (length d - n) n _ (le_n _) Hn (le_n _)).
  unfold cont. rewrite kc_top. apply app_nil_r.
Qed.

(* with the fuel the interpreter passes (number of nodes + 1) *)
Corollary descendants_or_self_is_preorder d (Hwf : wf d) (Hpar : forall x p, parent_of d x = Some p -> p < x) n :
  n < length d -> descendants_or_self d n = subtree d n.
Proof.
  intros Hn. unfold descendants_or_self. apply descend_is_preorder; try assumption.
  pose proof (subtree_bound d Hwf Hpar n Hn). lia.
Qed.

Corollary descendants_on_built_documents top n :
  let d := build_doc top in
  n < length d -> descendants_or_self d n = subtree d n /\ NoDup (subtree d n).
Proof.
  intros d Hn. split.
  - apply descendants_or_self_is_preorder; [apply build_doc_wf | apply build_doc_parent_lt | exact Hn].
  - apply subtree_nodup; [apply build_doc_wf | apply build_doc_parent_lt].
Qed.
