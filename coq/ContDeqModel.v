(* ContDeqModel.v — proofs about the XalanDeque model: all blocks but the last are full, no block in
   the index is empty, free blocks are empty; hence size() = number of elements, operator[] (index /
   blockSize, index % blockSize) addresses the right element, and every op sequence on deques of any
   block sizes refines the list specification (swap carries the block size with the blocks). *)
From Coq Require Import List Arith Bool Lia.
Require Import XV.GenCont XV.ContVecDefs XV.ContVecModel XV.ContMapDefs XV.ContDeqDefs.
Import ListNotations.

Definition flat (d : xdeq) : list nat := concat (map vdata (q_blocks d)).

Definition dinv (d : xdeq) : Prop :=
  1 <= q_bs d /\
  Forall (fun b => 1 <= vsize b /\ vsize b <= q_bs d) (q_blocks d) /\
  Forall (fun b => vsize b = q_bs d) (removelast (q_blocks d)) /\
  Forall (fun b => vdata b = []) (q_free d).

Lemma vsize_eq : forall d l, vdata d = l -> vsize d = length l.
Proof. intros. unfold vsize. rewrite H. reflexivity. Qed.

Lemma split_last : forall (l : list vec), l <> [] -> l = removelast l ++ [last l vempty].
Proof. intros. apply app_removelast_last. assumption. Qed.

Lemma flat_snoc : forall bs F b, flat (mkdeq bs (F ++ [b]) []) = concat (map vdata F) ++ vdata b.
Proof. intros. unfold flat. simpl. rewrite map_app, concat_app. simpl. rewrite app_nil_r. reflexivity. Qed.

Lemma concat_full_length : forall bs F, Forall (fun b => vsize b = bs) F -> length (concat (map vdata F)) = length F * bs.
Proof.
  induction F; intros H; simpl; [reflexivity|]. inversion H; subst. rewrite app_length, IHF by assumption.
  unfold vsize in *. lia.
Qed.

(* blocks as full ++ [last] *)
Lemma inv_snoc : forall bs F b fr, dinv (mkdeq bs (F ++ [b]) fr) ->
  1 <= bs /\ Forall (fun x => vsize x = bs) F /\ 1 <= vsize b /\ vsize b <= bs /\ Forall (fun x => vdata x = []) fr.
Proof.
  intros bs F b fr (B & A & Fu & Fr). simpl in *. rewrite removelast_last in Fu.
  rewrite Forall_forall in A. destruct (A b) as [A1 A2]; [apply in_or_app; right; left; reflexivity|]. auto.
Qed.

Lemma mk_inv_snoc : forall bs F b fr, 1 <= bs -> Forall (fun x => vsize x = bs) F -> 1 <= vsize b -> vsize b <= bs ->
  Forall (fun x => vdata x = []) fr -> dinv (mkdeq bs (F ++ [b]) fr).
Proof.
  intros bs F b fr B Fu L1 L2 Fr. unfold dinv. simpl. rewrite removelast_last. repeat split; auto.
  apply Forall_app. split; [|constructor; auto].
  rewrite Forall_forall in *. intros x Hx. rewrite (Fu x Hx). lia.
Qed.

Lemma mk_inv_full : forall bs F fr, 1 <= bs -> Forall (fun x => vsize x = bs) F -> Forall (fun x => vdata x = []) fr ->
  dinv (mkdeq bs F fr).
Proof.
  intros bs F fr B Fu Fr. unfold dinv. simpl. repeat split; auto.
  - rewrite Forall_forall in *. intros x Hx. rewrite (Fu x Hx). lia.
  - rewrite Forall_forall in *. intros x Hx. apply Fu. destruct F; [destruct Hx|].
    assert (Ne : v :: F <> []) by discriminate. rewrite (split_last _ Ne). apply in_or_app. left. assumption.
Qed.

Lemma deq_cases : forall d, q_blocks d = [] \/ exists F b, q_blocks d = F ++ [b].
Proof.
  intros d. destruct (q_blocks d) eqn:E; [left; reflexivity|]. right.
  assert (Ne : v :: l <> []) by discriminate. exists (removelast (v :: l)), (last (v :: l) vempty). apply split_last. assumption.
Qed.

Lemma flat_snoc' : forall bs F b fr, flat (mkdeq bs (F ++ [b]) fr) = concat (map vdata F) ++ vdata b.
Proof. intros. unfold flat. simpl. rewrite map_app, concat_app. simpl. rewrite app_nil_r. reflexivity. Qed.

Lemma dsize_snoc : forall bs F b fr, dsize (mkdeq bs (F ++ [b]) fr) = length F * bs + vsize b.
Proof.
  intros. unfold dsize. simpl q_blocks. simpl q_bs. rewrite last_last, app_length. simpl length.
  destruct (F ++ [b]) eqn:Q; [destruct F; discriminate|]. f_equal. f_equal. lia.
Qed.

Lemma dsize_flat : forall d, dinv d -> dsize d = length (flat d).
Proof.
  intros d I. destruct (deq_cases d) as [E|(F & b & E)].
  - unfold dsize, flat. rewrite E. reflexivity.
  - destruct d as [bs blocks fr]. simpl in E. subst blocks.
    destruct (inv_snoc bs F b fr I) as (B & Fu & L1 & L2 & Fr).
    rewrite dsize_snoc, flat_snoc', app_length, (concat_full_length bs F Fu). reflexivity.
Qed.

Lemma index_blocks : forall bs F b i, 1 <= bs -> Forall (fun x => vsize x = bs) F -> vsize b <= bs ->
  i < length F * bs + vsize b ->
  nth (i mod bs) (vdata (nth (i / bs) (F ++ [b]) vempty)) 0 = nth i (concat (map vdata (F ++ [b]))) 0.
Proof.
  intros bs F. induction F; intros b i B H Hb L; simpl in *.
  - rewrite app_nil_r. rewrite Nat.div_small, Nat.mod_small by lia. reflexivity.
  - inversion H; subst. destruct (lt_dec i (vsize a)) as [Lt|Ge].
    + rewrite Nat.div_small, Nat.mod_small by lia. rewrite app_nth1 by (unfold vsize in Lt; lia). reflexivity.
    + assert (Hi : i = 1 * vsize a + (i - vsize a)) by lia.
      rewrite app_nth2 by (unfold vsize in *; lia).
      rewrite Hi at 1 2. rewrite Nat.div_add_l by lia.
      replace (1 * vsize a + (i - vsize a)) with ((i - vsize a) + 1 * vsize a) by lia. rewrite Nat.mod_add by lia.
      simpl. fold (vsize a). apply IHF; auto. lia.
Qed.

Lemma dindex_flat : forall d i, dinv d -> i < length (flat d) -> dindex d i = nth i (flat d) 0.
Proof.
  intros d i I L. destruct (deq_cases d) as [E|(F & b & E)].
  - unfold flat in L. rewrite E in L. simpl in L. lia.
  - destruct d as [bs blocks fr]. simpl in E. subst blocks.
    destruct (inv_snoc bs F b fr I) as (B & Fu & L1 & L2 & Fr).
    rewrite flat_snoc', app_length, (concat_full_length bs F Fu) in L.
    unfold dindex, flat. simpl q_bs. simpl q_blocks. apply index_blocks; auto.
Qed.

Lemma seq_map_nth : forall (l : list nat), map (fun i => nth i l 0) (seq 0 (length l)) = l.
Proof.
  intros l. apply (nth_ext _ _ 0 0).
  - rewrite map_length, seq_length. reflexivity.
  - intros n H. rewrite map_length, seq_length in H.
    rewrite (nth_indep _ 0 ((fun i => nth i l 0) 0)) by (rewrite map_length, seq_length; assumption).
    change (nth 0 l 0) with ((fun i => nth i l 0) 0). rewrite map_nth, seq_nth by assumption. reflexivity.
Qed.

Lemma delems_flat : forall d, dinv d -> delems d = flat d.
Proof.
  intros d I. unfold delems. rewrite (dsize_flat d I). rewrite <- (seq_map_nth (flat d)) at 2.
  apply map_ext_in. intros i Hi. apply in_seq in Hi. apply dindex_flat; [assumption | lia].
Qed.

Lemma new_block_data : forall d, dinv d ->
  vdata (last (q_blocks (push_new_block d)) vempty) = [] /\
  removelast (q_blocks (push_new_block d)) = q_blocks d /\
  Forall (fun x => vdata x = []) (q_free (push_new_block d)) /\ q_bs (push_new_block d) = q_bs d.
Proof.
  intros d (B & A & Fu & Fr). unfold push_new_block. destruct (q_free d) as [|f t] eqn:E; cbn [q_blocks q_free q_bs].
  - rewrite last_last, removelast_last. simpl. auto.
  - rewrite last_last, removelast_last.
    assert (Ne : f :: t <> []) by discriminate.
    split; [|split; [reflexivity|split; [|reflexivity]]].
    + rewrite Forall_forall in Fr. apply Fr. rewrite (split_last _ Ne) at 2. apply in_or_app. right. left. reflexivity.
    + rewrite Forall_forall in *. intros x Hx. apply Fr. rewrite (split_last _ Ne). apply in_or_app. left. assumption.
Qed.

Lemma dpush_ok : forall d x, dinv d -> dinv (dpush d x) /\ flat (dpush d x) = flat d ++ [x] /\ q_bs (dpush d x) = q_bs d.
Proof.
  intros d x I. pose proof I as (B & A & Fu & Fr). unfold dpush.
  destruct (deq_cases d) as [E|(F & b & E)].
  - (* empty *)
    assert (dempty d = true) as -> by (unfold dempty; rewrite E; reflexivity). simpl orb.
    destruct (new_block_data d I) as (D & R & Fr' & Bs).
    assert (Ne : q_blocks (push_new_block d) <> []).
    { unfold push_new_block. destruct (q_free d); simpl; rewrite E; discriminate. }
    rewrite R, E. simpl app. rewrite Bs.
    set (nb := last (q_blocks (push_new_block d)) vempty) in *.
    assert (Dn : vdata (do_push_back nb x) = [x]) by (rewrite push_data, D; reflexivity).
    split; [|split; [|reflexivity]].
    + apply (mk_inv_snoc (q_bs d) [] (do_push_back nb x)); auto; rewrite (vsize_eq _ _ Dn) by reflexivity; simpl; lia.
    + unfold flat. simpl. rewrite Dn, E. reflexivity.
  - destruct d as [bs blocks fr]. simpl in *. subst blocks.
    destruct (inv_snoc bs F b fr I) as (_ & Fu' & L1 & L2 & _).
    assert (dempty (mkdeq bs (F ++ [b]) fr) = false) as -> by (unfold dempty; simpl; destruct F; reflexivity).
    simpl orb. simpl q_blocks. rewrite last_last.
    destruct (bs <=? vsize b) eqn:Full.
    + apply Nat.leb_le in Full.
      destruct (new_block_data _ I) as (D & R & Fr' & Bs). simpl in R, Bs.
      set (d1 := push_new_block (mkdeq bs (F ++ [b]) fr)) in *.
      set (nb := last (q_blocks d1) vempty) in *. rewrite R, Bs.
      assert (Dn : vdata (do_push_back nb x) = [x]) by (rewrite push_data, D; reflexivity).
      split; [|split; [|reflexivity]].
      * apply mk_inv_snoc; auto.
        -- apply Forall_app. split; [assumption | constructor; [lia | constructor]].
        -- rewrite (vsize_eq _ _ Dn). simpl. lia.
        -- rewrite (vsize_eq _ _ Dn). simpl. lia.
      * unfold flat. simpl. rewrite !map_app, !concat_app. simpl. rewrite Dn, !app_nil_r, <- app_assoc. reflexivity.
    + apply Nat.leb_gt in Full. simpl. rewrite removelast_last, last_last.
      assert (Dn : vdata (do_push_back b x) = vdata b ++ [x]) by apply push_data.
      split; [|split; [|reflexivity]].
      * apply mk_inv_snoc; auto; rewrite (vsize_eq _ _ Dn), app_length; unfold vsize in *; simpl; lia.
      * unfold flat. simpl. rewrite !map_app, !concat_app. simpl. rewrite Dn, !app_nil_r, <- app_assoc. reflexivity.
Qed.

Lemma removelast_app_ne : forall (a b : list nat), b <> [] -> removelast (a ++ b) = a ++ removelast b.
Proof. intros. apply removelast_app. assumption. Qed.

Lemma dpop_ok : forall d, dinv d -> flat d <> [] ->
  dinv (dpop d) /\ flat (dpop d) = removelast (flat d) /\ q_bs (dpop d) = q_bs d.
Proof.
  intros d I Ne. destruct (deq_cases d) as [E|(F & b & E)].
  { unfold flat in Ne. rewrite E in Ne. exfalso. apply Ne. reflexivity. }
  destruct d as [bs blocks fr]. simpl in *. subst blocks.
  destruct (inv_snoc bs F b fr I) as (B & Fu & L1 & L2 & Fr).
  unfold dpop. simpl q_blocks. rewrite last_last, removelast_last.
  assert (Db : vdata b <> []) by (unfold vsize in L1; destruct (vdata b); simpl in *; [lia | discriminate]).
  assert (Fl : flat (mkdeq bs (F ++ [b]) fr) = concat (map vdata F) ++ vdata b).
  { unfold flat. simpl. rewrite map_app, concat_app. simpl. rewrite app_nil_r. reflexivity. }
  rewrite Fl, removelast_app_ne by assumption.
  destruct (vsize (pop_back b) =? 0) eqn:Z; simpl.
  - apply Nat.eqb_eq in Z. unfold vsize, pop_back in Z. simpl in Z.
    assert (Rl : removelast (vdata b) = []) by (destruct (removelast (vdata b)); [reflexivity | discriminate]).
    split; [|split; [|reflexivity]].
    + apply mk_inv_full; auto. apply Forall_app. split; [assumption | constructor; [simpl; assumption | constructor]].
    + unfold flat. simpl. rewrite Rl, app_nil_r. reflexivity.
  - apply Nat.eqb_neq in Z. unfold vsize, pop_back in Z. simpl in Z.
    split; [|split; [|reflexivity]].
    + apply mk_inv_snoc; auto; unfold vsize, pop_back; simpl; [lia|].
      rewrite removelast_firstn', firstn_length. unfold vsize in L2. lia.
    + unfold flat. simpl. rewrite map_app, concat_app. simpl. rewrite app_nil_r. reflexivity.
Qed.

Lemma dpush_n_ok : forall n x d, dinv d ->
  dinv (dpush_n n x d) /\ flat (dpush_n n x d) = flat d ++ repeat x n /\ q_bs (dpush_n n x d) = q_bs d.
Proof.
  induction n; intros x d I; simpl.
  - rewrite app_nil_r. auto.
  - destruct (dpush_ok d x I) as (I1 & F1 & B1). destruct (IHn x _ I1) as (I2 & F2 & B2).
    split; [assumption|]. split; [|congruence]. rewrite F2, F1, <- app_assoc. reflexivity.
Qed.

Lemma dpop_n_ok : forall n d, dinv d -> n <= length (flat d) ->
  dinv (dpop_n n d) /\ flat (dpop_n n d) = firstn (length (flat d) - n) (flat d) /\ q_bs (dpop_n n d) = q_bs d.
Proof.
  induction n; intros d I L; simpl.
  - rewrite Nat.sub_0_r, firstn_all. auto.
  - assert (Ne : flat d <> []) by (destruct (flat d); simpl in *; [lia | discriminate]).
    destruct (dpop_ok d I Ne) as (I1 & F1 & B1).
    assert (L1 : n <= length (flat (dpop d))).
    { rewrite F1, removelast_firstn', firstn_length. lia. }
    destruct (IHn _ I1 L1) as (I2 & F2 & B2). split; [assumption|]. split; [|congruence].
    rewrite F2, F1, removelast_firstn', firstn_firstn, firstn_length. f_equal. lia.
Qed.

Lemma dresize_ok : forall d n, dinv d ->
  dinv (dresize d n) /\ flat (dresize d n) = resize_spec n 0 (flat d) /\ q_bs (dresize d n) = q_bs d.
Proof.
  intros d n I. unfold dresize, resize_spec. rewrite (dsize_flat d I).
  destruct (length (flat d) <? n) eqn:E.
  - apply Nat.ltb_lt in E. destruct (dpush_n_ok (n - length (flat d)) 0 d I) as (A & B & C).
    split; [assumption|]. split; [|assumption]. rewrite B, firstn_all2 by lia. reflexivity.
  - apply Nat.ltb_ge in E. destruct (dpop_n_ok (length (flat d) - n) d I) as (A & B & C); [lia|].
    split; [assumption|]. split; [|assumption]. rewrite B. replace (n - length (flat d)) with 0 by lia. simpl.
    rewrite app_nil_r. f_equal. lia.
Qed.

Lemma dclear_ok : forall d, dinv d -> dinv (dclear d) /\ flat (dclear d) = [] /\ q_bs (dclear d) = q_bs d.
Proof.
  intros d (B & A & Fu & Fr). unfold dclear. split; [|split; reflexivity].
  unfold dinv. simpl. repeat split; auto. apply Forall_app. split; [assumption|].
  apply Forall_forall. intros x Hx. apply in_map_iff in Hx. destruct Hx as (y & <- & _). apply clear_data.
Qed.

Lemma dpush_all_ok : forall l d, dinv d ->
  dinv (dpush_all d l) /\ flat (dpush_all d l) = flat d ++ l /\ q_bs (dpush_all d l) = q_bs d.
Proof.
  induction l; intros d I; simpl.
  - rewrite app_nil_r. auto.
  - destruct (dpush_ok d a I) as (I1 & F1 & B1). destruct (IHl _ I1) as (I2 & F2 & B2).
    unfold dpush_all in *. simpl. split; [assumption|]. split; [|congruence]. rewrite F2, F1, <- app_assoc. reflexivity.
Qed.

Lemma new_deq_ok : forall bs, 1 <= bs -> dinv (new_deq bs).
Proof. intros. unfold dinv, new_deq. simpl. repeat split; auto. Qed.


Lemma nth_last : forall (l : list nat), l <> [] -> nth (length l - 1) l 0 = last l 0.
Proof.
  intros l H.
  assert (G : forall (a : list nat) x, nth (length (a ++ [x]) - 1) (a ++ [x]) 0 = last (a ++ [x]) 0).
  { intros. rewrite last_last, app_length. simpl. rewrite app_nth2 by lia.
    replace (length a + 1 - 1 - length a) with 0 by lia. reflexivity. }
  rewrite (app_removelast_last 0 H). apply G.
Qed.

Lemma dback_flat : forall d, dinv d -> flat d <> [] -> dback d = last (flat d) 0.
Proof.
  intros d I Ne. destruct (deq_cases d) as [E|(F & b & E)].
  { unfold flat in Ne. rewrite E in Ne. exfalso. apply Ne. reflexivity. }
  destruct d as [bs blocks fr]. simpl in E. subst blocks.
  destruct (inv_snoc bs F b fr I) as (B & Fu & L1 & L2 & Fr).
  unfold dback. simpl q_blocks. rewrite last_last, flat_snoc'.
  assert (Db : vdata b <> []) by (unfold vsize in L1; destruct (vdata b); simpl in *; [lia | discriminate]).
  rewrite (app_removelast_last 0 Db) at 2. rewrite app_assoc, last_last.
  unfold vsize. apply nth_last. assumption.
Qed.

(* ---------------------------------------------------------------------------------------------- *)
Definition drel (s : dstate) (t : lstate) : Prop :=
  flat (dreg0 s) = l0 t /\ flat (dreg1 s) = l1 t /\ dcur s = lcur t.
Definition dsinv (s : dstate) : Prop := dinv (dreg0 s) /\ dinv (dreg1 s).


Lemma set_cur_d_ok : forall s t d l, drel s t -> dsinv s -> dinv d -> flat d = l ->
  drel (set_cur_d s d) (set_cur_l t l) /\ dsinv (set_cur_d s d).
Proof.
  intros s t d l (A & B & C) (I0 & I1) I F. unfold set_cur_d, set_cur_l, drel, dsinv in *. rewrite C in *.
  destruct (lcur t); simpl; (split; [auto|]); split; assumption.
Qed.

Lemma set_oth_d_ok : forall s t d l, drel s t -> dsinv s -> dinv d -> flat d = l ->
  drel (set_oth_d s d) (set_oth_l t l) /\ dsinv (set_oth_d s d).
Proof.
  intros s t d l (A & B & C) (I0 & I1) I F. unfold set_oth_d, set_oth_l, drel, dsinv in *. rewrite C in *.
  destruct (lcur t); simpl; (split; [auto|]); split; assumption.
Qed.

(* operator[] write *)
Lemma set_nth_app_l : forall (a r : list nat) i x, i < length a -> set_nth i x (a ++ r) = set_nth i x a ++ r.
Proof. induction a; intros r i x H; simpl in *; [lia|]. destruct i; [reflexivity|]. simpl. f_equal. apply IHa. lia. Qed.
Lemma set_nth_app_r : forall (a r : list nat) j x, set_nth (length a + j) x (a ++ r) = a ++ set_nth j x r.
Proof. induction a; intros; simpl; [reflexivity | f_equal; apply IHa]. Qed.

Lemma upd_snoc_l : forall F (b : vec) i f, i < length F -> upd_bucket i f (F ++ [b]) = upd_bucket i f F ++ [b].
Proof. induction F; intros b i f H; simpl in *; [lia|]. destruct i; [reflexivity|]. simpl. f_equal. apply IHF. lia. Qed.
Lemma upd_snoc_r : forall F (b : vec) f, upd_bucket (length F) f (F ++ [b]) = F ++ [f b].
Proof. induction F; intros; simpl; [reflexivity | f_equal; apply IHF]. Qed.

Lemma set_blocks_flat : forall bs F b i x, 1 <= bs -> Forall (fun y => vsize y = bs) F -> vsize b <= bs ->
  i < length F * bs + vsize b ->
  let f := fun y => mkvec (set_nth (i mod bs) x (vdata y)) (vcap y) in
  concat (map vdata (upd_bucket (i / bs) f (F ++ [b]))) = set_nth i x (concat (map vdata (F ++ [b]))) /\
  ((i / bs < length F /\ upd_bucket (i / bs) f (F ++ [b]) = upd_bucket (i / bs) f F ++ [b]) \/
   (i / bs = length F /\ upd_bucket (i / bs) f (F ++ [b]) = F ++ [f b])).
Proof.
  intros bs F. induction F; intros b i x B H Hb L f; simpl in *.
  - rewrite Nat.div_small by lia. unfold f. rewrite Nat.mod_small by lia. simpl. rewrite !app_nil_r. split; [reflexivity|]. right. auto.
  - inversion H; subst. destruct (lt_dec i (vsize a)) as [Lt|Ge].
    + rewrite Nat.div_small by lia. unfold f. rewrite Nat.mod_small by lia. simpl. split.
      * symmetry. apply set_nth_app_l. exact Lt.
      * left. split; [lia | reflexivity].
    + assert (Hi : i = 1 * vsize a + (i - vsize a)) by lia.
      assert (Dv : i / vsize a = S ((i - vsize a) / vsize a)).
      { rewrite Hi at 1. rewrite Nat.div_add_l by lia. reflexivity. }
      assert (Md : i mod vsize a = (i - vsize a) mod vsize a).
      { rewrite Hi at 1. replace (1 * vsize a + (i - vsize a)) with ((i - vsize a) + 1 * vsize a) by lia. apply Nat.mod_add. lia. }
      rewrite Dv. simpl. unfold f. rewrite Md.
      destruct (IHF b (i - vsize a) x B H3 Hb) as (E1 & E2); [lia|]. cbv zeta in E1, E2.
      split.
      * rewrite E1. rewrite <- (set_nth_app_r (vdata a) _ (i - vsize a) x). f_equal. unfold vsize in *. lia.
      * destruct E2 as [[E2 E3]|[E2 E3]]; [left | right]; (split; [lia | rewrite E3; reflexivity]).
Qed.

Lemma set_block_ok : forall d i x, dinv d -> i < length (flat d) ->
  dinv (set_block d i x) /\ flat (set_block d i x) = set_nth i x (flat d).
Proof.
  intros d i x I L. destruct (deq_cases d) as [E|(F & b & E)].
  { unfold flat in L. rewrite E in L. simpl in L. lia. }
  destruct d as [bs blocks fr]. simpl in E. subst blocks.
  destruct (inv_snoc bs F b fr I) as (B & Fu & L1 & L2 & Fr).
  rewrite flat_snoc', app_length, (concat_full_length bs F Fu) in L. fold (vsize b) in L.
  destruct (set_blocks_flat bs F b i x B Fu L2 L) as (E1 & E2). cbv zeta in E1, E2.
  unfold set_block, flat. cbn [q_bs q_blocks q_free]. split; [|exact E1].
  destruct E2 as [[E2 E3]|[E2 E3]]; rewrite E3.
  - apply mk_inv_snoc; auto. apply Forall_forall. intros y Hy.
    assert (G : forall (l : list vec) k, Forall (fun z => vsize z = bs) l ->
                Forall (fun z => vsize z = bs) (upd_bucket k (fun y0 => mkvec (set_nth (i mod bs) x (vdata y0)) (vcap y0)) l)).
    { induction l; intros k Hl; destruct k; simpl; auto; inversion Hl; subst; constructor; auto.
      all: unfold vsize in *; simpl; rewrite ?set_nth_length; try reflexivity; try assumption. }
    pose proof (G F (i / bs) Fu) as G'. rewrite Forall_forall in G'. apply G'. assumption.
  - apply mk_inv_snoc; auto; unfold vsize in *; simpl; rewrite set_nth_length; assumption.
Qed.

Lemma dstep_refines : forall s t o, drel s t -> dsinv s ->
  match dstep s o, dlstep t o with
  | None, None => True
  | Some (s', r), Some (t', r') => r = r' /\ drel s' t' /\ dsinv s'
  | _, _ => False
  end.
Proof.
  intros s t o R I.
  assert (C : flat (cur_d s) = cur_l t) by (destruct R as (A & B & D); unfold cur_d, cur_l; rewrite D; destruct (lcur t); assumption).
  assert (O : flat (oth_d s) = oth_l t) by (destruct R as (A & B & D); unfold oth_d, oth_l; rewrite D; destruct (lcur t); assumption).
  assert (IC : dinv (cur_d s)) by (destruct I as (A & B); unfold cur_d; destruct (dcur s); assumption).
  assert (IO : dinv (oth_d s)) by (destruct I as (A & B); unfold oth_d; destruct (dcur s); assumption).
  assert (N : dsize (cur_d s) = length (cur_l t)) by (rewrite (dsize_flat _ IC), C; reflexivity).
  destruct o; unfold dstep, dlstep; rewrite ?N.
  - destruct (dpush_ok (cur_d s) x IC) as (P & Q & S). split; [reflexivity|]. apply set_cur_d_ok; auto. rewrite Q, C. reflexivity.
  - destruct (length (cur_l t) =? 0) eqn:E; [exact Logic.I|]. apply Nat.eqb_neq in E.
    assert (Ne : flat (cur_d s) <> []) by (rewrite C; destruct (cur_l t); simpl in *; [lia | discriminate]).
    destruct (dpop_ok (cur_d s) IC Ne) as (P & Q & S). split; [reflexivity|]. apply set_cur_d_ok; auto. rewrite Q, C. reflexivity.
  - destruct (length (cur_l t) =? 0) eqn:E; [exact Logic.I|]. apply Nat.eqb_neq in E.
    assert (Ne : flat (cur_d s) <> []) by (rewrite C; destruct (cur_l t); simpl in *; [lia | discriminate]).
    split; [|auto]. rewrite (dback_flat _ IC Ne), C. reflexivity.
  - destruct (i <? length (cur_l t)) eqn:E; [|exact Logic.I]. apply Nat.ltb_lt in E. split; [|auto].
    rewrite (dindex_flat _ _ IC) by (rewrite C; assumption). rewrite C. reflexivity.
  - destruct (i <? length (cur_l t)) eqn:E; [|exact Logic.I]. apply Nat.ltb_lt in E.
    destruct (set_block_ok (cur_d s) i x IC) as (P & Q); [rewrite C; assumption|].
    split; [reflexivity|]. apply set_cur_d_ok; auto. rewrite Q, C. reflexivity.
  - destruct (dresize_ok (cur_d s) n IC) as (P & Q & S). split; [reflexivity|]. apply set_cur_d_ok; auto. rewrite Q, C. reflexivity.
  - destruct (dclear_ok (cur_d s) IC) as (P & Q & S). split; [reflexivity|]. apply set_cur_d_ok; auto.
  - split; [|auto]. rewrite (delems_flat _ IC), C. reflexivity.
  - split; [|auto]. rewrite (delems_flat _ IC), C. reflexivity.
  - unfold dcopy. destruct (dpush_all_ok (delems (cur_d s)) (new_deq (q_bs (cur_d s)))) as (P & Q & S).
    { apply new_deq_ok. destruct IC. assumption. }
    split; [reflexivity|]. apply set_oth_d_ok; auto. rewrite Q, (delems_flat _ IC), C. reflexivity.
  - unfold dassign. destruct (dclear_ok (cur_d s) IC) as (P0 & Q0 & S0).
    destruct (dpush_all_ok (delems (oth_d s)) (dclear (cur_d s)) P0) as (P & Q & S).
    split; [reflexivity|]. apply set_cur_d_ok; auto. rewrite Q, Q0, (delems_flat _ IO), O. reflexivity.
  - auto.
  - destruct R as (A & B & D). destruct I as (I0 & I1). split; [reflexivity|]. unfold drel, dsinv, dswap_into. simpl.
    destruct (dreg0 s), (dreg1 s). simpl in *. auto.
  - destruct R as (A & B & D). destruct I as (I0 & I1). split; [reflexivity|]. unfold drel, dsinv. simpl. auto.
  - unfold dctor. destruct (dpush_n_ok n 0 (new_deq (q_bs (cur_d s)))) as (P & Q & S).
    { apply new_deq_ok. destruct IC. assumption. }
    split; [reflexivity|]. apply set_cur_d_ok; auto.
Qed.

Theorem deque_refines_list_lemma : forall ops s t, drel s t -> dsinv s ->
  drun s ops = dlrun t ops.
Proof.
  induction ops; intros s t R I; simpl; [reflexivity|].
  pose proof (dstep_refines s t a R I) as H.
  destruct (dstep s a) as [[s' r]|]; destruct (dlstep t a) as [[t' r']|]; try contradiction.
  - destruct H as (-> & R' & I'). rewrite (IHops s' t' R' I'). f_equal. f_equal.
    assert (C : flat (cur_d s') = cur_l t') by (destruct R' as (A & B & D); unfold cur_d, cur_l; rewrite D; destruct (lcur t'); assumption).
    assert (IC : dinv (cur_d s')) by (destruct I' as (A & B); unfold cur_d; destruct (dcur s'); assumption).
    rewrite (delems_flat _ IC), (dsize_flat _ IC), C. f_equal. f_equal.
    unfold dempty. destruct (deq_cases (cur_d s')) as [E|(F & b & E)].
    + rewrite E. unfold flat in C. rewrite E in C. simpl in C. rewrite <- C. reflexivity.
    + rewrite E. destruct (F ++ [b]) eqn:Q; [destruct F; discriminate|]. rewrite <- Q in *.
      destruct (cur_d s') as [bs blocks fr]. simpl in E. subst blocks.
      destruct (inv_snoc _ _ _ _ IC) as (_ & _ & L1 & _). rewrite flat_snoc' in C. rewrite <- C, app_length.
      unfold vsize in L1. symmetry. apply Nat.eqb_neq. lia.
  - rewrite (IHops s t R I). reflexivity.
Qed.
