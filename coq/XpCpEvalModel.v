(* XpCpEvalModel.v -- the wrapper evaluator cp_eval of XpCpDefs.v with all flags off is the
   evaluator [eval] of XpDefs.v (exact equality, every fuel / context / expression). *)
From Coq Require Import ZArith NArith Lia List Bool Arith SpecFloat.
Require Import XV.GenNum XV.NumDefs XV.XpAst XV.DomDefs XV.XpDefs XV.XpCpDefs.
Import ListNotations.

Lemma bind_ext {A B} (r1 r2 : res A) (k1 k2 : A -> res B) :
  r1 = r2 -> (forall a, k1 a = k2 a) -> bind r1 k1 = bind r2 k2.
Proof. intros -> K. destruct r2; cbn; auto. Qed.

Lemma fold_ext {A B} (F1 F2 : A -> B -> A) :
  (forall a b, F1 a b = F2 a b) -> forall l a, fold_left F1 l a = fold_left F2 l a.
Proof. intros H. induction l as [|b l IH]; intros a; cbn [fold_left]; [reflexivity|]. rewrite H. apply IH. Qed.

(** extensionality of the machinery of XpDefs.v in the evaluator it is given *)
Section Ext.
  Variables ev1 ev2 : ctx -> expr -> res value.
  Hypothesis H12 : forall c e, ev1 c e = ev2 c e.

  Lemma pred_filter_eq c l pe rest i : pred_filter ev1 c l pe rest i = pred_filter ev2 c l pe rest i.
  Proof.
    revert i. induction rest as [|n r IH]; intros i; cbn [pred_filter]; [reflexivity|].
    apply bind_ext; [apply H12|]. intros v. apply bind_ext; [apply IH|]. reflexivity.
  Qed.

  Lemma apply_pred_eq c l p : apply_pred ev1 c l p = apply_pred ev2 c l p.
  Proof.
    unfold apply_pred. destruct l as [|a l']; [reflexivity|].
    destruct (snd p); try apply pred_filter_eq. reflexivity.
  Qed.

  Lemma apply_preds_eq c ps l : apply_preds ev1 c l ps = apply_preds ev2 c l ps.
  Proof.
    unfold apply_preds. apply fold_ext. intros a p. apply bind_ext; [reflexivity|]. intros l'. apply apply_pred_eq.
  Qed.

  Lemma steps_from_eq c sfuel : forall sub rv rest,
    steps_from ev1 c sfuel sub rv rest = steps_from ev2 c sfuel sub rv rest.
  Proof.
    induction sfuel as [|sf IH]; intros sub rv rest; cbn [steps_from]; [reflexivity|].
    destruct rest as [|[[ax t] ps] rest']; [reflexivity|].
    apply fold_ext. intros a n. apply bind_ext; [reflexivity|]. intros q.
    apply bind_ext; [reflexivity|]. intros [l0 rv0].
    apply bind_ext; [apply apply_preds_eq|]. intros l1.
    apply bind_ext; [apply IH|]. reflexivity.
  Qed.

  Lemma ev_num_eq c x : ev_num ev1 c x = ev_num ev2 c x.
  Proof. unfold ev_num. destruct x; try reflexivity; (apply bind_ext; [apply H12 | reflexivity]). Qed.

  Lemma ev_bool_eq c x : ev_bool ev1 c x = ev_bool ev2 c x.
  Proof. unfold ev_bool. apply bind_ext; [apply H12 | reflexivity]. Qed.

  Ltac ext1 :=
    first [ reflexivity | apply H12 | apply ev_num_eq | apply ev_bool_eq
          | apply bind_ext; [|intro] ].

  Lemma call_function_eq c name args : call_function ev1 c name args = call_function ev2 c name args.
  Proof.
    unfold call_function.
    repeat match goal with
           | |- (if ?b then _ else _) = (if ?b then _ else _) => destruct b
           end;
    try (destruct args as [|a1 [|a2 [|a3 [|a4 rest]]]]; repeat ext1; fail).
    all: try reflexivity.
    destruct args as [|a1 [|a2 rest]]; try reflexivity.
    set (l := a1 :: a2 :: rest). clearbody l.
    apply bind_ext; [|reflexivity].
    assert (G : forall (l : list expr) (q1 q2 : res str), q1 = q2 ->
      fold_left (fun acc x => do q <- acc; do s <- (do v <- ev1 c x; Ok (to_string c v)); Ok (q ++ s)) l q1 =
      fold_left (fun acc x => do q <- acc; do s <- (do v <- ev2 c x; Ok (to_string c v)); Ok (q ++ s)) l q2).
    { induction l0 as [|x l0 IH]; intros q1 q2 Hq; cbn [fold_left]; [exact Hq|].
      apply IH. subst. apply bind_ext; [reflexivity|]. intros q. repeat ext1. }
    apply G. reflexivity.
  Qed.
End Ext.

Lemma str_eqb_eq : forall a b, str_eqb a b = true -> a = b.
Proof.
  induction a as [|x a IH]; intros [|y b] H; cbn [str_eqb] in H; try discriminate; [reflexivity|].
  apply andb_true_iff in H. destruct H as [H1 H2]. apply N.eqb_eq in H1. apply IH in H2. congruence.
Qed.

(* with the flags off the three overridden functions are the ones call_function has *)
Lemma cp_call_function_old : forall ev c name args,
  cp_call_function flags_old ev c name args = call_function ev c name args.
Proof.
  intros ev c name args. unfold cp_call_function.
  destruct (fn_is name s_string_length) eqn:E1.
  { unfold fn_is in E1. apply str_eqb_eq in E1. subst name. reflexivity. }
  destruct (fn_is name s_substring) eqn:E2.
  { unfold fn_is in E2. apply str_eqb_eq in E2. subst name. reflexivity. }
  destruct (fn_is name s_translate) eqn:E3.
  { unfold fn_is in E3. apply str_eqb_eq in E3. subst name. reflexivity. }
  reflexivity.
Qed.

Theorem cp_eval_old : forall fuel c e, cp_eval flags_old fuel c e = eval fuel c e.
Proof.
  induction fuel as [|f IH]; intros c e; [reflexivity|].
  assert (Hn : forall x, ev_num (cp_eval flags_old f) c x = ev_num (eval f) c x) by (intros x; apply ev_num_eq, IH).
  assert (Hb : forall x, ev_bool (cp_eval flags_old f) c x = ev_bool (eval f) c x) by (intros x; apply ev_bool_eq, IH).
  assert (Ha : forall (op : dbl -> dbl -> dbl) a b,
    (do x <- ev_num (cp_eval flags_old f) c a; do y <- ev_num (cp_eval flags_old f) c b; Ok (VNum (op x y))) =
    (do x <- ev_num (eval f) c a; do y <- ev_num (eval f) c b; Ok (VNum (op x y)))).
  { intros op a b. apply bind_ext; [apply Hn|]. intros x. apply bind_ext; [apply Hn|]. reflexivity. }
  assert (Hc : forall (op : cmpop) a b,
    (do x <- cp_eval flags_old f c a; do y <- cp_eval flags_old f c b; Ok (VBool (compare c op x y))) =
    (do x <- eval f c a; do y <- eval f c b; Ok (VBool (compare c op x y)))).
  { intros op a b. apply bind_ext; [apply IH|]. intros x. apply bind_ext; [apply IH|]. reflexivity. }
  destruct e as [a b|a b|a b|a b|a b|a b|a b|a b|a b|a b|a b|a b|a b|a|l|s|ns local|x|t|name args|ns name args|h hps steps];
    cbn [cp_eval eval].
  - apply bind_ext; [apply Hb|]. intros x. destruct x; [reflexivity|]. apply bind_ext; [apply Hb|]. reflexivity.
  - apply bind_ext; [apply Hb|]. intros x. destruct x; [|reflexivity]. apply bind_ext; [apply Hb|]. reflexivity.
  - apply Hc.
  - apply Hc.
  - apply Hc.
  - apply Hc.
  - apply Hc.
  - apply Hc.
  - apply Ha.
  - apply Ha.
  - apply Ha.
  - apply Ha.
  - apply Ha.
  - apply bind_ext; [apply Hn|]. reflexivity.
  - apply bind_ext; [|reflexivity]. apply fold_ext. intros q x. apply bind_ext; [reflexivity|]. intros q0.
    apply bind_ext; [apply IH|]. reflexivity.
  - reflexivity.
  - reflexivity.
  - apply IH.
  - reflexivity.
  - rewrite cp_call_function_old. apply call_function_eq. apply IH.
  - reflexivity.
  - destruct h as [h|].
    + destruct h; try reflexivity;
        (apply bind_ext; [apply IH|]; intros v; apply bind_ext; [reflexivity|]; intros nsl;
         apply bind_ext; [apply apply_preds_eq, IH|]; intros l1;
         apply bind_ext; [apply steps_from_eq, IH|]; reflexivity).
    + apply bind_ext; [apply steps_from_eq, IH|]. reflexivity.
Qed.
