(* Properties_C11h.v — C11, part "helpers": what the BODIES of the specialised evaluation helpers
   compute.  Statements closed by [exact] and their assumptions.

   GenExec2.v is regenerated from /repo on every run (translator/gen_exec2.py: clang AST of XPath.cpp
   and XPath.hpp, every helper body and every arm of the six executeMore switches executed
   symbolically, callees inlined through the declarations the compiler resolved):
     body_generic .. body_nodes : opcode -> body     the six switches, helpers inlined
     helper_bodies : list (name :: signature, helper, overload kind, body)
   as terms of Exec2Defs.v (which operand is evaluated through which entry point, which conversion
   of XObject / XToken / DoubleSupport is applied, whether the overload taking the execution context
   is the one called).  Exec2Run.execs2 interprets these terms and nothing else.  XpDefs.eval is the
   generic interpreter model of C02.  [forget] drops the kind of an error. *)
From Coq Require Import ZArith NArith List Bool SpecFloat String.
Require Import XV.NumDefs XV.XpAst XV.DomDefs XV.XpDefs XV.XpModel XV.ExecArms XV.GenExec XV.ExecDefs XV.Exec2Base.
Require Import XV.Exec2Defs XV.GenExec2 XV.Exec2Run XV.Exec2Step XV.Exec2Model.
Import ListNotations.

(** * every helper-overload body: all expressions, contexts, recursion depths *)

(* for EACH regenerated entry (helper, overload kind, body) of helper_bodies — XPath::Or .. functionSum
   in their bool / double / const XalanDOMString& / XObjectPtr / bool& / double& / XalanDOMString& /
   FormatterListener / MutableNodeRefList& overloads, 65 definitions — and each expression node e
   whose generic arm calls that helper (compiled with the number of arguments XPathProcessorImpl
   demands): the body, run over ANY entry points E that deliver conversions of the generic value for
   the sub-expressions, delivers for e
     the generic value itself (value-returning overloads),
     boolean / number of the generic value (bool&, double&),
     the caller's buffer / received characters followed by string of the generic value,
     the generic node-set, failing when the generic value is no node-set (MutableNodeRefList&),
   and fails when the generic evaluation fails.  A body that short-circuits differently, converts
   through an overload that does not consult the execution context, reads the wrong operand or the
   wrong token makes this false. *)
Theorem every_helper_is_conversion_of_generic : forall f E,
  (forall c e, vars_ordered c -> agrees E (eval f) c e) ->
  forall key h o b, In (key, h, o, b) helper_bodies ->
  forall c e, vars_ordered c -> helper_of e = Some h -> arity_ok e = true ->
  helper_delivers E c e o b (forget (eval (S f) c e)).
Proof. exact every_helper_ok. Qed.
Print Assumptions every_helper_is_conversion_of_generic.

(* the theorem above is about something: every helper of the table is the helper of an expression *)
Theorem every_helper_is_reached :
  forallb (fun t => existsb (fun e => helper_opt_beq (helper_of e) (entry_helper t) && arity_ok e) witness_exprs)
          helper_bodies = true.
Proof. exact every_helper_reached. Qed.
Print Assumptions every_helper_is_reached.

(** * the six switches with the helper bodies inlined *)

(* one more level of recursion depth: the six regenerated bodies of the node's op-code *)
Theorem exec2_every_arm_is_conversion_of_generic : forall f E,
  (forall c e, vars_ordered c -> agrees E (eval f) c e) ->
  forall c e, vars_ordered c -> agrees (next2 E) (eval (S f)) c e.
Proof. exact bodies_step. Qed.
Print Assumptions exec2_every_arm_is_conversion_of_generic.

(* one value, six entry points, for the interpreter of the REGENERATED bodies: no hand-written helper
   model and no digest of a body is a premise *)
Theorem exec2_six_entry_points_agree : forall fuel c e, vars_ordered c -> agrees (execs2 fuel) (eval fuel) c e.
Proof. exact execs2_agree. Qed.
Print Assumptions exec2_six_entry_points_agree.

Theorem exec2_bool_eq : forall c e, vars_ordered c ->
  forget (exec2_bool c e) = option_map to_boolean (forget (exec2_generic c e)).
Proof. intros c e Hc. rewrite exec2_generic_agrees by exact Hc. exact (exec2_bool_agrees c e Hc). Qed.
Print Assumptions exec2_bool_eq.

Theorem exec2_num_eq : forall c e, vars_ordered c ->
  forget (exec2_num c e) = option_map (to_number c) (forget (exec2_generic c e)).
Proof. intros c e Hc. rewrite exec2_generic_agrees by exact Hc. exact (exec2_num_agrees c e Hc). Qed.
Print Assumptions exec2_num_eq.

Theorem exec2_str_eq : forall c e buf, vars_ordered c ->
  forget (exec2_str c e buf) = option_map (fun v => buf ++ to_string c v) (forget (exec2_generic c e)).
Proof. intros c e buf Hc. rewrite exec2_generic_agrees by exact Hc. exact (exec2_str_agrees c e buf Hc). Qed.
Print Assumptions exec2_str_eq.

Theorem exec2_chars_eq : forall c e acc, vars_ordered c ->
  forget (exec2_chars c e acc) = option_map (fun v => acc ++ to_string c v) (forget (exec2_generic c e)).
Proof. intros c e acc Hc. rewrite exec2_generic_agrees by exact Hc. exact (exec2_chars_agrees c e acc Hc). Qed.
Print Assumptions exec2_chars_eq.

Theorem exec2_nodelist_eq : forall c e, vars_ordered c ->
  forget (exec2_nodelist c e) = obind (forget (exec2_generic c e)) (fun v => forget (as_nodes v)).
Proof. intros c e Hc. rewrite exec2_generic_agrees by exact Hc. exact (exec2_nodelist_agrees c e Hc). Qed.
Print Assumptions exec2_nodelist_eq.

(** * the regenerated bodies against the tables of GenExec.v + the hand-written helper model *)

(* for every node, every entry point and arbitrary entry points E for the sub-expressions the
   regenerated body denotes what the arm of GenExec.v denotes through ExecDefs.h_bool .. h_out_l:
   the hand model of ExecDefs.v says what the code says, body by body *)
Theorem exec2_bodies_denote_hand_model : forall E c e, same_step E c e.
Proof. exact bodies_denote_arms. Qed.
Print Assumptions exec2_bodies_denote_hand_model.

(** * short circuit, as coded *)
Theorem or_and_short_circuit : forall E c a b,
  (ev_b E c a = Ok true -> run2_b E c (EOr a b) (body_bool OP_OR) = Ok true) /\
  (ev_b E c a = Ok false -> run2_b E c (EOr a b) (body_bool OP_OR) = ev_b E c b) /\
  (ev_b E c a = Ok false -> run2_b E c (EAnd a b) (body_bool OP_AND) = Ok false) /\
  (ev_b E c a = Ok true -> run2_b E c (EAnd a b) (body_bool OP_AND) = ev_b E c b) /\
  (forall x, ev_b E c a = Err x ->
     run2_b E c (EOr a b) (body_bool OP_OR) = Err x /\ run2_b E c (EAnd a b) (body_bool OP_AND) = Err x).
Proof. exact or_and_short_circuit_lemma. Qed.
Print Assumptions or_and_short_circuit.

(** * the overloads that take the execution context *)
Theorem exec2_arms_context_aware : forall op,
  aware_body (body_generic op) && aware_body (body_bool op) && aware_body (body_num op) &&
  aware_body (body_str op) && aware_body (body_chars op) && aware_body (body_nodes op) = true.
Proof. exact arms_all_aware. Qed.
Print Assumptions exec2_arms_context_aware.

Theorem exec2_helpers_context_aware : forallb (fun t => aware_body (snd t)) helper_bodies = true.
Proof. exact helpers_all_aware. Qed.
Print Assumptions exec2_helpers_context_aware.

(* why harness-level evaluation (no stylesheet, nothing stripped) cannot tell the two families apart *)
Theorem context_free_overloads_same_when_nothing_stripped : forall c,
  (forall i, cx_strip c (cx_doc c) i = false) ->
  forall aw, (forall v, to_string (cxa aw c) v = to_string c v) /\
             (forall v, to_number (cxa aw c) v = to_number c v) /\
             (forall l, xo_string_nodes (cxa aw c) l = xo_string_nodes c l) /\
             (forall l, xo_number_nodes (cxa aw c) l = xo_number_nodes c l) /\
             (forall l, sum_nodes (cxa aw c) l = sum_nodes c l).
Proof. exact context_free_same_when_nothing_stripped. Qed.
Print Assumptions context_free_overloads_same_when_nothing_stripped.

(** * the hypotheses are satisfiable; the parameters of the language matter *)
(* <a><b> </b><b>x</b></a>; context node a; xsl:strip-space strips the blank text node 4;
   $v = the two b elements (nodes 3 and 5; node 2 is the xml namespace node of a) *)
Definition exh_doc : doc := build_doc [TElem [97]%N [] [TElem [98]%N [] [TTextN [32]%N]; TElem [98]%N [] [TTextN [120]%N]]].
Definition exh_ctx : ctx := mkCtx exh_doc 1 [1] [([], [118]%N, VNodes [3; 5])] (fun _ i => Nat.eqb i 4).

Example exh_vars_ordered : vars_ordered exh_ctx.
Proof.
  intros ns l v H. unfold exh_ctx in H. cbn [cx_vars lookup_var] in H.
  destruct (str_eqb [] ns && str_eqb [118%N] l); [|discriminate].
  inversion H; subst. repeat constructor.
Qed.

Definition exh_b : expr := EPath None [] [(AxChild, TName NsEmpty (Some [98]%N), [])].     (* b *)
Definition exh_z : expr := EPath None [] [(AxChild, TName NsEmpty (Some [122]%N), [])].    (* z: selects nothing *)

(* b through the six entry points of the regenerated interpreter: the string-value of the first b
   is empty because its text is stripped *)
Example exh_path_six :
  exec2_generic exh_ctx exh_b = Ok (VNodes [3; 5]) /\ exec2_bool exh_ctx exh_b = Ok true /\
  exec2_str exh_ctx exh_b [120]%N = Ok [120]%N /\ exec2_chars exh_ctx exh_b [] = Ok [] /\
  exec2_nodelist exh_ctx exh_b = Ok [3; 5] /\
  exec2_num exh_ctx (EFunc s_string_length [exh_b]) = exec2_num exh_ctx (ENumLit [48]%N).
Proof. vm_compute. repeat split; reflexivity. Qed.

(* the [aware] flag is not decoration: locationPath(.., XalanDOMString&) converting through
   XObject::string(list, result) instead of XObject::string(list, executionContext, result) appends
   the stripped blank *)
Example exh_context_free_string_differs :
  run2_s (execs2 3) exh_ctx exh_b (AppS (SOfNodes true LSteps)) [] = Ok [] /\
  run2_s (execs2 3) exh_ctx exh_b (AppS (SOfNodes false LSteps)) [] = Ok [32]%N /\
  run2_s (execs2 3) exh_ctx (EVar [] [118]%N) (AppS (SOfObj true OVariable)) [] = Ok [] /\
  run2_s (execs2 3) exh_ctx (EVar [] [118]%N) (AppS (SOfObj false OVariable)) [] = Ok [32]%N.
Proof. vm_compute. repeat split; reflexivity. Qed.

(* variable(..)->num() instead of ->num(executionContext): XObject::num() of a boolean is
   toDouble("true"), not 1 *)
Example exh_context_free_num_differs :
  let c := mkCtx exh_doc 1 [1] [([], [118]%N, VBool true)] (fun _ _ => false) in
  run2_n (execs2 3) c (EVar [] [118]%N) (WrN (NOfObj true OVariable)) = Ok d_one /\
  run2_n (execs2 3) c (EVar [] [118]%N) (WrN (NOfObj false OVariable)) = Ok d_nan.
Proof. vm_compute. split; reflexivity. Qed.

(* a Union(.., bool&) that only looks whether an operand fills the list (instead of building the
   union) drops operands that return an object: ($v | z) would be false *)
Example exh_union_any_fills_differs :
  let e := EUnion [EVar [] [118]%N; exh_z] in
  run2_b (execs2 4) exh_ctx e (WrB BAnyOperandFills) = Ok false /\
  run2_b (execs2 4) exh_ctx e (body_bool OP_UNION) = Ok true /\
  exec2_generic exh_ctx e = Ok (VNodes [3; 5]).
Proof. vm_compute. repeat split; reflexivity. Qed.

(* short circuit: true() or $undefined is true through the boolean entry point and generally *)
Example exh_short_circuit :
  let e := EOr (EFunc s_true_fn []) (EVar [] [117]%N) in
  exec2_bool exh_ctx e = Ok true /\ exec2_generic exh_ctx e = Ok (VBool true) /\
  forget (exec2_bool exh_ctx (EVar [] [117]%N)) = None.
Proof. vm_compute. repeat split; reflexivity. Qed.
