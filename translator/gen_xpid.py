"""C02 (id() mechanism, family xpid) — facts of the element-by-ID table and of FunctionID consumed by
coq/XpIdDefs.v / XpIdModel.v (GenXpId.v).  Regenerated from /repo on every run; fail closed.

  XalanSourceTreeDocument::createAttributes
      - exactly ONE place of the file registers elements in m_elementsByID; it is in the SAX2
        (AttributesType) overload; the SAX1 (AttributeListType) overload registers nothing
      - the test on theAttributes.getType(i): the characters compared, in order, and whether the comparison
        ends with the terminator (whole-string comparison) or not (prefix test).  Recognised shapes:
           *t == c0 && *++t == c1 && ... [&& *++t == 0]          (pointer walk)
           t[0] == c0 && t[1] == c1 && ... [&& t[n] == 0]         (indexed)
           equals(t, <array>) / compare(...) == 0                  (whole string)
        anything else: AnchorError
      - the map is filled with insert() (an existing key keeps its element) and not with operator[]
      - the key is the attribute's value, the mapped element is theOwnerElement
  XalanSourceTreeDocument::getElementById: find(); a missing key (or an empty map) gives 0
  FunctionID::execute: StringTokenizer over the argument string with the DEFAULT delimiters
      (StringTokenizer::s_defaultTokens, read from StringTokenizer.cpp), every token looked up with
      getElementById, found nodes added with addNodeInDocOrder, a single token short-cut to createNodeSet(node)
  FunctionIDXObjectTypeCallback::NodeSet: for every node of the argument, ascending, its string-value followed
      by one separator character (read from the source) is appended to the string that is tokenised."""
import re
import srcfacts
from srcfacts import AnchorError, need, read, strip_comments, function_body, HEADER


def _squeeze(s):
    s = re.sub(r"\s+", " ", s).strip()
    return re.sub(r"(?<![A-Za-z0-9_]) | (?![A-Za-z0-9_])", "", s)


def _norm(s):
    return _squeeze(strip_comments(s))


def _lit(snippet):
    return re.escape(_squeeze(snippet))


def _unicode_table():
    txt = read("PlatformSupport/XalanUnicode.hpp")
    tbl = {}
    for m in re.finditer(r"\b(char\w+)\s*=\s*(0x[0-9A-Fa-f]+|\d+)\s*;", txt):
        tbl[m.group(1)] = int(m.group(2), 0)
    if len(tbl) < 100:
        raise AnchorError("XalanUnicode.hpp: character constants not found")
    return tbl


def _char(tbl, name, what):
    m = re.fullmatch(r"XalanUnicode::(char\w+)", name)
    if m and m.group(1) in tbl:
        return tbl[m.group(1)]
    if re.fullmatch(r"0x[0-9A-Fa-f]+|\d+", name):
        return int(name, 0)
    m = re.fullmatch(r"(?:XalanDOMChar\()?'(.)'\)?", name)
    if m:
        return ord(m.group(1))
    raise AnchorError("%s: unrecognised character constant %r" % (what, name))


def _overload_bodies(text):
    """bodies of the createAttributes overloads, keyed by the type of the SAX attribute parameter"""
    out = {}
    for m in re.finditer(r"\nXalanSourceTreeDocument::createAttributes\s*\(([^)]*)\)\s*\{", text):
        params = _squeeze(m.group(1))
        i = text.index("{", m.end() - 1)
        depth = 0
        for j in range(i, len(text)):
            if text[j] == "{":
                depth += 1
            elif text[j] == "}":
                depth -= 1
                if depth == 0:
                    break
        else:
            raise AnchorError("createAttributes: unbalanced braces")
        out.setdefault(params, text[i:j + 1])
    return out


def _type_test(cond, var, tbl):
    """cond: the squeezed condition of the `if` guarding m_elementsByID.insert; returns (chars, terminated)"""
    what = "createAttributes: ID type test"
    parts = cond.split("&&")
    chars, terminated = [], False
    # pointer walk
    if re.fullmatch(r"\*%s==(.+)" % var, parts[0]):
        for k, p in enumerate(parts):
            m = re.fullmatch((r"\*%s==(.+)" if k == 0 else r"\*\+\+%s==(.+)") % var, p)
            if not m:
                raise AnchorError(what + ": unrecognised conjunct " + p)
            c = _char(tbl, m.group(1), what)
            if c == 0:
                if k != len(parts) - 1:
                    raise AnchorError(what + ": terminator compared before the end")
                terminated = True
            else:
                chars.append(c)
        return chars, terminated
    # indexed
    if re.fullmatch(r"%s\[0\]==(.+)" % var, parts[0]):
        for k, p in enumerate(parts):
            m = re.fullmatch(r"%s\[(\d+)\]==(.+)" % var, p)
            if not m or int(m.group(1)) != k:
                raise AnchorError(what + ": unrecognised conjunct " + p)
            c = _char(tbl, m.group(2), what)
            if c == 0:
                if k != len(parts) - 1:
                    raise AnchorError(what + ": terminator compared before the end")
                terminated = True
            else:
                chars.append(c)
        return chars, terminated
    raise AnchorError(what + ": unrecognised shape " + cond[:120])


def gen_xpid():
    tbl = _unicode_table()
    src = strip_comments(read("XalanSourceTree/XalanSourceTreeDocument.cpp"))
    # ---- the element-by-ID table is written in exactly one place
    writes = re.findall(r"m_elementsByID\s*(?:\.\s*insert\s*\(|\[)", src)
    if len(writes) != 1:
        raise AnchorError("XalanSourceTreeDocument.cpp: expected exactly one write to m_elementsByID, found %d" % len(writes))
    keeps_first = "insert" in writes[0]
    bodies = _overload_bodies(src)
    sax2 = [b for p, b in bodies.items() if "const AttributesType&theAttributes" in p and "theStartIndex" in p]
    sax1 = [b for p, b in bodies.items() if "const AttributeListType&attrs" in p and "theStartIndex" in p]
    if len(sax2) != 1 or len(sax1) != 1:
        raise AnchorError("createAttributes: the SAX1 / SAX2 index-returning overloads were not both found")
    if "m_elementsByID" in sax1[0]:
        raise AnchorError("createAttributes(AttributeListType): registers IDs (the model assumes only the SAX2 overload does)")
    b2 = _norm(sax2[0])
    if "m_elementsByID" not in b2:
        raise AnchorError("createAttributes(AttributesType): m_elementsByID is not written here")
    m = need(r"const XalanDOMChar\*(?:const )?(\w+)=theAttributes\.getType\(i\);", b2, "createAttributes: theType = theAttributes.getType(i)", 0)
    var = m.group(1)
    m = need(r"if\(((?:(?!\{).)*?)\)\{m_elementsByID\.(insert\(ElementByIDMapType::value_type\(|\[)(.*?)\);\}", b2,
             "createAttributes: if (<type test>) { m_elementsByID.insert(value_type(...)) }", 0)
    cond, payload = m.group(1), m.group(3)
    if "assert(" in cond or "||" in cond:
        raise AnchorError("createAttributes: unrecognised ID type test " + cond[:120])
    chars, terminated = _type_test(cond, var, tbl)
    # between the declaration of the pointer and the test it must not be moved
    between = b2[b2.index(var + "=theAttributes.getType(i);"):b2.index("if(" + cond)]
    if re.search(r"(\+\+|--)%s|%s(\+\+|--|\+=|-=|=)" % (var, var), between.replace(var + "=theAttributes.getType(i);", "", 1)):
        raise AnchorError("createAttributes: the type pointer is modified before the test")
    if keeps_first:
        if _squeeze(payload) != _squeeze("theAttributeVector[theStartIndex]->getValue().c_str(), theOwnerElement)"):
            raise AnchorError("createAttributes: unexpected key/element registered: " + payload[:120])
    need(_lit("for (XalanSize_t i = 0; i < theSAXAttributeCount; ++i)"), b2, "createAttributes: ascending loop over the SAX attributes", 0)
    # ---- lookup
    ge = _norm(function_body(src, r"\nXalanSourceTreeDocument::getElementById\s*\([^)]*\)\s*const\s*\{", "XalanSourceTreeDocument::getElementById"))
    need(_lit("m_elementsByID.find(elementId.c_str());"), ge, "getElementById: find(elementId)", 0)
    need(_lit("if (i == m_elementsByID.end()) { return 0; } else { return (*i).second; }"), ge, "getElementById: missing key gives 0, otherwise the mapped element", 0)
    # ---- FunctionID
    fid_src = strip_comments(read("XPath/FunctionID.cpp"))
    ex = _norm(function_body(fid_src, r"\nFunctionID::execute\s*\([^)]*\)\s*const\s*\{", "FunctionID::execute"))
    need(_lit("StringTokenizer theTokenizer(theResultString);"), ex, "FunctionID::execute: StringTokenizer with the default delimiters", 0)
    hpp = _norm(read("PlatformSupport/StringTokenizer.hpp"))
    need(r"StringTokenizer\(const XalanDOMString&theString,const XalanDOMChar\*theTokens=s_defaultTokens,bool fReturnTokens=false\)",
         hpp, "StringTokenizer(string, tokens = s_defaultTokens, fReturnTokens = false)", 0)
    st = strip_comments(read("PlatformSupport/StringTokenizer.cpp"))
    m = need(r"\bStringTokenizer::s_defaultTokens\s*\[\s*\]\s*=\s*\{(.*?)\}\s*;", st, "StringTokenizer::s_defaultTokens")
    delims = [_char(tbl, x.strip(), "s_defaultTokens") for x in m.group(1).split(",") if x.strip()]
    if not delims or delims[-1] != 0 or 0 in delims[:-1]:
        raise AnchorError("StringTokenizer::s_defaultTokens is not a 0-terminated array")
    delims = delims[:-1]
    need(_lit("if (theResultString.empty() == true) { return executionContext.getXObjectFactory().createNodeSet(0); }"), ex,
         "FunctionID::execute: empty argument string gives the empty node-set", 0)
    need(_lit("StringTokenizer::size_type theTokenCount = theTokenizer.countTokens();"), ex, "FunctionID::execute: countTokens()", 0)
    need(_lit("if (theTokenCount == 1) { theTokenizer.nextToken(theToken); return executionContext.getXObjectFactory().createNodeSet(theDocContext->getElementById(theToken)); }"),
         ex, "FunctionID::execute: single-token short cut", 0)
    need(_lit("while(theTokenCount-- > 0) { theTokenizer.nextToken(theToken); if (theToken.empty() == false) { XalanNode* const theNode = theDocContext->getElementById(theToken);"
              " if (theNode != 0) { theNodeList->addNodeInDocOrder(theNode, executionContext); } } }"),
         ex, "FunctionID::execute: every token is looked up and the element added in document order", 0)
    ns = _norm(function_body(fid_src, r"FunctionIDXObjectTypeCallback::NodeSet\s*\([^)]*\)\s*\{", "FunctionIDXObjectTypeCallback::NodeSet"))
    m = need(_lit("for (NodeRefListBase::size_type i = 0 ; i < theNodeCount; i++) { DOMServices::getNodeData(*theValue.item(i), m_executionContext, m_resultString); m_resultString.append(1,")
             + r"(XalanUnicode::char\w+)\);\}", ns, "FunctionID NodeSet callback: string-value of every node followed by a separator", 0)
    sep = _char(tbl, m.group(1), "FunctionID NodeSet separator")
    for cb in ("Number", "Boolean", "String"):
        body = _norm(function_body(fid_src, r"FunctionIDXObjectTypeCallback::%s\s*\([^)]*\)\s*\{" % cb, "FunctionIDXObjectTypeCallback::" + cb))
        need(_lit("m_resultString = theXObject.str(m_executionContext);"), body, "FunctionID %s callback: the string conversion of the argument" % cb, 0)
    facts = {"type_chars": chars, "type_terminated": terminated, "keeps_first": keeps_first, "delims": delims, "sep": sep}
    nl = lambda xs: "[" + "; ".join("%d%%N" % x for x in xs) + "]"
    b = lambda v: "true" if v else "false"
    text = HEADER + "\n".join([
        "From Coq Require Import List NArith Bool.", "Import ListNotations.", "",
        "(* XalanSourceTreeDocument::createAttributes (SAX2 overload; the only writer of m_elementsByID):",
        "   the characters theAttributes.getType(i) is compared with, in order ... *)",
        "Definition gen_id_type_chars : list N := %s." % nl(chars),
        "(* ... and whether the comparison ends with the terminator (true: the WHOLE type string must be these",
        "   characters; false: they only have to be a prefix of it) *)",
        "Definition gen_id_type_terminated : bool := %s." % b(terminated),
        "(* the map is filled with insert(): a value that is already a key keeps its element (false: operator[]) *)",
        "Definition gen_id_insert_keeps_first : bool := %s." % b(keeps_first),
        "(* PlatformSupport/StringTokenizer.cpp s_defaultTokens: what FunctionID::execute splits its argument on *)",
        "Definition gen_idfn_delims : list N := %s." % nl(delims),
        "(* FunctionIDXObjectTypeCallback::NodeSet: the character appended after every node's string-value *)",
        "Definition gen_idfn_nodeset_separator : N := %d%%N." % sep, ""])
    return text, facts


GENERATORS = {"GenXpId": gen_xpid}
