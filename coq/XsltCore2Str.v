(* C01 core2: the fix-up loops of ElemComment::endElement ("--", trailing "-") and ElemPI::endElement ("?>"): they are
   the identity on strings without the offending sequences, and their output never contains one. *)
From Coq Require Import List NArith Bool Arith Lia.
Require Import XV.XsltEventsDefs XV.XsltCoreDefs XV.XsltCore2Defs.
Import ListNotations.

Lemma fix_comment_id : forall s, comment_ok s = true -> fix_comment s = s.
Proof.
  unfold comment_ok. induction s as [|c r IH]; intros H; auto.
  apply andb_true_iff in H. destruct H as [H1 H2]. apply negb_true_iff in H1. apply negb_true_iff in H2.
  cbn [has_double_hyphen] in H1. apply orb_false_iff in H1. destruct H1 as [H1a H1b].
  assert (Hr : r <> [] -> fix_comment r = r).
  { intros Hne. apply IH. rewrite H1b. destruct r as [|d0 r0]; try congruence. change (ends_with_hyphen (d0 :: r0) = false) in H2. rewrite H2. reflexivity. }
  cbn [fix_comment]. destruct (N.eqb c c_hyphen) eqn:Ec.
  - destruct r as [|d r'].
    + cbn [ends_with_hyphen] in H2. congruence.
    + cbn [hd_is andb] in H1a. rewrite H1a. f_equal. apply Hr. discriminate.
  - f_equal. destruct r; auto. apply Hr. discriminate.
Qed.

Lemma fix_comment_head : forall c r, exists r', fix_comment (c :: r) = c :: r'.
Proof.
  intros. cbn [fix_comment]. destruct (N.eqb c c_hyphen); [destruct r as [|d r']; [|destruct (N.eqb d c_hyphen)]|]; eexists; reflexivity.
Qed.

Lemma hd_is_fix_comment : forall x r, r <> [] -> hd_is x (fix_comment r) = hd_is x r.
Proof. intros x r H. destruct r as [|d r']; try congruence. destruct (fix_comment_head d r') as [q Hq]. rewrite Hq. reflexivity. Qed.

Lemma fix_comment_wf : forall s, comment_ok (fix_comment s) = true.
Proof.
  unfold comment_ok.
  assert (X : forall s, has_double_hyphen (fix_comment s) = false /\ ends_with_hyphen (fix_comment s) = false).
  { induction s as [|c r IH]. { split; reflexivity. }
    destruct IH as [I1 I2].
    cbn [fix_comment]. destruct (N.eqb c c_hyphen) eqn:Ec.
    - destruct r as [|d r'].
      + split. { cbn [has_double_hyphen hd_is]. change (N.eqb c_space c_hyphen) with false. rewrite !andb_false_r. reflexivity. }
        cbn [ends_with_hyphen]. reflexivity.
      + destruct (fix_comment_head d r') as [q Hq].
        destruct (N.eqb d c_hyphen) eqn:Ed.
        * split.
          -- cbn [has_double_hyphen hd_is]. change (N.eqb c_space c_hyphen) with false. rewrite !andb_false_r. cbn [andb orb]. exact I1.
          -- cbn [ends_with_hyphen]. rewrite Hq in *. exact I2.
        * split.
          -- cbn [has_double_hyphen]. rewrite hd_is_fix_comment by discriminate. cbn [hd_is]. rewrite Ed. rewrite andb_false_r. exact I1.
          -- cbn [ends_with_hyphen]. rewrite Hq in *. exact I2.
    - split.
      + cbn [has_double_hyphen]. rewrite Ec. exact I1.
      + cbn [ends_with_hyphen]. destruct r as [|d r']. { exact Ec. }
        destruct (fix_comment_head d r') as [q Hq]. rewrite Hq in *. exact I2. }
  intros s. destruct (X s) as [A B]. rewrite A, B. reflexivity.
Qed.

Lemma fix_pi_id : forall s, pi_ok_data s = true -> fix_pi s = s.
Proof.
  induction s as [|c r IH]; intros H; auto.
  cbn [pi_ok_data] in H. apply andb_true_iff in H. destruct H as [H1 H2]. apply negb_true_iff in H1.
  cbn [fix_pi]. destruct (N.eqb c c_qmark) eqn:Ec.
  - destruct r as [|d r']. reflexivity.
    cbn [hd_is andb] in H1. rewrite H1. f_equal. apply IH. exact H2.
  - f_equal. apply IH. exact H2.
Qed.

Lemma fix_pi_head : forall c r, exists r', fix_pi (c :: r) = c :: r'.
Proof.
  intros. cbn [fix_pi]. destruct (N.eqb c c_qmark); [destruct r as [|d r']; [|destruct (N.eqb d c_gt)]|]; eexists; reflexivity.
Qed.

Lemma hd_is_fix_pi : forall x r, r <> [] -> hd_is x (fix_pi r) = hd_is x r.
Proof. intros x r H. destruct r as [|d r']; try congruence. destruct (fix_pi_head d r') as [q Hq]. rewrite Hq. reflexivity. Qed.

Lemma fix_pi_wf : forall s, pi_ok_data (fix_pi s) = true.
Proof.
  assert (X : forall n s, length s <= n -> pi_ok_data (fix_pi s) = true).
  { induction n; intros s Hl.
    - destruct s; simpl in Hl; try lia. reflexivity.
    - destruct s as [|c r]. reflexivity.
      simpl in Hl. cbn [fix_pi]. destruct (N.eqb c c_qmark) eqn:Ec.
      + destruct r as [|d r'].
        * cbn [pi_ok_data hd_is]. rewrite andb_false_r. reflexivity.
        * destruct (N.eqb d c_gt) eqn:Ed.
          -- simpl in Hl. cbn [pi_ok_data hd_is]. change (N.eqb c_space c_gt) with false. rewrite andb_false_r. cbn [negb andb].
             change (N.eqb c_space c_qmark) with false. cbn [negb andb].
             assert (Edq : N.eqb d c_qmark = false). { apply N.eqb_eq in Ed. subst d. reflexivity. }
             rewrite Edq. cbn [negb andb]. apply IHn. lia.
          -- cbn [pi_ok_data]. rewrite hd_is_fix_pi by discriminate. cbn [hd_is]. rewrite Ed. rewrite andb_false_r. cbn [negb andb].
             apply IHn. simpl in *. lia.
      + cbn [pi_ok_data]. rewrite Ec. cbn [negb andb]. apply IHn. lia. }
  intros s. exact (X (length s) s (le_n _)).
Qed.
