(* model side of the C12 correspondence: same line protocol as harness/nodelist.cpp (modes L and P) *)
let split_on c s = String.split_on_char c s

(* shape "<na>(<children>)" -> tree *)
let parse_shape (s : string) : tree =
  let n = String.length s in
  let pos = ref 0 in
  let rec node () =
    let st = !pos in
    while !pos < n && s.[!pos] >= '0' && s.[!pos] <= '9' do incr pos done;
    let na = int_of_string (String.sub s st (!pos - st)) in
    if !pos >= n || s.[!pos] <> '(' then failwith "shape";
    incr pos;
    let kids = ref [] in
    while !pos < n && s.[!pos] <> ')' do kids := node () :: !kids done;
    if !pos >= n then failwith "shape";
    incr pos;
    Node (nat_of_int na, List.rev !kids)
  in
  let t = node () in
  if !pos <> n then failwith "shape"; t

type doc = { tree : tree; indexed : bool; nodes : rnode array }

let parse_doc (field : string) : doc =
  match split_on ':' field with
  | kind :: shape :: _ ->
      let t = parse_shape shape in
      let nodes = Array.of_list (all_nodes t) in
      Array.iteri (fun i nd -> if int_of_nat (index t nd) <> i || not (valid t nd) then failwith "numbering") nodes;
      { tree = t; indexed = (kind <> "xn"); nodes }
  | _ -> failwith "doc"

let () =
  let ic = if Array.length Sys.argv > 1 then open_in Sys.argv.(1) else stdin in
  iter_lines ic (fun line ->
    if line <> "" && line.[0] <> '#' then
    match split_on '|' line with
    | id :: mode :: rest when List.length rest >= 2 && mode <> "X" ->
      (try
        let rec splitlast = function [x] -> ([], x) | x :: r -> let (a, b) = splitlast r in (x :: a, b) | [] -> ([], "") in
        let (docfs, opsf) = splitlast rest in
        let docs = Array.of_list (List.map parse_doc docfs) in
        let w : world = Array.to_list (Array.map (fun d -> (d.tree, d.indexed)) docs) in
        let opsf = String.sub opsf 2 (String.length opsf - 2) in
        (* index -> position in the doc's pre-order table *)
        let tbl = Hashtbl.create 64 in
        Array.iteri (fun d dc -> Array.iteri (fun i nd -> Hashtbl.replace tbl (d, nd) i) dc.nodes) docs;
        let node_of (s : string) : lnode option =
          match split_on '.' s with
          | [a; b] -> let d = int_of_string a and i = int_of_string b in
                      if d < Array.length docs && i < Array.length docs.(d).nodes then Some (nat_of_int d, docs.(d).nodes.(i)) else None
          | _ -> None in
        let show_node ((d, nd) : lnode) = let di = int_of_nat d in Printf.sprintf "%d.%d" di (Hashtbl.find tbl (di, nd)) in
        let state (l : nlist) =
          (match l.ord with Unknown -> "U" | DocOrder -> "D" | RevOrder -> "R") ^ ":" ^ String.concat "," (List.map show_node l.items) in
        if mode = "P" then begin
          let one () = Array.to_list (Array.mapi (fun d dc ->
            let b = Buffer.create 256 in
            let n = Array.length dc.nodes in
            for i = 1 to n - 1 do for j = 1 to n - 1 do
              Buffer.add_char b (if isNodeAfter w (nat_of_int d, dc.nodes.(i)) (nat_of_int d, dc.nodes.(j)) then '1' else '0') done done;
            Buffer.contents b) docs) in
          Printf.printf "%s %s\n" id (String.concat ";" (one () @ one ()))
        end else begin
          let regs = Array.make 3 { items = []; ord = Unknown } in
          let outs = ref [] in
          let fuel_out = ref false in
          List.iter (fun op ->
            if op <> "" then begin
              let c = op.[0] in
              let (head, arg) = match String.index_opt op ':' with
                | Some k -> (String.sub op 0 k, String.sub op (k + 1) (String.length op - k - 1))
                | None -> (op, "") in
              let r = Char.code (if c = 's' then head.[2] else head.[1]) - 48 in
              if r < 0 || r > 2 then outs := "bad" :: !outs else begin
              let l = regs.(r) in
              let set v = regs.(r) <- v; outs := state v :: !outs in
              let seto v = match v with Some x -> set x | None -> (fuel_out := true; outs := "fuel" :: !outs) in
              (match c with
               | 'a' -> (match node_of arg with Some n -> seto (nl_addInOrder w l n) | None -> set l)
               | 'p' -> (match node_of arg with Some n -> set (nl_addNode l n) | None -> set l)
               | 'm' | 'b' ->
                   let s = Char.code arg.[0] - 48 in
                   if s < 0 || s > 2 || s = r then outs := "bad" :: !outs
                   else if c = 'm' then seto (addNodesInDocOrder w l regs.(s))
                   else seto (match List.fold_left (add_step w) (Some l.items) regs.(s).items with
                              | Some it -> Some { items = it; ord = l.ord } | None -> None)
               | 'r' -> set (nl_reverse l)
               | 'c' -> set (nl_clear l)
               | 'f' -> set (nl_flagIfSorted w l)
               | 's' -> set { items = l.items; ord = (match head.[1] with 'D' -> DocOrder | 'R' -> RevOrder | _ -> Unknown) }
               | 'n' ->
                   let ps = List.filter_map (fun x -> if x = "" then None else Some (nat_of_int (int_of_string x))) (split_on ',' arg) in
                   set (nl_nullClear l ps)
               | _ -> outs := "bad" :: !outs)
              end
            end) (split_ws opsf);
          Printf.printf "%s %s\n" id (String.concat ";" (List.rev !outs))
        end
      with Failure m -> Printf.printf "%s modelerror:%s\n" id m
         | Not_found -> Printf.printf "%s modelerror:notfound\n" id
         | Invalid_argument m -> Printf.printf "%s modelerror:%s\n" id m)
    | _ -> ())
