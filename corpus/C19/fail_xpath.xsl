<?xml version="1.0"?>
<xsl:stylesheet version="1.0" xmlns:xsl="http://www.w3.org/1999/XSL/Transform">
  <xsl:key name="cust" match="cust" use="@id"/>
  <xsl:template match="/">
    <r><xsl:for-each select="orders/order"><xsl:sort select="@id"/>
      <xsl:variable name="t"><o><xsl:value-of select="key('cust', @cust)/@name"/></o></xsl:variable>
      <xsl:copy-of select="$t"/>
      <xsl:if test="position() = 2"><xsl:value-of select="key('nokey', @cust)"/></xsl:if>
    </xsl:for-each></r>
  </xsl:template>
</xsl:stylesheet>
