(* C08 part "html": FormatterToHTML (src/xalanc/XMLSupport/FormatterToHTML.cpp over FormatterToXML.cpp) as coded,
   with indenting off (m_doIndent = false), and a small HTML reader written from HTML 4.01 (tokenizer: data, tags,
   double-quoted attribute values, character references, CDATA content of SCRIPT/STYLE ending at the first "</",
   comments, SGML processing instructions "<?...>", the DOCTYPE line; tree builder: explicit nesting, void elements).
   Definitions only.  Strings are lists of UTF-16 code units (N).
   Facts regenerated from /repo: GenHtml.v (entity table, character maps, constants, strings), GenOutopt.v
   (XalanHTMLElementsProperties table). *)
From Coq Require Import NArith List Bool.
Require Import XV.GenOutopt XV.GenHtml XV.HtmlEnt4Defs.
Import ListNotations.
Open Scope N_scope.

Definition str := list N.

Inductive hnode : Type :=
| HEl (name : str) (attrs : list (str * str)) (kids : list hnode)
| HText (s : str)
| HComment (s : str)
| HPI (target data : str).

(* m_maxCharacter of the encoding (0x7F US-ASCII, 0xFF ISO-8859-1, 0xFFFF UTF-8/UTF-16), m_escapeURLs, m_omitMetaTag,
   getEncoding(), doctype-system, doctype-public *)
Record hcfg : Type := mkcfg { maxc : N; esc_urls : bool; omit_meta : bool; enc_name : str; dt_sys : str; dt_pub : str }.

Definition mem (c : N) (l : list N) : bool := existsb (N.eqb c) l.
Fixpoint str_eqb (a b : str) : bool :=
  match a, b with
  | [], [] => true
  | x :: a', y :: b' => (x =? y) && str_eqb a' b'
  | _, _ => false
  end.
Definition up (c : N) : N := if (97 <=? c) && (c <=? 122) then c - 32 else c.
Definition low (c : N) : N := if (65 <=? c) && (c <=? 90) then c + 32 else c.

(* ---- XalanHTMLElementsProperties::find / ElementProperties::is / isAttribute (case-insensitive; table upper-case) *)
Definition elem_find (name : str) : option (N * list (str * N)) :=
  match find (fun e => str_eqb (fst (fst e)) (map up name)) html_elements with
  | Some (_, fl, at_) => Some (fl, at_)
  | None => None
  end.
Definition elem_is (flag : N) (name : str) : bool :=
  match elem_find name with Some (fl, _) => negb (N.land fl flag =? 0) | None => false end.
Definition attr_is (flag : N) (elem attr : str) : bool :=
  match elem_find elem with
  | Some (_, at_) =>
      match find (fun a => str_eqb (fst a) (map up attr)) at_ with
      | Some (_, fl) => negb (N.land fl flag =? 0)
      | None => false
      end
  | None => false
  end.

(* ---- numbers ------------------------------------------------------------------------------------------- *)
Fixpoint digits_rev (fuel : nat) (n : N) : list N :=
  match fuel with
  | O => []
  | S f => if n <? 10 then [48 + n] else (48 + n mod 10) :: digits_rev f (n / 10)
  end.
Definition decimal (n : N) : str := rev (digits_rev 20 n).          (* NumberToDOMString *)
Definition hexdig (d : N) : N := if d <? 10 then 48 + d else 55 + d.   (* 'A' - 10 *)
Fixpoint hex_rev (fuel : nat) (n : N) : list N :=
  match fuel with
  | O => []
  | S f => if n <? 16 then [hexdig n] else hexdig (n mod 16) :: hex_rev f (n / 16)
  end.
(* accumHexNumber: '%', a '0' when NumberToHexDOMString gave one digit, the digits *)
Definition hexnum (n : N) : str :=
  let d := rev (hex_rev 8 n) in 37 :: (match d with [_] => [48] | _ => [] end) ++ d.

Definition is_high (c : N) : bool := (55296 <=? c) && (c <? 56320).
Definition is_lowsur (c : N) : bool := (56320 <=? c) && (c <? 57344).
Definition pair_cp (hi lo : N) : N := (hi - 55296) * 1024 + (lo - 56320) + 65536.

(* ---- accumContent / accumName on one unit (narrow encodings: ...AsChar; UTF: as it is, maxc = 0xFFFF) ---- *)
Definition numref (n : N) : str := [38; 35] ++ decimal n ++ [59].
Definition content_unit (c : hcfg) (ch : N) : str := if maxc c <? ch then numref ch else [ch].
Definition acc_content (c : hcfg) (s : str) : str := flat_map (content_unit c) s.
Definition acc_name (c : hcfg) (s : str) : str := map (fun ch => if maxc c <? ch then name_substitute else ch) s.

(* ---- the two character maps ('S' entries), from the regenerated construction steps.  memset(m_charsMap, 'S', 10)
   fills 10 bytes of an array of 16-bit units: five units become 0x5353, which no test takes for 'S' --------- *)
Definition attr_S (ch : N) : bool :=
  negb (mem ch attr_unset) &&
  (mem ch attr_special_default || mem ch [9; 10; 13] || ((attr_ctl_from <=? ch) && (ch <? attr_ctl_below)) ||
   ((attr_c1_from <=? ch) && (ch <=? attr_c1_to)) || (attr_high_from <=? ch)).
Definition text_S (c : hcfg) (ch : N) : bool :=
  mem ch text_special_list || ((dom_char_bytes =? 1) && (ch <? text_low_memset_bytes)) || (text_high_from <=? ch) || (maxc c <=? ch).

Fixpoint assoc (ch : N) (t : list (N * str)) : option str :=
  match t with
  | [] => None
  | (k, v) :: t' => if k =? ch then Some v else assoc ch t'
  end.
(* FormatterToHTML::accumDefaultEntity(ch, true): the XML five first (LF is not one of them when escLF), then s_entities *)
Definition default_entity (ch : N) : option str :=
  match assoc ch xml_entities with
  | Some n => Some (38 :: n ++ [59])
  | None => match assoc ch html_entities with
            | Some n => Some (38 :: n ++ [59])
            | None => None
            end
  end.

Definition newline : str := newline_units.

(* None = an exception is thrown (unpaired surrogate) *)
Definition opt_app (a : str) (o : option str) : option str := match o with Some b => Some (a ++ b) | None => None end.

(* FormatterToHTML::writeCharacters *)
Fixpoint write_chars (c : hcfg) (s : str) : option str :=
  match s with
  | [] => Some []
  | ch :: r =>
      if (ch <? specials_size) && negb (text_S c ch) then opt_app [ch] (write_chars c r)
      else if ch =? 10 then opt_app newline (write_chars c r)
      else match default_entity ch with
           | Some e => opt_app e (write_chars c r)
           | None =>
               if is_high ch then
                 match r with
                 | [] => None
                 | next :: r' => if is_lowsur next then opt_app (numref (pair_cp ch next)) (write_chars c r') else None
                 end
               else if (text_literal_from <=? ch) && (ch <=? maxc c) then opt_app (content_unit c ch) (write_chars c r)
               else opt_app (numref ch) (write_chars c r)
           end
  end.

(* FormatterToHTML::writeAttrString *)
Fixpoint write_attr (s : str) : option str :=
  match s with
  | [] => Some []
  | ch :: r =>
      if (ch <? specials_size) && negb (attr_S ch) then opt_app [ch] (write_attr r)
      else if (ch =? 38) && (match r with 123 :: _ => true | _ => false end) then opt_app [38] (write_attr r)
      else match default_entity ch with
           | Some e => opt_app e (write_attr r)
           | None =>
               if is_high ch then
                 match r with
                 | [] => None
                 | next :: r' =>
                     if is_lowsur next
                     then opt_app (numref (if attr_pair_is_one_reference then pair_cp ch next else (pair_cp ch next) mod 65536)) (write_attr r')
                     else None
                 end
               else opt_app (numref ch) (write_attr r)
           end
  end.

(* FormatterToHTML::writeAttrURI.  theString[++i] at the end of the string reads the terminating 0. *)
Fixpoint write_uri (c : hcfg) (s : str) : str :=
  match s with
  | [] => []
  | ch :: r =>
      if (ch <? uri_plain_from) || (uri_plain_to <? ch) then
        if esc_urls c then
          if ch =? 32 then 32 :: write_uri c r
          else if ch <=? 127 then hexnum ch ++ write_uri c r
          else if ch <=? 2047 then hexnum (N.lor (N.shiftr ch 6) 192) ++ hexnum (N.lor (N.land ch 63) 128) ++ write_uri c r
          else if N.land ch 64512 =? 55296 then
            let nextChar := match r with [] => 0 | n :: _ => n end in
            let highSurrogate := N.land ch 1023 in
            let wwww := N.shiftr (N.land highSurrogate 960) 6 in
            let uuuuu := wwww + 1 in
            let zzzz := N.shiftr (N.land highSurrogate 60) 2 in
            let temp := N.land (N.shiftl (N.land highSurrogate 3) 4) 48 in
            let lowSurrogate := N.land nextChar 1023 in
            let yyyyyy := N.lor temp (N.shiftr (N.land lowSurrogate 960) 6) in
            let xxxxxx := N.land lowSurrogate 63 in
            hexnum (N.lor 240 (N.shiftr uuuuu 2)) ++
            hexnum (N.lor (N.lor 128 (N.land (N.shiftl (N.land uuuuu 3) 4) 48)) zzzz) ++
            hexnum (N.lor 128 yyyyyy) ++ hexnum (N.lor 128 xxxxxx) ++
            (match r with [] => [] | _ :: t => write_uri c t end)
          else hexnum (N.lor (N.shiftr ch 12) 224) ++ hexnum (N.lor (N.shiftr (N.land ch 4032) 6) 128) ++
               hexnum (N.lor (N.land ch 63) 128) ++ write_uri c r
        else if ch <? maxc c then content_unit c ch ++ write_uri c r
        else if uri_noescape_pair_is_one_reference && is_high ch && (match r with n :: _ => is_lowsur n | [] => false end)
        then match r with
             | n :: r' => numref (pair_cp ch n) ++ write_uri c r'
             | [] => []
             end
        else numref ch ++ write_uri c r
      else if ch =? 34 then (if esc_urls c then [37; 50; 50] else [38; 113; 117; 111; 116; 59]) ++ write_uri c r
      else if ch =? 38 then [38; 97; 109; 112; 59] ++ write_uri c r
      else content_unit c ch ++ write_uri c r
  end.

(* FormatterToXML::writeNormalizedChars(.., isCData = false): a unit of the encoding goes out as it is - surrogates only
   as a pair -, anything else as a reference; an unpaired surrogate is an error *)
Fixpoint write_norm (c : hcfg) (s : str) : option str :=
  match s with
  | [] => Some []
  | ch :: r =>
      let general :=
          if ch =? 10 then opt_app newline (write_norm c r)
          else if ch <=? maxc c then
            if (55296 <=? ch) && (ch <? 57344) then
              match r with
              | [] => None
              | next :: r' => if (ch <? 56320) && is_lowsur next
                              then opt_app (content_unit c ch ++ content_unit c next) (write_norm c r') else None
              end
            else opt_app (content_unit c ch) (write_norm c r)
          else if is_lowsur ch then None
          else if is_high ch then
            match r with
            | [] => None
            | next :: r' => if is_lowsur next then opt_app (numref (pair_cp ch next)) (write_norm c r') else None
            end
          else opt_app (numref ch) (write_norm c r) in
      match r with
      | 10 :: r' => if ch =? 13 then opt_app newline (write_norm c r') else general
      | _ => general
      end
  end.

(* equalsIgnoreCaseASCII *)
Definition eq_nocase (a b : str) : bool := str_eqb (map up a) (map up b).

(* FormatterToHTML::processAttribute *)
Definition ser_attr (c : hcfg) (elem : str) (a : str * str) : option str :=
  let (name, value) := a in
  if (match value with [] => true | _ => eq_nocase name value end) && attr_is aflag_ATTREMPTY elem name
  then Some (32 :: acc_name c name)
  else
    match (if attr_is aflag_ATTRURL elem name then Some (write_uri c value) else write_attr value) with
    | Some v => Some (32 :: acc_name c name ++ [61; 34] ++ v ++ [34])
    | None => None
    end.
Fixpoint ser_attrs (c : hcfg) (elem : str) (l : list (str * str)) : option str :=
  match l with
  | [] => Some []
  | a :: l' => match ser_attr c elem a with
               | Some o => opt_app o (ser_attrs c elem l')
               | None => None
               end
  end.

Definition is_xml_ws (ch : N) : bool := mem ch [32; 9; 10; 13].

(* the data of a processing instruction: through writeCharacters (the variant found first) or unit by unit through
   accumContent (repaired); GenHtml.pi_data_is_escaped says which one /repo has *)
Definition pi_data (escaped : bool) (c : hcfg) (d : str) : option str :=
  if escaped then write_chars c d else Some (acc_content c d).

(* writeParentTagEnd: the '>' of the parent's start tag, written when its first child arrives *)
Definition pte (open : bool) : str := if open then [62] else [].

Definition meta_tag (c : hcfg) : str := meta_string ++ acc_content c (enc_name c) ++ [34; 62].

(* One node.  top = m_elementLevel is 0; inscript = m_inScriptElemStack.back(); raw = m_isRawStack non-empty and its
   back(); open = the parent's start tag still lacks its '>' (m_elemStack.back() == false).
   Result: the units written and the new `open` of the parent.  m_nextIsRaw (the PI pair that switches escaping off),
   m_inCData and elements in a namespace are outside this model. *)
Fixpoint ser_node (c : hcfg) (top inscript raw open : bool) (n : hnode) : option (str * bool) :=
  match n with
  | HText s =>
      match s with
      | [] => Some ([], open)
      | _ => match (if inscript then Some (acc_content c s) else if raw then write_norm c s else write_chars c s) with
             | Some o => Some (pte open ++ o, false)
             | None => None
             end
      end
  | HComment s => Some (pte open ++ [60; 33; 45; 45] ++ acc_name c s ++ [45; 45; 62], false)
  | HPI t d =>
      match (match d with
             | [] => Some []
             | d0 :: _ => opt_app (if is_xml_ws d0 then [] else [32]) (pi_data pi_data_is_escaped c d)
             end) with
      | Some o => Some (pte open ++ [60; 63] ++ acc_name c t ++ o ++ [62] ++ (if top then newline else []), false)
      | None => None
      end
  | HEl name attrs kids =>
      match ser_attrs c name attrs with
      | None => None
      | Some ao =>
          let head := elem_is flag_HEADELEM name in
          let o1 := pte open ++ [60] ++ acc_name c name ++ ao in
          let o2 := if head then 62 :: (if omit_meta c then [] else meta_tag c) else [] in
          let inscript' := if elem_is flag_SCRIPTELEM name then true else inscript in
          let raw' := elem_is flag_RAW name in
          match (fix ser_kids (l : list hnode) (op : bool) : option (str * bool) :=
                   match l with
                   | [] => Some ([], op)
                   | k :: l' => match ser_node c false inscript' raw' op k with
                                | Some (o, op1) => match ser_kids l' op1 with
                                                   | Some (o', op2) => Some (o ++ o', op2)
                                                   | None => None
                                                   end
                                | None => None
                                end
                   end) kids (negb head) with
          | None => None
          | Some (ko, open_end) =>
              let empty := elem_is flag_EMPTY name in
              let etag := [60; 47] ++ acc_name c name ++ [62] in
              let o3 := if open_end then (if empty then [62] else 62 :: etag) else (if empty then [] else etag) in
              Some (o1 ++ o2 ++ ko ++ o3, false)
          end
      end
  end.

Fixpoint ser_list (c : hcfg) (top inscript raw : bool) (l : list hnode) (op : bool) : option (str * bool) :=
  match l with
  | [] => Some ([], op)
  | k :: l' => match ser_node c top inscript raw op k with
               | Some (o, op1) => match ser_list c top inscript raw l' op1 with
                                  | Some (o', op2) => Some (o ++ o', op2)
                                  | None => None
                                  end
               | None => None
               end
  end.

(* startDocument: the DOCTYPE line *)
Definition doctype_line (c : hcfg) : str :=
  match dt_sys c, dt_pub c with
  | [], [] => []
  | _, _ =>
      doctype_start ++
      (match dt_pub c with [] => [] | p => doctype_public ++ acc_content c p ++ [34] end) ++
      (match dt_sys c with
       | [] => []
       | s => (match dt_pub c with [] => doctype_system | _ => [] end) ++ [32; 34] ++ acc_content c s ++ [34]
       end) ++ [62] ++ newline
  end.

(* startDocument, the events of the result tree fragment, endDocument (nothing more is written when not indenting) *)
Definition serialize_html (c : hcfg) (doc : list hnode) : option str :=
  match ser_list c true false false doc false with
  | Some (o, _) => Some (doctype_line c ++ o)
  | None => None
  end.

(* ============================================================================================================ *)
(* The reader (HTML 4.01).  Nothing below mentions GenHtml or GenOutopt. *)

Inductive tok : Type :=
| TkChar (ch : N)
| TkStart (name : str) (attrs : list (str * str))
| TkEnd (name : str)
| TkComment (d : str)
| TkPI (t d : str).

Inductive mode : Type :=
| Data
| CharRefD (buf : str)
| TagOpen
| TagName (nm : str)
| BeforeAttr (nm : str) (ats : list (str * str))
| AttrName (nm : str) (ats : list (str * str)) (an : str)
| BeforeVal (nm : str) (ats : list (str * str)) (an : str)
| AttrVal (nm : str) (ats : list (str * str)) (an v : str)
| CharRefA (nm : str) (ats : list (str * str)) (an v buf : str)
| AfterVal (nm : str) (ats : list (str * str))
| EndTagOpen
| EndName (nm : str)
| Bang
| BangDash
| Comment (d : str) (dashes : nat)
| Doctype
| PITarget (t : str)
| PIWs (t : str)
| PIData (t d : str)
| Raw
| RawLt
| Fail.

(* names, attribute names and values, comment data, buffers are kept reversed while they grow *)
Definition pstate : Type := (mode * list tok)%type.   (* tokens reversed *)

Definition is_ws (ch : N) : bool := mem ch [32; 9; 10; 13; 12].
Definition is_letter (ch : N) : bool := ((65 <=? ch) && (ch <=? 90)) || ((97 <=? ch) && (ch <=? 122)).
Definition is_digit (ch : N) : bool := (48 <=? ch) && (ch <=? 57).
Definition is_alnum (ch : N) : bool := is_letter ch || is_digit ch.

(* HTML 4.01: elements declared EMPTY; elements with CDATA content *)
Definition s_of (l : list N) : str := l.
Definition void4 : list str :=
  [ [97;114;101;97]; [98;97;115;101]; [98;97;115;101;102;111;110;116]; [98;114]; [99;111;108]; [102;114;97;109;101]; [104;114];
    [105;109;103]; [105;110;112;117;116]; [105;115;105;110;100;101;120]; [108;105;110;107]; [109;101;116;97]; [112;97;114;97;109] ].
Definition raw4 : list str := [ [115;99;114;105;112;116]; [115;116;121;108;101] ].
Definition in_names (n : str) (l : list str) : bool := existsb (str_eqb n) l.

(* ---- character references *)
Definition dval (ds : str) : N := fold_left (fun a d => a * 10 + (d - 48)) ds 0.
Definition hexval1 (d : N) : N := if is_digit d then d - 48 else if (97 <=? d) && (d <=? 102) then d - 87 else d - 55.
Definition is_hexdigit (d : N) : bool := is_digit d || ((97 <=? d) && (d <=? 102)) || ((65 <=? d) && (d <=? 70)).
Definition hval (ds : str) : N := fold_left (fun a d => a * 16 + hexval1 d) ds 0.
(* the code point a numeric reference denotes: outside the document character set -> U+FFFD; the C1 range the way
   user agents read it (Windows-1252) *)
Definition win1252 : list N :=
  [8364; 129; 8218; 402; 8222; 8230; 8224; 8225; 710; 8240; 352; 8249; 338; 141; 381; 143;
   144; 8216; 8217; 8220; 8221; 8226; 8211; 8212; 732; 8482; 353; 8250; 339; 157; 382; 376].
Definition fix_cp (cp : N) : N :=
  if (cp =? 0) || (1114111 <? cp) || ((55296 <=? cp) && (cp <? 57344)) then 65533
  else if (128 <=? cp) && (cp <=? 159) then nth (N.to_nat (cp - 128)) win1252 65533
  else cp.
Definition units_of_cp (cp : N) : str :=
  if cp <? 65536 then [cp] else [55296 + (cp - 65536) / 1024; 56320 + (cp - 65536) mod 1024].
Fixpoint ent4 (name : str) (t : list (str * N)) : option N :=
  match t with
  | [] => None
  | (k, v) :: t' => if str_eqb k name then Some v else ent4 name t'
  end.
(* the body between '&' and ';' *)
Definition resolve_num (ds : str) : option str :=
  match ds with
  | [] => None
  | x :: hs =>
      if (x =? 120) || (x =? 88) then
        (match hs with [] => None | _ => if forallb is_hexdigit hs then Some (units_of_cp (fix_cp (hval hs))) else None end)
      else if forallb is_digit ds then Some (units_of_cp (fix_cp (dval ds))) else None
  end.
Definition resolve_ref (body : str) : option str :=
  match body with
  | [] => None
  | x :: ds =>
      if x =? 35 then resolve_num ds
      else match ent4 body html4_entities with Some cp => Some (units_of_cp cp) | None => None end
  end.

Definition emit_chars (s : str) (toks : list tok) : list tok := rev (map TkChar s) ++ toks.

Definition emit_start (nm : str) (ats : list (str * str)) (toks : list tok) : pstate :=
  ((if in_names nm raw4 then Raw else Data), TkStart nm (rev ats) :: toks).

Definition step_data (toks : list tok) (ch : N) : pstate :=
  if ch =? 60 then (TagOpen, toks)
  else if ch =? 38 then (CharRefD [], toks)
  else (Data, TkChar ch :: toks).

Definition step_attrval (nm : str) (ats : list (str * str)) (an v : str) (toks : list tok) (ch : N) : pstate :=
  if ch =? 34 then (AfterVal nm ((rev an, rev v) :: ats), toks)
  else if ch =? 38 then (CharRefA nm ats an v [], toks)
  else (AttrVal nm ats an (ch :: v), toks).

Definition step_raw (toks : list tok) (ch : N) : pstate :=
  if ch =? 60 then (RawLt, toks) else (Raw, TkChar ch :: toks).

Definition step (st : pstate) (ch : N) : pstate :=
  let (m, toks) := st in
  match m with
  | Data => step_data toks ch
  | CharRefD buf =>
      if ch =? 59 then
        match resolve_ref (rev buf) with
        | Some us => (Data, emit_chars us toks)
        | None => (Data, emit_chars (38 :: rev buf ++ [59]) toks)
        end
      else if is_alnum ch || ((ch =? 35) && match buf with [] => true | _ => false end) then (CharRefD (ch :: buf), toks)
      else step_data (emit_chars (38 :: rev buf) toks) ch
  | TagOpen =>
      if ch =? 47 then (EndTagOpen, toks)
      else if ch =? 33 then (Bang, toks)
      else if ch =? 63 then (PITarget [], toks)
      else if is_letter ch then (TagName [low ch], toks)
      else step_data (TkChar 60 :: toks) ch
  | TagName nm =>
      if is_ws ch then (BeforeAttr (rev nm) [], toks)
      else if ch =? 62 then emit_start (rev nm) [] toks
      else if ch =? 47 then (Fail, toks)
      else (TagName (low ch :: nm), toks)
  | BeforeAttr nm ats =>
      if is_ws ch then (BeforeAttr nm ats, toks)
      else if ch =? 62 then emit_start nm ats toks
      else if (ch =? 47) || (ch =? 61) || (ch =? 34) then (Fail, toks)
      else (AttrName nm ats [low ch], toks)
  | AttrName nm ats an =>
      (* a minimised attribute is a name token that is the value; name tokens are folded to one case *)
      if ch =? 61 then (BeforeVal nm ats an, toks)
      else if is_ws ch then (BeforeAttr nm ((rev an, rev an) :: ats), toks)
      else if ch =? 62 then emit_start nm ((rev an, rev an) :: ats) toks
      else if (ch =? 47) || (ch =? 34) then (Fail, toks)
      else (AttrName nm ats (low ch :: an), toks)
  | BeforeVal nm ats an =>
      if ch =? 34 then (AttrVal nm ats an [], toks) else (Fail, toks)
  | AttrVal nm ats an v => step_attrval nm ats an v toks ch
  | CharRefA nm ats an v buf =>
      if ch =? 59 then
        match resolve_ref (rev buf) with
        | Some us => (AttrVal nm ats an (rev us ++ v), toks)
        | None => (AttrVal nm ats an (59 :: buf ++ 38 :: v), toks)
        end
      else if is_alnum ch || ((ch =? 35) && match buf with [] => true | _ => false end) then (CharRefA nm ats an v (ch :: buf), toks)
      else step_attrval nm ats an (buf ++ 38 :: v) toks ch
  | AfterVal nm ats =>
      if is_ws ch then (BeforeAttr nm ats, toks)
      else if ch =? 62 then emit_start nm ats toks
      else (Fail, toks)
  | EndTagOpen =>
      if is_letter ch then (EndName [low ch], toks) else (Fail, toks)
  | EndName nm =>
      if ch =? 62 then (Data, TkEnd (rev nm) :: toks)
      else if is_ws ch || (ch =? 47) then (Fail, toks)
      else (EndName (low ch :: nm), toks)
  | Bang => if ch =? 45 then (BangDash, toks) else if ch =? 62 then (Data, toks) else (Doctype, toks)
  | BangDash => if ch =? 45 then (Comment [] 0, toks) else (Fail, toks)
  | Comment d k =>
      match k with
      | O => if ch =? 45 then (Comment d 1, toks) else (Comment (ch :: d) 0, toks)
      | S O => if ch =? 45 then (Comment d 2, toks) else (Comment (ch :: 45 :: d) 0, toks)
      | _ => if ch =? 62 then (Data, TkComment (rev d) :: toks) else (Fail, toks)     (* "--" inside a comment *)
      end
  | Doctype => if ch =? 62 then (Data, toks) else (Doctype, toks)
  | PITarget t =>
      if ch =? 62 then (Data, TkPI (rev t) [] :: toks)
      else if is_ws ch then (PIWs t, toks)
      else (PITarget (ch :: t), toks)
  | PIWs t =>
      if ch =? 62 then (Data, TkPI (rev t) [] :: toks)
      else if is_ws ch then (PIWs t, toks)
      else (PIData t [ch], toks)
  | PIData t d =>
      if ch =? 62 then (Data, TkPI (rev t) (rev d) :: toks) else (PIData t (ch :: d), toks)
  | Raw => step_raw toks ch
  | RawLt => if ch =? 47 then (EndTagOpen, toks) else step_raw (TkChar 60 :: toks) ch
  | Fail => (Fail, toks)
  end.

Definition run (st : pstate) (s : str) : pstate := fold_left step s st.

Definition tokenize (s : str) : option (list tok) :=
  match run (Data, []) s with
  | (Data, toks) => Some (rev toks)
  | _ => None
  end.

(* ---- tree builder: explicit nesting only (no implied tags), void elements take no end tag, text coalesced ---- *)
Definition frame : Type := (str * list (str * str) * list hnode)%type.    (* name, attributes, children so far (reversed) *)

Definition add_char (ch : N) (cur : list hnode) : list hnode :=
  match cur with
  | HText s :: cur' => HText (s ++ [ch]) :: cur'
  | _ => HText [ch] :: cur
  end.

Fixpoint build (toks : list tok) (cur : list hnode) (stack : list frame) : option (list hnode) :=
  match toks with
  | [] => match stack with [] => Some (rev cur) | _ => None end
  | TkChar ch :: r => build r (add_char ch cur) stack
  | TkStart n a :: r => if in_names n void4 then build r (HEl n a [] :: cur) stack else build r [] ((n, a, cur) :: stack)
  | TkEnd n :: r =>
      match stack with
      | (n', a, pc) :: st => if str_eqb n n' then build r (HEl n a (rev cur) :: pc) st else None
      | [] => None
      end
  | TkComment d :: r => build r (HComment d :: cur) stack
  | TkPI t d :: r => build r (HPI t d :: cur) stack
  end.

(* white space outside the document element is not part of the document *)
Definition ws_only_text (n : hnode) : bool := match n with HText s => forallb is_ws s | _ => false end.
Definition parse_html (s : str) : option (list hnode) :=
  match tokenize s with
  | Some toks => match build toks [] [] with
                 | Some f => Some (filter (fun n => negb (ws_only_text n)) f)
                 | None => None
                 end
  | None => None
  end.

(* ============================================================================================================ *)
(* norm: the tree an HTML reader is entitled to see: names folded to lower case, the META element first in HEAD,
   the value of a minimised boolean attribute = its (folded) name *)
Definition head_name : str := [104; 101; 97; 100].
Definition meta_node (c : hcfg) : hnode :=
  HEl [109; 101; 116; 97]
      [ ([104;116;116;112;45;101;113;117;105;118], [67;111;110;116;101;110;116;45;84;121;112;101]);
        ([99;111;110;116;101;110;116], [116;101;120;116;47;104;116;109;108;59;32;99;104;97;114;115;101;116;61] ++ enc_name c) ] [].

(* HTML 4.01 boolean attributes (element, attribute) *)
Definition bool4 : list (str * str) :=
  [ ([105;110;112;117;116], [99;104;101;99;107;101;100]); ([105;110;112;117;116], [100;105;115;97;98;108;101;100]);
    ([105;110;112;117;116], [114;101;97;100;111;110;108;121]); ([111;112;116;105;111;110], [115;101;108;101;99;116;101;100]);
    ([111;112;116;105;111;110], [100;105;115;97;98;108;101;100]); ([115;101;108;101;99;116], [109;117;108;116;105;112;108;101]);
    ([115;101;108;101;99;116], [100;105;115;97;98;108;101;100]); ([98;117;116;116;111;110], [100;105;115;97;98;108;101;100]);
    ([116;101;120;116;97;114;101;97], [114;101;97;100;111;110;108;121]); ([116;101;120;116;97;114;101;97], [100;105;115;97;98;108;101;100]);
    ([111;112;116;103;114;111;117;112], [100;105;115;97;98;108;101;100]);
    ([111;108], [99;111;109;112;97;99;116]); ([117;108], [99;111;109;112;97;99;116]); ([100;108], [99;111;109;112;97;99;116]);
    ([100;105;114], [99;111;109;112;97;99;116]); ([109;101;110;117], [99;111;109;112;97;99;116]);
    ([116;100], [110;111;119;114;97;112]); ([116;104], [110;111;119;114;97;112]); ([104;114], [110;111;115;104;97;100;101]);
    ([105;109;103], [105;115;109;97;112]); ([105;110;112;117;116], [105;115;109;97;112]);
    ([111;98;106;101;99;116], [100;101;99;108;97;114;101]); ([115;99;114;105;112;116], [100;101;102;101;114]);
    ([102;114;97;109;101], [110;111;114;101;115;105;122;101]); ([97;114;101;97], [110;111;104;114;101;102]) ].
Definition is_bool4 (elem attr : str) : bool :=
  existsb (fun p => str_eqb (fst p) elem && str_eqb (snd p) attr) bool4.

(* what a reader gets from a URL-valued attribute written with escapeURLs: units 33..126 stay (the quote mark as %22),
   the space stays, everything else is the %HH form of its UTF-8 bytes *)
Definition hex2 (b : N) : str := [37; hexdig (b / 16); hexdig (b mod 16)].
Definition utf8_bytes (cp : N) : list N :=
  if cp <? 128 then [cp]
  else if cp <? 2048 then [192 + cp / 64; 128 + cp mod 64]
  else if cp <? 65536 then [224 + cp / 4096; 128 + (cp / 64) mod 64; 128 + cp mod 64]
  else [240 + cp / 262144; 128 + (cp / 4096) mod 64; 128 + (cp / 64) mod 64; 128 + cp mod 64].
Definition uri_cp (cp : N) : str :=
  if cp =? 32 then [32]
  else if cp =? 34 then [37; 50; 50]
  else if (33 <=? cp) && (cp <=? 126) then [cp]
  else flat_map hex2 (utf8_bytes cp).
Fixpoint uri_spec (s : str) : str :=
  match s with
  | [] => []
  | ch :: r =>
      if is_high ch then
        match r with
        | lo :: r' => if is_lowsur lo then uri_cp (pair_cp ch lo) ++ uri_spec r' else uri_cp ch ++ uri_spec r
        | [] => uri_cp ch
        end
      else uri_cp ch ++ uri_spec r
  end.

Definition norm_attr (c : hcfg) (elem : str) (a : str * str) : str * str :=
  let n := map low (fst a) in
  if is_bool4 elem n && (match snd a with [] => true | v => str_eqb (map low v) n end) then (n, n)
  else if esc_urls c && attr_is aflag_ATTRURL elem n then (n, uri_spec (snd a))
  else (n, snd a).

Fixpoint norm (c : hcfg) (n : hnode) : hnode :=
  match n with
  | HEl name attrs kids =>
      let nm := map low name in
      let ks := map (norm c) kids in
      HEl nm (map (norm_attr c nm) attrs) (if str_eqb nm head_name && negb (omit_meta c) then meta_node c :: ks else ks)
  | other => other
  end.

(* ============================================================================================================ *)
(* html_ok: the trees HTML can represent (decidable) *)
Fixpoint wf16 (s : str) : bool :=
  match s with
  | [] => true
  | ch :: r =>
      if is_high ch then match r with lo :: r' => is_lowsur lo && wf16 r' | [] => false end
      else negb (is_lowsur ch) && wf16 r
  end.
(* the document character set of HTML 4.01 (its SGML declaration): TAB LF CR, 32..126, 160 and above *)
Definition html_char (ch : N) : bool := mem ch [9; 10; 13] || ((32 <=? ch) && (ch <=? 126)) || ((160 <=? ch) && (ch <? 65536)).
Definition chars_ok (s : str) : bool := wf16 s && forallb html_char s.
Definition name_char (ch : N) : bool := is_alnum ch || mem ch [45; 46; 95].
Definition name_ok (n : str) : bool :=
  match n with ch :: r => is_letter ch && forallb name_char r | [] => false end.
Definition attr_name_ok (n : str) : bool :=
  match n with ch :: r => is_letter ch && forallb (fun x => name_char x || (x =? 58)) r | [] => false end.
Fixpoint no_lt_slash (s : str) : bool :=
  match s with
  | 60 :: ((47 :: _) as r) => false
  | _ :: r => no_lt_slash r
  | [] => true
  end.
(* content of SCRIPT / STYLE: no "</" (HTML 4.01 B.3.2), every unit in the output encoding (no references there), no CR
   (an HTML reader normalises line ends; STYLE content goes through writeNormalizedChars, which turns CR LF into LF) *)
Definition raw_ok (c : hcfg) (s : str) : bool :=
  chars_ok s && no_lt_slash s && forallb (fun ch => (ch <=? maxc c) && negb (ch =? 13)) s && negb (match s with [] => true | _ => false end).
Definition text_ok (s : str) : bool := chars_ok s && negb (match s with [] => true | _ => false end).
Definition is_text (n : hnode) : bool := match n with HText _ => true | _ => false end.
Fixpoint no_adjacent_text (l : list hnode) : bool :=
  match l with
  | a :: ((b :: _) as r) => negb (is_text a && is_text b) && no_adjacent_text r
  | _ => true
  end.
Fixpoint nodup_names (l : list str) : bool :=
  match l with [] => true | n :: r => negb (in_names n r) && nodup_names r end.
Definition attr_ok (a : str * str) : bool := attr_name_ok (fst a) && chars_ok (snd a).

Fixpoint node_ok (c : hcfg) (n : hnode) : bool :=
  match n with
  | HText s => text_ok s
  | HComment _ => false
  | HPI _ _ => false
  | HEl name attrs kids =>
      let nm := map low name in
      name_ok name && forallb attr_ok attrs && nodup_names (map (fun a => map low (fst a)) attrs) &&
      (if in_names nm void4 then match kids with [] => true | _ => false end
       else if in_names nm raw4 then match kids with [] => true | [HText s] => raw_ok c s | _ => false end
       else no_adjacent_text kids && forallb (node_ok c) kids)
  end.
Definition cfg_ok (c : hcfg) : bool :=
  mem (maxc c) [127; 255; 65535] && forallb (fun ch => (33 <=? ch) && (ch <=? 126) && negb (mem ch [34; 38; 60; 62])) (enc_name c) &&
  match dt_sys c, dt_pub c with [], [] => true | _, _ => false end.
(* a document: elements only at the top (text outside the document element is not HTML) *)
Definition html_ok (c : hcfg) (doc : list hnode) : bool :=
  cfg_ok c && forallb (fun n => negb (is_text n) && node_ok c n) doc.
