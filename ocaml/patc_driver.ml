(* C09 part "compile": driver of the extracted pattern-compiler and score models.  Formats: see harness/patc.cpp.
   case line:  <id> <mode> <ns> <text> [<nodes>]
     P  pattern compile      -> <id> ok (pattern (alt <pstep>...)...) | <id> err | <id> fuel
     E  expression compile   -> as ocaml/xpc_driver.ml
     T  target classes       -> <id> ok <score>...        one per alternative ('-' where getTargetData pushes nothing)
     S  scores; <nodes> = comma separated <kind>:<hexns|->:<hexlocal|->  -> <id> ok <score>...   ('?' = outside the score model)
   (the score letters: - none, t node test, w namespace wildcard, q qname, o other) *)
let units_of_hex (s : string) : n list =
  if s = "-" then [] else
  let k = String.length s / 4 in
  List.init k (fun i -> n_of_int (int_of_string ("0x" ^ String.sub s (4 * i) 4)))
let hex_of_units (l : n list) : string =
  "#" ^ String.concat "" (List.map (fun c -> Printf.sprintf "%04x" (int_of_n c)) l)
let parse_ns (s : string) : (n list * n list) list =
  if s = "-" then [] else
  List.map (fun kv -> match String.index_opt kv '=' with
      | Some i -> (units_of_hex (String.sub kv 0 i), units_of_hex (let r = String.sub kv (i + 1) (String.length kv - i - 1) in if r = "" then "-" else r))
      | None -> (units_of_hex kv, [])) (String.split_on_char ',' s)
let axis_name = function
  | AxAncestor -> "ancestor" | AxAncestorOrSelf -> "ancestor-or-self" | AxAttribute -> "attribute" | AxChild -> "child"
  | AxDescendant -> "descendant" | AxDescendantOrSelf -> "descendant-or-self" | AxFollowing -> "following"
  | AxFollowingSibling -> "following-sibling" | AxParent -> "parent" | AxPreceding -> "preceding"
  | AxPrecedingSibling -> "preceding-sibling" | AxSelf -> "self" | AxNamespace -> "namespace" | AxRoot -> "root"
let rec sx (e : expr) : string =
  let bin o a b = "(" ^ o ^ " " ^ sx a ^ " " ^ sx b ^ ")" in
  let lst l = String.concat "" (List.map (fun x -> " " ^ sx x) l) in
  match e with
  | EOr (a, b) -> bin "or" a b | EAnd (a, b) -> bin "and" a b | ENe (a, b) -> bin "ne" a b | EEq (a, b) -> bin "eq" a b
  | ELte (a, b) -> bin "lte" a b | ELt (a, b) -> bin "lt" a b | EGte (a, b) -> bin "gte" a b | EGt (a, b) -> bin "gt" a b
  | EPlus (a, b) -> bin "plus" a b | EMinus (a, b) -> bin "minus" a b | EMult (a, b) -> bin "mult" a b
  | EDiv (a, b) -> bin "div" a b | EMod (a, b) -> bin "mod" a b
  | ENeg a -> "(neg " ^ sx a ^ ")"
  | EUnion l -> "(union" ^ lst l ^ ")"
  | ELiteral s -> "(lit " ^ hex_of_units s ^ ")"
  | EVar (u, l) -> "(var " ^ hex_of_units u ^ " " ^ hex_of_units l ^ ")"
  | EGroup a -> "(group " ^ sx a ^ ")"
  | ENumLit t -> "(num " ^ hex_of_units t ^ ")"
  | EFunc (nm, args) -> "(func " ^ hex_of_units nm ^ lst args ^ ")"
  | EExtFunc (u, nm, args) -> "(extfunc " ^ hex_of_units u ^ " " ^ hex_of_units nm ^ lst args ^ ")"
  | EPath (h, ps, ss) ->
      "(path " ^ (match h with Some x -> sx x | None -> "-") ^ " (preds" ^ preds ps ^ ") (steps" ^
      String.concat "" (List.map (fun s -> " " ^ step s) ss) ^ "))"
and preds ps = String.concat "" (List.map (fun (f, e) -> " (p " ^ (if f then "1" else "0") ^ " " ^ sx e ^ ")") ps)
and step ((a, t), ps) = "(step " ^ axis_name a ^ " " ^ ntest t ^ preds ps ^ ")"
and ntest = function
  | TComment -> "comment" | TText -> "text" | TNode -> "node" | TRoot -> "root"
  | TPi None -> "(pi)" | TPi (Some s) -> "(pi " ^ hex_of_units s ^ ")"
  | TName (q, l) -> "(name " ^ (match q with NsEmpty -> "-" | NsAny -> "*" | NsUri u -> hex_of_units u) ^ " " ^
                    (match l with None -> "*" | Some s -> hex_of_units s) ^ ")"

let kind_name = function
  | PkRoot -> "root" | PkAttribute -> "attr" | PkImmediateAncestor -> "imm" | PkAnyAncestor -> "any"
  | PkAnyAncestorWithPredicate -> "anyp" | PkAnyAncestorWithFunctionCall -> "anyf" | PkFunction _ -> "fn"
let pstep ((k, t), ps) =
  match k with
  | PkFunction f -> "(pf " ^ sx f ^ ")"
  | _ -> "(ps " ^ kind_name k ^ " " ^ ntest t ^ preds ps ^ ")"
let psx (p : pstep list list) : string =
  "(pattern" ^ String.concat "" (List.map (fun a -> " (alt" ^ String.concat "" (List.map (fun s -> " " ^ pstep s) a) ^ ")") p) ^ ")"
let score_char = function ScNone -> "-" | ScNodeTest -> "t" | ScNSWild -> "w" | ScQName -> "q" | ScOther -> "o"
let node_of (s : string) : xnode =
  match String.split_on_char ':' s with
  | [k; u; l] ->
      let kd = (match k with "r" -> NkRoot | "e" -> NkElem | "a" -> NkAttr | "n" -> NkNsDecl | "t" -> NkText | "c" -> NkComment | _ -> NkPI) in
      { xkind = kd; xns = units_of_hex u; xlocal = units_of_hex l }
  | _ -> failwith "node"
let () =
  let ic = if Array.length Sys.argv > 1 then open_in Sys.argv.(1) else stdin in
  iter_lines ic (fun line ->
    if String.length line > 0 && line.[0] <> '!' && line.[0] <> '#' then
    match String.split_on_char ' ' line with
    | id :: mode :: nss :: ex :: rest ->
        let binds = parse_ns nss in
        let ns p = (try Some (snd (List.find (fun (k, _) -> str_eqb k p) binds)) with Not_found -> None) in
        if mode = "E" then
          (match compile_here ns (units_of_hex ex) with
           | Ok e -> Printf.printf "%s ok %s\n" id (sx e)
           | Err -> Printf.printf "%s err\n" id
           | Fuel -> Printf.printf "%s fuel\n" id)
        else
          (match pcompile_here ns (units_of_hex ex) with
           | Err -> Printf.printf "%s err\n" id
           | Fuel -> Printf.printf "%s fuel\n" id
           | Ok p ->
               if mode = "P" then Printf.printf "%s ok %s\n" id (psx p)
               else if mode = "T" then
                 Printf.printf "%s ok%s\n" id (String.concat "" (List.map (fun a -> " " ^ score_char (target_class a)) p))
               else
                 let nodes = (match rest with [n] -> List.map node_of (String.split_on_char ',' n) | _ -> []) in
                 Printf.printf "%s ok%s\n" id
                   (String.concat "" (List.map (fun x -> " " ^ (match simple_pattern_score p x with Some s -> score_char s | None -> "?")) nodes)))
    | _ -> ())
