(* XpcExtraModel.v — corollaries of the round trip, and the guards the compiler really applies to names. *)
From Coq Require Import List NArith Bool Arith Lia.
Import ListNotations.
Require Import XV.XpAst XV.GenXpc XV.XpcLexDefs XV.XpcParseDefs XV.XpcPrintDefs XV.XpcPrintFacts XV.XpcPrintModel.

(* two different canonical trees never print to the same token queue: the token grammar is unambiguous on them *)
Lemma print_injective_m : forall e1 e2, canon e1 = true -> canon e2 = true ->
  S (idepth e1) <= gen_xpc_max_nesting -> S (idepth e2) <= gen_xpc_max_nesting -> pr e1 = pr e2 -> e1 = e2.
Proof.
  intros e1 e2 C1 C2 D1 D2 E.
  pose proof (parse_print_m (fun _ => None) e1 C1 D1) as P1.
  pose proof (parse_print_m (fun _ => None) e2 C2 D2) as P2.
  rewrite E in P1. rewrite P1 in P2. inversion P2. reflexivity.
Qed.

(* the only test NodeTest() applies to an unprefixed name: its first character *)
Lemma nodetest_name_guard_m : forall ns ts q n r,
  p_nodetest ns ts = Ok (TName q (Some n), r) -> is_nodetest_tok n = true.
Proof.
  intros ns ts q n r H. unfold p_nodetest in H.
  destruct (look_c ts ch_lparen 1).
  - destruct (ntype_of_name (cur_tok ts)) as [k|]; [|discriminate].
    destruct (expect ch_lparen (tl ts)) as [ts1| |]; try discriminate.
    destruct k; repeat match type of H with
                       | (match ?X with _ => _ end) = _ => destruct X; try discriminate
                       | (if ?X then _ else _) = _ => destruct X; try discriminate
                       end.
  - match type of H with (match ?X with _ => _ end) = _ => destruct X as [[q0 ts1]| |] end; try discriminate.
    destruct (N.eqb (tokc ts1) ch_asterisk); [discriminate|].
    destruct (is_nodetest_tok (cur_tok ts1)) eqn:E; [|discriminate].
    inversion H; subst. exact E.
Qed.
