(* C16 — the extracted entry points (run_sort, run_sort_pure) meet the specification. *)
From Coq Require Import ZArith List Bool Arith Lia Permutation Sorted.
Import ListNotations.
Require Import XV.GenSort XV.SortDefs XV.SortOrder XV.SortCache XV.SortModel XV.SortRefine XV.SortMain XV.SortAttrs.

Theorem run_sort_spec : forall es ntab stab nodes out,
    run_sort es ntab stab nodes = Some out ->
    exists keys, sort_attrs es = Some keys /\
      let nev := tab_get 0%Z ntab in let sev := tab_get [] stab in
      let s := spec_sorted cp_coll keys nev sev nodes in
      map (fun t => fst (fst t)) out = map e_node s /\
      Permutation (map e_node s) nodes /\
      StronglySorted (before entry (cmp cp_coll keys nev sev) e_pos) s /\
      (forall j n p l, nth_error out j = Some (n, p, l) -> p = S j /\ l = length nodes).
Proof.
  intros es ntab stab nodes out H. unfold run_sort in H.
  destruct (sort_attrs es) as [keys|]; [|discriminate]. inversion H; subst out.
  exists keys. split; [reflexivity|]. apply (for_each_spec cp_coll cp_coll_ok).
Qed.

Theorem run_sort_pure_agrees : forall es ntab stab nodes,
    run_sort_pure es ntab stab nodes = option_map (map (fun t => fst (fst t))) (run_sort es ntab stab nodes).
Proof.
  intros es ntab stab nodes. unfold run_sort_pure, run_sort. destruct (sort_attrs es) as [keys|]; [|reflexivity].
  simpl. f_equal.
  destruct (for_each_spec cp_coll cp_coll_ok keys (tab_get 0%Z ntab) (tab_get [] stab) nodes) as (M & _).
  rewrite M. destruct (Nat.leb (length nodes) 1) eqn:L.
  - destruct nodes as [|x [|y t]]; try reflexivity. simpl in L. discriminate.
  - unfold spec_sorted. rewrite isort_generic. reflexivity.
Qed.
