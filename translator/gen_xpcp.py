"""C02 (part "codepoints", family xpcp) -- which reading of "character" string-length(), substring() and
translate() have in THIS tree (GenXpCp.v), consumed by coq/XpCpDefs.v / Properties_C02k.v and by
props/C02_codepoints.py.  Regenerated from /repo on every run; fail closed.

Exactly two shapes are recognised per function:
  old       UTF-16 code units (known finding K6): FormatterStringLengthCounter::characters is
            `m_count += length;` and XPath::functionStringLength reads getCount(); FunctionSubstring::execute
            takes theSourceString.length() as the length and assigns c_str() + theStartIndex, theSubstringLength;
            FunctionTranslate::execute is the one loop over code units with indexOf().
  repaired  characters: XPath/XPathCharacters.hpp (isHighSurrogate / isLowSurrogate bounds -> Gen constants,
            unitsOfFirst / countPairs / unitsOf token for token), the counter counts pairs with the carry between
            events and getCharacterCount() is m_count - m_pairCount, read by both functionStringLength overloads;
            substring computes every index on length() - countPairs() and cuts with unitsOf() unless there is no
            pair; translate has the character loop in front of the old loop, taken when one of the three strings
            has a pair.
Anything else (a third shape, one overload repaired and the other not, a changed helper) is an AnchorError:
the Coq model of coq/XpCpDefs.v was written against these texts."""
import os
import re
import srcfacts
from srcfacts import AnchorError, need, read, strip_comments, function_body, HEADER


def _sq(s):
    s = re.sub(r"\s+", " ", strip_comments(s)).strip()
    return re.sub(r"(?<![A-Za-z0-9_]) | (?![A-Za-z0-9_])", "", s)


def _exists(rel):
    return os.path.exists(os.path.join(srcfacts.SRC, rel))


# ---- the helper header, token for token ---------------------------------------------------------------------
HELPERS = {
    "unitsOfFirst": "{return theLength>1&&isHighSurrogate(theChars[0])==true&&isLowSurrogate(theChars[1])==true?2:1;}",
    "countPairs": "{size_type thePairs=0;for(size_type i=0;i+1<theLength;++i){if(isHighSurrogate(theChars[i])==true&&"
                  "isLowSurrogate(theChars[i+1])==true){++thePairs;++i;}}return thePairs;}",
    "unitsOf": "{size_type i=0;while(theCount>0&&i<theLength){i+=unitsOfFirst(theChars+i,theLength-i);--theCount;}return i;}",
}
HELPER_SIGS = {
    "unitsOfFirst": r"static size_type unitsOfFirst\(const XalanDOMChar\*theChars,size_type theLength\)\{",
    "countPairs": r"static size_type countPairs\(const XalanDOMChar\*theChars,size_type theLength\)\{",
    "unitsOf": r"static size_type unitsOf\(const XalanDOMChar\*theChars,size_type theLength,size_type theCount\)\{",
}


def _helpers():
    """-> (high_lo, high_hi, low_lo, low_hi) of XPathCharacters.hpp, after checking the three loops"""
    h = _sq(read("XPath/XPathCharacters.hpp"))
    need(r"typedef XalanDOMString::size_type size_type;", h, "XPathCharacters::size_type is XalanDOMString::size_type", 0)
    bounds = []
    for fn in ("isHighSurrogate", "isLowSurrogate"):
        m = need(r"static bool %s\(XalanDOMChar theChar\)\{return (0[xX][0-9A-Fa-f]+|\d+)[uU]?<=theChar&&theChar<=(0[xX][0-9A-Fa-f]+|\d+)[uU]?;\}" % fn,
                 h, "XPathCharacters::%s: return LO <= theChar && theChar <= HI" % fn, 0)
        bounds += [int(m.group(1), 0), int(m.group(2), 0)]
    for fn, body in HELPERS.items():
        m = need(HELPER_SIGS[fn], h, "XPathCharacters::%s signature" % fn, 0)
        got = h[m.end() - 1:m.end() - 1 + len(body)]
        if got != body:
            raise AnchorError("XPathCharacters::%s is not the loop the model (coq/XpCpDefs.v) was written against: %s" % (fn, got[:160]))
    return tuple(bounds)


# ---- string-length ------------------------------------------------------------------------------------------
COUNTER_OLD = "{m_count+=length;}"
COUNTER_NEW = ("{m_count+=length;if(length!=0){size_type i=0;if(m_highSurrogatePending==true&&XPathCharacters::isLowSurrogate(chars[0])==true)"
               "{++m_pairCount;++i;}m_highSurrogatePending=false;while(i<length){if(XPathCharacters::isHighSurrogate(chars[i])==true)"
               "{if(i+1==length){m_highSurrogatePending=true;}else if(XPathCharacters::isLowSurrogate(chars[i+1])==true){++m_pairCount;++i;}}++i;}}}")


def _length_shape():
    c = read("XPath/FormatterStringLengthCounter.cpp")
    body = _sq(function_body(c, r"FormatterStringLengthCounter::characters\s*\([^)]*\)\s*\{", "FormatterStringLengthCounter::characters"))
    x = strip_comments(read("XPath/XPath.cpp"))
    readers = []
    for m in re.finditer(r"\bXPath::functionStringLength\s*\(", x):
        b = _sq(function_body(x[m.start():], r"XPath::functionStringLength\s*\([^)]*\)\s*const\s*\{", "XPath::functionStringLength"))
        mm = need(r"FormatterStringLengthCounter theCounter;.*const FormatterListener::size_type theResult=theCounter\.(\w+)\(\);"
                  r"assert\(static_cast<double>\(theResult\)==theResult\);return static_cast<double>\(theResult\);\}$",
                  b, "XPath::functionStringLength: a FormatterStringLengthCounter, then `theResult = theCounter.<getter>()` returned as a double")
        readers.append(mm.group(1))
    if len(readers) != 2:
        raise AnchorError("XPath::functionStringLength: expected the two overloads (context node / one argument), found %d" % len(readers))
    ctor = _sq(c)
    hpp = _sq(read("XPath/FormatterStringLengthCounter.hpp"))
    need(r"size_type getCount\(\)const\{return m_count;\}", hpp, "FormatterStringLengthCounter::getCount() returns m_count", 0)
    if body == COUNTER_OLD and readers == ["getCount", "getCount"]:
        if "getCharacterCount" in hpp or "m_pairCount" in ctor:
            raise AnchorError("FormatterStringLengthCounter: characters() is the old one but the class knows getCharacterCount/m_pairCount")
        return False
    if body == COUNTER_NEW and readers == ["getCharacterCount", "getCharacterCount"]:
        need(r"size_type getCharacterCount\(\)const\{return m_count-m_pairCount;\}", hpp,
             "FormatterStringLengthCounter::getCharacterCount() returns m_count - m_pairCount", 0)
        need(r"FormatterListener\(OUTPUT_METHOD_NONE\),m_count\(0\),m_pairCount\(0\),m_highSurrogatePending\(false\)\{\}", ctor,
             "FormatterStringLengthCounter(): m_count(0), m_pairCount(0), m_highSurrogatePending(false)", 0)
        # nothing else writes the two new members
        writes = re.findall(r"(?:\+\+|--)m_pairCount|m_pairCount(?:\+\+|--|[-+*/]?=[^=])|m_highSurrogatePending=[^=]", ctor)
        if sorted(writes) != sorted(["++m_pairCount", "++m_pairCount", "m_highSurrogatePending=f", "m_highSurrogatePending=t"]):
            raise AnchorError("FormatterStringLengthCounter.cpp: m_pairCount / m_highSurrogatePending are written outside characters(): %r" % (writes,))
        return True
    raise AnchorError("string-length(): neither the old nor the repaired shape (characters() = %s..., readers %r)" % (body[:80], readers))


# ---- substring ----------------------------------------------------------------------------------------------
SUB_OLD_LEN = "const XalanDOMString&theSourceString=arg1->str(executionContext);const XalanDOMString::size_type theSourceStringLength=theSourceString.length();"
SUB_OLD_CUT = "XalanDOMString&theString=theResult.get();theString.assign(theSourceString.c_str()+theStartIndex,theSubstringLength);return"
SUB_NEW_LEN = ("const XalanDOMString&theSourceString=arg1->str(executionContext);const XalanDOMString::size_type theSourceStringUnits=theSourceString.length();"
               "const XalanDOMString::size_type theSurrogatePairs=XPathCharacters::countPairs(theSourceString.c_str(),theSourceStringUnits);"
               "const XalanDOMString::size_type theSourceStringLength=theSourceStringUnits-theSurrogatePairs;")
SUB_NEW_CUT = ("XalanDOMString&theString=theResult.get();if(theSurrogatePairs==0){theString.assign(theSourceString.c_str()+theStartIndex,theSubstringLength);}"
               "else{const XalanDOMChar*const theChars=theSourceString.c_str();const XalanDOMString::size_type theFirstUnit="
               "XPathCharacters::unitsOf(theChars,theSourceStringUnits,theStartIndex);theString.assign(theChars+theFirstUnit,"
               "XPathCharacters::unitsOf(theChars+theFirstUnit,theSourceStringUnits-theFirstUnit,theSubstringLength));}return")


def _substring_shape():
    t = strip_comments(read("XPath/FunctionSubstring.cpp"))
    m = need(r"FunctionSubstring::execute\s*\(\s*XPathExecutionContext&\s*executionContext,\s*XalanNode\*\s*,\s*const\s+XObjectPtr\s+arg1,\s*"
             r"const\s+XObjectPtr\s+arg2,\s*const\s+XObjectPtr\s+arg3,[^)]*\)\s*const\s*\{", t, "FunctionSubstring::execute (three arguments)")
    b = _sq(function_body(t[m.start():], r"FunctionSubstring::execute\s*\([^)]*\)\s*const\s*\{", "FunctionSubstring::execute (three arguments)"))
    # the index arithmetic reads only theSourceStringLength
    for what, rx in (("getStartIndex(theSecondArgValue, theSourceStringLength)", r"getStartIndex\(theSecondArgValue,theSourceStringLength\)"),
                     ("getSubstringLength(executionContext, theSourceStringLength, theStartIndex, theSecondArgValue, arg3)",
                      r"getSubstringLength\(executionContext,theSourceStringLength,theStartIndex,theSecondArgValue,arg3\)"),
                     ("if (theSourceStringLength == 0)", r"if\(theSourceStringLength==0\)"),
                     ("if (theStartIndex >= theSourceStringLength)", r"if\(theStartIndex>=theSourceStringLength\)"),
                     ("if (theSubstringLength == 0)", r"if\(theSubstringLength==0\)")):
        need(rx, b, "FunctionSubstring::execute: " + what, 0)
    if b.count("theString.assign(") != (2 if "XPathCharacters" in b else 1):
        raise AnchorError("FunctionSubstring::execute: unexpected number of theString.assign() calls")
    if SUB_OLD_LEN in b and SUB_OLD_CUT in b and "XPathCharacters" not in b and "theSourceStringUnits" not in b:
        return False
    if SUB_NEW_LEN in b and SUB_NEW_CUT in b and b.count("XPathCharacters::") == 3 and b.count("theSourceStringUnits") == 5:
        return True
    raise AnchorError("substring(): neither the old nor the repaired shape of FunctionSubstring::execute")


# ---- translate ----------------------------------------------------------------------------------------------
TR_HEAD = ("{assert(arg1.null()==false&&arg2.null()==false&&arg3.null()==false);const XalanDOMString&theFirstString=arg1->str(executionContext);"
           "const XalanDOMString&theSecondString=arg2->str(executionContext);const XalanDOMString&theThirdString=arg3->str(executionContext);"
           "const XalanDOMString::size_type theFirstStringLength=theFirstString.length();const XalanDOMString::size_type theSecondStringLength=theSecondString.length();"
           "const XalanDOMString::size_type theThirdStringLength=theThirdString.length();typedef XalanVector<XalanDOMChar>VectorType;"
           "GetCachedString theResult(executionContext);XalanDOMString&theString=theResult.get();theString.reserve(theFirstStringLength+1);")
TR_OLD_LOOP = ("for(XalanDOMString::size_type i=0;i<theFirstStringLength;i++){const XalanDOMChar theCurrentChar=theFirstString[i];"
               "const XalanDOMString::size_type theIndex=indexOf(theSecondString,theCurrentChar);if(theIndex>=theSecondStringLength)"
               "{theString.append(1,theCurrentChar);}else if(theIndex<theThirdStringLength){theString.append(1,theThirdString[theIndex]);}else{}}"
               "return executionContext.getXObjectFactory().createString(theResult);}")
TR_NEW_LOOP = ("const XalanDOMChar*const theFirstChars=theFirstString.c_str();const XalanDOMChar*const theSecondChars=theSecondString.c_str();"
               "const XalanDOMChar*const theThirdChars=theThirdString.c_str();if(XPathCharacters::countPairs(theFirstChars,theFirstStringLength)!=0||"
               "XPathCharacters::countPairs(theSecondChars,theSecondStringLength)!=0||XPathCharacters::countPairs(theThirdChars,theThirdStringLength)!=0)"
               "{XalanDOMString::size_type theUnits=0;for(XalanDOMString::size_type i=0;i<theFirstStringLength;i+=theUnits)"
               "{theUnits=XPathCharacters::unitsOfFirst(theFirstChars+i,theFirstStringLength-i);XalanDOMString::size_type j=0;XalanDOMString::size_type theIndex=0;"
               "while(j<theSecondStringLength){const XalanDOMString::size_type theCurrentUnits=XPathCharacters::unitsOfFirst(theSecondChars+j,theSecondStringLength-j);"
               "if(theCurrentUnits==theUnits&&theSecondChars[j]==theFirstChars[i]&&(theUnits==1||theSecondChars[j+1]==theFirstChars[i+1])){break;}"
               "j+=theCurrentUnits;++theIndex;}if(j>=theSecondStringLength){theString.append(theFirstChars+i,theUnits);}else{const XalanDOMString::size_type theOffset="
               "XPathCharacters::unitsOf(theThirdChars,theThirdStringLength,theIndex);if(theOffset<theThirdStringLength){theString.append(theThirdChars+theOffset,"
               "XPathCharacters::unitsOfFirst(theThirdChars+theOffset,theThirdStringLength-theOffset));}}}"
               "return executionContext.getXObjectFactory().createString(theResult);}")


def _translate_shape():
    t = read("XPath/FunctionTranslate.cpp")
    b = _sq(function_body(t, r"FunctionTranslate::execute\s*\([^)]*\)\s*const\s*\{", "FunctionTranslate::execute"))
    if b == TR_HEAD + TR_OLD_LOOP:
        return False
    if b == TR_HEAD + TR_NEW_LOOP + TR_OLD_LOOP:
        return True
    raise AnchorError("translate(): neither the old nor the repaired shape of FunctionTranslate::execute")


def gen_xpcp():
    fl = _length_shape()
    fs = _substring_shape()
    ft = _translate_shape()
    facts = {"length_repaired": fl, "substring_repaired": fs, "translate_repaired": ft}
    if fl or fs or ft or _exists("XPath/XPathCharacters.hpp"):
        bounds = _helpers()
    else:
        bounds = None
    facts["surrogate_bounds"] = bounds

    def b(x):
        return "true" if x else "false"
    out = [HEADER, "From Coq Require Import NArith Bool.\n\n",
           "(* XPath/FormatterStringLengthCounter.cpp characters() counts surrogate pairs (with the carry between events) and both\n"
           "   XPath::functionStringLength overloads read getCharacterCount() = m_count - m_pairCount  (false: `m_count += length`, getCount()) *)\n",
           "Definition gen_cp_length_repaired : bool := %s.\n" % b(fl),
           "(* XPath/FunctionSubstring.cpp execute(): every index is computed on length() - XPathCharacters::countPairs() and the result is cut\n"
           "   with XPathCharacters::unitsOf() unless there is no pair  (false: length(), assign(c_str() + theStartIndex, theSubstringLength)) *)\n",
           "Definition gen_cp_substring_repaired : bool := %s.\n" % b(fs),
           "(* XPath/FunctionTranslate.cpp execute(): the character loop, taken when one of the three strings has a pair, in front of the\n"
           "   loop over code units  (false: only the loop over code units) *)\n",
           "Definition gen_cp_translate_repaired : bool := %s.\n" % b(ft),
           "Definition string_functions_count_code_points : bool :=\n  gen_cp_length_repaired && gen_cp_substring_repaired && gen_cp_translate_repaired.\n",
           "(* XPath/XPathCharacters.hpp: isHighSurrogate is LO <= c && c <= HI, isLowSurrogate likewise (None: the tree has no such header);\n"
           "   unitsOfFirst / countPairs / unitsOf were compared token for token with the loops modelled in coq/XpCpDefs.v *)\n",
           "Definition gen_cp_surrogate_bounds : option (N * N * N * N) := %s.\n" % (
               "None" if bounds is None else "Some (%d, %d, %d, %d)%%N" % bounds)]
    return "".join(out), facts


GENERATORS = {"GenXpCp": gen_xpcp}
