(* ContDeqDefs.v — executable model of xalanc::XalanDeque (Include/XalanDeque.hpp) as it is: a block
   index (vector of blocks, each a XalanVector with initial allocation blockSize), a free-block
   vector, size() computed as (blocks - 1) * blockSize + size of the last block, operator[] by
   index / blockSize and index % blockSize, push_back / pop_back moving blocks between the index and
   the free vector, resize, clear, operator=, copy construction, and swap (which exchanges the two
   vectors and the block size).  Specification: a list.  Definitions only. *)
From Coq Require Import List Arith Bool.
Require Import XV.GenCont XV.ContVecDefs XV.ContMapDefs.
Import ListNotations.

Record xdeq := mkdeq { q_bs : nat; q_blocks : list vec; q_free : list vec }.
Definition new_deq (bs : nat) : xdeq := mkdeq bs [] [].

Definition dsize (d : xdeq) : nat :=
  match q_blocks d with
  | [] => 0
  | _ => (length (q_blocks d) - 1) * q_bs d + vsize (last (q_blocks d) vempty)
  end.
Definition dempty (d : xdeq) : bool := match q_blocks d with [] => true | _ => false end.
Definition dindex (d : xdeq) (i : nat) : nat :=
  nth (i mod q_bs d) (vdata (nth (i / q_bs d) (q_blocks d) vempty)) 0.
Definition dback (d : xdeq) : nat :=
  let b := last (q_blocks d) vempty in nth (vsize b - 1) (vdata b) 0.

Definition push_new_block (d : xdeq) : xdeq :=
  match q_free d with
  | [] => mkdeq (q_bs d) (q_blocks d ++ [mkvec [] (q_bs d)]) []
  | _ => mkdeq (q_bs d) (q_blocks d ++ [last (q_free d) vempty]) (removelast (q_free d))
  end.

Definition dpush (d : xdeq) (x : nat) : xdeq :=
  let d1 := if (dempty d || (q_bs d <=? vsize (last (q_blocks d) vempty)))%bool then push_new_block d else d in
  mkdeq (q_bs d1) (removelast (q_blocks d1) ++ [do_push_back (last (q_blocks d1) vempty) x]) (q_free d1).

Definition dpop (d : xdeq) : xdeq :=
  let b := pop_back (last (q_blocks d) vempty) in
  if vsize b =? 0 then mkdeq (q_bs d) (removelast (q_blocks d)) (q_free d ++ [b])
  else mkdeq (q_bs d) (removelast (q_blocks d) ++ [b]) (q_free d).

Fixpoint dpush_n (n x : nat) (d : xdeq) : xdeq := match n with O => d | S k => dpush_n k x (dpush d x) end.
Fixpoint dpop_n (n : nat) (d : xdeq) : xdeq := match n with O => d | S k => dpop_n k (dpop d) end.

Definition dresize (d : xdeq) (n : nat) : xdeq :=
  if dsize d <? n then dpush_n (n - dsize d) 0 d else dpop_n (dsize d - n) d.

Definition dclear (d : xdeq) : xdeq := mkdeq (q_bs d) [] (q_free d ++ map clear (q_blocks d)).

Definition delems (d : xdeq) : list nat := map (dindex d) (seq 0 (dsize d)).     (* what iteration sees *)

Definition dpush_all (d : xdeq) (l : list nat) : xdeq := fold_left dpush l d.
Definition dassign (d r : xdeq) : xdeq := dpush_all (dclear d) (delems r).
Definition dcopy (r : xdeq) : xdeq := dpush_all (new_deq (q_bs r)) (delems r).
Definition dctor (n bs : nat) : xdeq := dpush_n n 0 (new_deq bs).
Definition dswap_into (a b : xdeq) : xdeq := mkdeq (q_bs b) (q_blocks b) (q_free b).   (* a after a.swap(b): block size included *)

(* operator[](i) = x : the block index / blockSize, position index % blockSize *)
Definition set_block (d : xdeq) (i : nat) (x : nat) : xdeq :=
  mkdeq (q_bs d)
        (upd_bucket (i / q_bs d) (fun b => mkvec (set_nth (i mod q_bs d) x (vdata b)) (vcap b)) (q_blocks d))
        (q_free d).

Inductive dop :=
| DPush (x : nat) | DPop | DBack | DIdx (i : nat) | DSetIdx (i x : nat) | DResize (n : nat) | DClear | DIter | DRIter
| DCopy | DAssign | DSelfAssign | DSwap | DSel (r : bool) | DNew (n : nat).

Record dstate := mkds { dreg0 : xdeq; dreg1 : xdeq; dcur : bool }.
Definition cur_d (s : dstate) := if dcur s then dreg1 s else dreg0 s.
Definition oth_d (s : dstate) := if dcur s then dreg0 s else dreg1 s.
Definition set_cur_d (s : dstate) (d : xdeq) := if dcur s then mkds (dreg0 s) d true else mkds d (dreg1 s) false.
Definition set_oth_d (s : dstate) (d : xdeq) := if dcur s then mkds d (dreg1 s) true else mkds (dreg0 s) d false.

Definition dstep (s : dstate) (o : dop) : option (dstate * ret) :=
  let d := cur_d s in
  let n := dsize d in
  match o with
  | DPush x => Some (set_cur_d s (dpush d x), RNone)
  | DPop => if n =? 0 then None else Some (set_cur_d s (dpop d), RNone)
  | DBack => if n =? 0 then None else Some (s, RNum (dback d))
  | DIdx i => if i <? n then Some (s, RNum (dindex d i)) else None
  | DSetIdx i x => if i <? n then Some (set_cur_d s (set_block d i x), RNone) else None
  | DResize k => Some (set_cur_d s (dresize d k), RNone)
  | DClear => Some (set_cur_d s (dclear d), RNone)
  | DIter => Some (s, RList (delems d))
  | DRIter => Some (s, RList (rev (delems d)))
  | DCopy => Some (set_oth_d s (dcopy d), RNone)
  | DAssign => Some (set_cur_d s (dassign d (oth_d s)), RNone)
  | DSelfAssign => Some (s, RNone)
  | DSwap => Some (mkds (dswap_into (dreg0 s) (dreg1 s)) (dswap_into (dreg1 s) (dreg0 s)) (dcur s), RNone)
  | DSel r => Some (mkds (dreg0 s) (dreg1 s) r, RNone)
  | DNew k => Some (set_cur_d s (dctor k (q_bs d)), RNone)
  end.

(* observation: return value, size(), empty(), the elements seen through operator[] *)
Definition dobs : Type := option (ret * nat * bool * list nat).
Fixpoint drun (s : dstate) (ops : list dop) : list dobs :=
  match ops with
  | [] => []
  | o :: r =>
    match dstep s o with
    | None => None :: drun s r
    | Some (s', rt) => Some (rt, dsize (cur_d s'), dempty (cur_d s'), delems (cur_d s')) :: drun s' r
    end
  end.

(* specification *)
Definition dlstep (s : lstate) (o : dop) : option (lstate * ret) :=
  let l := cur_l s in
  let n := length l in
  match o with
  | DPush x => Some (set_cur_l s (l ++ [x]), RNone)
  | DPop => if n =? 0 then None else Some (set_cur_l s (removelast l), RNone)
  | DBack => if n =? 0 then None else Some (s, RNum (last l 0))
  | DIdx i => if i <? n then Some (s, RNum (nth i l 0)) else None
  | DSetIdx i x => if i <? n then Some (set_cur_l s (set_nth i x l), RNone) else None
  | DResize k => Some (set_cur_l s (resize_spec k 0 l), RNone)
  | DClear => Some (set_cur_l s [], RNone)
  | DIter => Some (s, RList l)
  | DRIter => Some (s, RList (rev l))
  | DCopy => Some (set_oth_l s l, RNone)
  | DAssign => Some (set_cur_l s (oth_l s), RNone)
  | DSelfAssign => Some (s, RNone)
  | DSwap => Some (mkls (l1 s) (l0 s) (lcur s), RNone)
  | DSel r => Some (mkls (l0 s) (l1 s) r, RNone)
  | DNew k => Some (set_cur_l s (repeat 0 k), RNone)
  end.

Fixpoint dlrun (s : lstate) (ops : list dop) : list (option (ret * nat * bool * list nat)) :=
  match ops with
  | [] => []
  | o :: r =>
    match dlstep s o with
    | None => None :: dlrun s r
    | Some (s', rt) => Some (rt, length (cur_l s'), (length (cur_l s') =? 0), cur_l s') :: dlrun s' r
    end
  end.
