(* C14 — lemmas about the namespace fix-up model (NsfixDefs.v). *)
From Coq Require Import List NArith Bool Lia ZifyBool ZifyNat ZifyN.
Require Import XV.GenNsfix XV.NsfixDefs.
Import ListNotations.
Local Open Scope N_scope.

(* ---------------------------------------------------------------------------------------- *)
(* equality tests *)

Lemma atom_eqb_refl : forall a, atom_eqb a a = true.
Proof. destruct a; simpl; auto using N.eqb_refl. Qed.

Lemma atom_eqb_eq : forall a b, atom_eqb a b = true <-> a = b.
Proof.
  split.
  - destruct a, b; simpl; intro H; try discriminate; try reflexivity;
      apply N.eqb_eq in H; subst; reflexivity.
  - intros ->. apply atom_eqb_refl.
Qed.

Lemma pfx_eqb_refl : forall p, pfx_eqb p p = true.
Proof. destruct p; simpl; auto using atom_eqb_refl. Qed.

Lemma pfx_eqb_eq : forall a b, pfx_eqb a b = true <-> a = b.
Proof.
  split.
  - destruct a, b; simpl; intro H; try discriminate; try reflexivity.
    apply atom_eqb_eq in H. subst. reflexivity.
  - intros ->. apply pfx_eqb_refl.
Qed.

Lemma pfx_eqb_sym : forall a b, pfx_eqb a b = pfx_eqb b a.
Proof.
  intros a b. destruct (pfx_eqb a b) eqn:E.
  - apply pfx_eqb_eq in E. subst. symmetry. apply pfx_eqb_refl.
  - destruct (pfx_eqb b a) eqn:E2; auto. apply pfx_eqb_eq in E2. subst.
    rewrite pfx_eqb_refl in E. discriminate.
Qed.

(* a prefix that is neither "xml" nor "xmlns" *)
Definition plain_atom (a : atom) : bool :=
  match a with AXml | AXmlns => false | _ => true end.

(* ---------------------------------------------------------------------------------------- *)
(* the stack *)

Lemma all_empty_lookup : forall p k, all_empty k = true -> stk_lookup p k = None.
Proof.
  induction k as [|c r IH]; simpl; auto.
  destruct c; simpl; try discriminate. auto.
Qed.

Lemma ns_for_prefix_plain : forall k a, plain_atom a = true ->
  ns_for_prefix k (Some a) = stk_lookup (Some a) k.
Proof.
  intros k a Ha. unfold ns_for_prefix.
  destruct a; simpl in Ha; try discriminate;
    (destruct (all_empty k) eqn:E; [symmetry; apply all_empty_lookup; assumption | reflexivity]).
Qed.

Lemma ctx_lookup_in : forall p c u, ctx_lookup p c = Some u -> In (p, u) c.
Proof.
  induction c as [|[p' u'] r IH]; simpl; intros u H; try discriminate.
  destruct (pfx_eqb p p') eqn:E.
  - apply pfx_eqb_eq in E. inversion H. subst. auto.
  - right. auto.
Qed.

Lemma stk_lookup_in : forall p k u, stk_lookup p k = Some u -> In (p, u) (concat k).
Proof.
  induction k as [|c r IH]; simpl; intros u H; try discriminate.
  apply in_or_app. destruct (ctx_lookup p c) eqn:E.
  - inversion H. subst. left. apply ctx_lookup_in. assumption.
  - right. auto.
Qed.

(* ---------------------------------------------------------------------------------------- *)
(* getUniqueNamespaceValue returns a prefix that is not bound in scope, and never runs out of fuel *)

Definition gen_ge (c : N) (d : pfx * uri) : bool :=
  match fst d with Some (AGen j) => N.leb c j | _ => false end.

Lemma filter_length_le' : forall {A} (f : A -> bool) l, (length (filter f l) <= length l)%nat.
Proof. induction l; simpl; auto. destruct (f a); simpl; lia. Qed.

Lemma filter_length_lt : forall {A} (f g : A -> bool) l x,
  (forall y, f y = true -> g y = true) -> In x l -> g x = true -> f x = false ->
  (length (filter f l) < length (filter g l))%nat.
Proof.
  intros A f g l x Hfg. induction l as [|a r IH]; simpl; intros Hin Hg Hf; [contradiction|].
  assert (Hle : (length (filter f r) <= length (filter g r))%nat).
  { clear -Hfg. induction r as [|b r IH]; simpl; auto.
    destruct (f b) eqn:Fb.
    - rewrite (Hfg _ Fb). simpl. lia.
    - destruct (g b); simpl; lia. }
  destruct Hin as [->|Hin].
  - rewrite Hf, Hg. simpl. lia.
  - specialize (IH Hin Hg Hf). destruct (f a) eqn:Fa.
    + rewrite (Hfg _ Fa). simpl. lia.
    + destruct (g a); simpl; lia.
Qed.

Lemma unique_loop_fresh_aux : forall fuel k c,
  (length (filter (gen_ge c) (concat k)) < fuel)%nat ->
  ns_for_prefix k (Some (AGen (unique_loop fuel k c))) = None.
Proof.
  induction fuel as [|f IH]; intros k c Hlt; [lia|].
  cbn [unique_loop]. destruct (ns_for_prefix k (Some (AGen c))) eqn:E; [|exact E].
  apply IH.
  rewrite ns_for_prefix_plain in E by reflexivity.
  apply stk_lookup_in in E.
  assert (H : (length (filter (gen_ge (c + unique_counter_step)) (concat k))
               < length (filter (gen_ge c) (concat k)))%nat).
  { apply filter_length_lt with (x := (Some (AGen c), u)); auto.
    - intros [p' u']. unfold gen_ge, unique_counter_step. simpl.
      destruct p' as [[]|]; try discriminate. intros H. apply N.leb_le in H. apply N.leb_le. lia.
    - unfold gen_ge. simpl. apply N.leb_le. lia.
    - unfold gen_ge, unique_counter_step. simpl. apply N.leb_gt. lia. }
  lia.
Qed.

Lemma unique_loop_fresh : forall k c,
  ns_for_prefix k (Some (AGen (unique_loop (S (length (concat k))) k c))) = None.
Proof.
  intros. apply unique_loop_fresh_aux.
  pose proof (filter_length_le' (gen_ge c) (concat k)). lia.
Qed.

Lemma unique_loop_ge : forall fuel k c, c <= unique_loop fuel k c.
Proof.
  induction fuel as [|f IH]; intros k c; cbn [unique_loop]; [lia|].
  destruct (ns_for_prefix k (Some (AGen c))); [|lia].
  specialize (IH k (c + unique_counter_step)). unfold unique_counter_step in *. lia.
Qed.

(* the generator: fresh in scope, stack and pending state untouched, counter strictly larger,
   and the result is at least the old counter (so two calls never return the same prefix) *)
Lemma gen_unique_spec : forall s g s1, gen_unique s = (g, s1) ->
  ns_for_prefix (stk s1) (Some g) = None /\ stk s1 = stk s /\ pend s1 = pend s /\ pattrs s1 = pattrs s
  /\ out s1 = out s /\ hz s1 = hz s
  /\ exists n, g = AGen n /\ ctr s <= n /\ ctr s1 = n + 1.
Proof.
  intros s g s1 H. unfold gen_unique in H.
  remember (unique_loop (S (length (concat (stk s)))) (stk s) (ctr s)) as c eqn:Ec.
  injection H as <- <-. cbn [stk pend pattrs out hz ctr].
  repeat split; auto; try (subst c; apply unique_loop_fresh).
  exists c. split; [reflexivity|]. split; [subst c; apply unique_loop_ge|]. unfold unique_counter_step. reflexivity.
Qed.

(* two successive inventions differ even when the first prefix was never declared *)
Lemma gen_unique_twice_distinct : forall s g1 s1 g2 s2,
  gen_unique s = (g1, s1) -> gen_unique s1 = (g2, s2) -> g1 <> g2.
Proof.
  intros s g1 s1 g2 s2 H1 H2.
  apply gen_unique_spec in H1. apply gen_unique_spec in H2.
  destruct H1 as (_ & _ & _ & _ & _ & _ & n1 & -> & _ & C1).
  destruct H2 as (_ & _ & _ & _ & _ & _ & n2 & -> & L2 & _).
  intro E. inversion E. lia.
Qed.

(* ---------------------------------------------------------------------------------------- *)
(* addResultAttribute on a declaration attribute: afterwards the prefix resolves to the URI, and
   no other prefix changes its binding *)

Lemma add_decl_lookup_same : forall p u k, k <> [] -> stk_lookup p (add_decl p u k) = Some u.
Proof.
  intros p u [|c r] H; [contradiction|]. simpl. rewrite pfx_eqb_refl. reflexivity.
Qed.

Lemma add_decl_lookup_other : forall p q u k, pfx_eqb q p = false ->
  stk_lookup q (add_decl p u k) = stk_lookup q k.
Proof.
  intros p q u [|c r] H; simpl; auto. rewrite H. reflexivity.
Qed.

Lemma declare_prefix_resolves : forall s a u, stk s <> [] -> plain_atom a = true ->
  ns_for_prefix (stk (declare_prefix s a u)) (Some a) = Some u.
Proof.
  intros s a u Hne Ha. unfold declare_prefix, add_result_attr.
  destruct a; simpl in Ha; try discriminate;
    (destruct (ns_for_prefix (stk s) (Some _)) as [w|] eqn:E;
     [ destruct (N.eqb w u) eqn:Ew;
       [ apply N.eqb_eq in Ew; subst; exact E | ] | ];
     cbn [stk set_stk set_pattrs]; rewrite ns_for_prefix_plain by reflexivity;
     apply add_decl_lookup_same; assumption).
Qed.

Lemma declare_prefix_other : forall s a b u, plain_atom b = true -> atom_eqb b a = false ->
  ns_for_prefix (stk (declare_prefix s a u)) (Some b) = ns_for_prefix (stk s) (Some b).
Proof.
  intros s a b u Hb Hab. unfold declare_prefix, add_result_attr.
  destruct a; try reflexivity;
    (destruct (ns_for_prefix (stk s) (Some _)) as [w|];
     [ destruct (N.eqb w u); [reflexivity|] | ];
     cbn [stk set_stk set_pattrs]; rewrite !ns_for_prefix_plain by assumption;
     apply add_decl_lookup_other; simpl; assumption).
Qed.

Lemma declare_default_resolves : forall s u, stk s <> [] -> u <> 0 ->
  ns_for_prefix (stk (declare_default s u)) None = Some u.
Proof.
  intros s u Hne Hu. unfold declare_default, add_result_attr.
  assert (Hu' : negb (N.eqb u 0) = true) by (apply negb_true_iff; apply N.eqb_neq; assumption).
  rewrite Hu'.
  assert (K : forall k, k <> [] -> ns_for_prefix (add_decl None u k) None = Some u).
  { intros [|c r] H; [contradiction|]. reflexivity. }
  destruct (ns_for_prefix (stk s) None) as [c|] eqn:E.
  - destruct (N.eqb c u) eqn:Ec.
    + apply N.eqb_eq in Ec. subst. exact E.
    + cbn [stk set_stk set_pattrs]. auto.
  - cbn [stk set_stk set_pattrs]. auto.
Qed.

(* ---------------------------------------------------------------------------------------- *)
(* the compile-time clause: a literal result element only declares in-scope namespaces that are
   neither the XSLT/XML namespace nor excluded-and-unused, and at most one per prefix *)

Lemma dedupe_in : forall l seen d, In d (dedupe l seen) -> In d l.
Proof.
  induction l as [|[p u] r IH]; simpl; intros seen d H; auto.
  destruct (mem_pfx p seen).
  - right. eauto.
  - destruct H as [<-|H]; auto. right. eauto.
Qed.

Lemma dedupe_not_seen : forall l seen p u, In (p, u) (dedupe l seen) -> mem_pfx p seen = false.
Proof.
  induction l as [|[p' u'] r IH]; simpl; intros seen p u H; [contradiction|].
  destruct (mem_pfx p' seen) eqn:E.
  - eauto.
  - destruct H as [H|H].
    + inversion H; subst. assumption.
    + apply IH in H. simpl in H. apply orb_false_iff in H. tauto.
Qed.

Lemma dedupe_nodup : forall l seen, NoDup (map fst (dedupe l seen)).
Proof.
  induction l as [|[p u] r IH]; simpl; intros seen; [constructor|].
  destruct (mem_pfx p seen); auto.
  simpl. constructor; auto.
  intro H. apply in_map_iff in H. destruct H as ([p' u'] & Hp & Hin). simpl in Hp. subst.
  apply dedupe_not_seen in Hin. simpl in Hin. rewrite pfx_eqb_refl in Hin. discriminate.
Qed.

Lemma nodup_map_filter : forall {A B} (f : A -> B) (g : A -> bool) l,
  NoDup (map f l) -> NoDup (map f (filter g l)).
Proof.
  induction l as [|a r IH]; simpl; intros H; [constructor|].
  inversion H; subst. destruct (g a); simpl; auto.
  constructor; auto. intro Hin. apply H2.
  apply in_map_iff in Hin. destruct Hin as (x & Hx & Hf). apply filter_In in Hf.
  apply in_map_iff. exists x. tauto.
Qed.

Lemma lre_decls_sound : forall name inscope excl attrs d,
  In d (lre_decls name inscope excl attrs) ->
  In d inscope /\ lre_decl_allowed name excl attrs d = true.
Proof.
  unfold lre_decls, lre_decl_allowed. intros name inscope excl attrs [p u] H.
  apply filter_In in H. destruct H as [Hin Hf]. split.
  - eapply dedupe_in; eauto.
  - simpl. exact Hf.
Qed.

Lemma lre_decls_nodup : forall name inscope excl attrs,
  NoDup (map fst (lre_decls name inscope excl attrs)).
Proof. intros. unfold lre_decls. apply nodup_map_filter. apply dedupe_nodup. Qed.

(* an excluded namespace is declared by the element only when the element's own name or one of
   its prefixed literal attributes uses that very prefix *)
Lemma lre_excluded_only_if_needed : forall name inscope excl attrs p u,
  In (p, u) (lre_decls name inscope excl attrs) -> mem_uri u excl = true ->
  p = fst name \/ exists a, In a attrs /\ fst (fst a) = p /\ p <> None.
Proof.
  intros name inscope excl attrs p u H He. apply lre_decls_sound in H. destruct H as [_ H].
  unfold lre_decl_allowed in H. simpl in H. rewrite He in H. simpl in H.
  apply andb_true_iff in H. destruct H as [_ H]. apply orb_true_iff in H. destruct H as [H|H].
  - left. apply pfx_eqb_eq. assumption.
  - right. unfold attr_prefix_active in H. destruct p as [a|]; [|discriminate].
    apply existsb_exists in H. destruct H as (x & Hx & Hp). exists x. split; auto. split.
    + symmetry. apply pfx_eqb_eq. assumption.
    + discriminate.
Qed.

(* ---------------------------------------------------------------------------------------- *)
(* copyNamespaceAttributes: the nearest declaration of a prefix (or of the default namespace) wins,
   and each prefix is offered once *)

Lemma copy_ns_level_dedupe : forall l visited,
  copy_ns_level l visited = (dedupe l visited, rev (map fst (dedupe l visited)) ++ visited).
Proof.
  induction l as [|[p u] r IH]; intros visited; simpl; [reflexivity|].
  destruct (mem_pfx p visited); [apply IH|].
  rewrite IH. simpl. rewrite <- app_assoc. reflexivity.
Qed.

Lemma mem_pfx_app : forall p a b, mem_pfx p (a ++ b) = mem_pfx p a || mem_pfx p b.
Proof. intros. unfold mem_pfx. apply existsb_app. Qed.

Lemma mem_pfx_rev : forall p a, mem_pfx p (rev a) = mem_pfx p a.
Proof.
  intros p a. induction a as [|x r IH]; simpl; auto.
  rewrite mem_pfx_app, IH. simpl. rewrite orb_false_r. apply orb_comm.
Qed.

Lemma dedupe_lookup : forall p l seen, mem_pfx p seen = false ->
  ctx_lookup p (dedupe l seen) = ctx_lookup p l.
Proof.
  induction l as [|[p' u'] r IH]; intros seen Hs; simpl; [reflexivity|].
  destruct (mem_pfx p' seen) eqn:E.
  - assert (Hne : pfx_eqb p p' = false).
    { destruct (pfx_eqb p p') eqn:Q; auto. apply pfx_eqb_eq in Q. subst. congruence. }
    rewrite Hne. apply IH. assumption.
  - simpl. destruct (pfx_eqb p p') eqn:Q; [reflexivity|].
    apply IH. simpl. rewrite Q. assumption.
Qed.

Lemma dedupe_lookup_seen : forall p l seen, mem_pfx p seen = true -> ctx_lookup p (dedupe l seen) = None.
Proof.
  induction l as [|[p' u'] r IH]; intros seen Hs; simpl; [reflexivity|].
  destruct (mem_pfx p' seen) eqn:E; [auto|].
  simpl. destruct (pfx_eqb p p') eqn:Q.
  - apply pfx_eqb_eq in Q. subst. congruence.
  - apply IH. simpl. rewrite Q. assumption.
Qed.

Lemma ctx_lookup_app : forall p a b,
  ctx_lookup p (a ++ b) = match ctx_lookup p a with Some u => Some u | None => ctx_lookup p b end.
Proof.
  induction a as [|[p' u'] r IH]; intros b; simpl; [reflexivity|].
  destruct (pfx_eqb p p'); auto.
Qed.

Lemma ctx_lookup_mem : forall p l, ctx_lookup p l = None -> mem_pfx p (map fst l) = false.
Proof.
  induction l as [|[p' u'] r IH]; simpl; intro H; [reflexivity|].
  destruct (pfx_eqb p p'); [discriminate|]. auto.
Qed.

Lemma ctx_lookup_mem_some : forall p l u, ctx_lookup p l = Some u -> mem_pfx p (map fst l) = true.
Proof.
  induction l as [|[p' u'] r IH]; simpl; intros u H; [discriminate|].
  destruct (pfx_eqb p p'); [reflexivity|]. eauto.
Qed.

Lemma copy_ns_walk_lookup : forall p levels visited, mem_pfx p visited = false ->
  ctx_lookup p (copy_ns_walk levels visited) = ctx_lookup p (concat levels).
Proof.
  induction levels as [|l r IH]; intros visited Hv; simpl; [reflexivity|].
  rewrite copy_ns_level_dedupe. rewrite !ctx_lookup_app.
  rewrite (dedupe_lookup p l visited Hv).
  destruct (ctx_lookup p l) as [u|] eqn:E; [reflexivity|].
  apply IH. rewrite mem_pfx_app, mem_pfx_rev, Hv, orb_false_r.
  apply ctx_lookup_mem. rewrite dedupe_lookup; assumption.
Qed.

Lemma copy_ns_nearest_wins_l : forall p levels,
  ctx_lookup p (copy_ns_offered levels) = ctx_lookup p (concat levels).
Proof. intros. apply copy_ns_walk_lookup. reflexivity. Qed.

Lemma copy_ns_walk_seen : forall p levels visited, mem_pfx p visited = true ->
  ctx_lookup p (copy_ns_walk levels visited) = None.
Proof.
  induction levels as [|l r IH]; intros visited Hv; simpl; [reflexivity|].
  rewrite copy_ns_level_dedupe, ctx_lookup_app, (dedupe_lookup_seen p l visited Hv).
  apply IH. rewrite mem_pfx_app, Hv. apply orb_true_r.
Qed.


(* ---------------------------------------------------------------------------------------- *)
(* getPrefixForNamespace only answers with a prefix that is still bound to the URI (KN1 repair) *)

Lemma prefix_for_ns_sound : forall k u p, prefix_for_ns k u = Some p -> ns_for_prefix k p = Some u.
Proof.
  unfold prefix_for_ns. intros k u p H.
  destruct (all_empty k) eqn:E; [discriminate|].
  destruct (stk_prefix_for u k) as [q|]; [|discriminate].
  destruct (ns_for_prefix k q) as [w|] eqn:Eq; [|discriminate].
  destruct (N.eqb w u) eqn:Ew; [|discriminate].
  inversion H; subst. apply N.eqb_eq in Ew. subst. exact Eq.
Qed.

(* ---------------------------------------------------------------------------------------- *)
(* witnesses: the faithful model still violates the full statement in two classes (known findings
   K17, KN6; replays in corpus/C14); the programs of the repaired defects are regression examples *)

Definition U (n : N) : atom := AUser n.

(* K17: attributes a@u11, a@u12, x:a@u11 on one literal result element *)
Definition k17_prog : list op :=
  [OLre (None, U 2) [] [] []; OAttr (None, U 5) (Some 11) None 1; OAttr (None, U 5) (Some 12) None 2;
   OAttr (Some (U 6), U 5) (Some 11) None 3; OEnd].
(* KN6: xsl:element name="p:e" namespace="" with xmlns:p="u4" *)
Definition emptyns_prog : list op := [OElem (Some (U 1), U 2) (Some 0) (Some 4) None 0; OEnd].

Definition refuted (p : list op) : Prop :=
  guard_ok p = false /\ wellformed (events (run p)) = false.
Definition accepted (p : list op) : Prop :=
  guard_ok p = true /\ wellformed (events (run p)) = true.

(* KN10: <o xmlns:p="u4"><e p:a=".." xsl:use-attribute-sets="s"/></o>, s = xsl:attribute name="p:z" namespace="u6" *)
Definition kn10_prog : list op :=
  [OLre (None, U 1) [(Some (U 0), 4)] [] [];
   OLreOpen (None, U 2) [(Some (U 0), 4)] [] [((Some (U 0), U 3), 9)];
   OSetAttr (Some (U 0), U 4) (Some 6) None 8;
   OLreAttrs [(Some (U 0), 4)] [((Some (U 0), U 3), 9)]; OEnd; OEnd].

(* each of these is a witness against the full statement on a tree without the repair, and a
   regression example (guard holds, reader accepts) on a tree with it; GenNsfix says which *)
Definition witness (fixed : bool) (p : list op) : Prop := if fixed then accepted p else refuted p.

Lemma k17_witness_l : witness k17_fixed k17_prog. Proof. vm_compute. split; reflexivity. Qed.
Lemma emptyns_witness_l : witness kn6_fixed emptyns_prog. Proof. vm_compute. split; reflexivity. Qed.
Lemma kn10_witness_l : witness kn10_fixed kn10_prog. Proof. vm_compute. split; reflexivity. Qed.

(* repaired: K3, K16 (xmlns: and xml:), KN1, KN2, KN3, KN4, KN5 *)
Definition k3_prog : list op :=
  [OElem (Some (U 1), U 2) (Some 5) None None 0; OAttr (Some (U 3), U 4) None (Some 5) 7; OEnd].
Definition k16_prog : list op := [OElem (Some AXmlns, U 2) (Some 9) None None 0; OEnd].
Definition k16b_prog : list op := [OElem (Some AXml, U 2) (Some 9) None None 0; OEnd].
Definition shadow_prog : list op :=
  [OLre (Some (U 1), U 2) [(Some (U 1), 4)] [] []; OLre (Some (U 1), U 3) [(Some (U 1), 5); (Some (U 1), 4)] [] [];
   OAttr (None, U 4) (Some 4) None 1; OEnd; OEnd].
Definition leak_prog : list op :=
  [OLre (None, U 1) [] [] []; OText; OAttr (None, U 2) (Some 4) None 1; OLre (None, U 3) [] [] []; OEnd; OEnd].
Definition xmlish_prog : list op :=
  [OLre (None, U 1) [] [] []; OAttr (Some (AXmlish 0), U 2) None (Some 4) 1; OEnd].
Definition undecl_prog : list op := [OElem (Some (U 1), U 2) (Some 0) None None 0; OEnd].
Definition xmlprefix_prog : list op :=
  [OLre (None, U 1) [] [] []; OAttr (Some AXml, U 2) (Some 4) None 1; OEnd].

Lemma k3_accepted_l : accepted k3_prog. Proof. vm_compute. split; reflexivity. Qed.
Lemma k16_accepted_l : accepted k16_prog. Proof. vm_compute. split; reflexivity. Qed.
Lemma k16b_accepted_l : accepted k16b_prog. Proof. vm_compute. split; reflexivity. Qed.
Lemma shadow_accepted_l : accepted shadow_prog. Proof. vm_compute. split; reflexivity. Qed.
Lemma xmlish_accepted_l : accepted xmlish_prog. Proof. vm_compute. split; reflexivity. Qed.
Lemma undecl_accepted_l : accepted undecl_prog. Proof. vm_compute. split; reflexivity. Qed.
Lemma xmlprefix_accepted_l : accepted xmlprefix_prog. Proof. vm_compute. split; reflexivity. Qed.
(* the late attribute is dropped: <f> is written without attributes *)
Lemma leak_accepted_l :
  accepted leak_prog /\ nth 2 (events (run leak_prog)) EText = EStart (None, U 3) (0, U 3) [].
Proof. vm_compute. repeat split; reflexivity. Qed.

(* non-vacuity: programs on which the guard holds and the reader accepts the events, exercising
   prefix invention, re-binding of a prefix at a deeper level, xmlns="" and an excluded namespace
   that is needed *)
Definition ok_prog1 : list op :=
  [OLre (Some (U 1), U 2) [(Some (U 1), 4)] [] [];
   OLre (Some (U 1), U 3) [(Some (U 1), 5); (Some (U 1), 4)] [] [];
   OAttr (Some (U 7), U 4) (Some 6) None 1; OAttr (None, U 4) (Some 7) None 2; OAttr (None, U 5) (Some 8) None 2;
   OEnd; OEnd].
Definition ok_prog2 : list op :=
  [OLre (None, U 1) [(None, 4)] [] []; OElem (None, U 2) (Some 0) None (Some 4) 4;
   OAttr (Some (U 3), U 4) None (Some 5) 9; OEnd; OEnd].
Lemma ok_prog1_l : accepted ok_prog1. Proof. vm_compute. split; reflexivity. Qed.
Lemma ok_prog2_l : accepted ok_prog2. Proof. vm_compute. split; reflexivity. Qed.
