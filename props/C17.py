"""C17 — xsl:number counts per the Recommendation, independent of evaluation history; formatting decodes."""
import os, re, json
from vlib import core, xsltrun

LEVEL = "proof"
FAMILY = "num7"
XSL = "http://www.w3.org/1999/XSL/Transform"


def tok(s):
    return "u:" + ",".join("%x" % ord(c) for c in s)


def untok(t):
    body = t[2:]
    return "" if not body else "".join(chr(int(h, 16)) for h in body.split(","))


def xa(s):
    return s.replace("&", "&amp;").replace("<", "&lt;").replace('"', "&quot;")


# ---------------------------------------------------------------------------------------------
# documents: a Python tree; node = dict(kind, name, attrs, kids); document order = preorder

def mk(kind, name="", attrs=None, kids=None):
    return {"kind": kind, "name": name, "attrs": attrs or {}, "kids": kids or []}


def gen_doc(rng, max_nodes, names, leafy=0.0, pis=True):
    """a random document: one document element; elements, a few text / comment / PI nodes"""
    budget = [max_nodes]

    def elem(depth):
        budget[0] -= 1
        n = mk("elem", rng.choice(names))
        if rng.random() < 0.3:
            n["attrs"]["k"] = "1"
        nk = 0 if depth >= 6 else rng.choice([0, 0, 1, 2, 2, 3, 4, 5])
        last_text = False
        for _ in range(nk):
            if budget[0] <= 0:
                break
            r = rng.random()
            if r < 0.12 + leafy and not last_text:
                budget[0] -= 1
                n["kids"].append(mk("text", "", kids=[]))
                last_text = True
            elif r < 0.16 + leafy:
                budget[0] -= 1
                n["kids"].append(mk("comment"))
                last_text = False
            elif r < 0.19 + leafy and pis:
                budget[0] -= 1
                n["kids"].append(mk("pi", rng.choice(["p", "q"])))
                last_text = False
            else:
                n["kids"].append(elem(depth + 1))
                last_text = False
        return n
    top = elem(0)
    while budget[0] > max_nodes // 2 and len(top["kids"]) < 8:
        top["kids"].append(elem(1))
    return mk("root", kids=[top])


def serialize(n):
    k = n["kind"]
    if k == "root":
        return "".join(serialize(c) for c in n["kids"])
    if k == "text":
        return "t"
    if k == "comment":
        return "<!--c-->"
    if k == "pi":
        return "<?%s d?>" % n["name"]
    at = "".join(' %s="%s"' % kv for kv in sorted(n["attrs"].items()))
    if not n["kids"]:
        return "<%s%s/>" % (n["name"], at)
    return "<%s%s>%s</%s>" % (n["name"], at, "".join(serialize(c) for c in n["kids"]), n["name"])


def index(doc):
    """preorder list of nodes with parent / position links"""
    out = []

    def go(n, parent):
        n["parent"] = parent
        n["idx"] = len(out)
        out.append(n)
        for c in n["kids"]:
            go(c, n)
    go(doc, None)
    return out


def ancestors(n):
    r = []
    p = n["parent"]
    while p is not None:
        r.append(p)
        p = p["parent"]
    return r


# ---------------------------------------------------------------------------------------------
# patterns: (pattern text, XPath predicate over the candidate node, Python matcher)

def p_name(x):
    return (x, "self::%s" % x, lambda n: n["kind"] == "elem" and n["name"] == x)


def p_child(a, x):
    return ("%s/%s" % (a, x), "self::%s[parent::%s]" % (x, a),
            lambda n: n["kind"] == "elem" and n["name"] == x and n["parent"] is not None and n["parent"]["kind"] == "elem" and n["parent"]["name"] == a)


def p_desc(a, x):
    return ("%s//%s" % (a, x), "self::%s[ancestor::%s]" % (x, a),
            lambda n: n["kind"] == "elem" and n["name"] == x and any(p["kind"] == "elem" and p["name"] == a for p in ancestors(n)))


def p_attr(x):
    return ("%s[@k]" % x, "self::%s[@k]" % x, lambda n: n["kind"] == "elem" and (x == "*" or n["name"] == x) and "k" in n["attrs"])


P_STAR = ("*", "self::*", lambda n: n["kind"] == "elem")
P_NODE = ("node()", "parent::node()", lambda n: n["kind"] != "root")
P_TEXT = ("text()", "self::text()", lambda n: n["kind"] == "text")
P_COMMENT = ("comment()", "self::comment()", lambda n: n["kind"] == "comment")
P_PI = ("processing-instruction()", "self::processing-instruction()", lambda n: n["kind"] == "pi")
P_ROOT = ("/", "not(parent::node())", lambda n: n["kind"] == "root")


def p_union(a, b):
    return (a[0] + "|" + b[0], "(%s or %s)" % (a[1], b[1]), lambda n: a[2](n) or b[2](n))


def gen_pattern(rng, names, for_from=False):
    r = rng.random()
    x = rng.choice(names)
    y = rng.choice(names)
    if r < 0.45:
        p = p_name(x)
    elif r < 0.55:
        p = p_union(p_name(x), p_name(y))
    elif r < 0.63:
        p = P_STAR
    elif r < 0.70:
        p = p_child(y, x)
    elif r < 0.76:
        p = p_desc(y, x)
    elif r < 0.84:
        p = p_attr(rng.choice([x, "*"]))
    elif r < 0.89:
        p = P_NODE
    elif r < 0.93:
        p = p_union(p_name(x), P_TEXT)
    elif r < 0.96:
        p = rng.choice([P_TEXT, P_COMMENT, P_PI])
    else:
        p = p_union(p_name(x), rng.choice([P_COMMENT, P_PI]))
    if for_from and rng.random() < 0.08:
        p = P_ROOT if rng.random() < 0.5 else p_union(p, P_ROOT)
    return p


def default_pattern(src):
    """getCountMatchPattern: same node type and (for elements / PIs) the same name"""
    k, nm = src["kind"], src["name"]
    if k in ("elem", "pi"):
        return lambda n: n["kind"] == k and n["name"] == nm
    return lambda n: n["kind"] == k


# ---------------------------------------------------------------------------------------------
# XSLT 1.0 section 7.7 by brute force over the Python tree (independent of the Coq model)

def ref_number_list(nodes, n, level, cnt_of, frm):
    cnt = cnt_of(n)
    if level == "any":
        before = [m for m in nodes[:n["idx"]]]          # preceding + ancestors (no attribute nodes in the list)
        start = 0
        if frm:
            fs = [m["idx"] for m in before if frm(m)]
            if fs:
                start = fs[-1] + 1
        c = sum(1 for m in nodes[start:n["idx"] + 1] if cnt(m))
        return [c] if c else []
    chain = [n] + ancestors(n)
    if frm:
        cut = []
        for i, a in enumerate(chain):
            if i > 0 and frm(a):
                break
            cut.append(a)
        chain = cut
    sel = [a for a in chain if cnt(a)]
    if level == "single":
        sel = sel[:1]

    def num(a):
        if a["parent"] is None:
            return 1
        sib = a["parent"]["kids"]
        return 1 + sum(1 for s in sib if s["idx"] < a["idx"] and cnt(s))
    return [num(a) for a in reversed(sel)]


# guards of the _partial theorems = classes of the known findings
def guard_single(n, cnt, frm):
    """count_single_partial: no from match among the proper ancestors up to and including the first count match"""
    if cnt(n):
        return True
    for a in ancestors(n):
        if frm(a):
            return False
        if cnt(a):
            return True
    return True


def guard_self_from(n, frm):
    return not frm(n)


def guard_leaf_from(nodes, frm):
    """count_any_partial: every node matching from has a child"""
    return all(m["kids"] or m["kind"] == "root" for m in nodes if frm(m))


# ---------------------------------------------------------------------------------------------
# independent decoder of formatted number lists

ROMAN = {"I": 1, "V": 5, "X": 10, "L": 50, "C": 100, "D": 500, "M": 1000}


def is_alnum(c):
    return c.isascii() and c.isalnum()


def fmt_tokens(fmt):
    return re.findall(r"[A-Za-z0-9]+|[^A-Za-z0-9]+", fmt or "1")


def dec_roman(s):
    t = 0
    last = 0
    for c in reversed(s):
        v = ROMAN[c]
        if v < last:
            t -= v
        else:
            t += v
            last = v
    return t


def dec_alpha(s):
    t = 0
    for c in s:
        t = t * 26 + (ord(c) - 64)
    return t


def decode_list(fmt, gsep, out, gsize=0):
    """returns the list of numbers or raises ValueError"""
    toks = fmt_tokens(fmt)
    leader = trailer = ""
    if toks and not is_alnum(toks[0][0]):
        leader = toks[0]
        toks = toks[1:]
        if not toks and len(fmt_tokens(fmt)) == 1:
            pass
    full = fmt_tokens(fmt)
    if len(full) > 1 and not is_alnum(full[-1][0]):
        trailer = full[-1]
        toks = toks[:-1]
    if not out.startswith(leader) or not out.endswith(trailer) or len(out) < len(leader) + len(trailer):
        raise ValueError("leader/trailer missing in %r" % out)
    body = out[len(leader):len(out) - len(trailer)]
    ntype, sep = "1", None
    nums = []
    i = 0
    pos = 0
    while True:
        if i < len(toks):
            ntype = toks[i][-1]
            i += 1
        if i < len(toks):
            sep = toks[i]
            i += 1
        if ntype in "Ii" and pos < len(body) and body[pos].isdigit():
            # 0 and the values without a roman numeral (above 3999) are written in decimal
            cls = lambda c: c.isdigit()
        elif ntype in "AaIi":
            cls = (lambda c: "A" <= c <= "Z") if ntype in "AI" else (lambda c: "a" <= c <= "z")
        else:
            cls = lambda c: c.isdigit() or (gsep is not None and c == gsep)
        j = pos
        while j < len(body) and cls(body[j]):
            j += 1
        run = body[pos:j]
        if not run:
            raise ValueError("no number at offset %d of %r" % (pos, body))
        if ntype in "Aa":
            nums.append(dec_alpha(run.upper()))
        elif ntype in "Ii":
            if run.isdigit():
                if 1 <= int(run) <= 3999 or (len(run) > 1 and run[0] == "0"):
                    raise ValueError("decimal numeral %r where a roman numeral exists" % run)
                nums.append(int(run))
            else:
                if any(c not in ROMAN for c in run.upper()):
                    raise ValueError("not roman: %r" % run)
                nums.append(dec_roman(run.upper()))
        else:
            d = run.replace(gsep, "") if gsep else run
            if not d.isdigit():
                raise ValueError("not decimal: %r" % run)
            if gsep and gsize > 0:
                # groups of exactly gsize digits counted from the right (pad zeros in front are not grouped by Xalan)
                body_ = run.lstrip("0")
                if body_ and not re.fullmatch(r"\d{1,%d}(%s\d{%d})*" % (gsize, re.escape(gsep), gsize), body_):
                    raise ValueError("digits are not in groups of %d from the right: %r" % (gsize, run))
            nums.append(int(d))
        pos = j
        if pos == len(body):
            return nums
        s = sep if sep is not None else "."
        if not body.startswith(s, pos):
            raise ValueError("separator %r expected at offset %d of %r" % (s, pos, body))
        pos += len(s)


def decodable(fmt, gsep):
    """formats whose output decodes unambiguously: separators do not start with the grouping separator"""
    toks = fmt_tokens(fmt)
    for t in toks:
        if not is_alnum(t[0]) and gsep and t[0] == gsep:
            return False
        if is_alnum(t[0]) and (not t.isascii() or t[-1] in "0"):
            return False
    return not (gsep and (gsep == "." or gsep.isalnum()))


# ---------------------------------------------------------------------------------------------
# case construction

FORMATS = ["", "1", "1.1", "a", "A", "i", "I", "01", "001", "1.a-i", "(1)", "A.1", "i-1", "[1.A]", "1. ", "I.a.1", "-1-", "1,a", "0001:A", "a1"]
NAMESETS = [["x", "h", "a"], ["x", "y", "h", "a", "b"], ["x", "h"]]


def model_label(n, cbit, fbit):
    kind = n["kind"]
    if kind == "root":
        cls = 0
    elif kind == "elem":
        cls = 10 + (ord(n["name"][0]) - 96)
    elif kind == "text":
        cls = 1
    elif kind == "comment":
        cls = 2
    else:
        cls = 3 + (ord(n["name"][0]) - ord("p"))
    return "%d,%d,%d" % (cls, 1 if cbit else 0, 1 if fbit else 0)


def model_tree(n, cnt, frm):
    return "(" + model_label(n, cnt(n) if cnt else False, frm(n) if frm else False) + "".join(model_tree(c, cnt, frm) for c in n["kids"]) + ")"


def make_orders(rng, nn, thorough):
    doc = list(range(nn))
    orders = [("doc", doc), ("rev", doc[::-1])]
    sh = doc[:]
    rng.shuffle(sh)
    orders.append(("shuffled", sh))
    rep = [rng.randrange(nn) for _ in range(min(2 * nn, 40))]
    orders.append(("repeats", rep))
    # back-to-front in two interleaved passes: odd positions backwards, then all forwards
    orders.append(("interleaved", doc[::-2] + doc))
    return orders


def count_sheet(level, cpat, fpat, fmt, gsep, gsize, order, oracle_xpath):
    attrs = ' level="%s"' % level
    if cpat is not None:
        attrs += ' count="%s"' % xa(cpat[0])
    if fpat is not None:
        attrs += ' from="%s"' % xa(fpat[0])
    if fmt:
        attrs += ' format="%s"' % xa(fmt)
    if gsep is not None:
        attrs += ' grouping-separator="%s" grouping-size="%d"' % (xa(gsep), gsize)
    body = ""
    if oracle_xpath and cpat is not None:
        C = cpat[1]
        F = fpat[1] if fpat is not None else None
        if level == "any":
            if F is None:
                body = '<xsl:value-of select="count((preceding::node()|ancestor-or-self::node())[%s])"/>' % xa(C)
            else:
                body = ('<xsl:variable name="f" select="(preceding::node()|ancestor::node())[%s][last()]"/>'
                        '<xsl:choose><xsl:when test="$f"><xsl:value-of select="count((preceding::node()|ancestor-or-self::node())[%s]'
                        '[count(.|$f/descendant::node()|$f/following::node()) = count($f/descendant::node()|$f/following::node())])"/></xsl:when>'
                        '<xsl:otherwise><xsl:value-of select="count((preceding::node()|ancestor-or-self::node())[%s])"/></xsl:otherwise></xsl:choose>') % (xa(F), xa(C), xa(C))
        else:
            cut = "" if F is None else "[count(ancestor::node()[%s]) = count(current()/ancestor::node()[%s])]" % (xa(F), xa(F))
            body = ('<xsl:for-each select="ancestor-or-self::node()[%s]%s"><xsl:value-of select="count(preceding-sibling::node()[%s])+1"/>.</xsl:for-each>'
                    % (xa(C), cut, xa(C)))
    s = '<xsl:stylesheet version="1.0" xmlns:xsl="%s"><xsl:output method="text"/>' % XSL
    s += '<xsl:template match="node()|/" mode="n"><xsl:number%s/>;%s|</xsl:template>' % (attrs, body)
    s += '<xsl:template match="/"><xsl:variable name="all" select="/|//node()"/>'
    for i in order:
        s += '<xsl:apply-templates select="$all[%d]" mode="n"/>' % (i + 1)
    s += '</xsl:template></xsl:stylesheet>'
    return s


def gen_count_cases(ctx, n_docs, tag="c"):
    rng = ctx.rng
    cases = []
    for d in range(n_docs):
        names = rng.choice(NAMESETS)
        all_explicit = rng.random() < 0.7
        doc = gen_doc(rng, rng.choice([6, 10, 16, 24, 32]), names, leafy=rng.choice([0.0, 0.0, 0.1]), pis=True)
        nodes = index(doc)
        src = serialize(doc)
        for _ in range(2):
            level = rng.choice(["single", "multiple", "any", "any"])
            explicit = all_explicit or rng.random() < 0.4
            cpat = gen_pattern(rng, names, for_from=rng.random() < 0.3) if explicit else None   # sometimes matches the root
            fpat = gen_pattern(rng, names, for_from=True) if rng.random() < 0.5 else None
            fmt = rng.choice(FORMATS)
            gsep, gsize = (rng.choice([",", " ", "'"]), rng.choice([1, 2, 3])) if rng.random() < 0.15 else (None, 0)
            for oname, order in make_orders(rng, len(nodes), ctx.thorough):
                if not ctx.thorough and oname in ("repeats", "interleaved") and rng.random() < 0.5:
                    continue
                cases.append({"id": "%s%d" % (tag, len(cases)), "kind": "count", "doc": doc, "nodes": nodes, "src": src,
                              "level": level, "cpat": cpat, "fpat": fpat, "fmt": fmt, "gsep": gsep, "gsize": gsize,
                              "order": order, "oname": oname, "opts": "xercesdom" if rng.random() < 0.2 else ""})
    return cases


def boundary_values():
    vals = set(range(1, 60))
    p = 1
    s = 0
    for k in range(1, 12):
        p *= 26
        s += p                     # 26 + 26^2 + ... + 26^k = "Z...Z" (k letters)
        for v in (p - 1, p, p + 1, s - 1, s, s + 1, 2 * p, 2 * p + 1, 27 * p // 26):
            if 0 < v < 2 ** 53:
                vals.add(v)
    for v in (3998, 3999, 4000, 4001, 1999, 2888, 3888, 444, 949, 1994, 99, 100, 999, 1000, 1001, 9999, 10000, 99999, 100000,
              999999, 1000000, 1234567, 12345678, 123456789, 2 ** 31, 2 ** 32, 2 ** 53, 2 ** 60, 2 ** 63, 2 ** 64 - 2048):
        vals.add(v)
    return sorted(vals)


def gen_value_cases(ctx, n_random):
    rng = ctx.rng
    items = []
    bv = boundary_values()
    for v in bv:
        for f in ("A", "a", "1"):
            items.append((v, f, None, 0))
        if v <= 5000 or v in (9999, 10000, 1234567, 2 ** 32, 2 ** 53, 2 ** 64 - 2048):
            for f in ("I", "i"):
                items.append((v, f, None, 0))
    for v in bv:
        if rng.random() < 0.5 or v in (999, 1000, 99999, 100000, 999999, 1000000, 1234567):
            for gs in (1, 2, 3, 4):
                items.append((v, rng.choice(["1", "01", "00001", "000000001"]), rng.choice([",", " ", "'", "."]), gs))
    for _ in range(n_random):
        v = rng.choice([rng.randrange(1, 4000), rng.randrange(1, 20000), rng.randrange(1, 10 ** rng.randrange(1, 16))])
        f = rng.choice(["A", "a", "1", "01", "0001", "I", "i", "x1", "(a)", "1.", "-A-"])
        if f[-1:] in "Ii" or "I" in f or "i" in f:
            v = v % 4100 + 1
        if rng.random() < 0.3:
            items.append((v, f, rng.choice([",", " ", "'"]), rng.choice([1, 2, 3, 4, 5])))
        else:
            items.append((v, f, None, 0))
    cases = []
    for k in range(0, len(items), 40):
        cases.append({"id": "v%d" % len(cases), "kind": "value", "items": items[k:k + 40]})
    return cases


def value_sheet(items):
    s = '<xsl:stylesheet version="1.0" xmlns:xsl="%s"><xsl:output method="text"/><xsl:template match="/">' % XSL
    for v, f, gsep, gs in items:
        a = ' value="%d" format="%s"' % (v, xa(f))
        if gsep is not None:
            a += ' grouping-separator="%s" grouping-size="%d"' % (xa(gsep), gs)
        s += "<xsl:number%s/><xsl:text>&#10;</xsl:text>" % a
    return s + "</xsl:template></xsl:stylesheet>"


def model_lines(c):
    if c["kind"] == "value":
        return ["%s.%d fmt %s %d %s %x" % (c["id"], i, tok(g) if g is not None else "-", gs, tok(f), v)
                for i, (v, f, g, gs) in enumerate(c["items"])]
    cnt = c["cpat"][2] if c["cpat"] is not None else None
    frm = c["fpat"][2] if c["fpat"] is not None else None
    lv = {"single": 0, "multiple": 1, "any": 2}[c["level"]]
    return ["%s cnt %d %d %d %s %s" % (c["id"], 1 if cnt else 0, 1 if frm else 0, lv, model_tree(c["doc"], cnt, frm),
                                       ",".join(str(i) for i in c["order"]))]


def describe(c):
    if c["kind"] == "value":
        return "value sweep " + c["id"]
    return "level=%s count=%s from=%s format=%r grouping=%r/%d order=%s(%s) %s source=%s" % (
        c["level"], c["cpat"][0] if c["cpat"] else "(default)", c["fpat"][0] if c["fpat"] else "(none)", c["fmt"], c["gsep"], c["gsize"],
        c["oname"], ",".join(str(i) for i in c["order"]), c["opts"], c["src"])


def sheet_of(c, oracle_xpath=True):
    if c["kind"] == "value":
        return value_sheet(c["items"])
    return count_sheet(c["level"], c["cpat"], c["fpat"], c["fmt"], c["gsep"], c["gsize"], c["order"], oracle_xpath)


# ---------------------------------------------------------------------------------------------

def evaluate(ctx, cases, model, known):
    """runs the library, the model and the oracles; returns (corr, orc)"""
    corr, orc = [], []
    xc = [{"id": c["id"], "sheet": sheet_of(c), "source": c.get("src", "<d/>"), "opts": c.get("opts", "")} for c in cases]
    res = xsltrun.run(xc)
    mres = {}
    if model:
        lines = [l for c in cases for l in model_lines(c)]
        rc, mres, raw = core.run_lines_parallel(model, lines)
        if rc != 0:
            corr.append({"case": "(model process)", "impl": "", "model": raw[-300:]})
    fmt_req = []    # second model stage: format the model's own number lists
    pending = []
    seen = set()
    for c in cases:
        r = res.get(c["id"])
        if r is None or r[0] != "ok":
            orc.append({"case": c, "what": "transformation failed: %r" % (r,), "known": None, "item": None})
            continue
        out = r[1].decode("utf-8", "replace")
        if c["kind"] == "value":
            lines = out.split("\n")
            for i, (v, f, g, gs) in enumerate(c["items"]):
                ctx.cov["evaluations"] += 1
                ctx.count("value:" + ("roman" if f[-1:] in "Ii" else "alpha" if f[-1:] in "Aa" else "decimal") + (":grouped" if g else ""))
                got = lines[i] if i < len(lines) else None
                key = ("v", v, f, g, gs)
                seen.add(key)
                if model:
                    m = mres.get("%s.%d" % (c["id"], i))
                    ctx.cov["traces_validated_against_impl"] += 1
                    if m is None or m == "none" or untok(m) != got:
                        corr.append({"case": "value=%d format=%r grouping=%r/%d" % (v, f, g, gs), "impl": got, "model": m if m in (None, "none") else untok(m)})
                # oracle: decode the string back
                what = None
                kn = None
                if got is None:
                    what = "no output"
                elif decodable(f, g):
                    try:
                        nums = decode_list(f, g, got, gs)
                        if nums != [v]:
                            what = "decodes to %r" % (nums,)
                    except ValueError as e:
                        what = "does not decode: %s" % e
                    if what and f[-1:] in "Ii" and v > 3999:
                        kn = "K22"
                if what:
                    orc.append({"case": c, "item": i, "known": kn,
                                "what": '<xsl:number value="%d" format="%s"%s/> printed %r: %s' % (
                                    v, f, "" if g is None else ' grouping-separator="%s" grouping-size="%d"' % (g, gs), got, what)})
            continue
        # counting case
        nodes = c["nodes"]
        cntf = (lambda n, p=c["cpat"][2]: p) if c["cpat"] is not None else default_pattern
        frm = c["fpat"][2] if c["fpat"] is not None else None
        parts = out.split("|")[:-1]
        ctx.count("count:%s:%s:%s:%s" % (c["level"], "explicit" if c["cpat"] else "default", "from" if frm else "nofrom", c["oname"]))
        if len(parts) != len(c["order"]):
            orc.append({"case": c, "what": "expected %d numbered nodes, output has %d: %r" % (len(c["order"]), len(parts), out[:200]), "known": None, "item": None})
            continue
        got_strs = []
        leaf_ok = frm is None or guard_leaf_from(nodes, frm)
        for k, (i, part) in enumerate(zip(c["order"], parts)):
            ctx.cov["evaluations"] += 1
            n = nodes[i]
            s, _, xp = part.partition(";")
            got_strs.append(s)
            exp = ref_number_list(nodes, n, c["level"], cntf, frm)
            seen.add((c["src"], c["level"], c["cpat"][0] if c["cpat"] else None, c["fpat"][0] if c["fpat"] else None, i))
            # the library's own count() over the defining axes
            if xp != "" or (c["cpat"] is not None):
                if c["cpat"] is not None:
                    if c["level"] == "any":
                        xl = [int(xp)] if xp not in ("", "0") else []
                    else:
                        xl = [int(t) for t in xp.split(".") if t]
                        if c["level"] == "single":
                            xl = xl[-1:]
                    if xl != exp:
                        orc.append({"case": c, "item": k, "known": None,
                                    "what": "node %d: the reference count %r and the library's count() over the defining axes %r differ (check or XPath defect)" % (i, exp, xl)})
                        continue
            what = None
            if not exp:
                if s != "":
                    what = "node %d (%s): printed %r, section 7.7 gives the empty list" % (i, n["kind"] + ":" + n["name"], s)
            elif decodable(c["fmt"], c["gsep"]):
                try:
                    nums = decode_list(c["fmt"], c["gsep"], s, c["gsize"]) if s != "" else []
                    if nums != exp:
                        what = "node %d (%s): printed %r = %r, section 7.7 gives %r" % (i, n["kind"] + ":" + n["name"], s, nums, exp)
                except ValueError as e:
                    what = "node %d: output %r does not decode (%s), expected %r" % (i, s, e, exp)
            elif s == "":
                what = "node %d: nothing printed, section 7.7 gives %r" % (i, exp)
            if what:
                kn = None
                if frm is not None:
                    if c["level"] == "single" and not guard_single(n, cntf(n), frm):
                        kn = "K12"
                    elif c["level"] in ("multiple", "any") and not guard_self_from(n, frm):
                        kn = "K-new-3"
                    elif c["level"] == "any" and not leaf_ok:
                        kn = "K-new-1"
                orc.append({"case": c, "item": k, "known": kn, "what": what})
        if model:
            m = mres.get(c["id"])
            if m is None or m == "none":
                corr.append({"case": describe(c), "impl": got_strs, "model": m})
            else:
                mlists = m.split("|")
                if len(mlists) != len(got_strs):
                    corr.append({"case": describe(c), "impl": got_strs, "model": m})
                else:
                    for k, ml in enumerate(mlists):
                        if ml == "":
                            ctx.cov["traces_validated_against_impl"] += 1
                            if got_strs[k] != "":
                                corr.append({"case": describe(c), "impl": got_strs[k], "model": "(empty list) at position %d" % k})
                        else:
                            fmt_req.append("%s.%d fmt %s %d %s %s" % (c["id"], k, tok(c["gsep"]) if c["gsep"] is not None else "-", c["gsize"],
                                                                    tok(c["fmt"]), ",".join("%x" % int(x) for x in ml.split("."))))
                            pending.append((c, k, got_strs[k], ml))
    if model and fmt_req:
        rc, fres, raw = core.run_lines_parallel(model, fmt_req)
        for c, k, got, ml in pending:
            ctx.cov["traces_validated_against_impl"] += 1
            m = fres.get("%s.%d" % (c["id"], k))
            if m is None or m == "none" or untok(m) != got:
                corr.append({"case": describe(c), "impl": got, "model": "numbers %s formatted as %r (position %d)" % (ml, m if m in (None, "none") else untok(m), k)})
    ctx.cov["distinct_nontrivial"] += len(seen)
    return corr, orc


def shrink_case(c, fails):
    """shrink the numbering order of a failing counting case"""
    if c["kind"] != "count":
        return c
    def f(order):
        if not order:
            return False
        d = dict(c)
        d["order"] = order
        return fails(d)
    try:
        order = core.shrink_list(c["order"], f, max_steps=60)
    except Exception:
        order = c["order"]
    d = dict(c)
    d["order"] = order
    return d


def replay_text(c, what):
    return "# %s\n# %s\nSHEET %s\nSOURCE %s\nOPTS %s\n" % (what, describe(c).replace("\n", " "), sheet_of(c, oracle_xpath=False), c.get("src", "<d/>"), c.get("opts", ""))


def corpus_cases():
    """replays of the repaired defect and of the known findings"""
    def doc_of(xml_builder):
        d = xml_builder
        return d, index(d), serialize(d)
    out = []
    # K-new-1 / leaf from: <doc><h/><x/><h/><x/><x/></doc>
    d = mk("root", kids=[mk("elem", "d", kids=[mk("elem", "h"), mk("elem", "x"), mk("elem", "h"), mk("elem", "x"), mk("elem", "x")])])
    nodes = index(d)
    out.append({"id": "k1", "kind": "count", "doc": d, "nodes": nodes, "src": serialize(d), "level": "any", "cpat": p_name("x"), "fpat": p_name("h"),
                "fmt": "1", "gsep": None, "gsize": 0, "order": list(range(len(nodes))), "oname": "doc", "opts": ""})
    # K12: <x><h><y/></h></x> numbering y with count="x" from="h"
    d = mk("root", kids=[mk("elem", "x", kids=[mk("elem", "h", kids=[mk("elem", "y")])])])
    nodes = index(d)
    out.append({"id": "k12", "kind": "count", "doc": d, "nodes": nodes, "src": serialize(d), "level": "single", "cpat": p_name("x"), "fpat": p_name("h"),
                "fmt": "1", "gsep": None, "gsize": 0, "order": [3, 2, 1], "oname": "rev", "opts": ""})
    # F9 (repaired by dde3ead): level="any" from on the root node
    d = mk("root", kids=[mk("elem", "a", kids=[mk("elem", "x")])])
    nodes = index(d)
    out.append({"id": "f9", "kind": "count", "doc": d, "nodes": nodes, "src": serialize(d), "level": "any", "cpat": p_name("x"), "fpat": p_name("foo"),
                "fmt": "1", "gsep": None, "gsize": 0, "order": [0, 1, 2, 0], "oname": "doc", "opts": ""})
    out.append({"id": "k22", "kind": "value", "items": [(4000, "I", None, 0), (3999, "I", None, 0), (4000, "i", None, 0)]})
    return out


def pi_default_case():
    """K-new-4: the default count pattern of a processing instruction is built without quotes"""
    s = ('<xsl:stylesheet version="1.0" xmlns:xsl="%s"><xsl:output method="text"/><xsl:template match="/">'
         '<xsl:for-each select="//processing-instruction()"><xsl:number/>,</xsl:for-each></xsl:template></xsl:stylesheet>') % XSL
    return {"id": "kpi", "sheet": s, "source": '<d><?p x?><?q y?><?p z?></d>'}


def attr_default_case():
    """K-new-2: the default count pattern of an attribute node is built with '&' instead of '@'"""
    s = ('<xsl:stylesheet version="1.0" xmlns:xsl="%s"><xsl:output method="text"/><xsl:template match="/">'
         '<xsl:for-each select="//@*"><xsl:number/>-<xsl:number level="any"/>-<xsl:number level="multiple" count="@*|*"/>,</xsl:for-each></xsl:template></xsl:stylesheet>') % XSL
    return {"id": "kattr", "sheet": s, "source": '<d a="1" b="2"><e b="3"/></d>'}


def run(ctx):
    ctx.assumptions += [
        "count / from patterns are observed through their per-node truth values (the pattern matcher itself is C09/C10/C15)",
        "numbered nodes in the generated streams are the root, elements, text, comment and processing-instruction nodes; attribute nodes by a fixed probe; namespace nodes not numbered",
        "format strings are ASCII; letter-value, lang and the Greek / unsupported numbering letters are outside the model",
        "values passed through value= are below 2^64 (CountType(double) is undefined above)",
        "XSLT 1.0 section 7.7 read literally: 'the first node before the current node that matches from' / 'nearest ancestor that matches from' exclude the current node itself",
    ]
    ctx.notes["rule"] = "distinct = (document, level, count, from, node) numbered, or (value, format, grouping) formatted; non-trivial = the xsl:number instruction was executed by the library and compared"
    ok_lib, liblog = core.build_lib("plain")
    if not ok_lib:
        ctx.broken.append("library does not build from the working tree: " + liblog[-500:])
        return ctx.finish(LEVEL)
    proved = ctx.prove(["Properties_C17.v"], ["GenNum7"])
    model, ok_m, mlog = core.build_model(FAMILY)
    if not ok_m:
        ctx.broken.append("model extraction/build failed: " + mlog[-500:])
        model = None
    exe, ok_h, hlog = xsltrun.build()
    if not ok_h:
        ctx.broken.append("xslt driver does not compile against the working tree: " + hlog[-500:])
        return ctx.finish(LEVEL)
    known = {k["key"]: k for k in ctx.known.for_property("C17")}

    cases = corpus_cases()
    n_docs, n_rand = (45, 300) if not ctx.thorough else (500, 4000)
    cases += gen_value_cases(ctx, n_rand)
    cases += gen_count_cases(ctx, n_docs)
    ctx.cov["samples"] = [describe(c)[:300] for c in cases[:3]] + [describe(c)[:300] for c in cases if c["kind"] == "count"][5:9]
    corr, orc = evaluate(ctx, cases, model, known)
    new = [o for o in orc if not (o["known"] and o["known"] in known)]
    if (corr or not proved or not model) and not new and not ctx.thorough:
        ctx.escalated = True
        more = gen_value_cases(ctx, 3000) + gen_count_cases(ctx, 300, tag="e")
        c2, o2 = evaluate(ctx, more, model, known)
        corr += c2
        orc += o2
        new = [o for o in orc if not (o["known"] and o["known"] in known)]

    # K-new-2 (attribute nodes) is outside the generators: one fixed probe
    r = xsltrun.run([attr_default_case()])["kattr"]
    if r[0] == "ok" and r[1] == b"1-1-1.1,1-1-1.1,1-1-1.1.1,":
        pass
    elif r[0] == "err" and "'&" in r[2] and "K-new-2" in known:
        orc.append({"case": None, "item": None, "known": "K-new-2", "what": "default count pattern for an attribute node"})
    else:
        new.append({"case": None, "item": None, "known": None, "what": "numbering attribute nodes with the default count pattern: %r" % (r,)})

    r = xsltrun.run([pi_default_case()])["kpi"]
    if r[0] == "ok" and r[1] == b"1,1,2,":
        pass
    elif r[0] == "err" and "processing-instruction(p)" in r[2] and "K-new-4" in known:
        orc.append({"case": None, "item": None, "known": "K-new-4", "what": "default count pattern for a processing instruction"})
    else:
        new.append({"case": None, "item": None, "known": None, "what": "numbering processing instructions with the default count pattern: %r" % (r,)})

    hits = {}
    for o in orc:
        if o["known"] and o["known"] in known:
            hits[o["known"]] = hits.get(o["known"], 0) + 1
    for k in sorted(hits):
        ctx.known_finding("%s %s" % (k, known[k]["what"]))
    ctx.notes["known_class_hits"] = hits
    if corr:
        ctx.broken.append("correspondence num7: %d of %d comparisons differ between model and library, e.g. %s" % (
            len(corr), ctx.cov["traces_validated_against_impl"], json.dumps(corr[0])[:700]))
        ctx.notes["correspondence_mismatches"] = corr[:20]
    if new:
        def size(o):
            c = o["case"]
            return (0 if c is None else (len(c.get("src", "")) + 3 * len(c.get("order", []))))
        new.sort(key=size)
        texts = []
        for o in new[:8]:
            c = o["case"]
            if c is None:
                texts.append("# " + o["what"] + "\n" + "SHEET %s\nSOURCE %s\n" % (attr_default_case()["sheet"], attr_default_case()["source"]))
                continue
            if c["kind"] == "count" and o["item"] is not None and len(texts) < 3:
                def fails(d):
                    co, oo = evaluate(core.Ctx("C17", "quick", 0), [d], None, known)
                    return any(not (x["known"] and x["known"] in known) for x in oo)
                c = shrink_case(c, fails)
            texts.append(replay_text(c, o["what"]))
        ctx.violation("oracle", "# C17 oracle failures (replay: python3 check.py C17 --replay <this file>)\n" + "\n".join(texts))
    ctx.notes["oracle_failures"] = len(new)
    # default count pattern on namespaced source elements (props/C17_ns.py; added after seed C17_d)
    from props import C17_ns
    C17_ns.run_part(ctx)
    # fractional values of the value attribute, ties above all (props/C17_round.py; added after seed C17_g)
    from props import C17_round
    C17_round.run_part(ctx)
    return ctx.finish(LEVEL, explanation="theorems over the Gallina model of xsl:number counting (zipper walks + counters table) and formatting + "
                      "correspondence of the extracted model with whole transformations of the rebuilt library + independent Python / count() oracle and decoder")


def replay(ctx, path):
    core.build_lib("plain")
    txt = open(path).read()
    sheets = re.findall(r"^SHEET (.*)$", txt, flags=re.M)
    sources = re.findall(r"^SOURCE (.*)$", txt, flags=re.M)
    opts = re.findall(r"^OPTS (.*)$", txt, flags=re.M)
    for i, (s, d) in enumerate(zip(sheets, sources)):
        r = xsltrun.run([{"id": "r", "sheet": s, "source": d, "opts": opts[i].strip() if i < len(opts) else ""}])["r"]
        print(r)
    return 0
