(* model side of the C11 "cache" correspondence: same line protocol as harness/xocache.cpp
     <id>|<v0>;<v1>;...|<op> <op> ...      v = "u:.." string-value of <p> number i
     ops: N<i>,<j>,..  createNodeSet over those <p> (N alone: empty)   S<i> createString(v_i)   D<16 hex>|Dnan createNumber
          n<k> num   s<k>/t<k> str(ctx)/str()   b<k>/c<k> str(ctx,buf)/str(buf)   e<k>/f<k> str(ctx,listener,fn)/str(listener,fn)
          l<k> stringLength   z<k> boolean   -- of the k-th object held;   r<k> the k-th object held goes back to the factory
     <id>|flags  prints whether Coq's guard flags_ok holds for the regenerated flags
   output: <id>|<obs> <obs> ...   n:<16 hex>|n:nan  s:u:..  l:<int>  z:0|1 *)
let show_dbl (x : spec_float) : string =
  match x with S754_nan -> "nan" | _ -> hex_of_z (to_bits x) 16

let show (o : obs) : string =
  match o with
  | ONum x -> "n:" ^ show_dbl x
  | OStr s -> "s:" ^ token_of_u16 s
  | OLen n -> "l:" ^ string_of_int (int_of_n n)
  | OBool b -> if b then "z:1" else "z:0"

let rest (t : string) : string = String.sub t 1 (String.length t - 1)

let op_of (tbl : n list array) (t : string) : op option =
  let value i = if i >= 0 && i < Array.length tbl then tbl.(i) else [] in
  let idx () = nat_of_int (int_of_string (rest t)) in
  let ask q = Some (Ask (idx (), q)) in
  match t.[0] with
  | 'N' ->
      let r = rest t in
      let ids = if r = "" then [] else List.map int_of_string (String.split_on_char ',' r) in
      Some (Create (PNodes (List.map value ids)))
  | 'F' ->
      let r = rest t in
      let items = if r = "" then [] else String.split_on_char ',' r in
      let node it =
        let v = value (int_of_string (rest it)) in
        match it.[0] with 't' -> FText v | 'e' -> FElem v | _ -> FComment v in
      Some (Create (PFrag (List.map node items)))
  | 'S' -> Some (Create (PStr (value (int_of_string (rest t)))))
  | 'D' ->
      let r = rest t in
      Some (Create (PNum (if r = "nan" then S754_nan else of_bits (z_of_hex r))))
  | 'n' -> ask QNum
  | 's' | 't' -> ask QStrRef
  | 'b' | 'c' -> ask QStrBuf
  | 'e' | 'f' -> ask QStrEvents
  | 'l' -> ask QLen
  | 'z' -> ask QBool
  | 'r' -> Some (Return (idx ()))
  | _ -> None

let () =
  let ic = if Array.length Sys.argv > 1 then open_in Sys.argv.(1) else stdin in
  iter_lines ic (fun line ->
    if line <> "" && line.[0] <> '#' then
    match String.split_on_char '|' line with
    | [id; "flags"] -> Printf.printf "%s|%s\n" id (if xo_flags_ok then "1" else "0")
    | [id; vals; ops] ->
        let tbl = Array.of_list (List.map u16_of_token
                    (List.filter (fun s -> s <> "") (String.split_on_char ';' vals))) in
        let l = List.filter_map (fun t -> if t = "" then None else op_of tbl t) (String.split_on_char ' ' ops) in
        Printf.printf "%s|%s\n" id (String.concat " " (List.map show (xo_run l)))
    | _ -> ())
