(* XpSpecDeclModel.v — step and path theorems restated with the declarative node test of
   XpSpecDenDefs.v (section 2.3), and examples showing that the hypotheses of the denotational
   theorems (admissible context, well-formed expression) are satisfiable. *)
From Coq Require Import ZArith NArith List Bool Arith Lia Sorted.
Require Import XV.XpAst XV.DomDefs XV.NumDefs XV.XpDefs XV.XpModel XV.XpSpecDefs XV.XpSpecAxesModel XV.XpSpecStepModel
               XV.XpSpecMainModel XV.XpSpecBuildModel XV.XpSpecDenDefs XV.XpSpecNodeTestModel XV.XpSpecRelModel XV.XpSpecDenModel.
Import ListNotations.

Section Decl.
  Variable ev : ctx -> expr -> res value.
  Variable c : ctx.
  Variable pv : expr -> nat -> nat -> nat -> res value.
  Hypothesis Hev : forall pe l i n, NoDup l -> nth_error l i = Some n ->
    ev (with_node c n l) pe = pv pe n (S i) (length l).
  Hypothesis Hnum : forall t x k m, pv (ENumLit t) x k m = Ok (VNum (string_to_number t)).
  Hypothesis Hsmall : (Z.of_nat (length (cx_doc c)) < 2 ^ 53)%Z.
  Hypothesis Hw : wfd (cx_doc c).

  Let d := cx_doc c.
  Let tstP := node_test_denotes d (cx_strip c).
  Let pvR : expr -> nat -> nat -> nat -> value -> Prop := fun pe x k m v => pv pe x k m = Ok v.

  Lemma Htst_decl : forall ax t n, n < length (cx_doc c) -> ax <> AxNamespace ->
    match t with TName NsAny _ => False | _ => True end -> (test_node c ax t n = true <-> tstP ax t n).
  Proof. intros ax t n Hn Hns Hna. apply (test_node_correct c ax t n Hw Hn Hns Hna). Qed.

  (* one step from one context node *)
  Theorem step_decl ax t ps n l0 rv : n < length d -> step_wf (ax, t, ps) ->
    axis_nodes c ax t n = Ok (l0, rv) ->
    ((exists l1, apply_preds ev c l0 ps = Ok l1) <-> step_definedR d tstP pvR (ax, t, ps) n) /\
    (forall l1, apply_preds ev c l0 ps = Ok l1 ->
       rv = axis_reverse ax /\ axis_ordered ax l1 /\ forall x, In x l1 <-> step_denR d tstP pvR (ax, t, ps) n x).
  Proof.
    intros Hn [Hns [Hrt Hna]] Ha.
    destruct (axis_nodes_correct c ax t n l0 rv Hw Hn Hns Hrt Ha) as [Hrv [Ho0 Hm0]].
    assert (Hm0' : forall y, In y l0 <-> axis_set d tstP ax t n y).
    { intros y. rewrite (Hm0 y). unfold axis_set. split; intros [Hy Ht]; (split; [exact Hy|]);
        pose proof (axis_rel_in_range d ax n y Hw Hn Hy) as Hyr; apply (Htst_decl ax t y Hyr Hns Hna); exact Ht. }
    assert (Hr0 : forall y, axis_set d tstP ax t n y -> y < length d)
      by (intros y [Hy _]; apply (axis_rel_in_range d ax n y Hw Hn Hy)).
    destruct (apply_preds_R ev c pv Hev Hnum Hsmall ax ps _ l0 Ho0 Hm0' Hr0) as [P1 P2].
    cbn [step_definedR step_denR]. split; [exact P1|]. intros l1 E. destruct (P2 l1 E) as [A B]. auto.
  Qed.

  (* a list of steps from a list of context nodes *)
  Theorem steps_decl : forall steps sfuel sub rv, steps <> [] -> steps_wf steps ->
    (forall n, In n sub -> n < length d) -> length steps < sfuel ->
    ((exists r, steps_from ev c sfuel sub rv steps = Ok r) <->
     forall n, In n sub -> path_definedR d tstP pvR steps n) /\
    (forall r, steps_from ev c sfuel sub rv steps = Ok r ->
       ordered r /\ forall x, In x r <-> exists n, In n sub /\ path_denR d tstP pvR steps n x).
  Proof. apply (steps_from_R ev c pv Hev Hnum Hsmall Hw tstP Htst_decl). Qed.
End Decl.

(** * satisfiability of the hypotheses *)
Definition demo_ctx : ctx := mkCtx demo_doc 1 [1] [([], [118%N], VNodes [4; 5])] (fun _ _ => false).

Lemma demo_ctx_ok : ctx_ok demo_ctx.
Proof.
  split; [exact demo_doc_wfd|]. split; [cbn; lia|]. split; [cbn; lia|].
  intros ns l v H. unfold demo_ctx in H. cbn [lookup_var cx_vars] in H.
  match type of H with (if ?b then _ else _) = _ => destruct b end; [|discriminate].
  inversion H; subst v. split.
  - repeat constructor.
  - intros x [<-|[<-|[]]]; cbn; lia.
Qed.

(* every context over a generated document, with a context node of the table and no variables, is admissible *)
Lemma built_ctx_ok top n l strip : n < length (build_doc top) -> (Z.of_nat (length (build_doc top)) < 2 ^ 53)%Z ->
  ctx_ok (mkCtx (build_doc top) n l [] strip).
Proof.
  intros Hn Hs. split; [apply build_doc_wfd|]. split; [exact Hn|]. split; [exact Hs|]. intros ns l0 v H. discriminate.
Qed.

(* count(//b[1] | $v) > 0 or not(@x = '1') *)
Definition demo_expr : expr :=
  EOr (EGt (EFunc fn_count [EUnion [EPath None [] [(AxRoot, TRoot, []); (AxDescendantOrSelf, TNode, []);
                                                   (AxChild, TName NsEmpty (Some [98%N]), [(true, ENumLit [49%N])])];
                                    EVar [] [118%N]]]) (ENumLit [48%N]))
      (EFunc fn_not [EEq (EPath None [] [(AxAttribute, TName NsEmpty (Some [120%N]), [])]) (ELiteral [49%N])]).

Lemma demo_expr_wf : expr_wf demo_expr.
Proof.
  unfold demo_expr.
  repeat (first [ apply expr_wf_intro; cbn [local_wf subexprs map flat_map app snd]
                | apply Forall_cons | apply Forall_nil | exact I
                | (split; [discriminate | split; [first [reflexivity | discriminate] | exact I]]) ]).
Qed.

Lemma demo_den : den demo_ctx demo_expr (VBool true).
Proof. apply (eval_top_is_den demo_ctx demo_expr (VBool true) demo_ctx_ok demo_expr_wf). vm_compute. reflexivity. Qed.

(** * errors and the operands of or / and, precisely: the left operand must have a value; the right one only
      when it decides the result *)
Lemma or_true_ignores_right c a b va : ctx_ok c -> den c a va -> to_boolean va = true -> den c (EOr a b) (VBool true).
Proof. intros Hc Ha Hb. apply (den_compositional c (EOr a b) _ Hc). cbn [expr_den]. exists va. split; [exact Ha | left; auto]. Qed.

Lemma and_false_ignores_right c a b va : ctx_ok c -> den c a va -> to_boolean va = false -> den c (EAnd a b) (VBool false).
Proof. intros Hc Ha Hb. apply (den_compositional c (EAnd a b) _ Hc). cbn [expr_den]. exists va. split; [exact Ha | left; auto]. Qed.

Lemma or_needs_left c a b v : ctx_ok c -> den c (EOr a b) v -> exists va, den c a va.
Proof. intros Hc H. apply (den_compositional c (EOr a b) _ Hc) in H. cbn [expr_den] in H. destruct H as [va [Ha _]]. eauto. Qed.

Lemma or_false_needs_right c a b v va : ctx_ok c -> expr_wf a -> den c (EOr a b) v -> den c a va -> to_boolean va = false ->
  exists vb, den c b vb.
Proof.
  intros Hc Hwa H Ha Hf. apply (den_compositional c (EOr a b) _ Hc) in H. cbn [expr_den] in H.
  destruct H as [va' [Ha' [[Ht _]|[_ [vb [Hb _]]]]]]; [|eauto].
  rewrite (den_deterministic c a va' va Hc Hwa Ha' Ha) in Ht. congruence.
Qed.

Lemma or_and_operands c a b : ctx_ok c ->
  (forall va, den c a va -> to_boolean va = true -> den c (EOr a b) (VBool true)) /\
  (forall va, den c a va -> to_boolean va = false -> den c (EAnd a b) (VBool false)) /\
  (forall v, den c (EOr a b) v -> exists va, den c a va) /\
  (forall v va, expr_wf a -> den c (EOr a b) v -> den c a va -> to_boolean va = false -> exists vb, den c b vb).
Proof.
  intros Hc. split; [intros va; apply or_true_ignores_right; exact Hc|].
  split; [intros va; apply and_false_ignores_right; exact Hc|].
  split; [intros v; apply or_needs_left; exact Hc|].
  intros v va Hwa. apply or_false_needs_right; assumption.
Qed.
