"""C02, extension part (family xpx): "the bundled EXSLT and xalan: extension functions obey their published
definitions" + id() and the XSLT context functions the core model of C02 lacks.

run_part(ctx) is a plug-in for props/C02.py (same shape as props.C02_compiler): proof leg (Properties_C02x.v over
GenXpx.v), correspondence of the extracted model with the rebuilt library, and the reference oracle
vlib/xpxref.py.  The functions are only installed in XSLT transformations, so the library is observed through
whole transformations (vlib/xpxrun.py on top of vlib/xsltrun.py)."""
import os, re, json, math
from vlib import core, xpgen, xpref, xpxref, xpxrun, xsltrun

PID = "C02x"
XML_WS = " \t\r\n"


# ---------------------------------------------------------------------------------------------------------
# AST helpers (xpgen tuples)

def uses(e, pred):
    if pred(e):
        return True
    t = e[0]
    if t in ("lit", "var", "num"):
        return False
    if t in ("neg", "group"):
        return uses(e[1], pred)
    if t == "union":
        return any(uses(a, pred) for a in e[1])
    if t == "fn":
        return any(uses(a, pred) for a in e[2])
    if t == "path":
        _, h, hp, st = e
        return (h is not None and uses(h, pred)) or any(uses(p[1], pred) for p in hp) or \
            any(uses(p[1], pred) for s in st for p in s[2])
    return uses(e[1], pred) or uses(e[2], pred)


def has_axis(e, axis):
    return uses(e, lambda x: x[0] == "path" and any(s[0] == axis for s in x[3]))


def has_lit_with(e, pred):
    return uses(e, lambda x: x[0] == "lit" and pred(x[1]))


DOT = ("path", None, [], [("self", "node", [])])
EMPTY = ("path", None, [], [("root", "root", []), ("parent", "node", [])])        # /..
NUMERIC_ONLY = (False, ("eq", ("fn", "number", [DOT]), ("fn", "number", [DOT])))  # [number(.) = number(.)]


def fn(name, *args):
    return ("fn", name, list(args))


def lit(s):
    return ("lit", s)


def num(x):
    return ("num", x)


def filt(a, pred):
    return ("path", ("group", a), [pred], [])


def printable(e):
    """a literal must not contain both quote characters (XPath has no escape)"""
    return not has_lit_with(e, lambda s: "'" in s and '"' in s)


# ---------------------------------------------------------------------------------------------------------
# documents

BOUNDARY_TEXT = ["1", "1.0", "01", " 1 ", "2", "3", "3.0", "10", "-2", "-0", "0", "0.0", "1e3", "+5", "Infinity", "NaN", "abc",
                 "", "7", "7.50", "7.5", "\U0001d4b3", "x\U0001d4b3", "é", "2.", ".5", "0.5"]


def decorate(r, top, idpool):
    """xpgen tree -> same tree with (a) ID attributes `k` (unique values) on some elements, (b) some text and
    attribute values replaced by numeric boundary strings / equal string-values, (c) some text nodes listing IDs"""
    ids = []

    def go(t, depth):
        if t[0] == "e":
            attrs = [(a, (r.choice(BOUNDARY_TEXT) if (not a.startswith("xml") and r.random() < 0.35) else v)) for a, v in t[2]]
            if (r.random() < 0.5 or depth == 0) and idpool:
                v = idpool.pop()
                ids.append(v)
                attrs.append(("k", v))
            kids = []
            for c in t[3]:
                kids.append(go(c, depth + 1))
            return ("e", t[1], attrs, kids)
        if t[0] == "t":
            k = r.random()
            if k < 0.4:
                v = r.choice(BOUNDARY_TEXT)
                return ("t", v) if v else t
            if k < 0.6 and ids:
                seps = [" ", "  ", "\t", "\n", " \t\n", "\r\n"]
                return ("t", r.choice(["", " "]) + r.choice(seps).join(r.choice(ids + ["nope"]) for _ in range(r.randrange(1, 4))) + r.choice(["", "\n"]))
            return t
        return t
    return [go(t, 0) for t in top], ids


def make_doc(r, size=None):
    top = xpgen.gen_doc(r, size or ("small" if r.random() < 0.35 else "big"))
    for _ in range(3):      # very small trees exercise little: prefer documents with a dozen nodes or more
        if len(xpgen.doc_tokens(top).split()) >= 14 or size:
            break
        top = xpgen.gen_doc(r, "big")
    pool = ["i%d" % i for i in range(1, 30)] + ["a", "x-1", "é1", "I1", "i1.b", "_z"]
    r.shuffle(pool)
    top, ids = decorate(r, top, pool)
    nodes = xpgen.build_nodes(top)
    p2, inv = xpxrun.paths(nodes)
    idmap = {}
    for n in nodes:
        if n.kind == "attr" and n.qname == "k" and n.value not in idmap:
            idmap[n.value] = n.parent.id
    return {"top": top, "nodes": nodes, "paths": p2, "inv": inv, "ids": idmap, "xml": xpxrun.doc_xml(top)}


# ---------------------------------------------------------------------------------------------------------
# item generation.  item = {"ty", "ast", "cls", "model": None | (op, argument item indices ...)}

def broad(r, numeric=False):
    """node-set expressions that select many nodes of any document (so that results are rarely empty)"""
    ds = [("root", "root", []), ("descendant-or-self", "node", [])]
    star = ("name", None, None)
    nm = lambda x: ("name", None, x)
    if numeric:
        last = r.choice([("attribute", nm("x"), []), ("attribute", nm("y"), []), ("attribute", nm("n"), []), ("attribute", star, []),
                         ("child", "text", []), ("child", "text", []), ("child", star, [])])
    else:
        last = r.choice([("child", star, []), ("child", star, []), ("child", star, []), ("child", "node", []), ("child", "node", []),
                         ("attribute", star, []), ("attribute", star, []), ("child", "text", []), ("child", "text", []),
                         ("child", nm(r.choice("ab")), []), ("child", nm("b"), []), ("child", "comment", []),
                         ("attribute", nm(r.choice(["x", "y", "n", "id"])), [])])
    e = ("path", None, [], ds + [last])
    k = r.random()
    if k < 0.25:
        pe = r.choice([("lt", fn("position"), num(r.choice(["3", "4", "6"]))), ("gt", fn("position"), num(r.choice(["1", "2", "3"]))),
                       ("eq", ("mod", fn("position"), num("2")), num(r.choice(["0", "1"])))])
        e = filt(e, (True, pe))
    elif k < 0.4:
        e = ("union", [e, ("path", None, [], ds + [r.choice([("child", nm("a"), []), ("attribute", nm("x"), []), ("child", "text", [])])])])
    elif k < 0.5 and not numeric:
        e = ("path", None, [], ds + [("child", nm(r.choice("abc")), []), ("child", "node", [])])
    return e


def gen_nodeset_items(ctx, doc, n_pairs):
    r = ctx.rng
    items = []

    def add(ty, ast, cls, model=None):
        items.append({"ty": ty, "ast": ast, "cls": cls, "model": model})
        return len(items) - 1
    tries = 0
    made = 0
    while made < n_pairs and tries < 10 * n_pairs:
        tries += 1
        g = xpgen.ExprGen(r, nodes=doc["nodes"], depth=r.choice([1, 1, 2, 2]), variables={})
        a = g.gen("nodes", r.choice([0, 1, 1, 2]))
        if r.random() < 0.6:
            a = broad(r)
        k = r.random()
        if k < 0.2:
            b, rel = a, "same"
        elif k < 0.45:
            kk = r.choice(["1", "2", "3", "last()"])
            pe = ("eq", fn("position"), num(kk)) if kk != "last()" else ("eq", fn("position"), fn("last"))
            if r.random() < 0.4:
                pe = (r.choice(["gt", "lt"]), fn("position"), num(r.choice(["1", "2"])))
            b, rel = filt(a, (True, pe)), "subset"
        elif k < 0.6:
            c = g.gen("nodes", 1)
            b, rel = ("union", [("group", a) if a[0] == "union" else a, ("group", c) if c[0] == "union" else c]), "superset"
        elif k < 0.7:
            b, rel = EMPTY, "empty"
        else:
            b, rel = (broad(r) if r.random() < 0.6 else g.gen("nodes", r.choice([0, 1]))), "independent"
        if r.random() < 0.08:
            a, rel = EMPTY, "empty-first"
        if any(has_axis(x, "namespace") for x in (a, b)) or not printable(a) or not printable(b):
            continue
        made += 1
        ia = add("ns", a, "arg")
        ib = add("ns", b, "arg")
        for name, op in r.sample([("set:difference", "diff"), ("xalan:difference", "diff"), ("set:intersection", "inter"),
                                  ("xalan:intersection", "inter"), ("set:leading", "lead"), ("set:trailing", "trail"),
                                  ("set:leading", "lead"), ("set:trailing", "trail")], 4):
            add("ns", fn(name, a, b), name + ":" + rel, (op, ia, ib))
        for name, op in r.sample([("set:has-same-node", "hsn"), ("xalan:hasSameNodes", "hsns")], 1 if r.random() < 0.5 else 2):
            add("bool", fn(name, a, b), name + ":" + rel, (op, ia, ib))
        add("ns", fn(r.choice(["set:distinct", "xalan:distinct"]), a), "distinct", ("dist", ia))
        if r.random() < 0.3:
            add("ns", fn("set:distinct", fn("set:distinct", a)), "distinct-twice", None)
        # math over the same sets, with and without the non-numeric nodes
        m = broad(r, numeric=True) if r.random() < 0.5 else a
        if r.random() < 0.65:
            m = filt(m, NUMERIC_ONLY)
        if r.random() < 0.3:
            m = filt(m, (True, ("lt", fn("position"), num(r.choice(["3", "4", "5"])))))
        im = add("ns", m, "arg")
        for name, op in r.sample([("math:min", "min"), ("math:max", "max")], 2):
            add("num", fn(name, m), name, (op, im))
        for name, op in r.sample([("math:highest", "high"), ("math:lowest", "low")], 2):
            add("ns", fn(name, m), name, (op, im))
        if r.random() < 0.4:
            add("str", fn("str:concat", a), "str:concat", None)
        if r.random() < 0.3:
            inner = fn(r.choice(["set:difference", "set:intersection"]), a, b)
            s = xpgen.p_expr(inner)
            if "'" not in s:
                e = fn(r.choice(["dyn:evaluate", "xalan:evaluate"]), lit(s))
                it = add("ns", e, "evaluate", None)
                items[it]["evalmap"] = {s: inner}
        if r.random() < 0.2:
            add("ns", fn(r.choice(["exsl:node-set", "xalan:nodeset"]), a), "nodeset-of-nodeset", None)
    return items


NUMS = ["0", "1", "2", "3", "0.5", "2.5", "1.5", "-1", "-2.5", "10", "100", "1000000", "0.001", "7", "16", "1 div 0", "-1 div 0",
        "0 div 0", "-0", "-0.4", "0.49999999999999994", "3.9999999999999996", "9007199254740993", "1e0"]


def gen_math_items(ctx, n):
    r = ctx.rng
    items = []

    def numast(s):
        if " div " in s:
            x, y = s.split(" div ")
            return ("div", numast(x), numast(y))
        if s.startswith("-"):
            return ("neg", ("num", s[1:]))
        if s == "1e0":
            return lit("1e0")
        return ("num", s)
    for _ in range(n):
        f = r.choice(["abs", "abs", "sqrt", "sin", "cos", "tan", "asin", "acos", "atan", "exp", "log", "power", "power", "atan2", "constant", "constant"])
        if f == "constant":
            nm = r.choice(list(xpxref.CONSTANTS) + ["SQRT2", "pi", ""])
            p = r.choice([str(k) for k in range(1, 16)] + ["1.5", "2.4", "14.5"])
            items.append({"ty": "num", "ast": fn("math:constant", lit(nm), ("num", p)), "cls": "math:constant", "model": None})
        elif f in ("power", "atan2"):
            items.append({"ty": "num", "ast": fn("math:" + f, numast(r.choice(NUMS)), numast(r.choice(NUMS))), "cls": "math:" + f, "model": None})
        else:
            items.append({"ty": "num", "ast": fn("math:" + f, numast(r.choice(NUMS))), "cls": "math:" + f, "model": None})
        if f == "abs" and r.random() < 0.5:
            items[-1] = {"ty": "num", "ast": ("div", ("num", "1"), items[-1]["ast"]), "cls": "math:abs-sign", "model": None}
    return items


ALPHA = ["a", "b", "c", "x", "-", "0", "1", " ", "é", "€", "\U0001d4b3", "'", "%", "/", "?", "#", "~", "[", "&", "<", "+", "A", "z", " "]


PAIRS = ["a", "b", "1", "\U0001d4b3", "\U0001d4b4", "\U00010000", "\U0010ffff", "\U0001d4b3", "é"]


def rstr(r, lo, hi, alpha=None, bmp=False):
    al = alpha or ALPHA
    s = "".join(r.choice(al) for _ in range(r.randrange(lo, hi + 1)))
    if bmp:
        s = "".join(c for c in s if ord(c) <= 0xFFFF)
    return s


def gen_string_items(ctx, n):
    r = ctx.rng
    items = []

    def add(ty, ast, cls, model=None):
        if printable(ast):
            items.append({"ty": ty, "ast": ast, "cls": cls, "model": model})
    for _ in range(n):
        k = r.random()
        if k < 0.3:
            ln = r.choice(["0", "1", "2", "3", "4", "5", "7", "8", "9", "16", "17", "2.5", "3.49", "0.5", "0.4", "33", "'3'"])
            pad = r.choice([None, "", "a", "ab", "abc", "abcd", " ", "-=", rstr(r, 1, 5), rstr(r, 2, 3), "x\U0001d4b3", "\U0001d4b3",
                            "\U0001d4b3\U0001d4b4", "a\U0001d4b3b", rstr(r, 1, 4, PAIRS)])
            lnast = lit("3") if ln == "'3'" else ("num", ln)
            ast = fn("str:padding", lnast) if pad is None else fn("str:padding", lnast, lit(pad))
            add("str", ast, "str:padding", ("pad", ln, pad))
        elif k < 0.65:
            heavy = r.random() < 0.3      # strings with several surrogate pairs: lengths in units and in characters differ
            p = rstr(r, 0, 9, PAIRS if heavy else None)
            t = rstr(r, 0, 4, PAIRS if heavy else None) if r.random() < 0.7 else rstr(r, len(p), len(p) + 2)
            if r.random() < 0.15:
                t = rstr(r, len(p), len(p), PAIRS if heavy and r.random() < 0.5 else None)
            al = r.choice([None, "left", "right", "center", "center", "right", "centre", "Center", "RIGHT", "", "cent", "righ", " center",
                           "centered", "rightmost", "center ", "lef", "middle"])
            ast = fn("str:align", lit(t), lit(p)) if al is None else fn("str:align", lit(t), lit(p), lit(al))
            add("str", ast, "str:align:" + ("default" if al is None else al if al in ("left", "right", "center") else "other"), ("align", t, p, al))
        elif k < 0.85:
            s = rstr(r, 0, 8)
            add("str", fn("str:encode-uri", lit(s), fn(r.choice(["true", "false"]))), "str:encode-uri", None)
        else:
            s = rstr(r, 0, 6, bmp=False)
            enc = "".join(c if (c.isascii() and c.isalnum()) else "".join(r.choice(["%%%02X", "%%%02X", "%%%02x"]) % b for b in c.encode("utf-8")) for c in s)
            add("str", fn("str:decode-uri", lit(enc)), "str:decode-uri", None)
    return items


def gen_id_items(ctx, doc, n, base=0):
    r = ctx.rng
    items = []
    idvals = list(doc["ids"]) or ["i1"]
    seps = [" ", " ", "  ", "\t", "\n", "\r", " \t\n", "\u00a0", "\u2003", ",", "\u3000", "\u0085", "\u00a0 "]
    for _ in range(n):
        k = r.random()
        if k < 0.6:
            toks = [r.choice(idvals + ["nope", "I1", "i"]) for _ in range(r.randrange(0, 5))]
            s = r.choice(["", "", " ", "\n"]) + "".join(t + r.choice(seps) for t in toks)
            if r.random() < 0.5:
                s = s.rstrip(XML_WS)
            ast = fn("id", lit(s))
            if printable(ast):
                items.append({"ty": "ns", "ast": ast, "cls": "id:string", "model": ("id", s)})
        elif k < 0.85:
            g = xpgen.ExprGen(r, nodes=doc["nodes"], depth=1, variables={})
            a = g.gen("nodes", r.choice([0, 1]))
            if r.random() < 0.6:
                a = ("path", None, [], [("root", "root", []), ("descendant-or-self", "node", []), ("child", "text", [])])
                if r.random() < 0.5:
                    a = filt(a, (False, fn("contains", DOT, lit(r.choice(["i", "i1", "i2", " "])))))
            if has_axis(a, "namespace") or not printable(a):
                continue
            ia = base + len(items)
            items.append({"ty": "ns", "ast": a, "cls": "arg", "model": None})
            items.append({"ty": "ns", "ast": fn("id", a), "cls": "id:node-set", "model": ("idns", ia)})
        else:
            v = r.choice([("num", "1"), fn("true"), ("num", "12"), lit("")])
            items.append({"ty": "ns", "ast": fn("id", v), "cls": "id:other", "model": None})
    return items


# fixed battery: (type, expression, expectation)  expectation: value | ("any", [values]) | ("re", regex) | ("known", key, value)
def battery(doc_ctx_path):
    B = [
        ("str", "exsl:object-type(/)", "node-set"), ("str", "exsl:object-type(/..)", "node-set"), ("str", "exsl:object-type(1)", "number"),
        ("str", "exsl:object-type('1')", "string"), ("str", "exsl:object-type(1 = 1)", "boolean"), ("str", "exsl:object-type($rtf)", "RTF"),
        ("str", "exsl:object-type(exsl:node-set($rtf))", "node-set"), ("str", "exsl:object-type(xalan:nodeset($rtf))", "node-set"),
        ("num", "count(exsl:node-set($rtf)/*)", "2"), ("str", "string(exsl:node-set($rtf)/*[2])", "2"), ("str", "name(xalan:nodeset($rtf)/*[1])", "x"),
        ("num", "count(exsl:node-set($rtf))", "1"), ("num", "count(exsl:node-set($rtf)/node())", "2"),
        ("num", "count(exsl:node-set('abc'))", "1"), ("str", "string(exsl:node-set('abc'))", "abc"),
        ("bool", "boolean(exsl:node-set('abc')/self::text())", ("known", "K-C02x-5", "true")),
        ("num", "count(exsl:node-set(12))", ("known", "K-C02x-5", "1")),
        ("num", "count(set:distinct(exsl:node-set($rtf2)/*))", "3"), ("str", "name(set:distinct(exsl:node-set($rtf2)/*)[2])", "y"),
        ("num", "math:max(exsl:node-set($rtf2)/*)", "7"), ("str", "name(math:highest(exsl:node-set($rtf2)/*)[1])", "y"),
        ("str", "name(set:leading(exsl:node-set($rtf2)/*, exsl:node-set($rtf2)/z)[last()])", "y"),
        ("num", "count(dyn:evaluate(''))", "0"), ("num", "count(dyn:evaluate('1 +'))", "0"), ("str", "exsl:object-type(dyn:evaluate('1 +'))", "node-set"),
        ("num", "dyn:evaluate('1 + 2')", "3"), ("str", "dyn:evaluate(\"concat('a','b')\")", "ab"), ("bool", "dyn:evaluate('1 = 1')", "true"),
        ("num", "count(dyn:evaluate('//*')) - count(//*)", "0"), ("num", "count(xalan:evaluate('//@*')) - count(//@*)", "0"),
        ("bool", "count(dyn:evaluate('.') | .) = 1", "true"), ("num", "dyn:evaluate('position()')", "1"),
        ("bool", "count(current() | .) = 1", "true"), ("num", "count(//*[generate-id(.) = generate-id(current())])", ("any", ["0", "1"])),
        ("bool", "generate-id() = generate-id(.)", "true"), ("bool", "generate-id(.) = generate-id(current())", "true"),
        ("str", "generate-id(/..)", ""), ("bool", "generate-id(/) = generate-id(/*/..)", "true"), ("bool", "generate-id(/) = generate-id(/*)", "false"),
        ("bool", "generate-id(exsl:node-set($rtf)) = generate-id(/)", "false"),
        ("str", "generate-id(/*)", ("re", r"^[A-Za-z][A-Za-z0-9]*$")),
        ("str", "generate-id(/)", ("known-re", "K-C02x-4", r"^[A-Za-z][A-Za-z0-9]*$")),
        ("num", "system-property('xsl:version')", "1"), ("str", "exsl:object-type(system-property('xsl:version'))", "number"),
        ("bool", "string-length(system-property('xsl:vendor')) > 0", "true"), ("bool", "string-length(system-property('xsl:vendor-url')) > 0", "true"),
        ("str", "system-property('xsl:nonesuch')", ""), ("str", "system-property('nonesuch')", ""), ("str", "system-property('p:version')", ""),
        ("str", "unparsed-entity-uri('pic')", xpxrun.ENTITIES["pic"]), ("str", "unparsed-entity-uri('nonesuch')", ""),
        ("str", "unparsed-entity-uri('rel')", ("any", [xpxrun.ENTITIES["rel"], xpxrun.BASE + xpxrun.ENTITIES["rel"]])),
        ("str", "unparsed-entity-uri('')", ""),
        ("bool", "function-available('p:nonesuch')", "false"), ("bool", "function-available('nonesuch')", "false"),
        ("bool", "function-available('str:tokenize')", ("any", ["true", "false"])),
        ("bool", "element-available('xsl:nonesuch')", "false"), ("bool", "element-available('nonesuch')", "false"),
        ("bool", "element-available('p:nonesuch')", "false"),
        ("num", "math:constant('PI', 60)", ("known", "C03:K-new-1", "3.141592653589793")),
        ("num", "math:constant('LN10', 16)", ("known", "C03:K-new-1", "2.302585092994046")),
        ("str", "str:decode-uri('%c3%a9')", ("known", "K-C02x-1", "é")), ("str", "str:decode-uri('%e2%82%ac')", ("known", "K-C02x-1", "€")),
        ("str", "str:decode-uri('%C3%A9%2f%2F')", "é//"),
        ("str", "str:encode-uri('\U00100000', true())", ("known", "K-C02x-2", "%F4%80%80%80")),
        ("str", "str:encode-uri('\U0001d4b3', true())", "%F0%9D%92%B3"), ("str", "str:encode-uri('\U000fffff', true())", "%F3%BF%BF%BF"),
        ("str", "str:align('ab', '1234567', 'centered')", ("known", "K-C02x-3", "ab34567")),
        ("str", "str:align('ab', '1234567', 'rightmost')", ("known", "K-C02x-3", "ab34567")),
        ("str", "str:align('ab', '1234567', 'center')", "12ab567"), ("str", "str:align('ab', '123456', 'center')", "12ab56"),
        ("str", "str:align('ab', '1234567', 'right')", "12345ab"), ("str", "str:align('ab', '1234567', 'cent')", "ab34567"),
    ]
    for f in ("set:difference", "set:distinct", "set:has-same-node", "set:intersection", "set:leading", "set:trailing",
              "math:min", "math:max", "math:highest", "math:lowest", "math:abs", "math:sqrt", "math:power", "math:constant", "math:log",
              "math:sin", "math:cos", "math:tan", "math:asin", "math:acos", "math:atan", "math:atan2", "math:exp", "math:random",
              "str:align", "str:concat", "str:padding", "str:encode-uri", "str:decode-uri", "exsl:node-set", "exsl:object-type",
              "dyn:evaluate", "xalan:difference", "xalan:distinct", "xalan:intersection", "xalan:hasSameNodes", "xalan:nodeset",
              "xalan:evaluate") + tuple(sorted(xpxref.CORE_FUNCTIONS)):
        B.append(("bool", "function-available('%s')" % f, "true"))
    for e in sorted(xpxref.XSL_INSTRUCTIONS):
        B.append(("bool", "element-available('xsl:%s')" % e, "true"))
    return B


RTF_TOP = ('<xsl:variable name="rtf"><x>1</x><y>2</y></xsl:variable>'
           '<xsl:variable name="rtf2"><x>3</x><y>7</y><z>3</z><w>7.0</w></xsl:variable>')


# ---------------------------------------------------------------------------------------------------------
# evaluation

def parse_num(s):
    s = s.strip()
    if s == "NaN":
        return float("nan")
    if s in ("Infinity", "-Infinity"):
        return float("inf") if s[0] != "-" else float("-inf")
    try:
        return float(s)
    except ValueError:
        return None


def lib_value(item, raw, doc):
    """library output -> python value in the oracle's terms; ('err', msg) passes through"""
    if raw is None:
        return ("missing",)
    if isinstance(raw, tuple):
        return raw
    ty = item["ty"]
    if ty == "ns":
        out = []
        for p in raw:
            if p in doc["inv"]:
                out.append(doc["inv"][p])
            else:
                out.append(("path", p))
        return out
    if ty == "num":
        v = parse_num(raw)
        return v if v is not None else ("garbled", raw)
    if ty == "bool":
        return raw == "true"
    return raw


def same_value(got, exp):
    if isinstance(exp, float) and not isinstance(exp, bool):
        if not isinstance(got, float):
            return False
        if got != got or exp != exp:
            return got != got and exp != exp
        return xpref.num_to_str(got) == xpref.num_to_str(exp)
    return type(got) == type(exp) and got == exp


def units(s):
    b = s.encode("utf-16-le", "surrogatepass")
    return [b[i] | (b[i + 1] << 8) for i in range(0, len(b), 2)]


def utok(s):
    return "u:" + ",".join("%x" % u for u in units(s))


def model_line(cid, item, vals, doc, ref):
    """case line for the extracted model, built from the LIBRARY's values of the argument expressions"""
    m = item["model"]
    if m is None:
        return None
    op = m[0]

    def ids(i):
        v = vals[i]
        if not isinstance(v, list) or any(isinstance(x, tuple) for x in v):
            return None
        return v
    nl = lambda l: "n:" + ",".join(str(x) for x in l)
    if op in ("diff", "inter", "lead", "trail", "hsn", "hsns"):
        a, b = ids(m[1]), ids(m[2])
        if a is None or b is None:
            return None
        return "%s %s %s %s" % (cid, op, nl(a), nl(b))
    if op == "dist":
        a = ids(m[1])
        if a is None:
            return None
        svs = {x: ref.string_value(x) for x in a}
        if any(" " in utok(s) for s in svs.values()):
            return None
        return "%s dist %s t:%s" % (cid, nl(a), ";".join("%d=%s" % (x, utok(s)) for x, s in svs.items()))
    if op in ("min", "max", "high", "low"):
        a = ids(m[1])
        if a is None:
            return None
        nums = [xpref.str_to_num(ref.string_value(x)) for x in a]
        rank = {v: i for i, v in enumerate(sorted({v for v in nums if v == v}))}
        item["_rank"] = {i: v for v, i in rank.items()}
        key = lambda v: "nan" if v != v else str(rank[v])
        if op in ("min", "max"):
            return "%s %s v:%s" % (cid, op, ",".join(key(v) for v in nums))
        return "%s %s p:%s" % (cid, op, ";".join("%d=%s" % (x, key(v)) for x, v in zip(a, nums)))
    if op == "pad":
        ln, pad = m[1], m[2]
        x = float(ln.strip("'"))
        n = int(xpref.xround(x))
        if n < 0 or n > 2000:
            return None
        return "%s pad %d %s" % (cid, n, "-" if pad is None else utok(pad))
    if op == "align":
        t, p, al = m[1], m[2], m[3]
        return "%s align %s %s %s" % (cid, utok(t), utok(p), "-" if al is None else utok(al))
    if op in ("id", "idns"):
        if op == "id":
            s = m[1]
        else:
            a = ids(m[1])
            if a is None:
                return None
            s = "".join(ref.string_value(x) + " " for x in a)
        tbl = ";".join("%s=%d" % (utok(k), v) for k, v in doc["ids"].items())
        return "%s id i:%s %s" % (cid, tbl, utok(s))
    return None


def model_value(item, out):
    """model output -> python value comparable with lib_value"""
    if out is None:
        return ("missing",)
    out = out.strip()
    if out.startswith("n:"):
        return [int(x) for x in out[2:].split(",") if x]
    if out.startswith("b:"):
        return out[2] == "1"
    if out.startswith("u:"):
        us = [int(h, 16) for h in out[2:].split(",") if h]
        import struct
        return b"".join(struct.pack("<H", u) for u in us).decode("utf-16-le", "surrogatepass")
    if out == "nan":
        return float("nan")
    try:
        return float(item["_rank"][int(out)])
    except (KeyError, ValueError):
        return ("garbled", out)


NONBMP = lambda s: any(ord(c) > 0xFFFF for c in s)


def classify(item, got, exp, doc, ctxnode, known):
    """known-finding class of an oracle disagreement; the class is decided by a guard on the INPUT plus a re-run of the
    reference with exactly that deviation switched on (K6 / K13), or by the guard of the finding (K-C02x-n)."""
    ast = item["ast"]
    name = ast[1] if ast[0] == "fn" else ""
    strs = []
    uses(ast, lambda x: strs.append(x[1]) if x[0] == "lit" else False)
    if name == "str:decode-uri" and re.search(r"%[a-f]", ast[2][0][1]) and "K-C02x-1" in known:
        return "K-C02x-1"
    if name == "str:encode-uri" and any(ord(c) >= 0x100000 for c in ast[2][0][1]) and "K-C02x-2" in known:
        return "K-C02x-2"
    docnb = any(NONBMP(n.value or "") for n in doc["nodes"]) if doc else False
    for u, nz, key in ((True, False, "K6"), (False, True, "K13"), (True, True, "K6")):
        if u and not (docnb or any(NONBMP(s) for s in strs)):
            continue
        if key == "K6" and "K6" not in known and name in ("str:padding", "str:align"):
            key = "K6x"      # K6 is repaired for the core functions (cf87ee6 ...); the two EXSLT functions still count units
        if key not in known:
            continue
        alt = ref_eval(item, doc, ctxnode, units=u, negzero=nz)
        if not isinstance(alt, tuple) and not isinstance(got, tuple) and same_value(got, alt):
            return key
    if name == "str:align" and len(ast[2]) == 3 and ast[2][2][0] == "lit":
        al = ast[2][2][1]
        for kw in ("center", "right"):
            if al.startswith(kw) and al != kw and "K-C02x-3" in known:
                # exactly that deviation: the library's value is what the definition gives for the bare keyword
                for u in (False, True):
                    alt = ref_eval(dict(item, ast=fn("str:align", ast[2][0], ast[2][1], lit(kw))), doc, ctxnode, units=u)
                    if not isinstance(alt, tuple) and not isinstance(got, tuple) and same_value(got, alt):
                        return "K-C02x-3"
    if name in ("str:padding", "str:align") and any(NONBMP(s) for s in strs) and isinstance(got, tuple) and got[0] == "err" \
            and "surrogate" in got[1] and ("K6" in known or "K6x" in known):
        return "K6" if "K6" in known else "K6x"      # a code-unit cut through a surrogate pair cannot even be serialised
    return None


def ref_eval(item, doc, ctxnode, units=False, negzero=False):
    ref = xpxref.XRef(doc["nodes"], {}, units=units, negzero=negzero, ids=doc["ids"], entities=xpxrun.ENTITIES,
                      current=ctxnode, evalmap=item.get("evalmap"))
    try:
        return ref.ev(item["ast"], ctxnode, 1, 1)
    except xpref.XPathTypeError:
        return ("err", "type")
    except RecursionError:
        return ("skip",)


def judge(item, got, exp):
    """None if the library value satisfies the definition, else text"""
    if isinstance(exp, tuple):
        tag = exp[0]
        if tag in ("skip", "undefined"):
            return None
        if tag == "err":
            return None if (isinstance(got, tuple) and got[0] == "err") else "the definition gives an error, the library %r" % (got,)
        if tag == "any-of":
            return None if any(same_value(got, v) for v in exp[1]) else "library %r, allowed %r" % (got, exp[1])
        if tag == "nonempty-string":
            return None if (isinstance(got, str) and got) else "library %r, expected a non-empty string" % (got,)
        if tag == "available":
            return None
        if tag == "constant":
            if isinstance(got, tuple):
                return "library %r" % (got,)
            return xpxref.check_constant(exp[1], exp[2], got)
    if isinstance(got, tuple):
        return "library %r, definition %r" % (got, exp)
    if isinstance(exp, list) and any(isinstance(x, tuple) for x in exp):
        return None
    if isinstance(exp, float) and not isinstance(exp, bool) and exp == exp and exp != 0 and abs(exp) < 2.0 ** -63:
        return None      # number -> string of such magnitudes is C18's known finding K5; the value cannot be observed exactly
    if isinstance(exp, float) and not isinstance(exp, bool) and item["cls"].startswith("math:") and item["cls"] not in ("math:min", "math:max"):
        return None if (isinstance(got, float) and (xpxref.close(got, exp) or same_value(got, exp))) else "library %r, definition %r" % (got, exp)
    if isinstance(exp, list) and isinstance(got, list):
        if got == exp:
            return None
        if sorted(map(str, got)) == sorted(map(str, exp)):
            return "same nodes but not in document order: library %r, definition %r" % (got, exp)
        return "library %r, definition %r" % (got, exp)
    return None if same_value(got, exp) else "library %r, definition %r" % (got, exp)


def run_stream(ctx, exe, model, batches, known, hits, stats):
    """batches: list of {"id", "doc", "ctx" (node id), "items"}.  Returns (corr mismatches, oracle failures)."""
    rb = []
    for b in batches:
        exprs = [(i, it["ty"], xpgen.p_expr(it["ast"])) for i, it in enumerate(b["items"])]
        rb.append({"id": b["id"], "source": b["doc"]["xml"], "ctx": b["doc"]["paths"][b["ctx"]], "exprs": exprs, "extra_top": RTF_TOP})
    res = xpxrun.run_batches(rb, exe=exe)
    corr, orc = [], []
    mlines, mindex = [], {}
    for b in batches:
        doc = b["doc"]
        r = res[b["id"]]
        ref = xpxref.XRef(doc["nodes"], {}, ids=doc["ids"])
        if r[0] != "ok":
            orc.append({"batch": b, "item": None, "what": "transformation failed: %r" % (r,), "known": None})
            continue
        vals = [lib_value(it, r[1].get(str(i)), doc) for i, it in enumerate(b["items"])]
        b["vals"] = vals
        for i, it in enumerate(b["items"]):
            ctx.cov["evaluations"] += 1
            ctx.count(it["cls"])
            if it["cls"] == "arg":
                continue
            stats["distinct"].add(xpgen.p_expr(it["ast"]))
            got = vals[i]
            if (isinstance(got, list) and got) or (isinstance(got, float) and got == got) or got is True:
                ctx.count("nonempty-result:" + it["cls"].split(":")[0] + (":" + it["cls"].split(":")[1] if ":" in it["cls"] else ""))
            # ---- correspondence line
            if model:
                ml = model_line("%s.%d" % (b["id"], i), it, vals, doc, ref)
                if ml is not None:
                    mlines.append(ml)
                    mindex["%s.%d" % (b["id"], i)] = (b, i)
            # ---- oracle
            exp = ref_eval(it, doc, b["ctx"])
            # the arguments themselves are core XPath (C02 proper): judge the function only where they agree
            argdev = False
            if it["model"] and it["model"][0] not in ("pad", "align", "id"):
                for ai in it["model"][1:]:
                    aexp = ref_eval(b["items"][ai], doc, b["ctx"])
                    if isinstance(aexp, tuple) or vals[ai] != aexp:
                        argdev = True
            if argdev:
                stats["argdev"] += 1
                continue
            msg = judge(it, got, exp)
            if msg:
                k = classify(it, got, exp, doc, b["ctx"], known)
                orc.append({"batch": b, "item": i, "what": msg, "known": k})
            else:
                stats["agree"] += 1
    if model and mlines:
        rc, mres, raw = core.run_lines_parallel(model, mlines)
        for cid, (b, i) in mindex.items():
            it = b["items"][i]
            mv = model_value(it, mres.get(cid))
            got = b["vals"][i]
            ctx.cov["traces_validated_against_impl"] += 1
            if ("K6" in known or "K6x" in known) and isinstance(got, tuple) and got[0] == "err" and any(NONBMP(s) for s in (it["model"][1:] if it["model"][0] in ("pad", "align") else []) if isinstance(s, str)):
                continue      # a unit-level cut through a surrogate pair is not serialisable (K6 territory)
            if not same_value(got, mv):
                corr.append({"expr": xpgen.p_expr(it["ast"]), "impl": repr(got)[:200], "model": repr(mv)[:200],
                             "line": [l for l in mlines if l.startswith(cid + " ")][0][:400]})
    return corr, orc


def run_battery(ctx, exe, doc, known, hits):
    B = battery(None)
    items = [(i, ty, x) for i, (ty, x, _) in enumerate(B)]
    elems = [n.id for n in doc["nodes"] if n.kind == "elem"]
    cnode = elems[min(1, len(elems) - 1)]
    res = xpxrun.run_batches([{"id": "bat", "source": doc["xml"], "ctx": doc["paths"][cnode], "exprs": items, "extra_top": RTF_TOP}], exe=exe)
    bad = []
    r = res["bat"]
    if r[0] != "ok":
        return ["# the fixed battery does not run: %r" % (r,)]
    for i, (ty, x, exp) in enumerate(B):
        got = r[1].get(str(i))
        ctx.cov["evaluations"] += 1
        ctx.count("battery")
        key = None
        if isinstance(exp, tuple) and exp[0] in ("known", "known-re"):
            key = exp[1]
            exp = exp[2] if exp[0] == "known" else ("re", exp[2])
        if isinstance(exp, tuple) and exp[0] == "any":
            ok = got in exp[1]
        elif isinstance(exp, tuple) and exp[0] == "re":
            ok = isinstance(got, str) and re.match(exp[1], got) is not None
        else:
            ok = got == exp
        if ok:
            continue
        if key and key in known:
            hits[key] = hits.get(key, 0) + 1
            continue
        bad.append("# %s : library %r, definition %r\n%s" % (x, got, exp, json.dumps({"source": doc["xml"], "ctx": doc["paths"][cnode], "type": ty, "expr": x, "expect": exp if not isinstance(exp, tuple) else list(exp)}, ensure_ascii=False)))
    # wrong number of arguments: an error, not a value (and not a crash)
    ARITY = ["set:difference(/)", "set:distinct()", "set:distinct(/, /)", "set:leading(/)", "set:has-same-node(/)", "math:max()",
             "math:highest(/, /)", "math:abs()", "math:power(2)", "math:constant('PI')", "str:padding()", "str:align('a')",
             "str:concat()", "str:encode-uri('a')", "exsl:object-type()", "exsl:node-set()", "xalan:evaluate()", "xalan:hasSameNodes(/)",
             "xalan:distinct()", "id()", "id('a', 'b')", "generate-id(/, /)", "current(/)", "system-property()", "unparsed-entity-uri()",
             "function-available()", "element-available()", "math:max(1)", "set:distinct('a')", "str:concat('a')", "set:leading(/, 1)"]
    res = xpxrun.run_batches([{"id": "ar%d" % i, "source": doc["xml"], "ctx": "", "exprs": [(0, "str", x)], "extra_top": RTF_TOP}
                              for i, x in enumerate(ARITY)], exe=exe)
    for i, x in enumerate(ARITY):
        rr = res["ar%d" % i]
        ctx.cov["evaluations"] += 1
        ctx.count("battery:arity")
        if rr[0] == "ok" or rr[0] == "crash":
            bad.append("# %s : %s, the definition gives an error (wrong number or type of arguments)\n%s" % (
                x, "no result (crash?)" if rr[0] == "crash" else "library %r" % (rr[1].get("0"),),
                json.dumps({"source": doc["xml"], "ctx": "", "type": "str", "expr": x}, ensure_ascii=False)))
    # generate-id over every node: unique, and a name (except the root: K-C02x-4)
    allnodes = [n for n in doc["nodes"] if n.kind != "nsdecl"]
    items = [(n.id, "str", "generate-id(%s)" % xpxrun.path_select(doc["paths"][n.id])) for n in allnodes]
    res = xpxrun.run_batches([{"id": "gid", "source": doc["xml"], "ctx": "", "exprs": items}], exe=exe)
    if res["gid"][0] == "ok":
        vals = res["gid"][1]
        seen = {}
        for n in allnodes:
            v = vals.get(str(n.id))
            ctx.cov["evaluations"] += 1
            if not isinstance(v, str) or v == "":
                bad.append("# generate-id(%s) = %r" % (doc["paths"][n.id], v))
                continue
            if v in seen:
                bad.append("# generate-id is not unique: %r for %s and %s\n%s" % (v, doc["paths"][seen[v]], doc["paths"][n.id], json.dumps({"source": doc["xml"]}, ensure_ascii=False)))
            seen[v] = n.id
            if not re.match(r"^[A-Za-z][A-Za-z0-9]*$", v):
                if n.id == 0 and "K-C02x-4" in known:
                    hits["K-C02x-4"] = hits.get("K-C02x-4", 0) + 1
                else:
                    bad.append("# generate-id(%s) = %r is not made of ASCII alphanumerics starting with a letter" % (doc["paths"][n.id], v))
    else:
        bad.append("# generate-id sweep failed: %r" % (res["gid"],))
    return bad


def make_batches(ctx, n_docs, scale=1):
    r = ctx.rng
    batches = []
    for d in range(n_docs):
        doc = make_doc(r)
        cands = [n.id for n in doc["nodes"] if n.kind != "nsdecl"]
        for c in range(2):
            cn = r.choice(cands)
            items = gen_nodeset_items(ctx, doc, 3 * scale)
            if c == 0:
                items += gen_id_items(ctx, doc, 8 * scale, base=len(items))
            else:
                items += gen_math_items(ctx, 6 * scale) + gen_string_items(ctx, 10 * scale)
            batches.append({"id": "d%dc%d" % (d, c), "doc": doc, "ctx": cn, "items": items})
    return batches


def replay_text(o):
    b = o["batch"]
    if o["item"] is None:
        return "# %s\n%s" % (o["what"], json.dumps({"source": b["doc"]["xml"], "ctx": b["doc"]["paths"][b["ctx"]]}, ensure_ascii=False))
    it = b["items"][o["item"]]
    return "# %s : %s\n%s" % (xpgen.p_expr(it["ast"]), o["what"],
                               json.dumps({"source": b["doc"]["xml"], "ctx": b["doc"]["paths"][b["ctx"]], "type": it["ty"],
                                           "expr": xpgen.p_expr(it["ast"])}, ensure_ascii=False))


def run_corpus(ctx, exe, known, hits):
    """corpus/C02x/*.jsonl: {"source","ctx","type","expr","expect"[, "known": key]} — replays of findings (a deviation
    prints KNOWN-FINDING when the key is listed) and regressions (a deviation is a VIOLATION)"""
    cdir = os.path.join(core.VERIF, "corpus", "C02x")
    bad = []
    if not os.path.isdir(cdir):
        return bad
    for fn_ in sorted(os.listdir(cdir)):
        if not fn_.endswith(".jsonl"):
            continue
        rows = [json.loads(l) for l in open(os.path.join(cdir, fn_), encoding="utf-8") if l.strip() and not l.startswith("#")]
        rb = [{"id": "c%d" % i, "source": row["source"], "ctx": row.get("ctx", ""), "exprs": [(0, row["type"], row["expr"])], "extra_top": RTF_TOP}
              for i, row in enumerate(rows)]
        res = xpxrun.run_batches(rb, exe=exe)
        for i, row in enumerate(rows):
            r = res["c%d" % i]
            got = r[1].get("0") if r[0] == "ok" else r
            ctx.cov["evaluations"] += 1
            ctx.count("corpus:" + fn_)
            exp = row["expect"]
            ok = (isinstance(got, str) and re.match(exp["re"], got) is not None) if isinstance(exp, dict) else got == exp
            if ok:
                continue
            if row.get("known") and row["known"] in known:
                hits[row["known"]] = hits.get(row["known"], 0) + 1
            else:
                bad.append("# corpus %s: %s : library %r, definition %r\n%s" % (fn_, row["expr"], got, exp, json.dumps(row, ensure_ascii=False)))
    return bad


def run_part(ctx):
    ctx.assumptions += [
        "xpx: node-set arguments reach an extension function as lists in document order without duplicates (C12); the "
        "model of MutableNodeRefList::addNodeInDocOrder is a sorted insert (the class itself is C12's)",
        "xpx: string-value -> number conversion is C18's; the math models see numbers as NaN or an order-preserving integer key",
        "xpx: the library is observed through whole transformations (harness/xslt.cpp); node identity = path string",
        "xpx: exslt.org is not available offline; the definitions used are quoted in vlib/xpxref.py",
    ]
    rule = ("xpx: generated documents (xpgen trees + ID attributes, numeric boundary strings, equal string-values, ID lists) x "
            "context node x calls of every set:/xalan:/math:/str:/exsl:/dyn: function and id() on generated node-set "
            "expressions (same / subset / superset / empty / independent second argument), strings and numbers; "
            "distinct = distinct expression strings; non-trivial = a call of a function under test (argument "
            "expressions evaluated alone are not counted)")
    ctx.notes["rule"] = (ctx.notes.get("rule", "") + " | " + rule) if ctx.notes.get("rule") else rule
    ok_lib, liblog = core.build_lib("plain")
    if not ok_lib:
        ctx.broken.append("library does not build from the working tree: " + liblog[-500:])
        return
    proved = ctx.prove(["Properties_C02x.v"], ["GenXpx", "GenNum"])
    model, ok_m, mlog = core.build_model("xpx")
    if not ok_m:
        ctx.broken.append("xpx: model extraction/build failed: " + mlog[-500:])
        model = None
    # which form of str:padding / str:align THIS tree has: the translator's answer from the source (what GenXpx.v was just
    # regenerated from); when the translator does not recognise the functions (reported above as broken), whether they use
    # XPathCharacters at all.  K6x is a known finding only of the code-unit form.  The extracted model must carry the same flag.
    try:
        cp_flag = bool(core.srcfacts.GENERATORS["GenXpx"]()[1]["exslt_padding_align_count_characters"])
    except Exception:
        try:
            cp_flag = "XPathCharacters::" in open(os.path.join(core.srcfacts.SRC, "XalanEXSLT", "XalanEXSLTString.cpp"), encoding="utf-8", errors="replace").read()
        except OSError:
            cp_flag = False
    if model:
        rc_f, res_f, raw_f = core.run_lines_parallel(model, ["f flag"])
        mflag = {"characters": True, "units": False}.get((res_f.get("f") or "").strip())
        if mflag is not None and mflag != cp_flag:
            ctx.broken.append("xpx: the extracted model has the %s form of str:padding / str:align, the source the %s form (GenXpx.v not regenerated)"
                              % ("character" if mflag else "code-unit", "character" if cp_flag else "code-unit"))
    ctx.notes["xpx_padding_align_count_characters"] = cp_flag
    exe, ok_h, hlog = xsltrun.build()
    if not ok_h:
        ctx.broken.append("xpx: the xslt harness does not compile against the working tree: " + hlog[-500:])
        return
    known = {k["key"]: k for k in ctx.known.for_property(PID)}
    for k in ctx.known.for_property("C02"):
        if k["key"] in ("K6", "K6x", "K13") or k["key"].startswith("K-C02x"):
            known[k["key"]] = k
    if cp_flag:
        known.pop("K6x", None)      # repaired: corpus/C02x/k6x_padding_align.jsonl and the pair streams are regression cases
    for k in ctx.known.for_property("C03"):
        if k["key"] in ("K-new-1", "K-new-2"):
            known["C03:" + k["key"]] = k
    hits = {}
    stats = {"distinct": set(), "argdev": 0, "agree": 0}
    bad = run_corpus(ctx, exe, known, hits)
    bdoc = make_doc(__import__("random").Random(7), "small")
    bad += run_battery(ctx, exe, bdoc, known, hits)
    bad += run_battery(ctx, exe, make_doc(ctx.rng), known, hits)
    n_docs = 150 if not ctx.thorough else 1500
    batches = make_batches(ctx, n_docs)
    ctx.cov["samples"] = (ctx.cov.get("samples") or []) + [xpgen.p_expr(it["ast"]) for b in batches[:3] for it in b["items"] if it["cls"] != "arg"][:12]
    corr, orc = run_stream(ctx, exe, model, batches, known, hits, stats)
    new = [o for o in orc if not (o["known"] and o["known"] in known)]
    if (corr or not proved or not model) and not new and not bad and not ctx.thorough:
        ctx.escalated = True
        c2, o2 = run_stream(ctx, exe, model, make_batches(ctx, 250, 2), known, hits, stats)
        corr += c2
        orc += o2
        new = [o for o in orc if not (o["known"] and o["known"] in known)]
    for o in orc:
        if o["known"] and o["known"] in known:
            hits[o["known"]] = hits.get(o["known"], 0) + 1
    for k in sorted(hits):
        ctx.known_finding("%s %s" % (k, known[k]["what"]))
    ctx.notes["xpx_known_class_hits"] = hits
    ctx.notes["xpx_argument_deviations_skipped"] = stats["argdev"]
    ctx.notes["xpx_oracle_agreements"] = stats["agree"]
    ctx.cov["distinct_nontrivial"] = ctx.cov.get("distinct_nontrivial", 0) + len(stats["distinct"])
    if corr:
        ctx.broken.append("correspondence xpx: %d of %d cases differ between the extension-function model and the library, e.g. %s" % (
            len(corr), ctx.cov["traces_validated_against_impl"], corr[0]))
        ctx.notes["xpx_correspondence_mismatches"] = corr[:20]
    if bad:
        ctx.violation("xpx_battery", "# C02 (extension part): fixed battery / corpus deviations from the published definitions\n"
                      "# replay: python3 check.py C02x --replay <this file>\n" + "\n".join(bad[:60]))
    if new:
        new.sort(key=lambda o: len(replay_text(o)))
        ctx.violation("xpx_oracle", "# C02 (extension part): the library's value differs from the published definition\n"
                      "# replay: python3 check.py C02x --replay <this file>\n" + "\n".join(replay_text(o) for o in new[:40]))
    ctx.notes["xpx_oracle_failures"] = len(new) + len(bad)
