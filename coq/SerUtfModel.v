(* SerUtfModel.v — C04: machine-checked facts about the buffered writers (SerUtfDefs) and the
   formatter (SerEscDefs): transparency of the staging buffer, soundness of every guard, UTF-8
   against the independent specification.  The generated constants of GenSer are used only
   through closed boolean checks decided by computation. *)
From Coq Require Import ZArith NArith List Bool Lia ZifyBool ZifyNat ZifyN.
Require Import XV.SerDefs.
Import ListNotations.
Local Open Scope N_scope.

Local Notation sound kb its := (forallb (item_sound kb) its = true).

(* ---- small list facts ---------------------------------------------------------------------- *)
Lemma len_app : forall a b, len (a ++ b) = len a + len b.
Proof. intros. unfold len. rewrite app_length. lia. Qed.

Lemma len_cons : forall x a, len (x :: a) = 1 + len a.
Proof. intros. unfold len. cbn [length]. lia. Qed.

Lemma len_nil : len [] = 0.
Proof. reflexivity. Qed.

Lemma len_rev : forall a, len (rev a) = len a.
Proof. intros. unfold len. rewrite rev_length. reflexivity. Qed.

Lemma sound_app : forall kb a b, sound kb a -> sound kb b -> sound kb (a ++ b).
Proof. intros. rewrite forallb_app, H, H0. reflexivity. Qed.

Lemma sound_app_inv : forall kb a b, sound kb (a ++ b) -> sound kb a /\ sound kb b.
Proof. intros kb a b H. rewrite forallb_app in H. apply andb_true_iff in H. exact H. Qed.

Lemma sound_nil : forall kb, sound kb [].
Proof. reflexivity. Qed.

Lemma sound_flat_map : forall kb (A : Type) (f : A -> list item) l,
  (forall x, sound kb (f x)) -> sound kb (flat_map f l).
Proof.
  intros kb A f l H. induction l as [|x l IH]; cbn [flat_map]; [reflexivity|].
  apply sound_app; auto.
Qed.

(* ==== 1. writer invariant and transparency =================================================== *)
Definition wr_inv (kb : N) (w : wr) : Prop := pos w = len (buf_rev w) /\ pos w + rem w = kb.

Lemma wr_init_inv : forall kb, wr_inv kb (wr_init kb).
Proof. intros kb. unfold wr_inv, wr_init. cbn [pos buf_rev rem]. rewrite len_nil. lia. Qed.

Lemma all_units_init : forall kb, all_units (wr_init kb) = [].
Proof. reflexivity. Qed.

Lemma flush_inv : forall kb w, wr_inv kb (flush kb w).
Proof. intros. unfold wr_inv, flush. cbn [pos buf_rev rem]. rewrite len_nil. lia. Qed.

Lemma flush_units : forall kb w, all_units (flush kb w) = all_units w.
Proof.
  intros. unfold all_units, flush. cbn [out_rev buf_rev rev].
  rewrite rev_app_distr, app_nil_r. reflexivity.
Qed.

Lemma stores_ok : forall kb xs w, pos w + len xs <= kb ->
  stores kb xs w = Some (mkwr (out_rev w) (rev xs ++ buf_rev w) (pos w + len xs) (rem w)).
Proof.
  intros kb xs. induction xs as [|x xs IH]; intros w H.
  - cbn [stores rev app]. rewrite len_nil, N.add_0_r. destruct w; reflexivity.
  - rewrite len_cons in H. cbn [stores].
    destruct (pos w <? kb) eqn:E; [|exfalso; lia].
    rewrite IH by (cbn [pos]; lia).
    cbn [out_rev buf_rev pos rem rev]. rewrite <- app_assoc. cbn [app].
    rewrite len_cons. do 2 f_equal. lia.
Qed.

Lemma sub64_exact : forall a b, b <= a -> a < 2 ^ 64 -> sub64 a b = a - b.
Proof.
  intros a b H1 H2. unfold sub64.
  destruct (b <=? a) eqn:E; [reflexivity|]. apply N.leb_gt in E. lia.
Qed.

Lemma run_item_put : forall kb g xs d w, kb < 2 ^ 64 -> wr_inv kb w ->
  item_sound kb (IPut g xs d) = true ->
  exists w', run_item kb (IPut g xs d) w = Ok w' /\ wr_inv kb w' /\ all_units w' = all_units w ++ xs.
Proof.
  intros kb g xs d w Hkb Hinv Hs. cbn [item_sound] in Hs.
  apply andb_true_iff in Hs. destruct Hs as [Hs Hd]. apply andb_true_iff in Hs.
  destruct Hs as [Hg Hk]. apply N.leb_le in Hg, Hk. apply N.eqb_eq in Hd. subst d.
  cbn [run_item].
  set (w1 := if rem w <? g then flush kb w else w).
  assert (H1 : wr_inv kb w1 /\ len xs <= rem w1 /\ all_units w1 = all_units w).
  { subst w1. destruct (rem w <? g) eqn:E.
    - split; [apply flush_inv|]. split; [cbn [flush rem]; lia|apply flush_units].
    - split; [exact Hinv|]. split; [lia|reflexivity]. }
  destruct H1 as [[Hp Hr] [Hl Hu]].
  rewrite stores_ok by lia. cbn [out_rev buf_rev pos rem].
  eexists. split; [reflexivity|]. split.
  - unfold wr_inv. cbn [pos buf_rev rem]. rewrite len_app, len_rev.
    rewrite sub64_exact by lia. lia.
  - unfold all_units in *. cbn [out_rev buf_rev]. rewrite rev_app_distr, rev_involutive.
    rewrite app_assoc, Hu. reflexivity.
Qed.

Lemma run_item_direct : forall kb xs w,
  exists w', run_item kb (IDirect xs) w = Ok w' /\ wr_inv kb w' /\ all_units w' = all_units w ++ xs.
Proof.
  intros. cbn [run_item]. eexists. split; [reflexivity|]. split.
  - unfold wr_inv, flush. cbn [pos buf_rev rem]. rewrite len_nil. lia.
  - unfold all_units, flush. cbn [out_rev buf_rev rev].
    rewrite !rev_app_distr, rev_involutive, app_nil_r. reflexivity.
Qed.

Theorem run_transparent : forall kb its w, kb < 2 ^ 64 -> wr_inv kb w ->
  forallb (item_sound kb) its = true ->
  match payload its with
  | Ok bs => exists w', run kb its w = Ok w' /\ wr_inv kb w' /\ all_units w' = all_units w ++ bs
  | Thrown c => run kb its w = Thrown c
  | Oob => False
  end.
Proof.
  intros kb its. induction its as [|it r IH]; intros w Hkb Hinv Hs.
  - cbn [payload run]. exists w. rewrite app_nil_r. auto.
  - cbn [forallb] in Hs. apply andb_true_iff in Hs. destruct Hs as [Hit Hr].
    destruct it as [g xs d|xs| |c].
    + destruct (run_item_put kb g xs d w Hkb Hinv Hit) as [w1 [E1 [I1 U1]]].
      specialize (IH w1 Hkb I1 Hr).
      cbn [payload run]. rewrite E1. destruct (payload r) as [bs| |c].
      * destruct IH as [w' [E [I U]]]. exists w'. split; [exact E|]. split; [exact I|].
        rewrite U, U1, app_assoc. reflexivity.
      * exact IH.
      * exact IH.
    + destruct (run_item_direct kb xs w) as [w1 [E1 [I1 U1]]].
      specialize (IH w1 Hkb I1 Hr).
      cbn [payload run]. rewrite E1. destruct (payload r) as [bs| |c].
      * destruct IH as [w' [E [I U]]]. exists w'. split; [exact E|]. split; [exact I|].
        rewrite U, U1, app_assoc. reflexivity.
      * exact IH.
      * exact IH.
    + specialize (IH (flush kb w) Hkb (flush_inv kb w) Hr).
      cbn [payload run run_item]. rewrite flush_units in IH. exact IH.
    + cbn [payload run run_item]. reflexivity.
Qed.

Lemma payload_not_oob : forall its, payload its <> Oob.
Proof.
  induction its as [|it r IH]; cbn [payload]; [discriminate|].
  destruct it; try assumption; try discriminate; destruct (payload r); congruence.
Qed.

Lemma payload_app : forall a b,
  payload (a ++ b) =
  match payload a with
  | Ok x => match payload b with Ok y => Ok (x ++ y) | e => e end
  | e => e
  end.
Proof.
  induction a as [|it a IH]; intros b.
  - cbn [app payload]. destruct (payload b); reflexivity.
  - cbn [app]. destruct it as [g xs d|xs| |c]; cbn [payload]; rewrite ?IH.
    + destruct (payload a); [|reflexivity|reflexivity].
      destruct (payload b); [|reflexivity|reflexivity]. rewrite app_assoc. reflexivity.
    + destruct (payload a); [|reflexivity|reflexivity].
      destruct (payload b); [|reflexivity|reflexivity]. rewrite app_assoc. reflexivity.
    + reflexivity.
    + reflexivity.
Qed.

(* ==== 2. every item a writer produces is sound ================================================= *)
Lemma put_sound : forall kb g xs d, len xs <= g -> len xs <= kb -> d = len xs ->
  sound kb [IPut g xs d].
Proof.
  intros. cbn [forallb item_sound]. rewrite andb_true_r.
  rewrite !andb_true_iff. repeat split; [apply N.leb_le| apply N.leb_le| apply N.eqb_eq]; assumption.
Qed.

Lemma block_sound : forall kb xs,
  sound kb (if kb <? len xs then [IDirect xs] else [IPut (len xs) xs (len xs)]).
Proof.
  intros. destruct (kb <? len xs) eqn:E; [reflexivity|].
  apply put_sound; lia.
Qed.

(* ---- UTF-8 ---- *)
Definition unit_guard_ok (g kb : N) : bool := (1 <=? g) && (1 <=? kb).

Lemma unit_guard_utf8_ok : unit_guard_ok unit_guard_utf8 kbuf_utf8 = true.
Proof. vm_compute. reflexivity. Qed.
Lemma unit_guard_utf16_ok : unit_guard_ok unit_guard_utf16 kbuf_utf16 = true.
Proof. vm_compute. reflexivity. Qed.
Lemma unit_guard_other_ok : unit_guard_ok unit_guard_other kbuf_other = true.
Proof. vm_compute. reflexivity. Qed.

Lemma unit_sound : forall g kb c, unit_guard_ok g kb = true -> sound kb [IPut g [c] 1].
Proof.
  intros g kb c H. unfold unit_guard_ok in H. apply andb_true_iff in H. destruct H as [H1 H2].
  apply N.leb_le in H1, H2. apply put_sound; rewrite len_cons, len_nil; lia.
Qed.

Lemma u8_unit_sound : forall c, forallb (item_sound kbuf_utf8) (u8_unit c) = true.
Proof. intros. apply unit_sound. exact unit_guard_utf8_ok. Qed.

Lemma u8_block_sound : forall xs, forallb (item_sound kbuf_utf8) (u8_block xs) = true.
Proof. intros. apply block_sound. Qed.

Definition row_ok (kb : N) (row : N * N * list (N * N * N) * N) : bool :=
  match row with
  | (_, g, st, d) =>
      let n := N.of_nat (length st) in (n <=? g) && (n <=? kb) && (d =? n)
  end.

Lemma utf8_rows_ok : forallb (row_ok kbuf_utf8) utf8_rows = true.
Proof. vm_compute. reflexivity. Qed.

Lemma u8_rows_find_sound : forall kb cp rows, forallb (row_ok kb) rows = true ->
  sound kb (u8_rows_find cp rows).
Proof.
  intros kb cp rows. induction rows as [|[[[upper g] st] d] r IH]; intros H.
  - reflexivity.
  - cbn [forallb] in H. apply andb_true_iff in H. destruct H as [H1 H2].
    cbn [u8_rows_find]. destruct (cp <=? upper) eqn:E; [|auto].
    cbn [row_ok] in H1. cbn [forallb item_sound]. rewrite andb_true_r.
    unfold len, row_bytes. rewrite map_length. exact H1.
Qed.

Lemma u8_code_sound : forall cp, forallb (item_sound kbuf_utf8) (u8_code cp) = true.
Proof.
  intros. unfold u8_code. destruct (cp <=? utf8_ascii_upper) eqn:E.
  - apply u8_unit_sound.
  - apply u8_rows_find_sound. exact utf8_rows_ok.
Qed.

Lemma u8_str_sound_aux : forall l,
  sound kbuf_utf8 (u8_str l) /\ forall c, sound kbuf_utf8 (u8_str (c :: l)).
Proof.
  induction l as [|a l [IH1 IH2]].
  - split; [reflexivity|]. intros c. cbn [u8_str].
    destruct (is_low c); [reflexivity|].
    destruct (negb (is_high c)); [|reflexivity].
    apply sound_app; [apply u8_code_sound|reflexivity].
  - split; [apply IH2|]. intros c. cbn [u8_str]. fold (u8_str (a :: l)).
    destruct (is_low c); [reflexivity|].
    destruct (negb (is_high c)).
    + apply sound_app; [apply u8_code_sound|apply IH2].
    + destruct (is_low a); [|reflexivity].
      apply sound_app; [apply u8_code_sound|apply IH1].
Qed.

Lemma u8_str_sound : forall l, forallb (item_sound kbuf_utf8) (u8_str l) = true.
Proof. intros. apply u8_str_sound_aux. Qed.

Lemma u8_at_sound : forall c r, forallb (item_sound kbuf_utf8) (fst (u8_at c r)) = true.
Proof.
  intros. unfold u8_at. destruct (is_low c); [reflexivity|].
  destruct (negb (is_high c)); [apply u8_code_sound|].
  destruct r as [|lo r]; [reflexivity|].
  destruct (is_low lo); [apply u8_code_sound|reflexivity].
Qed.

(* ---- the generic loop over single-character writes ---- *)
Lemma at_loop_sound_aux : forall kb (one : N -> list N -> list item * bool),
  (forall c r, sound kb (fst (one c r))) ->
  forall l, sound kb (at_loop one l) /\ forall c, sound kb (at_loop one (c :: l)).
Proof.
  intros kb one Hs. induction l as [|a l [IH1 IH2]].
  - split; [reflexivity|]. intros c. cbn [at_loop].
    pose proof (Hs c []) as H. destruct (one c []) as [its skip]. cbn [fst] in H.
    apply sound_app; [exact H|]. destruct skip; reflexivity.
  - split; [apply IH2|]. intros c. cbn [at_loop]. fold (at_loop one (a :: l)).
    pose proof (Hs c (a :: l)) as H. destruct (one c (a :: l)) as [its skip]. cbn [fst] in H.
    apply sound_app; [exact H|]. destruct skip; [apply IH1|apply IH2].
Qed.

Lemma at_loop_sound : forall kb (one : N -> list N -> list item * bool),
  (forall c r, sound kb (fst (one c r))) -> forall l, sound kb (at_loop one l).
Proof. intros kb one Hs l. apply (at_loop_sound_aux kb one Hs l). Qed.

(* ---- UTF-16 ---- *)
Lemma u16_unit_sound : forall c, forallb (item_sound kbuf_utf16) (u16_unit c) = true.
Proof. intros. apply unit_sound. exact unit_guard_utf16_ok. Qed.

Lemma u16_block_sound : forall xs, forallb (item_sound kbuf_utf16) (u16_block xs) = true.
Proof. intros. apply block_sound. Qed.

Lemma u16_at_sound : forall c r, forallb (item_sound kbuf_utf16) (fst (u16_at c r)) = true.
Proof.
  intros. unfold u16_at. destruct (is_high c).
  - destruct r as [|lo r]; [reflexivity|]. destruct (is_low lo); [|reflexivity].
    cbn [fst]. apply sound_app; apply u16_unit_sound.
  - destruct (is_low c); [reflexivity|]. apply u16_unit_sound.
Qed.

Lemma u16_chars_sound : forall l, forallb (item_sound kbuf_utf16) (u16_chars l) = true.
Proof. intros. unfold u16_chars. apply at_loop_sound. apply u16_at_sound. Qed.

(* ---- other encodings ---- *)
Lemma digits_rev_length : forall fuel n, (length (digits_rev fuel n) <= fuel)%nat.
Proof.
  induction fuel as [|f IH]; intros n; cbn [digits_rev]; [apply le_n|].
  destruct (n <? 10); cbn [length]; [lia|]. specialize (IH (n / 10)). lia.
Qed.

Lemma decimal_length : forall cp, (length (decimal cp) <= 20)%nat.
Proof. intros. unfold decimal. rewrite rev_length. apply digits_rev_length. Qed.

Lemma charref_len : forall cp, len (charref cp) <= 23.
Proof.
  intros. unfold charref. rewrite !len_cons, len_app, len_cons, len_nil.
  pose proof (decimal_length cp). unfold len. lia.
Qed.

Lemma charref_fits_other : (23 <=? kbuf_other) = true.
Proof. vm_compute. reflexivity. Qed.

Definition pair_guard_ok : bool :=
  (2 <=? other_pair_guard) && (2 <=? kbuf_other) && (other_pair_decrement =? 2).

Lemma other_pair_guard_ok : pair_guard_ok = true.
Proof. vm_compute. reflexivity. Qed.

Section OtherSound.
  Variable rep : N -> bool.

  Lemma o_charref_sound : forall cp, forallb (item_sound kbuf_other) (o_charref cp) = true.
  Proof.
    intros. unfold o_charref. pose proof (charref_len cp). pose proof charref_fits_other.
    apply put_sound; lia.
  Qed.

  Lemma o_unit_sound : forall c, forallb (item_sound kbuf_other) (o_unit rep c) = true.
  Proof.
    intros. unfold o_unit. destruct (rep c).
    - apply unit_sound. exact unit_guard_other_ok.
    - change (sound kbuf_other ([IPut unit_guard_other [] 0] ++ o_charref c)).
      apply sound_app; [|apply o_charref_sound].
      apply put_sound; rewrite ?len_nil; lia.
  Qed.

  Lemma o_str_sound : forall l, forallb (item_sound kbuf_other) (o_str rep l) = true.
  Proof. intros. unfold o_str. apply sound_flat_map. apply o_unit_sound. Qed.

  Lemma o_code_sound : forall cp, forallb (item_sound kbuf_other) (o_code cp) = true.
  Proof.
    intros. unfold o_code. destruct (other_split_gt <? cp).
    - pose proof other_pair_guard_ok as H. unfold pair_guard_ok in H.
      apply andb_true_iff in H. destruct H as [H H3]. apply andb_true_iff in H. destruct H as [H1 H2].
      apply put_sound; rewrite ?len_cons, ?len_nil; lia.
    - apply unit_sound. exact unit_guard_other_ok.
  Qed.

  Lemma o_at_gen_sound : forall fail, (forall v, sound kbuf_other (fail v)) ->
    forall c r, sound kbuf_other (fst (o_at_gen rep fail c r)).
  Proof.
    intros fail Hf c r. unfold o_at_gen. destruct (is_high c).
    - destruct r as [|lo r]; [reflexivity|]. destruct (is_low lo); [|reflexivity].
      cbn [fst]. destruct (rep _); [apply o_code_sound|apply Hf].
    - destruct (is_low c); [reflexivity|].
      cbn [fst]. destruct (rep c); [apply o_code_sound|apply Hf].
  Qed.

  Lemma o_at_sound : forall c r, forallb (item_sound kbuf_other) (fst (o_at rep c r)) = true.
  Proof. intros. apply o_at_gen_sound. apply o_charref_sound. Qed.

  Lemma o_at_name_sound : forall c r, forallb (item_sound kbuf_other) (fst (o_at_name rep c r)) = true.
  Proof. intros. apply o_at_gen_sound. reflexivity. Qed.

  Lemma o_name_sound : forall l, forallb (item_sound kbuf_other) (o_name rep l) = true.
  Proof. intros. unfold o_name. apply at_loop_sound. apply o_at_name_sound. Qed.

  Lemma o_cdata_char_sound : forall open close c r outside,
    forallb (item_sound kbuf_other) (fst (fst (o_cdata_char rep open close c r outside))) = true.
  Proof.
    intros. unfold o_cdata_char.
    match goal with |- context [match ?d with Some _ => _ | None => _ end] => destruct d as [[v skip]|] end;
      [|reflexivity].
    destruct (rep v); cbn [fst].
    - apply sound_app; [|apply o_code_sound]. destruct outside; [apply o_str_sound|reflexivity].
    - apply sound_app; [|apply o_charref_sound]. destruct outside; [reflexivity|apply o_str_sound].
  Qed.
End OtherSound.

(* ==== 4. UTF-8 against the specification ======================================================== *)
Lemma utf8_ascii_upper_val : utf8_ascii_upper = 127.
Proof. reflexivity. Qed.

Lemma land_shiftr_ones : forall cp sh k, N.land (N.shiftr cp sh) (N.ones k) = (cp / 2 ^ sh) mod 2 ^ k.
Proof. intros. rewrite N.shiftr_div_pow2, N.land_ones. reflexivity. Qed.

Section DivMod.
  Local Ltac Zify.zify_post_hook ::= Z.div_mod_to_equations.

  Theorem u8_code_spec : forall cp, cp <= 1114111 -> payload (u8_code cp) = Ok (utf8_spec cp).
  Proof.
    intros cp H. unfold u8_code. rewrite utf8_ascii_upper_val.
    destruct (N.leb_spec cp 127) as [H0|H0].
    - unfold u8_unit, utf8_spec. cbn [payload app].
      destruct (N.ltb_spec cp 128); [reflexivity|lia].
    - cbv [utf8_rows u8_rows_find row_bytes map]. cbn [payload].
      change 31 with (N.ones 5). change 63 with (N.ones 6).
      change 15 with (N.ones 4). change 7 with (N.ones 3).
      rewrite !land_shiftr_ones.
      change (2 ^ 0) with 1. change (2 ^ 3) with 8. change (2 ^ 4) with 16. change (2 ^ 5) with 32.
      change (2 ^ 6) with 64. change (2 ^ 12) with 4096. change (2 ^ 18) with 262144.
      rewrite !N.div_1_r.
      unfold utf8_spec.
      destruct (N.ltb_spec cp 128); [lia|].
      destruct (N.leb_spec cp 2047); destruct (N.ltb_spec cp 2048); try lia.
      + cbn [payload app]. do 2 f_equal; [|f_equal]; lia.
      + destruct (N.leb_spec cp 65535); destruct (N.ltb_spec cp 65536); try lia.
        * cbn [payload app]. do 2 f_equal; [|f_equal; [|f_equal]]; lia.
        * destruct (N.leb_spec cp 1114111); [|lia].
          cbn [payload app].
          do 2 f_equal; [|f_equal; [|f_equal; [|f_equal]]]; lia.
  Qed.

  Theorem u8_code_too_big : forall cp, 1114111 < cp -> payload (u8_code cp) = Thrown err_scalar.
  Proof.
    intros cp H. unfold u8_code. rewrite utf8_ascii_upper_val.
    destruct (N.leb_spec cp 127) as [H0|H0]; [lia|].
    cbv [utf8_rows u8_rows_find].
    destruct (N.leb_spec cp 2047); [lia|].
    destruct (N.leb_spec cp 65535); [lia|].
    destruct (N.leb_spec cp 1114111); [lia|].
    reflexivity.
  Qed.

  Local Ltac if_true :=
    match goal with
    | |- context [if ?b then _ else _] =>
        let H := fresh in
        assert (H : b = true) by (unfold is_cont, is_scalar; lia); rewrite H; clear H
    end.
  Local Ltac if_false :=
    match goal with
    | |- context [if ?b then _ else _] =>
        let H := fresh in
        assert (H : b = false) by (unfold is_cont, is_scalar; lia); rewrite H; clear H
    end.

  Lemma utf8_decode_spec_cons : forall cp f rest, is_scalar cp = true ->
    utf8_decode (S f) (utf8_spec cp ++ rest) = option_map (cons cp) (utf8_decode f rest).
  Proof.
    intros cp f rest Hs. unfold is_scalar in Hs. unfold utf8_spec.
    destruct (N.ltb_spec cp 128).
    - cbn [app utf8_decode]. if_true. reflexivity.
    - destruct (N.ltb_spec cp 2048).
      + cbn [app utf8_decode]. do 2 if_false. if_true. if_true.
        do 2 f_equal. lia.
      + destruct (N.ltb_spec cp 65536).
        * cbn [app utf8_decode]. do 3 if_false. if_true. if_true.
          do 2 f_equal. lia.
        * cbn [app utf8_decode]. do 4 if_false. if_true. if_true.
          do 2 f_equal. lia.
  Qed.
End DivMod.

Lemma is_high_eq : forall c, is_high c = (55296 <=? c) && (c <=? 56319).
Proof. reflexivity. Qed.
Lemma is_low_eq : forall c, is_low c = (56320 <=? c) && (c <=? 57343).
Proof. reflexivity. Qed.

Lemma decode_pair_eq : forall c lo, 56320 <= lo ->
  decode_pair c lo = (c - 55296) * 1024 + (lo - 56320) + 65536.
Proof.
  intros c lo H. unfold decode_pair.
  change sur_sub_hi with 55296. change sur_shift with 10. change sur_sub_lo with 56320.
  change sur_add with 65536.
  rewrite N.shiftl_mul_pow2. change (2 ^ 10) with 1024. lia.
Qed.

Lemma utf8_spec_nonempty : forall cp, exists b r, utf8_spec cp = b :: r.
Proof.
  intros. unfold utf8_spec.
  destruct (cp <? 128); [eauto|]. destruct (cp <? 2048); [eauto|]. destruct (cp <? 65536); eauto.
Qed.

Lemma utf8_decode_spec_app : forall cp bs cps fuel, is_scalar cp = true ->
  (forall f, (length bs <= f)%nat -> utf8_decode f bs = Some cps) ->
  (length (utf8_spec cp ++ bs) <= fuel)%nat ->
  utf8_decode fuel (utf8_spec cp ++ bs) = Some (cp :: cps).
Proof.
  intros cp bs cps fuel Hs Hd Hl.
  destruct fuel as [|f].
  - destruct (utf8_spec_nonempty cp) as [b [r E]]. rewrite E in Hl. cbn [app length] in Hl. lia.
  - rewrite utf8_decode_spec_cons by exact Hs. rewrite Hd; [reflexivity|].
    destruct (utf8_spec_nonempty cp) as [b [r E]]. rewrite E in Hl. cbn [app length] in Hl.
    rewrite app_length in Hl. lia.
Qed.

Definition units_ok (s : list N) : bool := forallb (fun c => c <=? 1114111) s.

Lemma utf8_roundtrip_gen : forall n s cps, (length s <= n)%nat -> units_ok s = true ->
  code_points s = Some cps ->
  exists bs, payload (u8_str s) = Ok bs /\
             forall fuel, (length bs <= fuel)%nat -> utf8_decode fuel bs = Some cps.
Proof.
  induction n as [|n IH]; intros s cps Hn Hu Hc.
  - destruct s; [|cbn [length] in Hn; lia]. cbn [code_points] in Hc. injection Hc as <-.
    exists []. split; [reflexivity|]. intros [|f] _; reflexivity.
  - destruct s as [|c r].
    { cbn [code_points] in Hc. injection Hc as <-.
      exists []. split; [reflexivity|]. intros [|f] _; reflexivity. }
    cbn [length] in Hn. unfold units_ok in Hu. cbn [forallb] in Hu.
    apply andb_true_iff in Hu. destruct Hu as [Hu1 Hu2]. fold (units_ok r) in Hu2.
    cbn [code_points] in Hc. cbn [u8_str]. rewrite is_high_eq, (is_low_eq c).
    destruct ((55296 <=? c) && (c <=? 56319)) eqn:Eh; cbn [negb].
    + assert (Hl : (56320 <=? c) && (c <=? 57343) = false) by lia. rewrite Hl. clear Hl.
      destruct r as [|lo r']; [discriminate|].
      rewrite is_low_eq.
      destruct ((56320 <=? lo) && (lo <=? 57343)) eqn:El; [|discriminate].
      destruct (code_points r') as [cps'|] eqn:Ec; [|discriminate].
      cbn [option_map] in Hc. injection Hc as <-.
      unfold units_ok in Hu2. cbn [forallb] in Hu2. apply andb_true_iff in Hu2.
      destruct Hu2 as [_ Hu3].
      destruct (IH r' cps') as [bs' [Hp Hd]]; [cbn [length] in Hn; lia|exact Hu3|exact Ec|].
      rewrite decode_pair_eq by lia.
      set (cp := (c - 55296) * 1024 + (lo - 56320) + 65536).
      assert (Hcp : cp <= 1114111) by (subst cp; lia).
      exists (utf8_spec cp ++ bs'). split.
      * rewrite payload_app, (u8_code_spec cp Hcp), Hp. reflexivity.
      * intros fuel Hf. apply utf8_decode_spec_app; [|exact Hd|exact Hf].
        unfold is_scalar. subst cp. lia.
    + destruct ((56320 <=? c) && (c <=? 57343)) eqn:El; [discriminate|].
      destruct (code_points r) as [cps'|] eqn:Ec; [|discriminate].
      cbn [option_map] in Hc. injection Hc as <-.
      destruct (IH r cps') as [bs' [Hp Hd]]; [lia|exact Hu2|exact Ec|].
      assert (Hcp : c <= 1114111) by lia.
      exists (utf8_spec c ++ bs'). split.
      * rewrite payload_app, (u8_code_spec c Hcp), Hp. reflexivity.
      * intros fuel Hf. apply utf8_decode_spec_app; [|exact Hd|exact Hf].
        unfold is_scalar. lia.
Qed.

(* UTF-16 code units are 16 bit; the hypothesis [units_ok] (every unit <= 0x10FFFF) is weaker *)
Theorem utf8_roundtrip : forall s cps, units_ok s = true -> code_points s = Some cps ->
  exists bs, payload (u8_str s) = Ok bs /\ utf8_decode (S (length bs)) bs = Some cps.
Proof.
  intros s cps Hu Hc.
  destruct (utf8_roundtrip_gen (length s) s cps (le_n _) Hu Hc) as [bs [Hp Hd]].
  exists bs. split; [exact Hp|]. apply Hd. lia.
Qed.

Lemma units16_ok : forall s, forallb (fun c => c <? 65536) s = true -> units_ok s = true.
Proof.
  intros s H. unfold units_ok. rewrite forallb_forall in *. intros x Hx. specialize (H x Hx). lia.
Qed.

Corollary utf8_roundtrip16 : forall s cps, forallb (fun c => c <? 65536) s = true ->
  code_points s = Some cps ->
  exists bs, payload (u8_str s) = Ok bs /\ utf8_decode (S (length bs)) bs = Some cps.
Proof. intros s cps H. apply utf8_roundtrip. apply units16_ok. exact H. Qed.

(* the hypothesis on the units cannot be dropped: a "unit" above 0x10FFFF is a code point for
   [code_points] but XalanUTF8Writer throws *)
Lemma utf8_roundtrip_needs_units_ok :
  code_points [1114112] = Some [1114112] /\ payload (u8_str [1114112]) = Thrown err_scalar.
Proof. split; vm_compute; reflexivity. Qed.

(* an unpaired low surrogate is an exception (the repaired library; was known finding K7) *)
Theorem utf8_lone_low_throws : forall c r, is_low c = true ->
  payload (u8_str (c :: r)) = Thrown err_surrogate.
Proof. intros c r H. cbn [u8_str]. rewrite H. reflexivity. Qed.

Lemma high_not_low : forall c, is_high c = true -> is_low c = false.
Proof. intros c. rewrite is_high_eq, is_low_eq. lia. Qed.

Theorem utf8_lone_high_throws : forall c, is_high c = true -> payload (u8_str [c]) = Thrown err_surrogate.
Proof. intros c H. cbn [u8_str]. rewrite (high_not_low c H), H. reflexivity. Qed.

(* every string with an unpaired surrogate anywhere gives an exception, never bytes (no hypothesis
   on the units is needed: a "unit" above 0x10FFFF throws as well) *)
Lemma utf8_unpaired_gen : forall n s, (length s <= n)%nat -> code_points s = None ->
  exists code, payload (u8_str s) = Thrown code.
Proof.
  induction n as [|n IH]; intros s Hn Hc.
  - destruct s; [discriminate|cbn [length] in Hn; lia].
  - destruct s as [|c r]; [discriminate|]. cbn [length] in Hn.
    cbn [code_points] in Hc. cbn [u8_str]. rewrite is_high_eq, (is_low_eq c).
    destruct ((55296 <=? c) && (c <=? 56319)) eqn:Eh; cbn [negb].
    + assert (Hl : (56320 <=? c) && (c <=? 57343) = false) by lia. rewrite Hl. clear Hl.
      destruct r as [|lo r']; [eexists; reflexivity|].
      rewrite is_low_eq.
      destruct ((56320 <=? lo) && (lo <=? 57343)) eqn:El; [|eexists; reflexivity].
      destruct (code_points r') as [cps'|] eqn:Ec; [discriminate|].
      destruct (IH r') as [code Hp]; [cbn [length] in Hn; lia|exact Ec|].
      rewrite decode_pair_eq by lia.
      set (cp := (c - 55296) * 1024 + (lo - 56320) + 65536).
      assert (Hcp : cp <= 1114111) by (subst cp; lia).
      exists code. rewrite payload_app, (u8_code_spec cp Hcp), Hp. reflexivity.
    + destruct ((56320 <=? c) && (c <=? 57343)) eqn:El; [eexists; reflexivity|].
      destruct (code_points r) as [cps'|] eqn:Ec; [discriminate|].
      destruct (IH r) as [code Hp]; [lia|exact Ec|].
      destruct (N.le_gt_cases c 1114111) as [Hcp|Hcp].
      * exists code. rewrite payload_app, (u8_code_spec c Hcp), Hp. reflexivity.
      * exists err_scalar. rewrite payload_app, (u8_code_too_big c Hcp). reflexivity.
Qed.

Theorem utf8_unpaired_is_an_error_strong : forall s, code_points s = None ->
  exists code, payload (u8_str s) = Thrown code.
Proof. intros s H. apply (utf8_unpaired_gen (length s) s (le_n _) H). Qed.

Theorem utf8_unpaired_is_an_error : forall s, (forall c, In c s -> c < 65536) -> code_points s = None ->
  exists code, payload (u8_str s) = Thrown code.
Proof. intros s _. apply utf8_unpaired_is_an_error_strong. Qed.

(* the UTF-16 writer: validating single-character writes *)
Lemma u16_unpaired_gen : forall n s, (length s <= n)%nat -> code_points s = None ->
  exists code, payload (at_loop u16_at s) = Thrown code.
Proof.
  induction n as [|n IH]; intros s Hn Hc.
  - destruct s; [discriminate|cbn [length] in Hn; lia].
  - destruct s as [|c r]; [discriminate|]. cbn [length] in Hn.
    cbn [code_points] in Hc. cbn [at_loop]. unfold u16_at at 1. rewrite is_high_eq, (is_low_eq c).
    destruct ((55296 <=? c) && (c <=? 56319)) eqn:Eh.
    + destruct r as [|lo r']; [eexists; reflexivity|].
      rewrite is_low_eq.
      destruct ((56320 <=? lo) && (lo <=? 57343)) eqn:El; [|eexists; reflexivity].
      destruct (code_points r') as [cps'|] eqn:Ec; [discriminate|].
      destruct (IH r') as [code Hp]; [cbn [length] in Hn; lia|exact Ec|].
      exists code. unfold u16_unit. cbn [app payload]. rewrite Hp. reflexivity.
    + destruct ((56320 <=? c) && (c <=? 57343)) eqn:El; [eexists; reflexivity|].
      destruct (code_points r) as [cps'|] eqn:Ec; [discriminate|].
      destruct (IH r) as [code Hp]; [lia|exact Ec|].
      exists code. unfold u16_unit. cbn [app payload]. rewrite Hp. reflexivity.
Qed.

Theorem u16_unpaired_is_an_error : forall s, code_points s = None ->
  exists code, payload (u16_chars s) = Thrown code.
Proof. intros s H. unfold u16_chars. apply (u16_unpaired_gen (length s) s (le_n _) H). Qed.

Lemma u16_verbatim_gen : forall n s cps, (length s <= n)%nat -> code_points s = Some cps ->
  payload (at_loop u16_at s) = Ok s.
Proof.
  induction n as [|n IH]; intros s cps Hn Hc.
  - destruct s; [reflexivity|cbn [length] in Hn; lia].
  - destruct s as [|c r]; [reflexivity|]. cbn [length] in Hn.
    cbn [code_points] in Hc. cbn [at_loop]. unfold u16_at at 1. rewrite is_high_eq, (is_low_eq c).
    destruct ((55296 <=? c) && (c <=? 56319)) eqn:Eh.
    + destruct r as [|lo r']; [discriminate|].
      rewrite is_low_eq.
      destruct ((56320 <=? lo) && (lo <=? 57343)) eqn:El; [|discriminate].
      destruct (code_points r') as [cps'|] eqn:Ec; [|discriminate].
      assert (Hp : payload (at_loop u16_at r') = Ok r') by (apply (IH r' cps'); [cbn [length] in Hn; lia|exact Ec]).
      unfold u16_unit. cbn [app payload]. rewrite Hp. reflexivity.
    + destruct ((56320 <=? c) && (c <=? 57343)) eqn:El; [discriminate|].
      destruct (code_points r) as [cps'|] eqn:Ec; [|discriminate].
      assert (Hp : payload (at_loop u16_at r) = Ok r) by (apply (IH r cps'); [lia|exact Ec]).
      unfold u16_unit. cbn [app payload]. rewrite Hp. reflexivity.
Qed.

Theorem u16_chars_verbatim : forall s cps, code_points s = Some cps -> payload (u16_chars s) = Ok s.
Proof. intros s cps H. unfold u16_chars. apply (u16_verbatim_gen (length s) s cps (le_n _) H). Qed.
(* ==== 3. the formatter produces sound items only ================================================== *)
Record fam_sound (F : fam) : Prop := mk_fam_sound {
  fs_unit : forall c, sound (f_kbuf F) (f_unit F c);
  fs_const : forall l, sound (f_kbuf F) (f_const F l);
  fs_str : forall l, sound (f_kbuf F) (f_str F l);
  fs_name : forall l, sound (f_kbuf F) (f_name F l);
  fs_comment : forall l, sound (f_kbuf F) (f_comment F l);
  fs_at : forall c r, sound (f_kbuf F) (fst (f_at F c r));
  fs_cdata_char : forall c r o, sound (f_kbuf F) (fst (fst (f_cdata_char F c r o)));
  fs_newline : sound (f_kbuf F) (f_newline F)
}.

Lemma fam_utf8_sound : fam_sound fam_utf8.
Proof.
  constructor; cbn [fam_utf8 f_kbuf f_unit f_const f_str f_name f_comment f_at f_cdata_char f_newline]; intros.
  - apply u8_unit_sound.
  - apply u8_block_sound.
  - apply u8_str_sound.
  - apply u8_str_sound.
  - apply u8_str_sound.
  - apply u8_at_sound.
  - pose proof (u8_at_sound c r) as H. destruct (u8_at c r). cbn [fst] in *.
    apply sound_app; [|exact H]. destruct o; [apply u8_block_sound|reflexivity].
  - apply u8_str_sound.
Qed.

Lemma fam_utf16_sound : fam_sound fam_utf16.
Proof.
  constructor; cbn [fam_utf16 f_kbuf f_unit f_const f_str f_name f_comment f_at f_cdata_char f_newline fst]; intros.
  - apply u16_unit_sound.
  - apply u16_block_sound.
  - apply u16_block_sound.
  - apply u16_block_sound.
  - apply u16_chars_sound.
  - apply u16_at_sound.
  - pose proof (u16_at_sound c r) as H. destruct (u16_at c r). cbn [fst] in *.
    apply sound_app; [|exact H]. destruct o; [apply u16_block_sound|reflexivity].
  - apply u16_block_sound.
Qed.

Lemma fam_other_sound : forall rep, fam_sound (fam_other rep).
Proof.
  intros rep.
  constructor; cbn [fam_other f_kbuf f_unit f_const f_str f_name f_comment f_at f_cdata_char f_newline]; intros.
  - apply o_unit_sound.
  - apply o_str_sound.
  - apply o_str_sound.
  - apply o_name_sound.
  - apply o_name_sound.
  - apply o_at_sound.
  - apply o_cdata_char_sound.
  - apply o_str_sound.
Qed.

Lemma fam_of_sound : forall k, fam_sound (fam_of k).
Proof.
  intros [] ; cbn [fam_of];
    [apply fam_utf8_sound|apply fam_utf16_sound|apply fam_other_sound|apply fam_other_sound].
Qed.

Lemma char_loop_sound_aux : forall kb (step : N -> list N -> list item * bool),
  (forall c r, sound kb (fst (step c r))) ->
  forall l, sound kb (char_loop step l) /\ forall c, sound kb (char_loop step (c :: l)).
Proof.
  intros kb step Hs. induction l as [|a l [IH1 IH2]].
  - split; [reflexivity|]. intros c. cbn [char_loop].
    pose proof (Hs c []) as H. destruct (step c []) as [its skip]. cbn [fst] in H.
    apply sound_app; [exact H|]. destruct skip; reflexivity.
  - split; [apply IH2|]. intros c. cbn [char_loop]. fold (char_loop step (a :: l)).
    pose proof (Hs c (a :: l)) as H. destruct (step c (a :: l)) as [its skip]. cbn [fst] in H.
    apply sound_app; [exact H|]. destruct skip; [apply IH1|apply IH2].
Qed.

Lemma char_loop_sound : forall kb (step : N -> list N -> list item * bool),
  (forall c r, sound kb (fst (step c r))) -> forall l, sound kb (char_loop step l).
Proof. intros kb step Hs l. apply (char_loop_sound_aux kb step Hs l). Qed.

Section FormatterSound.
  Variable F : fam.
  Variable v11 : bool.
  Hypothesis HF : fam_sound F.
  Local Notation kb := (f_kbuf F).

  Lemma units_sound : forall l, sound kb (units F l).
  Proof. intros. unfold units. apply sound_flat_map. apply (fs_unit F HF). Qed.

  Lemma ncr_sound : forall n, sound kb (ncr F n).
  Proof.
    intros. unfold ncr.
    repeat apply sound_app; try apply (fs_unit F HF). apply (fs_str F HF).
  Qed.

  Lemma default_entity_sound : forall c its, default_entity F c = Some its -> sound kb its.
  Proof.
    intros c its. unfold default_entity.
    destruct (c =? 60); [intros H; injection H as <-; apply (fs_const F HF)|].
    destruct (c =? 62); [intros H; injection H as <-; apply (fs_const F HF)|].
    destruct (c =? 38); [intros H; injection H as <-; apply (fs_const F HF)|].
    discriminate.
  Qed.

  Lemma default_escape_sound : forall c, sound kb (default_escape F v11 c).
  Proof.
    intros. unfold default_escape.
    destruct (default_entity F c) eqn:E; [eapply default_entity_sound; exact E|].
    destruct (c =? 10); [apply (fs_newline F HF)|].
    destruct (p_forbidden v11 c); [reflexivity|apply ncr_sound].
  Qed.

  Lemma default_attr_escape_sound : forall c, sound kb (default_attr_escape F v11 c).
  Proof.
    intros. unfold default_attr_escape.
    destruct (default_entity F c) eqn:E; [eapply default_entity_sound; exact E|].
    destruct (c =? 34); [apply (fs_const F HF)|].
    destruct (p_forbidden v11 c); [reflexivity|apply ncr_sound].
  Qed.

  Lemma normalized_big_sound : forall c r, sound kb (fst (normalized_big F v11 c r)).
  Proof.
    intros. unfold normalized_big.
    destruct (v11 && (c =? 8232)); [apply ncr_sound|apply (fs_at F HF)].
  Qed.

  Lemma content_step_sound : forall c r, sound kb (fst (content_step F v11 c r)).
  Proof.
    intros. unfold content_step.
    destruct (p_range v11 c); [apply normalized_big_sound|].
    destruct (negb (p_content v11 c)); cbn [fst]; [apply (fs_unit F HF)|apply default_escape_sound].
  Qed.

  Lemma attr_step_sound : forall c r, sound kb (fst (attr_step F v11 c r)).
  Proof.
    intros. unfold attr_step.
    destruct (p_range v11 c); [apply normalized_big_sound|].
    destruct (negb (p_attribute v11 c)); cbn [fst]; [apply (fs_unit F HF)|apply default_attr_escape_sound].
  Qed.

  Lemma normalized_loop_sound : forall l run_rev, sound kb (normalized_loop F v11 l run_rev).
  Proof.
    induction l as [|c r IH]; intros run_rev; cbn [normalized_loop].
    - apply (fs_comment F HF).
    - destruct (c =? 10).
      + apply sound_app; [apply (fs_comment F HF)|]. apply sound_app; [apply (fs_newline F HF)|apply IH].
      + destruct (p_comment_error v11 c); [reflexivity|apply IH].
  Qed.

  Lemma write_content_sound : forall s, sound kb (write_content F v11 s).
  Proof. intros. apply char_loop_sound. apply content_step_sound. Qed.

  Lemma write_attr_string_sound : forall s, sound kb (write_attr_string F v11 s).
  Proof. intros. apply char_loop_sound. apply attr_step_sound. Qed.

  Lemma write_normalized_data_sound : forall s, sound kb (write_normalized_data F v11 s).
  Proof. intros. unfold write_normalized_data. apply normalized_loop_sound. Qed.
End FormatterSound.

(* cdata_loop: the deferred part [plain] of the body, named *)
Definition cdata_plain (F : fam) (v11 : bool) (c : N) (r : list N) (outside : bool) : list item * bool :=
  if c =? 10 then let '(its, o) := cdata_loop F v11 r outside in (f_newline F ++ its, o)
  else if p_forbidden v11 c then ([IThrow err_forbidden], outside)
  else if (c =? 13) || (v11 && ((c =? 133) || (c =? 8232) || p_crforbidden v11 c)) then
    let '(its, o) := cdata_loop F v11 r true in
    ((if outside then [] else f_const F s_cdata_close) ++ ncr F c ++ its, o)
  else
    let '(its, skip, o1) := f_cdata_char F c r outside in
    let '(its2, o2) :=
      if skip then match r with [] => ([], o1) | _ :: r' => cdata_loop F v11 r' o1 end
      else cdata_loop F v11 r o1 in
    (its ++ its2, o2).

Lemma cdata_loop_cons : forall F v11 c r outside,
  cdata_loop F v11 (c :: r) outside =
  if c =? 93 then
    if longer_than cdata_lookahead_gt (c :: r) then
      match r with
      | a :: b :: r'' =>
          if (a =? 93) && (b =? 62) then
            let '(its, o) := cdata_loop F v11 r'' false in
            ((if outside then f_const F s_cdata_open else []) ++
             f_unit F 93 ++ f_unit F 93 ++ f_const F s_cdata_close ++
             f_const F s_cdata_open ++ f_unit F 62 ++ its, o)
          else cdata_plain F v11 c r outside
      | _ => cdata_plain F v11 c r outside
      end
    else cdata_plain F v11 c r outside
  else cdata_plain F v11 c r outside.
Proof. reflexivity. Qed.

Section FormatterSound2.
  Variable F : fam.
  Variable v11 : bool.
  Hypothesis HF : fam_sound F.
  Local Notation kb := (f_kbuf F).

  Lemma cdata_plain_sound : forall n c r outside,
    (forall l o, (length l <= n)%nat -> sound kb (fst (cdata_loop F v11 l o))) ->
    (length r <= n)%nat -> sound kb (fst (cdata_plain F v11 c r outside)).
  Proof.
    intros n c r outside IH Hn. unfold cdata_plain.
    destruct (c =? 10).
    { pose proof (IH r outside Hn) as H. destruct (cdata_loop F v11 r outside) as [its o].
      cbn [fst] in *. apply sound_app; [apply (fs_newline F HF)|exact H]. }
    destruct (p_forbidden v11 c); [reflexivity|].
    destruct ((c =? 13) || (v11 && ((c =? 133) || (c =? 8232) || p_crforbidden v11 c))).
    { pose proof (IH r true Hn) as H. destruct (cdata_loop F v11 r true) as [its o].
      cbn [fst] in *.
      apply sound_app; [destruct outside; [reflexivity|apply (fs_const F HF)]|].
      apply sound_app; [apply ncr_sound; exact HF|exact H]. }
    pose proof (fs_cdata_char F HF c r outside) as H.
    destruct (f_cdata_char F c r outside) as [[its skip] o1]. cbn [fst] in H.
    destruct skip.
    - destruct r as [|x r']; cbn [fst].
      + apply sound_app; [exact H|reflexivity].
      + assert (Hn' : (length r' <= n)%nat) by (cbn [length] in Hn; lia).
        pose proof (IH r' o1 Hn') as H2. destruct (cdata_loop F v11 r' o1) as [its2 o2].
        cbn [fst] in *. apply sound_app; assumption.
    - pose proof (IH r o1 Hn) as H2. destruct (cdata_loop F v11 r o1) as [its2 o2].
      cbn [fst] in *. apply sound_app; assumption.
  Qed.

  Lemma cdata_loop_sound_gen : forall n l o, (length l <= n)%nat ->
    sound kb (fst (cdata_loop F v11 l o)).
  Proof.
    induction n as [|n IH]; intros l o Hn.
    - destruct l; [reflexivity|cbn [length] in Hn; lia].
    - destruct l as [|c r]; [reflexivity|]. cbn [length] in Hn.
      assert (Hr : (length r <= n)%nat) by lia.
      rewrite cdata_loop_cons.
      pose proof (cdata_plain_sound n c r o IH Hr) as Hp.
      destruct (c =? 93); [|exact Hp].
      destruct (longer_than cdata_lookahead_gt (c :: r)); [|exact Hp].
      destruct r as [|a [|b r'']]; [exact Hp|exact Hp|].
      destruct ((a =? 93) && (b =? 62)); [|exact Hp].
      assert (Hn' : (length r'' <= n)%nat) by (cbn [length] in Hr; lia).
      pose proof (IH r'' false Hn') as H2. destruct (cdata_loop F v11 r'' false) as [its o2].
      cbn [fst] in *.
      apply sound_app; [destruct o; [apply (fs_const F HF)|reflexivity]|].
      repeat (apply sound_app; [first [apply (fs_unit F HF)|apply (fs_const F HF)]|]).
      exact H2.
  Qed.

  Lemma cdata_loop_sound : forall l o, sound kb (fst (cdata_loop F v11 l o)).
  Proof. intros. apply (cdata_loop_sound_gen (length l)). apply le_n. Qed.

  Lemma write_cdata_sound : forall s, sound kb (write_cdata F v11 s).
  Proof.
    intros. unfold write_cdata. pose proof (cdata_loop_sound s false) as H.
    destruct (cdata_loop F v11 s false) as [its o]. cbn [fst] in H.
    apply sound_app; [apply (fs_const F HF)|]. apply sound_app; [exact H|].
    destruct o; [reflexivity|apply (fs_const F HF)].
  Qed.

  Lemma write_comment_sound : forall s, sound kb (write_comment F v11 s).
  Proof.
    intros. unfold write_comment.
    apply sound_app; [apply units_sound; exact HF|].
    apply sound_app; [apply write_normalized_data_sound; exact HF|apply units_sound; exact HF].
  Qed.

  Lemma write_pi_sound : forall t d, sound kb (write_pi F v11 t d).
  Proof.
    intros. unfold write_pi.
    apply sound_app; [apply units_sound; exact HF|].
    apply sound_app; [apply (fs_name F HF)|].
    apply sound_app.
    { destruct d as [|c d]; [reflexivity|]. destruct (is_xml_ws c); [reflexivity|apply (fs_unit F HF)]. }
    apply sound_app; [apply write_normalized_data_sound; exact HF|apply units_sound; exact HF].
  Qed.

  Lemma write_header_sound : forall ver enc, sound kb (write_header F ver enc).
  Proof.
    intros. unfold write_header.
    repeat (apply sound_app; [first [apply (fs_const F HF)|apply (fs_str F HF)]|]).
    apply (fs_const F HF).
  Qed.

  Lemma parent_tag_end_sound : forall st, sound kb (fst (parent_tag_end F st)).
  Proof.
    intros. unfold parent_tag_end. destruct st as [|[] st]; cbn [fst]; try reflexivity.
    apply (fs_unit F HF).
  Qed.

  Lemma write_attribute_sound : forall a, sound kb (write_attribute F v11 a).
  Proof.
    intros. unfold write_attribute.
    repeat (apply sound_app;
            [first [apply (fs_unit F HF)|apply (fs_name F HF)|apply write_attr_string_sound; exact HF]|]).
    apply (fs_unit F HF).
  Qed.

  Lemma event_items_sound : forall e st, sound kb (fst (event_items F v11 e st)).
  Proof.
    intros e st. pose proof (parent_tag_end_sound st) as Hp.
    destruct e as [name attrs|name|s|s|s|t d]; cbn [event_items].
    - destruct (parent_tag_end F st) as [p st1]. cbn [fst] in *.
      apply sound_app; [exact Hp|]. apply sound_app; [apply (fs_unit F HF)|].
      apply sound_app; [apply (fs_name F HF)|]. apply sound_flat_map. apply write_attribute_sound.
    - destruct st as [|b r]; cbn [fst].
      + apply sound_app; apply (fs_unit F HF).
      + apply sound_app; [|apply (fs_unit F HF)]. destruct b; [|apply (fs_unit F HF)].
        apply sound_app; [apply (fs_unit F HF)|]. apply sound_app; [apply (fs_unit F HF)|apply (fs_name F HF)].
    - destruct s as [|c s]; [reflexivity|].
      destruct (parent_tag_end F st) as [p st1]. cbn [fst] in *.
      apply sound_app; [exact Hp|apply write_content_sound; exact HF].
    - destruct s as [|c s]; [reflexivity|].
      destruct (parent_tag_end F st) as [p st1]. cbn [fst] in *.
      apply sound_app; [exact Hp|apply write_cdata_sound].
    - destruct (parent_tag_end F st) as [p st1]. cbn [fst] in *.
      apply sound_app; [exact Hp|apply write_comment_sound].
    - destruct (parent_tag_end F st) as [p st1]. cbn [fst] in *.
      apply sound_app; [exact Hp|apply write_pi_sound].
  Qed.

  Lemma events_items_sound : forall es st, sound kb (events_items F v11 es st).
  Proof.
    induction es as [|e es IH]; intros st; [reflexivity|].
    cbn [events_items]. pose proof (event_items_sound e st) as H.
    destruct (event_items F v11 e st) as [its st1]. cbn [fst] in H.
    apply sound_app; [exact H|apply IH].
  Qed.
End FormatterSound2.

Lemma document_items_sound : forall F v11 ver enc es, fam_sound F ->
  forallb (item_sound (f_kbuf F)) (document_items F v11 ver enc es) = true.
Proof.
  intros F v11 ver enc es HF. unfold document_items.
  apply sound_app; [apply write_header_sound; exact HF|].
  apply sound_app; [apply events_items_sound; exact HF|reflexivity].
Qed.

Definition kbuf_fits (k : encoding_kind) : bool := f_kbuf (fam_of k) <? 2 ^ 64.

Lemma kbuf_fits_all : forall k, kbuf_fits k = true.
Proof. intros []; vm_compute; reflexivity. Qed.

Theorem serialize_transparent : forall k v11 ver enc es,
  serialize k v11 ver enc es = payload (document_items (fam_of k) v11 ver enc es).
Proof.
  intros. unfold serialize.
  pose proof (kbuf_fits_all k) as Hk. unfold kbuf_fits in Hk. apply N.ltb_lt in Hk.
  pose proof (run_transparent (f_kbuf (fam_of k)) (document_items (fam_of k) v11 ver enc es)
                (wr_init (f_kbuf (fam_of k))) Hk (wr_init_inv _)
                (document_items_sound _ v11 ver enc es (fam_of_sound k))) as H.
  destruct (payload (document_items (fam_of k) v11 ver enc es)) as [bs| |c].
  - destruct H as [w' [E [_ U]]]. rewrite E, U, all_units_init. reflexivity.
  - destruct H.
  - rewrite H. reflexivity.
Qed.

(* corollaries: the serializer never stores outside its staging buffer *)
Corollary serialize_never_oob : forall k v11 ver enc es, serialize k v11 ver enc es <> Oob.
Proof. intros. rewrite serialize_transparent. apply payload_not_oob. Qed.
