(* SerLegacyRaw.v — C04, part "legacy": the raw marker m_nextIsRaw of FormatterToXML affects exactly one
   event.  lg_events (SerLegacyDefs.v) threads the flag as the code does (set by the marker PI, cleared
   by the next characters() with text or the next cdata()).  Here the same output is described
   WITHOUT a flag: an event is written raw iff it looks at the flag (lg_consumes) and, scanning the
   events before it backwards, the first event that is a marker or looks at the flag is a marker
   (lg_pending); a marker writes nothing; every other event is written by the marker-free function
   lg_event_out.  So a marker never leaks beyond the first characters / cdata event after it. *)
From Coq Require Import NArith List Bool Lia.
Require Import XV.GenSerLegacy XV.SerUtfDefs XV.SerLegacyDefs.
Import ListNotations.
Local Open Scope N_scope.

Fixpoint lg_backscan (rev_pre : list lg_event) : bool :=
  match rev_pre with
  | [] => false
  | e :: r => if lg_is_marker e then true else if lg_consumes e then false else lg_backscan r
  end.

(* the events [pre] have been written: is a marker pending? *)
Definition lg_pending (pre : list lg_event) : bool := lg_backscan (rev pre).

Lemma pending_snoc : forall pre e,
  lg_pending (pre ++ [e]) = if lg_is_marker e then true else if lg_consumes e then false else lg_pending pre.
Proof. intros pre e. unfold lg_pending. rewrite rev_unit. reflexivity. Qed.

(* the declarative reading of lg_pending *)
Theorem pending_iff : forall pre, lg_pending pre = true <->
  exists a m b, pre = a ++ m :: b /\ lg_is_marker m = true /\ forallb (fun e => negb (lg_consumes e)) b = true.
Proof.
  intros pre. split.
  - induction pre as [|e p IH] using rev_ind; [discriminate|].
    rewrite pending_snoc. destruct (lg_is_marker e) eqn:Em.
    + intros _. exists p, e, []. repeat split. exact Em.
    + destruct (lg_consumes e) eqn:Ec; [discriminate|]. intros H.
      destruct (IH H) as (a & m & b & -> & Hm & Hb). exists a, m, (b ++ [e]). split.
      * rewrite <- app_assoc. reflexivity.
      * split; [exact Hm|]. rewrite forallb_app, Hb. cbn [forallb]. rewrite Ec. reflexivity.
  - intros (a & m & b & -> & Hm & Hb). induction b as [|e b IH] using rev_ind.
    + rewrite pending_snoc, Hm. reflexivity.
    + rewrite forallb_app in Hb. apply andb_true_iff in Hb. destruct Hb as [Hb He]. cbn [forallb] in He.
      change (a ++ m :: b ++ [e]) with (a ++ (m :: b) ++ [e]). rewrite app_assoc, pending_snoc.
      destruct (lg_is_marker e); [reflexivity|]. destruct (lg_consumes e); [discriminate|]. exact (IH Hb).
Qed.

Section Raw.
  Variable g : lcfg.
  Variable chk : bool.

  (* the output described event by event, without a flag *)
  Fixpoint lg_pieces (pre suf : list lg_event) (st : list bool) : res (list N) :=
    match suf with
    | [] => Ok []
    | e :: r =>
        let '(o, st1) :=
          if lg_is_marker e then (Ok [], st)
          else if lg_consumes e && lg_pending pre then lg_raw_out g e st
          else lg_event_out g chk e st in
        match o with
        | Ok x => lg_lift x (lg_pieces (pre ++ [e]) r st1)
        | err => err
        end
    end.

  Theorem events_are_pieces : forall suf pre st,
    lg_events g chk suf st (lg_pending pre) = lg_pieces pre suf st.
  Proof.
    induction suf as [|e r IH]; intros pre st; [reflexivity|].
    cbn [lg_events lg_pieces]. unfold lg_event_step. destruct (lg_is_marker e) eqn:Em.
    - rewrite <- (IH (pre ++ [e]) st), pending_snoc, Em. reflexivity.
    - destruct (lg_consumes e) eqn:Ec; cbn [andb].
      + destruct (lg_pending pre) eqn:Ep.
        * destruct (lg_raw_out g e st) as [[x| |k] st1]; try reflexivity.
          rewrite <- (IH (pre ++ [e]) st1), pending_snoc, Em, Ec. reflexivity.
        * destruct (lg_event_out g chk e st) as [[x| |k] st1]; try reflexivity.
          rewrite <- (IH (pre ++ [e]) st1), pending_snoc, Em, Ec. reflexivity.
      + destruct (lg_event_out g chk e st) as [[x| |k] st1]; try reflexivity.
        rewrite <- (IH (pre ++ [e]) st1), pending_snoc, Em, Ec. reflexivity.
  Qed.

  Theorem raw_marker_one_event : forall es, lg_events g chk es [] false = lg_pieces [] es [].
  Proof. intros es. exact (events_are_pieces es [] []). Qed.

  (* no marker at all: the marker-free serializer *)
  Fixpoint lg_events_plain (es : list lg_event) (st : list bool) : res (list N) :=
    match es with
    | [] => Ok []
    | e :: r =>
        match lg_event_out g chk e st with
        | (Ok o, st1) => lg_lift o (lg_events_plain r st1)
        | (x, _) => x
        end
    end.

  Theorem no_marker_plain : forall es st, forallb (fun e => negb (lg_is_marker e)) es = true ->
    lg_events g chk es st false = lg_events_plain es st.
  Proof.
    induction es as [|e r IH]; intros st H; [reflexivity|]. cbn [forallb] in H. apply andb_true_iff in H.
    destruct H as [H1 H2]. apply negb_true_iff in H1. cbn [lg_events lg_events_plain]. unfold lg_event_step. rewrite H1.
    destruct (lg_consumes e); destruct (lg_event_out g chk e st) as [[x| |k] st1]; try reflexivity; rewrite (IH st1 H2); reflexivity.
  Qed.

  (* after the event that used the marker the rest is written as if no marker had ever been seen *)
  Theorem marker_does_not_leak : forall pre e r st, lg_consumes e = true -> lg_is_marker e = false ->
    forallb (fun x => negb (lg_is_marker x)) r = true ->
    lg_pieces (pre ++ [e]) r st = lg_events_plain r st.
  Proof.
    intros pre e r st Hc Hm Hr. rewrite <- events_are_pieces, pending_snoc, Hm, Hc. apply no_marker_plain. exact Hr.
  Qed.
End Raw.

Example raw_marker_instance :
  lg_events (mklcfg 65535 false true true) true
    [LStart [114] []; LPI lg_raw_target lg_raw_data; LCdata [60; 105; 47; 62]; LCdata [49; 60; 50]; LText [60; 38]; LEnd [114]] [] false
  = Ok ([60; 114; 62] ++ [60; 105; 47; 62] ++ lg_cdata_open ++ [49; 60; 50] ++ lg_cdata_close ++
        [38; 108; 116; 59; 38; 97; 109; 112; 59] ++ [60; 47; 114; 62]) /\
  lg_pending [LPI lg_raw_target lg_raw_data; LComment [103]; LText []] = true /\
  lg_pending [LPI lg_raw_target lg_raw_data; LCdata []] = false.
Proof. repeat split; vm_compute; reflexivity. Qed.
