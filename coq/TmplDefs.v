(* TmplDefs.v — C10: executable model of xalan-c's template-rule tables and of findTemplate, as the
   code is (XSLT/Stylesheet.cpp: addToList, addToTable, addTemplate, postConstruction,
   locateMatchPatternDataList, findTemplateInImports, findTemplate [quiet and non-quiet path];
   XSLT/XalanMatchPatternData.cpp: getPriorityOrDefault; XSLT/ElemTemplateElement.cpp:
   findTemplateToTransformChild), and the independent specification (XSLT 1.0 section 5.5 over
   the post-order numbering of the import tree).  Definitions only.

   Pattern matching itself is abstract: a pattern alternative is a number, a node is any type,
   [pmatch alt node] says whether that alternative (alone) matches the node, [key_of node] is
   what locateMatchPatternDataList looks at (node type + local name).  Priorities are integers
   in units of 1/1000 (default priorities -500, -250, 0, 500). *)
From Coq Require Import List Bool ZArith NArith.
Import ListNotations.
Local Open Scope Z_scope.

(* ---------------------------------------------------------------------------------------- *)
(* what XPath::getTargetData reports per union alternative *)

Inductive score := ScNone | ScNodeTest | ScNSWild | ScQName | ScOther.

(* XPath::getMatchScoreValue, in 1/1000; eMatchScoreNone is -infinity in the code: a value below
   every priority the model is used with (the generated table never yields ScNone, see
   Properties_C10.default_priority_correct) *)
Definition minus_infinity : Z := -1000000000000.
Definition score_value (s : score) : Z :=
  match s with
  | ScNone => minus_infinity
  | ScNodeTest => -500
  | ScNSWild => -250
  | ScQName => 0
  | ScOther => 500
  end.

Inductive tname := TNText | TNComment | TNRoot | TNPI | TNNode | TNAny | TNName (n : N).
Inductive ttype := TTElement | TTAttribute | TTAny | TTOther.
Record target := { tg_name : tname; tg_type : ttype }.

(* the last step of an alternative, as far as getTargetData looks at it *)
Inductive nodetest :=
  | NTComment | NTText | NTNode | NTPI | NTPILit        (* comment() text() node() processing-instruction() p-i('lit') *)
  | NTName (n : N)                                      (* QName / NCName: local name n *)
  | NTWild | NTNSWild.                                  (* '*'  and  'prefix:*' *)
Inductive laststep :=
  | LFunction                                           (* id(..) / key(..) *)
  | LRoot                                               (* the pattern '/' *)
  | LStep (attr : bool) (nt : nodetest).                (* child or attribute axis *)
Record shape := { sh_last : laststep; sh_multi : bool (* more than one step, or a predicate *) }.

(* XSLT 1.0 section 5.5, default priority of one alternative, in 1/1000 *)
Definition spec_default_priority (sh : shape) : Z :=
  if sh_multi sh then 500 else
  match sh_last sh with
  | LStep _ (NTName _) => 0
  | LStep _ NTPILit => 0
  | LStep _ NTNSWild => -250
  | LStep _ _ => -500
  | LFunction | LRoot => 500
  end.

(* XPath semantics of the last step: the kinds of node (as locateMatchPatternDataList sees them,
   see [nkey] below) a pattern ending in this step can match at all.  id()/key() may return any
   node. *)
Inductive nkey :=
  | KElem (n : N) | KAttr (n : N) | KText | KComment | KPI | KRoot | KNsDecl | KOther.

Definition step_may_match (l : laststep) (k : nkey) : bool :=
  match l, k with
  | LFunction, (KElem _ | KAttr _ | KText | KComment | KPI | KRoot) => true
  | LRoot, KRoot => true
  | LStep false NTComment, KComment => true
  | LStep false NTText, KText => true
  | LStep false NTPI, KPI => true
  | LStep false NTPILit, KPI => true
  | LStep false NTNode, (KElem _ | KText | KComment | KPI) => true
  | LStep false (NTName m), KElem n => (m =? n)%N
  | LStep false NTWild, KElem _ => true
  | LStep false NTNSWild, KElem _ => true
  | LStep true NTNode, KAttr _ => true
  | LStep true (NTName m), KAttr n => (m =? n)%N
  | LStep true NTWild, KAttr _ => true
  | LStep true NTNSWild, KAttr _ => true
  | _, _ => false
  end.

(* one alternative of a (union) match pattern *)
Record alt := { a_pat : N; a_target : target; a_score : score }.

(* xsl:template with a match attribute *)
Record template := {
  t_id : N;
  t_mode : option N;
  t_prio : option Z;       (* explicit priority attribute *)
  t_alts : list alt }.

(* XalanMatchPatternData *)
Record entry := { e_tmpl : template; e_pos : N; e_alt : alt }.

Definition prio_or_default (e : entry) : Z :=
  match t_prio (e_tmpl e) with
  | Some p => p
  | None => score_value (a_score (e_alt e))
  end.

(* ---------------------------------------------------------------------------------------- *)
(* addToList: ordered insertion, "later first" among equal priorities *)

Definition goes_before (e cur : entry) : bool :=
  (prio_or_default cur <? prio_or_default e) ||
  ((prio_or_default e =? prio_or_default cur) && (e_pos cur <? e_pos e)%N).

Fixpoint add_to_list (l : list entry) (e : entry) : list entry :=
  match l with
  | [] => [e]
  | cur :: r => if goes_before e cur then e :: l else cur :: add_to_list r e
  end.

(* the member lists / map entries of Stylesheet *)
Inductive slot :=
  | SText | SComment | SRoot | SPI | SNode | SElemAny | SAttrAny
  | SElem (n : N) | SAttr (n : N).

Definition slot_eqb (a b : slot) : bool :=
  match a, b with
  | SText, SText | SComment, SComment | SRoot, SRoot | SPI, SPI | SNode, SNode
  | SElemAny, SElemAny | SAttrAny, SAttrAny => true
  | SElem x, SElem y | SAttr x, SAttr y => (x =? y)%N
  | _, _ => false
  end.

(* association list; a fixed list that was never touched is empty, a map entry exists only once
   something was filed under the name *)
Definition tables := list (slot * list entry).

Fixpoint lookup (tb : tables) (s : slot) : option (list entry) :=
  match tb with
  | [] => None
  | (s', l) :: r => if slot_eqb s s' then Some l else lookup r s
  end.

Definition get (tb : tables) (s : slot) : list entry :=
  match lookup tb s with Some l => l | None => [] end.

Definition has (tb : tables) (s : slot) : bool :=
  match lookup tb s with Some _ => true | None => false end.

Fixpoint upd (tb : tables) (s : slot) (e : entry) : tables :=
  match tb with
  | [] => [(s, add_to_list [] e)]
  | (s', l) :: r => if slot_eqb s s' then (s', add_to_list l e) :: r else (s', l) :: upd r s e
  end.

(* the if-chain of addTemplate: which lists receive the entry *)
Definition slots_of_target (tg : target) : list slot :=
  match tg_name tg with
  | TNText => [SText]
  | TNComment => [SComment]
  | TNRoot => [SRoot]
  | TNPI => [SPI]
  | TNNode => [SNode; SElemAny; SAttrAny; SComment; SText; SPI]
  | TNAny =>
      match tg_type tg with
      | TTElement => [SElemAny]
      | TTAttribute => [SAttrAny]
      | TTAny => [SElemAny; SAttrAny; SText; SComment; SPI; SRoot; SNode]
      | TTOther => []
      end
  | TNName n =>
      match tg_type tg with
      | TTElement => [SElem n]
      | TTAttribute => [SAttr n]
      | _ => []
      end
  end.

Definition file_entry (tb : tables) (e : entry) : tables :=
  fold_left (fun tb s => upd tb s e) (slots_of_target (a_target (e_alt e))) tb.

(* addTemplate: one entry per alternative, m_patternCount is the position *)
Fixpoint add_alts (t : template) (alts : list alt) (st : tables * N) : tables * N :=
  match alts with
  | [] => st
  | a :: r =>
      let '(tb, cnt) := st in
      add_alts t r (file_entry tb {| e_tmpl := t; e_pos := cnt; e_alt := a |}, N.succ cnt)
  end.

Definition add_template (st : tables * N) (t : template) : tables * N :=
  add_alts t (t_alts t) st.

(* addToTable (postConstruction): every named list also receives the wildcard list *)
Definition merge_any (tb : tables) : tables :=
  map (fun sl : slot * list entry =>
         match fst sl with
         | SElem _ => (fst sl, fold_left add_to_list (get tb SElemAny) (snd sl))
         | SAttr _ => (fst sl, fold_left add_to_list (get tb SAttrAny) (snd sl))
         | _ => sl
         end) tb.

Definition build_tables (ts : list template) : tables :=
  merge_any (fst (fold_left add_template ts ([], 0%N))).

(* ---------------------------------------------------------------------------------------- *)
(* stylesheets: xsl:include is textual inclusion into the same Stylesheet object, xsl:import
   creates a new one that addImport puts at the FRONT of m_imports *)

Inductive item := ITmpl (t : template) | IIncl (l : list item).

Fixpoint flatten_item (i : item) : list template :=
  match i with
  | ITmpl t => [t]
  | IIncl l => (fix go (l : list item) : list template :=
                  match l with [] => [] | x :: r => flatten_item x ++ go r end) l
  end.

Definition flatten (l : list item) : list template := flat_map flatten_item l.

(* imports in document order *)
Inductive sheet := Sheet (items : list item) (imports : list sheet).

Definition templates_of (s : sheet) : list template :=
  match s with Sheet items _ => flatten items end.

Definition imports_of (s : sheet) : list sheet :=
  match s with Sheet _ imps => imps end.

(* compiled form: the tables and m_imports (in m_imports order) *)
Inductive csheet := CSheet (tb : tables) (imports : list csheet).

Fixpoint compile (s : sheet) : csheet :=
  match s with
  | Sheet items imps =>
      CSheet (build_tables (flatten items))
             ((fix go (l : list sheet) (acc : list csheet) : list csheet :=
                 match l with [] => acc | x :: r => go r (compile x :: acc) end) imps [])
  end.

(* ---------------------------------------------------------------------------------------- *)
(* selection *)

(* locateMatchPatternDataList *)
Definition locate (tb : tables) (k : nkey) : list entry :=
  match k with
  | KElem n => if has tb (SElem n) then get tb (SElem n) else get tb SElemAny
  | KAttr n => if has tb (SAttr n) then get tb (SAttr n) else get tb SAttrAny
  | KPI => get tb SPI
  | KText => get tb SText
  | KComment => get tb SComment
  | KRoot => get tb SRoot
  | KNsDecl => []
  | KOther => get tb SNode
  end.

Definition mode_eqb (a b : option N) : bool :=
  match a, b with
  | None, None => true
  | Some x, Some y => (x =? y)%N
  | _, _ => false
  end.

Definition opt_z_eqb (a b : option Z) : bool :=
  match a, b with
  | None, None => true
  | Some x, Some y => x =? y
  | _, _ => false
  end.

(* decidable equality of templates: stands for the comparison of ElemTemplate pointers in the
   conflict-reporting path (two occurrences with equal records behave identically) *)
Definition score_eqb (a b : score) : bool :=
  match a, b with
  | ScNone, ScNone | ScNodeTest, ScNodeTest | ScNSWild, ScNSWild | ScQName, ScQName | ScOther, ScOther => true
  | _, _ => false
  end.

Definition tname_eqb (a b : tname) : bool :=
  match a, b with
  | TNText, TNText | TNComment, TNComment | TNRoot, TNRoot | TNPI, TNPI | TNNode, TNNode | TNAny, TNAny => true
  | TNName x, TNName y => (x =? y)%N
  | _, _ => false
  end.

Definition ttype_eqb (a b : ttype) : bool :=
  match a, b with
  | TTElement, TTElement | TTAttribute, TTAttribute | TTAny, TTAny | TTOther, TTOther => true
  | _, _ => false
  end.

Definition alt_eqb (a b : alt) : bool :=
  (a_pat a =? a_pat b)%N && tname_eqb (tg_name (a_target a)) (tg_name (a_target b)) &&
  ttype_eqb (tg_type (a_target a)) (tg_type (a_target b)) && score_eqb (a_score a) (a_score b).

Fixpoint alts_eqb (l1 l2 : list alt) : bool :=
  match l1, l2 with
  | [], [] => true
  | a :: r1, b :: r2 => alt_eqb a b && alts_eqb r1 r2
  | _, _ => false
  end.

Definition template_eqb (t1 t2 : template) : bool :=
  (t_id t1 =? t_id t2)%N && mode_eqb (t_mode t1) (t_mode t2) && opt_z_eqb (t_prio t1) (t_prio t2) &&
  alts_eqb (t_alts t1) (t_alts t2).

Section Select.
  Variable node : Type.
  Variable key_of : node -> nkey.
  Variable pmatch : N -> node -> bool.     (* alternative alone matches node *)
  (* which variant of Stylesheet::findTemplate: true = a table entry is tested with the
     alternative it was created for (XPath::getMatchScore(.., matchPat->getAlternative())),
     false = with the whole match pattern (the code before the repair of K1).  The value for the
     current tree is the generated fact GenTmpl.gen_per_alternative *)
  Variable per_alt : bool.

  (* XPath::getMatchScore of the WHOLE match pattern: the first alternative, in the order of the
     pattern, that matches (doGetMatchScore) *)
  Fixpoint first_matching (alts : list alt) (n : node) : option alt :=
    match alts with
    | [] => None
    | a :: r => if pmatch (a_pat a) n then Some a else first_matching r n
    end.

  Definition tmatch (t : template) (n : node) : bool :=
    match first_matching (t_alts t) n with Some _ => true | None => false end.

  (* the test findTemplate applies to a table entry *)
  Definition ematch (e : entry) (n : node) : bool :=
    if per_alt then pmatch (a_pat (e_alt e)) n else tmatch (e_tmpl e) n.

  (* quiet path: first entry of the right mode that passes the test *)
  Fixpoint find_in_list (l : list entry) (mode : option N) (n : node) : option template :=
    match l with
    | [] => None
    | e :: r =>
        if mode_eqb mode (t_mode (e_tmpl e)) && ematch e n
        then Some (e_tmpl e) else find_in_list r mode n
    end.

  (* non-quiet path: the scan by table priority, the same-template skip and the conflict
     array.  State: best entry and its priority, conflict array, previously examined entry and
     whether it matched.  The skip: a further entry of the template just examined is not looked
     at (whole-pattern variant: it would be the same test again; per-alternative variant: only
     when the previous one matched - it cannot change the choice and would be reported as a
     conflict of the template with itself) *)
  Record nq_state := {
    nq_best : option (entry * Z);
    nq_conf : list entry;
    nq_prev : option (entry * bool) }.

  Definition conf_add_if_absent (c : list entry) (e : entry) : list entry :=
    if existsb (fun x => (e_pos x =? e_pos e)%N) c then c else c ++ [e].

  Definition nq_step (mode : option N) (n : node) (st : nq_state) (e : entry) : nq_state :=
    if negb (mode_eqb mode (t_mode (e_tmpl e))) then st else
    let skip := match nq_prev st with
                | Some (p, m) => template_eqb (e_tmpl p) (e_tmpl e) && (negb per_alt || m)
                | None => false
                end in
    if skip then st else
    if ematch e n then
        let pr := prio_or_default e in
        match nq_best st with
        | None => {| nq_best := Some (e, pr); nq_conf := []; nq_prev := Some (e, true) |}
        | Some (b, pb) =>
            if pb <? pr then {| nq_best := Some (e, pr); nq_conf := []; nq_prev := Some (e, true) |}
            else if pr =? pb then
              {| nq_best := Some (e, pr);
                 nq_conf := conf_add_if_absent (nq_conf st) b ++ [e];
                 nq_prev := Some (e, true) |}
            else {| nq_best := nq_best st; nq_conf := nq_conf st; nq_prev := Some (e, true) |}
        end
    else {| nq_best := nq_best st; nq_conf := nq_conf st; nq_prev := Some (e, false) |}.

  Definition find_in_list_nq (l : list entry) (mode : option N) (n : node) : option template :=
    let st := fold_left (nq_step mode n) l {| nq_best := None; nq_conf := []; nq_prev := None |} in
    match nq_conf st with
    | c :: _ => Some (e_tmpl c)
    | [] => match nq_best st with Some (b, _) => Some (e_tmpl b) | None => None end
    end.

  (* findTemplate / findTemplateInImports; [quiet] selects the path *)
  Fixpoint find_template (quiet : bool) (cs : csheet) (mode : option N) (n : node)
           (only_imports : bool) : option template :=
    match cs with
    | CSheet tb imps =>
        let in_imports :=
          (fix go (l : list csheet) : option template :=
             match l with
             | [] => None
             | c :: r => match find_template quiet c mode n false with
                         | Some t => Some t
                         | None => go r
                         end
             end) imps in
        if only_imports then in_imports
        else
          match (if quiet then find_in_list (locate tb (key_of n)) mode n
                 else find_in_list_nq (locate tb (key_of n)) mode n) with
          | Some t => Some t
          | None => in_imports
          end
    end.

  (* ElemTemplateElement::findTemplateToTransformChild: what is instantiated for the node.
     apply-templates searches the root stylesheet; apply-imports the imports of the stylesheet
     that contains the current template; otherwise a built-in rule by node type *)
  Inductive builtin := BChildren | BText | BNothing.
  Inductive choice := Rule (t : template) | Builtin (b : builtin).

  Definition builtin_for (k : nkey) : builtin :=
    match k with
    | KElem _ | KRoot => BChildren
    | KText | KAttr _ => BText
    | _ => BNothing
    end.

  Definition choose (quiet : bool) (cs : csheet) (mode : option N) (n : node) (only_imports : bool) : choice :=
    match find_template quiet cs mode n only_imports with
    | Some t => Rule t
    | None => Builtin (builtin_for (key_of n))
    end.

  (* ------------------------------------------------------------------------------------ *)
  (* specification: XSLT 1.0 section 5.5 *)

  (* stylesheet levels in increasing import precedence: post-order of the import tree *)
  Fixpoint postorder (s : sheet) : list (list template) :=
    match s with
    | Sheet items imps =>
        (fix go (l : list sheet) : list (list template) :=
           match l with [] => [] | x :: r => postorder x ++ go r end) imps
        ++ [flatten items]
    end.

  (* a rule per alternative: (import precedence, priority, position of the template) *)
  Record rule := { r_prec : nat; r_prio : Z; r_pos : nat; r_tmpl : template; r_alt : alt }.

  Definition rules_of_template (prec pos : nat) (t : template) : list rule :=
    map (fun a => {| r_prec := prec;
                     r_prio := match t_prio t with Some p => p | None => score_value (a_score a) end;
                     r_pos := pos; r_tmpl := t; r_alt := a |}) (t_alts t).

  Fixpoint rules_of_level (prec pos : nat) (ts : list template) : list rule :=
    match ts with
    | [] => []
    | t :: r => rules_of_template prec pos t ++ rules_of_level prec (S pos) r
    end.

  Fixpoint rules_of_levels (prec : nat) (ls : list (list template)) : list rule :=
    match ls with
    | [] => []
    | ts :: r => rules_of_level prec 0 ts ++ rules_of_levels (S prec) r
    end.

  Definition rules_of (s : sheet) : list rule := rules_of_levels 0 (postorder s).

  Definition applicable (mode : option N) (n : node) (r : rule) : bool :=
    mode_eqb mode (t_mode (r_tmpl r)) && pmatch (a_pat (r_alt r)) n.

  (* r1 is at most r2 in (precedence, priority, position) *)
  Definition rule_le (r1 r2 : rule) : Prop :=
    (r_prec r1 < r_prec r2)%nat \/
    (r_prec r1 = r_prec r2 /\
     (r_prio r1 < r_prio r2 \/ (r_prio r1 = r_prio r2 /\ (r_pos r1 <= r_pos r2)%nat))).

  Definition rule_leb (r1 r2 : rule) : bool :=
    (r_prec r1 <? r_prec r2)%nat ||
    ((r_prec r1 =? r_prec r2)%nat &&
     ((r_prio r1 <? r_prio r2) || ((r_prio r1 =? r_prio r2) && (r_pos r1 <=? r_pos r2)%nat))).

  (* the answer [res] is the one section 5.5 prescribes *)
  Definition spec_choice (rules : list rule) (mode : option N) (n : node) (res : option template) : Prop :=
    match res with
    | None => forall r, In r rules -> applicable mode n r = false
    | Some t => exists r, In r rules /\ applicable mode n r = true /\ r_tmpl r = t /\
                          forall r', In r' rules -> applicable mode n r' = true -> rule_le r' r
    end.

  (* executable form of the same: the maximal applicable rule *)
  Definition best_5_5 (rules : list rule) (mode : option N) (n : node) : option rule :=
    fold_left (fun acc r =>
                 if applicable mode n r then
                   match acc with
                   | None => Some r
                   | Some b => if rule_leb b r then Some r else acc
                   end
                 else acc) rules None.

  (* rules imported into the stylesheet level at path [p] of the import tree *)
  Fixpoint subsheet (s : sheet) (p : list nat) : option sheet :=
    match p with
    | [] => Some s
    | i :: r => match nth_error (imports_of s) i with
                | Some c => subsheet c r
                | None => None
                end
    end.

  Fixpoint csubsheet (c : csheet) (p : list nat) : option csheet :=
    match p with
    | [] => Some c
    | i :: r => match c with
                | CSheet _ imps =>
                    match nth_error (rev imps) i with
                    | Some c' => csubsheet c' r
                    | None => None
                    end
                end
    end.

  (* the rules of the proper descendants of [s] (what apply-imports may consider), with the
     precedences they have inside [s] *)
  Definition imported_rules (s : sheet) : list rule :=
    rules_of_levels 0 (removelast (postorder s)).

  (* ------------------------------------------------------------------------------------ *)
  (* guard left by the refutation K1 (needed for the whole-pattern variant only) *)

  Definition all_templates (s : sheet) : list template := concat (postorder s).

  (* K1 guard: without an explicit priority all alternatives have the same default priority *)
  Definition uniform_template (t : template) : bool :=
    match t_prio t with
    | Some _ => true
    | None => match t_alts t with
              | [] => true
              | a :: r => forallb (fun b => score_value (a_score b) =? score_value (a_score a)) r
              end
    end.

  Definition uniform_union_priorities (s : sheet) : bool :=
    forallb uniform_template (all_templates s).

  (* which lists a node of the given key is looked up in *)
  Definition covers (tg : target) (k : nkey) : bool :=
    match k with
    | KElem n => existsb (fun s => slot_eqb s (SElem n) || slot_eqb s SElemAny) (slots_of_target tg)
    | KAttr n => existsb (fun s => slot_eqb s (SAttr n) || slot_eqb s SAttrAny) (slots_of_target tg)
    | KPI => existsb (slot_eqb SPI) (slots_of_target tg)
    | KText => existsb (slot_eqb SText) (slots_of_target tg)
    | KComment => existsb (slot_eqb SComment) (slots_of_target tg)
    | KRoot => existsb (slot_eqb SRoot) (slots_of_target tg)
    | KNsDecl => false
    | KOther => existsb (slot_eqb SNode) (slots_of_target tg)
    end.

  (* every alternative that matches the node is filed in a list the node is looked up in
     (a property of the matcher: it follows from the shapes of the alternatives, see
     TmplShape.filed_from_shapes) *)
  Definition filed_where_matching (s : sheet) (n : node) : bool :=
    forallb (fun t => forallb (fun a => implb (pmatch (a_pat a) n) (covers (a_target a) (key_of n)))
                              (t_alts t))
            (all_templates s).

End Select.
