(* C08 part "html": what FormatterToHTML (as modelled in HtmlDefs.v) writes for void elements and for SCRIPT / STYLE. *)
From Coq Require Import NArith List Bool Lia ZifyBool ZifyNat ZifyN.
Require Import XV.GenOutopt XV.GenHtml XV.HtmlEnt4Defs XV.HtmlDefs XV.HtmlTableModel.
Import ListNotations.
Open Scope N_scope.

Lemma void_not_head_raw_script : forall n, in_names n void4 = true ->
  str_eqb n head_name = false /\ in_names n raw4 = false /\ str_eqb n [115;99;114;105;112;116] = false.
Proof.
  intros n H. apply in_names_In in H. unfold void4 in H. cbn [In] in H.
  repeat (destruct H as [H|H]; [subst n; vm_compute; auto|]). destruct H.
Qed.

Lemma raw_not_head_void : forall n, in_names n raw4 = true -> str_eqb n head_name = false /\ in_names n void4 = false.
Proof.
  intros n H. apply in_names_In in H. unfold raw4 in H. cbn [In] in H.
  repeat (destruct H as [H|H]; [subst n; vm_compute; auto|]). destruct H.
Qed.

(* a void element is written as its start tag and nothing else: no end tag, no "/>" *)
Lemma void_unclosed : forall c top ins raw op name attrs ao,
  in_names (map low name) void4 = true -> ser_attrs c name attrs = Some ao ->
  ser_node c top ins raw op (HEl name attrs []) = Some (pte op ++ [60] ++ acc_name c name ++ ao ++ [62], false).
Proof.
  intros c top ins raw op name attrs ao Hv Ha. cbn [ser_node]. rewrite Ha.
  destruct (void_not_head_raw_script _ Hv) as (H1 & _ & _).
  rewrite elem_is_head, H1, elem_is_void, Hv. cbn [negb app].
  repeat (rewrite <- ?app_assoc; cbn [app]). reflexivity.
Qed.

(* ...and the library's EMPTY flag is HTML 4.01's list, for every name in every ASCII case *)
Lemma acc_content_id : forall c s, forallb (fun ch => ch <=? maxc c) s = true -> acc_content c s = s.
Proof.
  intros c. induction s as [|ch s IH]; [reflexivity|]. cbn [forallb]. intros H. apply andb_true_iff in H. destruct H as [H1 H2].
  unfold acc_content in *. cbn [flat_map]. rewrite IH by exact H2. unfold content_unit.
  destruct (maxc c <? ch) eqn:E; [lia | reflexivity].
Qed.

Lemma write_norm_general : forall c ch r (general : option str) res,
  (ch =? 13) = false -> general = res ->
  match r with
  | 10 :: r' => if ch =? 13 then opt_app newline (write_norm c r') else general
  | _ => general
  end = res.
Proof.
  intros c ch r general res H13 G. destruct r as [|x r']; [exact G|]. destruct x as [|p]; [exact G|].
  do 4 (destruct p; try exact G). rewrite H13. exact G.
Qed.

Lemma write_norm_id_n : forall c n s, (length s <= n)%nat -> wf16 s = true ->
  forallb (fun ch => (ch <=? maxc c) && negb (ch =? 13)) s = true -> write_norm c s = Some s.
Proof.
  intros c. induction n as [|n IH]; intros s Hn Hwf H.
  - destruct s; [reflexivity | cbn in Hn; lia].
  - destruct s as [|ch r]; [reflexivity|]. cbn [length] in Hn.
    cbn [forallb] in H. apply andb_true_iff in H. destruct H as [H1 H2].
    apply andb_true_iff in H1. destruct H1 as [H1 H3]. apply negb_true_iff in H3.
    cbn [write_norm]. apply write_norm_general; [exact H3|].
    cbn [wf16] in Hwf. destruct (is_high ch) eqn:Eh.
    + destruct r as [|lo r']; [discriminate|]. apply andb_true_iff in Hwf. destruct Hwf as [Hlo Hwr].
      cbn [forallb] in H2. apply andb_true_iff in H2. destruct H2 as [H4 H5]. apply andb_true_iff in H4. destruct H4 as [H4 _].
      assert (ch =? 10 = false) as -> by (unfold is_high in Eh; lia). rewrite H1.
      assert ((55296 <=? ch) && (ch <? 57344) = true) as -> by (unfold is_high in Eh; lia).
      assert ((ch <? 56320) && is_lowsur lo = true) as -> by (unfold is_high in Eh; rewrite Hlo; lia).
      rewrite (IH r') by (cbn [length] in Hn; try lia; assumption).
      unfold content_unit. destruct (maxc c <? ch) eqn:E1; [lia|]. destruct (maxc c <? lo) eqn:E2; [lia|]. reflexivity.
    + apply andb_true_iff in Hwf. destruct Hwf as [Hnl Hwr]. apply negb_true_iff in Hnl.
      rewrite (IH r) by (try lia; assumption).
      destruct (ch =? 10) eqn:E10; [apply N.eqb_eq in E10; subst ch; reflexivity|].
      rewrite H1. assert ((55296 <=? ch) && (ch <? 57344) = false) as -> by (unfold is_high in Eh; unfold is_lowsur in Hnl; lia).
      unfold content_unit. destruct (maxc c <? ch) eqn:E; [lia | reflexivity].
Qed.

Lemma write_norm_id : forall c s, wf16 s = true -> forallb (fun ch => (ch <=? maxc c) && negb (ch =? 13)) s = true -> write_norm c s = Some s.
Proof. intros c s. apply (write_norm_id_n c (length s) s (le_n _)). Qed.

Lemma forallb_weaken_maxc : forall c s, forallb (fun ch => (ch <=? maxc c) && negb (ch =? 13)) s = true -> forallb (fun ch => ch <=? maxc c) s = true.
Proof.
  intros c s H. rewrite forallb_forall in *. intros x Hx. specialize (H x Hx). apply andb_true_iff in H. tauto.
Qed.

(* SCRIPT and STYLE (any ASCII case): the text child is written unit for unit between the tags, nothing escaped *)
Lemma raw_content_verbatim : forall c top ins raw op name attrs ao s,
  in_names (map low name) raw4 = true -> ser_attrs c name attrs = Some ao ->
  s <> [] -> wf16 s = true -> forallb (fun ch => (ch <=? maxc c) && negb (ch =? 13)) s = true ->
  ser_node c top ins raw op (HEl name attrs [HText s]) =
  Some (pte op ++ [60] ++ acc_name c name ++ ao ++ [62] ++ s ++ [60; 47] ++ acc_name c name ++ [62], false).
Proof.
  intros c top ins raw op name attrs ao s Hr Ha Hs Hwf Hm. cbn [ser_node]. rewrite Ha.
  destruct (raw_not_head_void _ Hr) as (H1 & H2).
  rewrite elem_is_head, H1, elem_is_void, H2, elem_is_raw, Hr, elem_is_script. cbn [negb].
  destruct s as [|s0 s']; [congruence|].
  assert (T : (if (if str_eqb (map low name) [115; 99; 114; 105; 112; 116] then true else ins) then Some (acc_content c (s0 :: s'))
               else if true then write_norm c (s0 :: s') else write_chars c (s0 :: s')) = Some (s0 :: s')).
  { destruct (if str_eqb (map low name) [115; 99; 114; 105; 112; 116] then true else ins).
    - rewrite acc_content_id by (apply forallb_weaken_maxc; exact Hm). reflexivity.
    - apply write_norm_id; assumption. }
  rewrite T. cbn [pte app]. repeat (rewrite <- ?app_assoc; cbn [app]). reflexivity.
Qed.

(* ---- processing instructions: "<?" target, a space unless the data starts with white space, the data, ">" -------- *)
Lemma pi_data_raw : forall c d, forallb (fun ch => ch <=? maxc c) d = true -> pi_data false c d = Some d.
Proof. intros c d H. unfold pi_data. rewrite acc_content_id by exact H. reflexivity. Qed.

Lemma pi_raw_this_tree : forall c top ins raw op t d,
  forallb (fun ch => ch <=? maxc c) d = true ->
  ser_node c top ins raw op (HPI t d) =
  Some (pte op ++ [60; 63] ++ acc_name c t ++
        (match d with [] => [] | d0 :: _ => (if is_xml_ws d0 then [] else [32]) ++ d end) ++ [62] ++ (if top then newline else []), false).
Proof.
  intros c top ins raw op t d H. cbn [ser_node]. unfold pi_data_is_escaped.
  destruct d as [|d0 d']; [reflexivity|]. rewrite pi_data_raw by exact H. reflexivity.
Qed.
