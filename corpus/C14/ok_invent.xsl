# probed and fine (apply to <doc/>)
<xsl:stylesheet version="1.0" xmlns:xsl="http://www.w3.org/1999/XSL/Transform"><xsl:template match="/"><e><xsl:attribute name="a" namespace="u4">u4</xsl:attribute><xsl:attribute name="a" namespace="u5">u5</xsl:attribute></e></xsl:template></xsl:stylesheet>
