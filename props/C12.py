"""C12 — node-sets are duplicate-free sets in one consistent document order."""
import os
from vlib import core
from vlib.xpgen import tok, doc_tokens

LEVEL = "proof"
FAMILY = "nodelist"
KINDS = ["n", "xi", "xn"]     # XalanSourceTree, Xerces wrapper indexed / not indexed


# ---------------------------------------------------------------------------------------------
# documents: tuples as in vlib/xpgen.py  ('e', qname, [(aq, av)], [children]) | ('t', s) | ('c', s) | ('p', target, data)

def gen_elem(r, depth, maxch, maxattr):
    name = r.choice(["a", "b", "c", "d"])
    attrs = [(a, r.choice(["1", "2", "x", ""])) for a in r.sample(["x", "y", "z", "w", "id"], r.randrange(0, maxattr + 1))]
    for decl, uri, prob in (("xmlns:p", "urn:p", 0.25), ("xmlns:q", r.choice(["urn:q", "urn:p"]), 0.2), ("xmlns", r.choice(["urn:d", "urn:d", ""]), 0.12)):
        if r.random() < prob:
            attrs.insert(r.randrange(0, len(attrs) + 1), (decl, uri))
    children = []
    if depth > 0:
        last_text = False
        for _ in range(r.randrange(0, maxch + 1)):
            k = r.random()
            if k < 0.62:
                children.append(gen_elem(r, depth - 1, maxch, maxattr)); last_text = False
            elif k < 0.82:
                if not last_text:
                    children.append(("t", r.choice(["1", "a", "abc", " ", "x y"]))); last_text = True
            elif k < 0.92:
                children.append(("c", r.choice(["c1", "", "note"]))); last_text = False
            else:
                children.append(("p", r.choice(["pi", "tg"]), r.choice(["", "data"]))); last_text = False
    return ("e", name, attrs, children)


def gen_doc(r, size=None):
    size = size or r.choice(["tiny", "small", "small", "wide", "deep", "attrs"])
    depth, maxch, maxattr = {"tiny": (1, 2, 1), "small": (3, 3, 2), "wide": (2, 6, 2), "deep": (6, 2, 1), "attrs": (2, 3, 5)}[size]
    top = []
    if r.random() < 0.15:
        top.append(("c", "top"))
    if r.random() < 0.1:
        top.append(("p", "tp", "d"))
    top.append(gen_elem(r, depth, maxch, maxattr))
    if r.random() < 0.12:
        top.append(("c", "end"))
    return top


class DocInfo:
    """Python-side node table in the driver's numbering: kind per node, parent, and the shape string."""

    def __init__(self, top, kind):
        self.top, self.kind = top, kind
        self.kinds, self.parent, self.names = ["doc"], [-1], [""]
        first = [True]
        shape = []

        def go(t, par):
            me = len(self.kinds)
            self.kinds.append({"e": "elem", "t": "text", "c": "comment", "p": "pi"}[t[0]]); self.parent.append(par)
            self.names.append(t[1] if t[0] == "e" else "")
            na = 0
            if t[0] == "e":
                anames = [(a, v) for a, v in t[2]]
                if first[0] and kind == "n":
                    # XalanSourceTree puts the xmlns:xml declaration on the document element, before the others
                    anames.insert(0, ("xmlns:xml", "http://www.w3.org/XML/1998/namespace"))
                first[0] = False
                na = len(anames)
                for a, v in anames:
                    self.kinds.append("attr"); self.parent.append(me); self.names.append((a, v))
            shape.append("%d(" % na)
            if t[0] == "e":
                for c in t[3]:
                    go(c, me)
            shape.append(")")
        shape.append("0(")
        for t in top:
            go(t, 0)
        shape.append(")")
        self.shape = "".join(shape)
        self.n = len(self.kinds)
        self.field = "%s:%s:%s" % (kind, self.shape, doc_tokens(top))


# ---------------------------------------------------------------------------------------------
# list-operation cases

def nd(d, i):
    return "%d.%d" % (d, i)


def pick(r, docs, d=None, nodoc=False):
    d = r.randrange(len(docs)) if d is None else d
    lo = 1 if nodoc else 0
    return d, r.randrange(lo, docs[d].n) if docs[d].n > lo else 0


def gen_history(r, docs, nops, multi):
    """random history over the three registers"""
    ops = []
    nd_ = len(docs)
    for _ in range(nops):
        k = r.random()
        reg = r.choice([0, 0, 0, 1, 2])
        d = r.randrange(nd_) if multi else 0
        if k < 0.55:
            dd, i = pick(r, docs, d)
            ops.append("a%d:%s" % (reg, nd(dd, i)))
        elif k < 0.62:
            s = r.choice([x for x in (0, 1, 2) if x != reg])
            ops.append("m%d:%d" % (reg, s))
        elif k < 0.66:
            s = r.choice([x for x in (0, 1, 2) if x != reg])
            ops.append("b%d:%d" % (reg, s))
        elif k < 0.74:
            ops.append("f%d" % reg)
        elif k < 0.80:
            ops.append("r%d" % reg)
        elif k < 0.84:
            ops.append("c%d" % reg)
        elif k < 0.90:
            ops.append("n%d:%s" % (reg, ",".join(str(x) for x in sorted(set(r.randrange(0, 8) for _ in range(r.randrange(1, 5)))))))
        elif k < 0.96:
            dd, i = pick(r, docs, d)
            ops.append("p%d:%s" % (reg, nd(dd, i)))
        else:
            ops.append("s%s%d" % (r.choice("DRU"), reg))
    return ops


def boundary_cases(r, doc):
    """insertions aimed at the case split of addNodeInDocOrder / the binary search, one document"""
    out = []
    n = doc.n
    if n < 3:
        return out
    # every list of up to 6 sorted nodes x every node inserted: append fast path, same-as-last, hit at every position,
    # miss-left, miss-right, between, document node, attributes
    for size in (1, 2, 3, 4, 5, 6, 7, 8):
        if size > n:
            break
        base = sorted(r.sample(range(n), size))
        if r.random() < 0.4 and 0 not in base:
            base[0] = 0
        pre = ["a0:" + nd(0, i) for i in base]
        cands = set(base) | {0, n - 1}
        for b in base:
            cands.update(x for x in (b - 1, b + 1) if 0 <= x < n)
        cands.update(r.sample(range(n), min(n, 3)))
        for x in sorted(cands):
            cls = ("dup-last" if x == base[-1] else "hit" if x in base else "miss-left" if x < base[0] else
                   "append" if x > base[-1] else "between")
            if x == 0:
                cls += "+docnode"
            elif doc.kinds[x] == "attr":
                cls += "+attr"
            out.append((cls, pre + ["a0:" + nd(0, x)]))
    # descending insertion (always miss-left), ascending (append fast path), document node first / middle / last
    allp = list(range(n))
    some = sorted(r.sample(allp, min(n, 9)))
    out.append(("ascending", ["a0:" + nd(0, i) for i in some]))
    out.append(("descending", ["a0:" + nd(0, i) for i in reversed(some)]))
    nz = [i for i in some if i != 0]
    out.append(("docnode-first", ["a0:0.0"] + ["a0:" + nd(0, i) for i in nz]))
    out.append(("docnode-last", ["a0:" + nd(0, i) for i in nz] + ["a0:0.0", "a0:0.0"]))
    mid = len(nz) // 2
    out.append(("docnode-middle", ["a0:" + nd(0, i) for i in nz[:mid]] + ["a0:0.0"] + ["a0:" + nd(0, i) for i in nz[mid:]]))
    sh = list(some); r.shuffle(sh)
    out.append(("shuffled-twice", ["a0:" + nd(0, i) for i in sh + sh]))
    # attributes of one element in every order, with the element and its first child
    for e in range(n):
        at = [i for i in range(n) if doc.parent[i] == e and doc.kinds[i] == "attr"]
        ch = [i for i in range(n) if doc.parent[i] == e and doc.kinds[i] != "attr"]
        if len(at) >= 2:
            grp = at[:4] + ch[:2] + [e]
            r.shuffle(grp)
            out.append(("attrs-of-element", ["a0:" + nd(0, i) for i in grp]))
    # flagged merges: source ascending (D), reversed (R), unflagged; into an empty and a non-empty target
    src = sorted(r.sample(allp, min(n, 6)))
    for tgt in ([], sorted(r.sample(allp, min(n, 3)))):
        pre = ["a1:" + nd(0, i) for i in src] + ["a0:" + nd(0, i) for i in tgt]
        out.append(("merge-D", pre + ["f1", "m0:1"]))
        out.append(("merge-R", pre + ["f1", "r1", "m0:1"]))
        out.append(("merge-U", pre + ["m0:1"]))
        out.append(("merge-R-unflagged", pre + ["r1", "m0:1", "b2:1"]))
        out.append(("merge-base", pre + ["r1", "b0:1"]))
    # clearNulls down to an empty list, then unordered content, then merge (the flag must have been dropped)
    two = sorted(r.sample(range(n), 2))
    out.append(("nullclear-empty", ["a1:" + nd(0, two[0]), "f1", "n1:0", "p1:" + nd(0, two[1]), "p1:" + nd(0, two[0]), "m0:1"]))
    out.append(("nullclear-empty", ["a1:" + nd(0, two[0]), "a1:" + nd(0, two[1]), "f1", "r1", "n1:0,1", "p1:" + nd(0, two[0]), "p1:" + nd(0, two[1]), "m0:1"]))
    out.append(("nullclear-some", ["a1:" + nd(0, i) for i in src] + ["f1", "n1:0,2", "m0:1", "r1", "n1:1", "m2:1"]))
    # reverse twice / reverse and merge
    out.append(("reverse-flag", ["a1:" + nd(0, i) for i in src] + ["f1", "r1", "r1", "m0:1", "r1", "m2:1", "r2", "f2"]))
    return out


def multi_doc_cases(r, docs):
    out = []
    nd_ = len(docs)
    x = [pick(r, docs, 0) for _ in range(3)]
    y = [pick(r, docs, 1 % nd_) for _ in range(2)]
    seq = [x[0], y[0], x[1], x[0], y[1], x[2]]
    out.append(("multi-f7", ["a0:" + nd(*p) for p in seq]))
    out.append(("multi-docnodes", ["a0:0.0", "a0:1.0", "a0:" + nd(*x[0]), "a0:" + nd(*y[0]), "a0:0.0", "a0:1.0"]))
    out.append(("multi-merge", ["a1:" + nd(*p) for p in x] + ["a2:" + nd(*p) for p in y] + ["f1", "f2", "m0:1", "m0:2", "m0:1", "c0", "m0:2", "m0:1"]))
    out.append(("multi-random", gen_history(r, docs, r.choice([6, 12, 25]), True)))
    return out


# ---------------------------------------------------------------------------------------------
# independent oracle for list histories: sets / sorted() in lock-step with the library's printed states

def parse_state(s):
    flag, _, body = s.partition(":")
    items = []
    for t in body.split(","):
        if t:
            a, b = t.split(".")
            items.append((int(a), int(b)))
    return flag, items


def parse_node(s):
    a, b = s.split(".")
    return (int(a), int(b))


def ok_list(items):
    """what the property demands of a list in document order: no node twice, the documents in contiguous
    blocks, ascending inside each block"""
    if len(set(items)) != len(items):
        return "a node occurs twice"
    seen, cur = set(), None
    for d, _ in items:
        if d != cur:
            if d in seen:
                return "documents interleaved"
            seen.add(d); cur = d
    for (d1, i1), (d2, i2) in zip(items, items[1:]):
        if d1 == d2 and not i1 < i2:
            return "not in document order"
    return None


def strictly(items, up):
    return all((a < b) if up else (b < a) for a, b in zip(items, items[1:]))


def oracle_history(ops, states, comparable=None):
    """returns (problem or None, multi_document_involved).  [comparable], if given, receives one boolean per
    operation: the state after it is determined by the specification (target list was duplicate-free and in
    document order, the source list flagged honestly, nothing derived from an undetermined state); only those
    states are compared between model and library - on garbage input harmless rewrites may legitimately differ"""
    regs = [("U", []), ("U", []), ("U", [])]
    taint = [False, False, False]
    if comparable is None:
        comparable = []
    if len(states) != len(ops):
        return "the driver printed %d states for %d operations: %r" % (len(states), len(ops), states[-1:]), False
    for k, (op, st) in enumerate(zip(ops, states)):
        c = op[0]
        r = int(op[2] if c == "s" else op[1])
        arg = op.split(":", 1)[1] if ":" in op else ""
        flag, items = regs[r]
        try:
            gflag, gitems = parse_state(st)
        except ValueError:
            return "op %d (%s): unparsable state %r" % (k, op, st), False
        where = "op %d (%s): " % (k, op)
        exact = None
        if c == "p":
            exact = (flag, items + [parse_node(arg)])
        elif c == "r":
            exact = ({"U": "U", "D": "R", "R": "D"}[flag], items[::-1])
        elif c == "c":
            exact = ("U", [])
        elif c == "f":
            exact = ("D" if strictly(items, True) else "R" if strictly(items, False) else flag, items)
        elif c == "s":
            exact = (op[1], items)
        elif c == "n":
            ps = set(int(x) for x in arg.split(",") if x)
            left = [x for i, x in enumerate(items) if i not in ps]
            exact = (flag if left else "U", left)
        if exact is not None:
            if c == "c":
                taint[r] = False
            comparable.append(not taint[r])
            if (gflag, gitems) != exact:
                return where + "state %s, expected %s:%s" % (st, exact[0], ",".join("%d.%d" % p for p in exact[1])), False
            regs[r] = exact
            continue
        # ordered insertions
        if c == "a":
            new = [parse_node(arg)]
            specified = ok_list(items) is None
        else:
            sflag, sitems = regs[int(arg)]
            new = list(sitems) if (c == "b" or sflag != "R") else list(sitems[::-1])    # in insertion order
            honest = sflag == "U" or (sflag == "D" and ok_list(sitems) is None and strictly(sitems, True)) or \
                (sflag == "R" and ok_list(sitems[::-1]) is None and strictly(sitems, False))
            specified = ok_list(items) is None and (honest or c == "b")
            if taint[int(arg)]:
                taint[r] = True
        if not specified:
            taint[r] = True
        comparable.append(not taint[r])
        multi = len(set(d for d, _ in items + new)) > 1
        if gflag != flag:
            return where + "order flag changed from %s to %s" % (flag, gflag), multi
        if specified:
            if set(gitems) != set(items) | set(new):
                return where + "result %s is not the union of the list and the added nodes" % st, multi
            bad = ok_list(gitems)
            if bad:
                return where + "result %s: %s" % (st, bad), multi
            order = []
            for d, _ in items + new:
                if d not in order:
                    order.append(d)
            expect = [p for d in order for p in sorted(set(q for q in items + new if q[0] == d))]
            if gitems != expect:
                return where + "result %s, expected %s (a block per document in order of first appearance, sorted inside)" % (
                    st, ",".join("%d.%d" % p for p in expect)), multi
        regs[r] = (gflag, gitems)
    return None, False


# ---------------------------------------------------------------------------------------------
# XPath-level oracle: results in document order without duplicates; union laws

NSAX = "namespace"
AX = ["child", "descendant", "descendant-or-self", "parent", "ancestor", "ancestor-or-self", "following", "preceding",
      "following-sibling", "preceding-sibling", "attribute", "self"]


def gen_path(r):
    steps = []
    nsteps = r.choice([1, 1, 1, 2, 2, 3])
    for k in range(nsteps):
        # the attribute axis only as the last step, and never an attribute as context node: the Xerces wrapper
        # exposes the Text children of attributes to the child/descendant axes (reported separately, not C12)
        ax = r.choice(AX + [NSAX, NSAX] if k == nsteps - 1 else [a for a in AX if a != "attribute"])
        test = (r.choice(["*", "*", "node()", "p", "q"]) if ax == NSAX else
                r.choice(["*", "*", "node()", "node()", "node()", "a", "b", "text()", "comment()"]) if ax != "attribute" else r.choice(["*", "*", "x", "node()"]))
        pred = r.choice(["", "", "", "", "", "", "[1]", "[last()]", "[position()>1]", "[position()<3]", "[@x]", "[2]"])
        steps.append("%s::%s%s" % (ax, test, pred))
    p = "/".join(steps)
    k = r.random()
    if k < 0.2:
        return "/" + p
    if k < 0.4:
        return "//" + p
    if k < 0.5:
        return r.choice(["/", ".", "..", "//@*", "//node()", "/*", "//*", "//text()", "../*", ".//*", "//*/@*", "//*[last()]", "//*/.."])
    if k < 0.58 and "attribute::" not in p and "namespace::" not in p:
        return "(%s)%s" % (p, r.choice(["[1]", "[last()]", "[position()>1]"]))
    return p


def in_scope_namespaces(doc, e):
    """how many in-scope declaration attributes each ancestor-or-self element of e carries (nearest declaration per
    prefix; xmlns="" hides the default): {element: count}.  Counts, not positions: the order of the attributes of one
    element is the DOM's business (Xerces sorts them by name) and is only known to the driver."""
    found, out = set(), {}
    cur = e
    while cur > 0:
        for i in range(doc.n):
            if doc.parent[i] == cur and doc.kinds[i] == "attr":
                a, v = doc.names[i]
                if (a == "xmlns" or a.startswith("xmlns:")) and (a, cur) not in found and not any(x == a for x, _ in found):
                    found.add((a, cur))
                    if not (a == "xmlns" and v == ""):
                        out[cur] = out.get(cur, 0) + 1
        cur = doc.parent[cur]
    return out


def per_element(doc, ids):
    out = {}
    for i in ids:
        out[doc.parent[i]] = out.get(doc.parent[i], 0) + 1
    return out


NS_EXPRS = ["namespace::*", "namespace::node()", "namespace::*[1]", "namespace::*[2]", "namespace::*[last()]", "namespace::*[position()>1]",
            "namespace::* | namespace::*", "namespace::* | @*", "@* | namespace::*", "@*", "../namespace::*", "../namespace::* | namespace::*",
            "namespace::* | . | node()", ". | node()", "//*/namespace::*", "(//*/namespace::*)[2]", "//*/namespace::* | //*/namespace::*",
            "namespace::* | //@*", "//@*", "ancestor-or-self::*/@*"]


def oracle_ns(doc, ctxnode, outs):
    if len(outs) != len(NS_EXPRS):
        return "driver printed %d results for %d expressions" % (len(outs), len(NS_EXPRS))
    res = []
    for e, o in zip(NS_EXPRS, outs):
        v = parse_ids(o)
        if v is None:
            return "%s -> %s" % (e, o)
        if not strictly(v, True):
            return "%s -> %s is not strictly ascending in document order (or holds a node twice)" % (e, o)
        res.append([i for _, i in v])
    base = res[0]
    want = in_scope_namespaces(doc, ctxnode)
    if any(doc.kinds[i] != "attr" for i in base) or set(base) & set(res[19]) or per_element(doc, base) != want:
        return "namespace::* -> %s: not the in-scope declaration attributes (expected per element %s; ordinary attributes %s)" % (outs[0], want, outs[19])

    def eq(k, expect):
        if res[k] != expect:
            return "%s -> %s, expected %s (namespace::* -> %s)" % (NS_EXPRS[k], outs[k], expect, outs[0])
    U = lambda *ls: sorted(set(x for l in ls for x in l))
    allns = res[14]
    wantall = {}
    for e in range(doc.n):
        if doc.kinds[e] == "elem":
            k = in_scope_namespaces(doc, e).get(e, 0)
            if k:
                wantall[e] = k
    if set(allns) & set(res[18]) or per_element(doc, allns) != wantall:
        return "//*/namespace::* -> %s: not the declaration attributes of the document (expected per element %s)" % (outs[14], wantall)
    for m in (eq(1, base), eq(2, base[:1]), eq(3, base[1:2]), eq(4, base[-1:]), eq(5, base[1:]), eq(6, base),
              eq(7, U(base, res[9])), eq(8, U(base, res[9])), eq(11, U(base, res[10])), eq(12, U(base, res[13])),
              eq(15, allns[1:2]), eq(16, allns), eq(17, U(base, res[18]))):
        if m:
            return m
    return None


def x_case(cid, doc, ctxnode, exprs):
    return "%s|X|%s|O:%s" % (cid, doc.field, " ".join("0.%d=%s" % (ctxnode, tok(e)) for e in exprs))


def parse_ids(s):
    if s in ("err", "notnodeset") or "?" in s or "!" in s:
        return None
    return [parse_node(t) for t in s.split(",") if t]


def oracle_x(exprs, outs):
    """exprs = [A, B, C, A|B, B|A, (A|B)|C, A|(B|C), A|A, A|B|C]"""
    if len(outs) != len(exprs):
        return "driver printed %d results for %d expressions" % (len(outs), len(exprs))
    res = [parse_ids(o) for o in outs]
    for e, o, v in zip(exprs, outs, res):
        if v is None:
            return "%s -> %s" % (e, o)
        if not strictly(v, True):
            return "%s -> %s is not strictly ascending in document order" % (e, o)
    A, B, C, AB, BA, AB_C, A_BC, AA, ABC = res
    if AB != sorted(set(A) | set(B)):
        return "%s -> %s is not the union of %s and %s" % (exprs[3], outs[3], outs[0], outs[1])
    if AB != BA:
        return "union not commutative: %s -> %s but %s -> %s" % (exprs[3], outs[3], exprs[4], outs[4])
    if AB_C != A_BC or AB_C != ABC or ABC != sorted(set(A) | set(B) | set(C)):
        return "union not associative: %s -> %s, %s -> %s, %s -> %s" % (exprs[5], outs[5], exprs[6], outs[6], exprs[8], outs[8])
    if AA != A:
        return "union not idempotent: %s -> %s but %s -> %s" % (exprs[7], outs[7], exprs[0], outs[0])
    return None


# ---------------------------------------------------------------------------------------------
# stylesheet-level stream (vlib/xsltrun.py): unions over the source document, result tree fragments turned into
# node-sets and documents loaded with document(); nodes are identified by generate-id()

S_SOURCE = "<s><t/><u k='1'><v/><v/></u><t/></s>"
S_FILES = {"d1.xml": "<x><y/><z><y/></z></x>", "d2.xml": "<y><y/></y>"}
S_POOL = ["/", "//*", "//t", "//v/ancestor::*", "//u/@k", "//v[2]/preceding::*", "x:nodeset($r1)", "x:nodeset($r1)//*", "x:nodeset($r1)/a",
          "x:nodeset($r2)/*", "x:nodeset($r1)//b/ancestor-or-self::node()", "x:nodeset($r2)", "document('d1.xml')//*", "document('d1.xml')",
          "document('d2.xml')//y", "document('d1.xml')//y", "//t[2]", "x:nodeset($r1)/c",
          # a fragment with MIXED content: text directly before an element gets its index when it is flushed
          # (FormatterToSourceTree; seeds C05_e / C12_e), unions and multi-context steps order by index
          "x:nodeset($r3)/m/text()", "x:nodeset($r3)/m/*", "x:nodeset($r3)/m/node()", "x:nodeset($r3)//@k", "x:nodeset($r3)//n/text()",
          "x:nodeset($r3)/m/text() | x:nodeset($r3)/m/*", "x:nodeset($r3)//*/node()", "x:nodeset($r3)/m/n | x:nodeset($r3)/m/text()[1]"]


def s_sheet(exprs):
    body = []
    for k, e in enumerate(exprs):
        body.append('<xsl:text>&#10;%d:</xsl:text><xsl:for-each select="%s"><xsl:value-of select="generate-id()"/>/<xsl:value-of select="generate-id(ancestor-or-self::node()[last()])"/>,</xsl:for-each>' % (k, e))
    # R lines: the STRUCTURAL pre-order of each tree (a tree walk, attributes after their element; no index is consulted)
    walk = ('<xsl:for-each select="%s/descendant-or-self::node()"><xsl:value-of select="generate-id()"/>,'
            '<xsl:for-each select="@*"><xsl:value-of select="generate-id()"/>,</xsl:for-each></xsl:for-each>')
    refs = "".join('<xsl:text>&#10;R%d:</xsl:text>' % k + walk % e for k, e in enumerate(["/", "x:nodeset($r1)", "x:nodeset($r2)", "x:nodeset($r3)"]))
    return ('<xsl:stylesheet version="1.0" xmlns:xsl="http://www.w3.org/1999/XSL/Transform" xmlns:x="http://xml.apache.org/xalan">'
            '<xsl:output method="text"/><xsl:variable name="r1"><a><b/></a><c/></xsl:variable><xsl:variable name="r2"><p/><q/></xsl:variable>'
            '<xsl:variable name="r3"><m>x<n k="1">i<o/>j</n>y<o k="2"/>z</m>w<o/></xsl:variable>'
            '<xsl:template match="/">F:<xsl:value-of select="generate-id(x:nodeset($r1))"/>,<xsl:value-of select="generate-id(x:nodeset($r2))"/>,<xsl:value-of select="generate-id(x:nodeset($r3))"/>'
            + "".join(body) + refs + '</xsl:template></xsl:stylesheet>')


# directed triples: a list that starts with a node of another document, then a fragment root, then nodes (and the
# root) of an EARLIER fragment of the same owner document - the linear scan has to order fragment roots by index
S_DIRECTED = [("/", "x:nodeset($r2)", "x:nodeset($r1)//b/ancestor-or-self::node()"),
              ("//t", "x:nodeset($r2)", "x:nodeset($r1)//*"),
              ("//v/ancestor::*", "x:nodeset($r2) | x:nodeset($r2)/q", "x:nodeset($r1)/a"),
              ("document('d1.xml')//y", "x:nodeset($r2)/p | x:nodeset($r2)", "x:nodeset($r1)"),
              ("/", "x:nodeset($r1)/c", "x:nodeset($r2) | x:nodeset($r1)"),
              ("x:nodeset($r2)", "/", "x:nodeset($r1)//b/ancestor-or-self::node()"),
              ("x:nodeset($r2)", "x:nodeset($r1)", "x:nodeset($r1)//* | x:nodeset($r2)/*"),
              ("//u/@k", "x:nodeset($r2)/q", "x:nodeset($r1) | x:nodeset($r2)")]


def s_cases(r, n):
    out = []
    for k in range(n):
        if k < 2 * len(S_DIRECTED):
            A, B, C = S_DIRECTED[k // 2]
            if k % 2:
                A, B = B, A
        else:
            A, B, C = r.choice(S_POOL), r.choice(S_POOL), r.choice(S_POOL)
        exprs = [A, B, C, "%s | %s" % (A, B), "%s | %s" % (B, A), "(%s | %s) | %s" % (A, B, C), "%s | (%s | %s)" % (A, B, C), "%s | %s" % (A, A)]
        out.append({"id": "s%d" % k, "sheet": s_sheet(exprs), "source": S_SOURCE, "files": S_FILES, "exprs": exprs})
    return out


def s_oracle(case, text):
    """returns (problem or None, known class or None)"""
    lines = text.split("\n")
    frag = set(lines[0][2:].split(","))
    res = {}
    rank = {}
    for l in lines[1:]:
        k, _, body = l.partition(":")
        if k.startswith("R"):
            for pos, i in enumerate(x for x in body.split(",") if x):
                rank[i] = (k, pos)
            continue
        res[int(k)] = [tuple(x.split("/")) for x in body.split(",") if x]
    # order within one tree = the structural pre-order of that tree (element, its attributes, its children)
    for k, e in enumerate(case["exprs"]):
        prev = {}
        for i, t in res.get(k, []):
            if i in rank:
                tree, pos = rank[i]
                if tree in prev and pos < prev[tree]:
                    return "%s: nodes of one tree are not in document order (structural pre-order of the tree)" % e, None
                prev[tree] = pos
    ex = case["exprs"]
    if len(res) != len(ex):
        return "output has %d result lines for %d expressions" % (len(res), len(ex)), None
    trees = set()
    for k, e in enumerate(ex):
        v = res[k]
        ids = [i for i, _ in v]
        roots = [t for _, t in v]
        trees.update(roots)
        multi = len(set(roots)) > 1
        hasfrag = any(i in frag for i in ids)     # the fragment root counts as a document of its own in the library
        if len(set(ids)) != len(ids):
            return "%s: a node occurs twice" % e, ("RTF-ROOT" if hasfrag else None)
        seen, cur = set(), None
        for t in roots:
            if t != cur:
                if t in seen:
                    return "%s: nodes of different trees are interleaved" % e, ("RTF-ROOT" if hasfrag else None)
                seen.add(t); cur = t
        for pos, (i, t) in enumerate(v):
            if i == t and pos > 0 and roots[pos - 1] == t:
                return "%s: the root node of a tree comes after nodes of that tree" % e, ("RTF-ROOT" if i in frag else None)
    A, B, C, AB, BA, AB_C, A_BC, AA = [res[k] for k in range(8)]
    multi = len(trees) > 1
    canon = (lambda v: sorted(v)) if multi else (lambda v: v)    # several trees: block order is not determined, compare as sets
    fragroot = any(i in frag for v in (A, B, C) for i, _ in v)
    if set(AB) != set(A) | set(B):
        return "%s is not the union of its operands" % ex[3], None
    if canon(AB) != canon(BA):
        return "union not commutative: %s vs %s" % (ex[3], ex[4]), ("RTF-ROOT" if fragroot else None)
    if canon(AB_C) != canon(A_BC):
        return "union not associative: %s vs %s" % (ex[5], ex[6]), ("RTF-ROOT" if fragroot else None)
    if canon(AA) != canon(A):
        return "union not idempotent: %s vs %s" % (ex[7], ex[0]), None
    return None, None


def evaluate_s(ctx, n):
    from vlib import xsltrun
    cases = s_cases(ctx.rng, n)
    out = xsltrun.run(cases, timeout=300)
    orc = []
    for c in cases:
        o = out.get(c["id"])
        ctx.count("S:stylesheet-union")
        ctx.cov["evaluations"] += len(c["exprs"])
        replay_text = "# stylesheet case (source %s, files %s); expressions: %s" % (S_SOURCE, sorted(S_FILES), " ;; ".join(c["exprs"]))
        if not o or o[0] != "ok":
            orc.append({"case": replay_text, "what": "transformation failed: %r" % (o,), "known": None, "cls": "stylesheet"})
            continue
        msg, known = s_oracle(c, o[1].decode("utf-8", "replace"))
        if msg:
            orc.append({"case": replay_text, "what": msg, "known": known, "cls": "stylesheet"})
    return orc


# ---------------------------------------------------------------------------------------------
# document() producer stream: the result list is built by addNodeInDocOrder per reference (FunctionDocument.cpp
# getDoc) and flagged document order.  Node-set arguments with repeated / non-adjacent / adjacent URIs and
# fragment identifiers over 2-4 in-memory documents, one- and two-argument form, mixed with '' (the stylesheet).

D_DOCS = {n: '<!DOCTYPE %s [<!ATTLIST e id ID #IMPLIED>]><%s><e id="i1"/><e id="i2"><e id="i3"/></e><e id="i4"/></%s>' % (n.upper(), n.upper(), n.upper())
          for n in "abcd"}
D_FILES = {"%s.xml" % n: x for n, x in D_DOCS.items()}
D_DIRECTED = [["a.xml", "b.xml", "a.xml"], ["a.xml#i2", "a.xml"], ["a.xml", "a.xml", "b.xml"], ["a.xml", "b.xml", "c.xml", "a.xml"],
              ["b.xml", "a.xml#i3", "a.xml#i1", "b.xml"], ["a.xml#i2", "b.xml", "a.xml", "b.xml#i1", "a.xml#i1"], ["a.xml"],
              ["a.xml", "b.xml", "c.xml", "d.xml", "c.xml", "b.xml", "a.xml"], ["a.xml", "", "a.xml"], ["", "b.xml", "", "b.xml#i4"],
              ["b.xml#i4", "b.xml#i1", "b.xml", "a.xml", "b.xml#i2"], ["c.xml", "c.xml#i1", "c.xml"]]
D_EXPRS = ["document(/s/r/@u)", "document(/s/r/@u, /)", "document(/s/r/@u) | document(/s/r/@u)",
           "document(/s/r[1]/@u) | document(/s/r[position()>1]/@u)", "document(/s/r[position()>1]/@u) | document(/s/r[1]/@u)",
           "document(/s/r/@u)/*", "document(/s/r/@u)/descendant-or-self::node()", "/ | document(/s/r/@u)",
           "document(/s/r/@u)[1] | document(/s/r/@u)[last()]", "(document(/s/r/@u) | //r)/.."]


def d_sheet():
    body = []
    for k, e in enumerate(D_EXPRS):
        body.append('<xsl:text>&#10;%d:</xsl:text><xsl:for-each select="%s"><xsl:choose><xsl:when test="not(parent::node())">ROOT:<xsl:value-of select="name(*[1])"/></xsl:when>'
                    '<xsl:otherwise><xsl:value-of select="name(/*)"/>#<xsl:value-of select="@id"/></xsl:otherwise></xsl:choose>/<xsl:value-of select="generate-id()"/>/'
                    '<xsl:value-of select="generate-id(ancestor-or-self::node()[last()])"/>/<xsl:value-of select="count(ancestor::node()) + count(preceding::node())"/>,</xsl:for-each>' % (k, e))
    return ('<xsl:stylesheet version="1.0" xmlns:xsl="http://www.w3.org/1999/XSL/Transform"><xsl:output method="text"/>'
            '<xsl:template match="/">' + "".join(body) + '</xsl:template></xsl:stylesheet>')


def d_cases(r, n):
    out = []
    for k in range(n):
        if k < len(D_DIRECTED):
            refs = D_DIRECTED[k]
        else:
            names = r.sample("abcd", r.choice([2, 2, 3, 4]))
            refs = []
            for _ in range(r.choice([2, 3, 3, 4, 5, 7])):
                x = r.random()
                d = r.choice(names)
                refs.append("" if x < 0.08 else "%s.xml#i%d" % (d, r.randrange(1, 5)) if x < 0.4 else "%s.xml" % d)
        src = "<s>" + "".join('<r u="%s"/>' % u for u in refs) + "</s>"
        out.append({"id": "d%d" % k, "sheet": d_sheet(), "source": src, "files": D_FILES, "refs": refs})
    return out


def d_expected(refs):
    """labels in the order the property demands: a block per document in order of first reference, the document
    node first, then its elements in document order (ids i1 < i2 < i3 < i4 are in pre-order)"""
    order, want = [], {}
    for u in refs:
        d, _, frag = u.partition("#")
        if d not in order:
            order.append(d)
            want[d] = set()
        want[d].add(frag)
    out = []
    for d in order:
        name = d[0].upper()
        for frag in sorted(want[d]):
            out.append("ROOT:%s" % name if frag == "" else "%s#%s" % (name, frag))
    return out


def d_oracle(case, text):
    res = {}
    for l in text.split("\n"):
        k, _, body = l.partition(":")
        if k.isdigit():
            res[int(k)] = [tuple(x.rsplit("/", 3)) for x in body.split(",") if x]
    if len(res) != len(D_EXPRS):
        return "output has %d result lines for %d expressions" % (len(res), len(D_EXPRS))
    for k, e in enumerate(D_EXPRS):
        v = res[k]
        ids = [x[1] for x in v]
        roots = [x[2] for x in v]
        labels = ",".join(x[0] for x in v)
        if len(set(ids)) != len(ids):
            return "%s delivers a node twice: %s" % (e, labels)
        seen, cur = set(), None
        for t in roots:
            if t != cur:
                if t in seen:
                    return "%s: nodes of different documents are interleaved: %s" % (e, labels)
                seen.add(t); cur = t
        for a, b in zip(v, v[1:]):
            if a[2] == b[2] and not int(a[3]) < int(b[3]):
                return "%s: not in document order inside a document: %s" % (e, labels)
    refs = case["refs"]
    lab = lambda k: [x[0] for x in res[k]]
    if "" not in refs:
        want = d_expected(refs)
        for k in (0, 1, 2, 3):
            if lab(k) != want:
                return "%s -> %s, expected %s (references %s)" % (D_EXPRS[k], ",".join(lab(k)), ",".join(want), refs)
        if sorted(lab(4)) != sorted(want):
            return "%s -> %s is not the set %s" % (D_EXPRS[4], ",".join(lab(4)), ",".join(want))
        if lab(7) != ["ROOT:s"] + want:
            return "%s -> %s, expected ROOT:s,%s" % (D_EXPRS[7], ",".join(lab(7)), ",".join(want))
        if lab(8) != ([want[0]] if len(want) == 1 else [want[0], want[-1]]):
            return "%s -> %s, expected first and last of %s" % (D_EXPRS[8], ",".join(lab(8)), ",".join(want))
    else:
        known = [u for u in refs if u]
        want = d_expected(known)
        # what an empty reference denotes (nothing, the stylesheet, the source) is C02's business: zero or one more node
        if sorted(set(lab(0)) & set(want)) != sorted(want) or len(lab(0)) not in (len(want), len(want) + 1):
            return "%s -> %s, expected %s plus at most one document for the empty reference (references %s)" % (D_EXPRS[0], ",".join(lab(0)), ",".join(want), refs)
        for k in (1, 2, 3):
            if k != 1 and res[k] != res[0]:
                return "%s -> %s differs from %s -> %s" % (D_EXPRS[k], ",".join(lab(k)), D_EXPRS[0], ",".join(lab(0)))
        if sorted(res[4]) != sorted(res[0]):
            return "%s is not the same set as %s" % (D_EXPRS[4], D_EXPRS[0])
    return None


def evaluate_d(ctx, n):
    from vlib import xsltrun
    cases = d_cases(ctx.rng, n)
    out = xsltrun.run(cases, timeout=300)
    orc = []
    for c in cases:
        o = out.get(c["id"])
        refs = c["refs"]
        docs = [u.partition("#")[0] for u in refs]
        cls = ("repeat-nonadjacent" if any(docs[i] == docs[j] and any(x != docs[i] for x in docs[i + 1:j]) for i in range(len(docs)) for j in range(i + 2, len(docs)))
               else "repeat-adjacent" if any(a == b for a, b in zip(docs, docs[1:])) else "distinct")
        ctx.count("D:document():" + cls + ("+fragment" if any("#" in u for u in refs) else "") + ("+empty" if "" in refs else ""))
        ctx.cov["evaluations"] += len(D_EXPRS)
        replay_text = "# document() case; references: %s" % " ;; ".join(u if u else "(empty)" for u in refs)
        if not o or o[0] != "ok":
            orc.append({"case": replay_text, "what": "transformation failed: %r" % (o,), "known": None, "cls": "document()"})
            continue
        msg = d_oracle(c, o[1].decode("utf-8", "replace"))
        if msg:
            orc.append({"case": replay_text, "what": msg, "known": None, "cls": "document()"})
    return orc


def l_case(cid, docs, ops):
    return "%s|L|%s|O:%s" % (cid, "|".join(d.field for d in docs), " ".join(ops))


def make_cases(ctx, scale, impl=None):
    """returns list of dicts: id, mode, line, cls, plus mode-specific data"""
    r = ctx.rng
    cases = []
    xjobs = []

    def add(mode, cls, line, **kw):
        c = {"id": "%s%d" % (mode.lower(), len(cases)), "mode": mode, "cls": cls}
        c["line"] = line(c["id"])
        c.update(kw)
        cases.append(c)
    ndocs = 14 * scale
    for di in range(ndocs):
        top = gen_doc(r)
        for kind in KINDS:
            doc = DocInfo(top, kind)
            if doc.n > 70:
                continue
            add("P", "pairs:" + kind, lambda cid, doc=doc: "%s|P|%s|O:" % (cid, doc.field), docs=[doc])
            for cls, ops in boundary_cases(r, doc):
                add("L", kind + ":" + cls, lambda cid, doc=doc, ops=ops: l_case(cid, [doc], ops), docs=[doc], ops=ops)
            for _ in range(6):
                ops = gen_history(r, [doc], r.choice([5, 10, 20, 40]), False)
                add("L", kind + ":random-history", lambda cid, doc=doc, ops=ops: l_case(cid, [doc], ops), docs=[doc], ops=ops)
            nonattr = [i for i in range(doc.n) if doc.kinds[i] != "attr"]
            ctxnode = r.choice(nonattr[len(nonattr) // 2:] if r.random() < 0.6 else nonattr)   # late nodes: long reverse axes
            xjobs.append((doc, ctxnode, [gen_path(r) for _ in range(36)]))
            elems = [i for i in range(doc.n) if doc.kinds[i] == "elem"]
            deep = sorted(elems, key=lambda e: -sum(in_scope_namespaces(doc, e).values()))[:3]
            for e in set(deep + [r.choice(elems)]):
                add("X", "nsaxis:%s:%d-in-scope" % (kind, min(sum(in_scope_namespaces(doc, e).values()), 4)),
                    lambda cid, doc=doc, e=e: x_case(cid, doc, e, NS_EXPRS), docs=[doc], exprs=NS_EXPRS, nsctx=e)
        # several documents: blocks per document in order of first appearance (F7 was repaired by ea5de2f; a recurrence is a violation)
        for kinds in (["n", "n"], ["xi", "xn"], ["xn", "xn", "xi"], ["n", "n", "n"]):
            tops = [top] + [gen_doc(r, "small") for _ in kinds[1:]]
            docs = [DocInfo(t, k) for t, k in zip(tops, kinds)]
            if any(d.n > 70 or d.n < 2 for d in docs):
                continue
            for cls, ops in multi_doc_cases(r, docs):
                add("L", "multi:" + cls, lambda cid, docs=docs, ops=ops: l_case(cid, docs, ops), docs=docs, ops=ops)
    # XPath union laws.  Random paths are mostly empty, so a first pass through the library keeps the paths that
    # select something (plus a few empty ones); this only steers the generator, every result is checked below.
    sizes = {}
    if impl and xjobs:
        rc, res, raw = core.run_lines_parallel(impl, [x_case("j%d" % k, d, cn, ps) for k, (d, cn, ps) in enumerate(xjobs)], timeout=300)
        for k, (d, cn, ps) in enumerate(xjobs):
            outs = res.get("j%d" % k, "").split(";")
            if len(outs) == len(ps):
                sizes[k] = [0 if o in ("", "err", "notnodeset") else o.count(",") + 1 for o in outs]
    for k, (doc, ctxnode, paths) in enumerate(xjobs):
        sz = sizes.get(k, [1] * len(paths))
        good = [p for p, n in zip(paths, sz) if n >= 1]
        pool = good + [p for p, n in zip(paths, sz) if n == 0][:max(2, len(good) // 4)]
        for _ in range(10):
            A, B, C = r.choice(pool), r.choice(pool), r.choice(pool)
            exprs = [A, B, C, "%s | %s" % (A, B), "%s | %s" % (B, A), "(%s | %s) | %s" % (A, B, C), "%s | (%s | %s)" % (A, B, C),
                     "%s | %s" % (A, A), "%s | %s | %s" % (A, B, C)]
            add("X", "xpath:" + doc.kind, lambda cid, doc=doc, ctxnode=ctxnode, exprs=exprs: x_case(cid, doc, ctxnode, exprs), docs=[doc], exprs=exprs)
    return cases


F7_REPLAY = "f7|L|n:0(1(0()0()0()0()0()0())):(a (b ) (b ) (b ) (b ) (b ) (b ) )|n:0(1()):(r )|O:a0:0.5 a0:1.1 a0:0.7 a0:0.5"


def evaluate(ctx, cases, impl, model):
    lines = [c["line"] for c in cases]
    tmo = 900 if ctx.thorough else 180
    rc_i, res_i, raw_i = core.run_lines_parallel(impl, lines, timeout=tmo)
    both = [c["line"] for c in cases if c["mode"] != "X"]
    rc_m, res_m, raw_m = core.run_lines_parallel(model, both, timeout=tmo) if model else (0, {}, "")
    corr, orc = [], []
    if rc_i != 0:
        orc.append({"case": "(process)", "what": "implementation driver exited with status %d: %s" % (rc_i, raw_i[-300:]), "known": None, "cls": "process"})
    if model and rc_m != 0:
        corr.append({"case": "(process)", "impl": "", "model": "model driver exited with status %d: %s" % (rc_m, raw_m[-300:])})
    seen = set()
    for c in cases:
        ri = res_i.get(c["id"])
        ctx.count(c["mode"] + ":" + c["cls"])
        if ri is None:
            orc.append({"case": c["line"], "what": "no result from the implementation (crash?)", "known": None, "cls": c["cls"]})
            continue
        if ri.startswith("shape") or ri.startswith("exception"):
            orc.append({"case": c["line"], "what": "driver could not build the case: " + ri[:200], "known": None, "cls": c["cls"]})
            continue
        if c["mode"] == "P" and model:
            rm = res_m.get(c["id"])
            ctx.cov["traces_validated_against_impl"] += 1
            if rm != ri:
                corr.append({"case": c["line"], "impl": ri[:400], "model": (rm or "")[:400]})
        if c["mode"] == "L":
            states = ri.split(";") if ri else []
            ctx.cov["evaluations"] += len(states)
            comparable = []
            msg, multi = oracle_history(c["ops"], states, comparable)
            if model:
                rm = res_m.get(c["id"])
                mstates = rm.split(";") if rm else []
                ctx.cov["traces_validated_against_impl"] += 1
                ctx.cov["states_compared"] = ctx.cov.get("states_compared", 0) + sum(1 for x in comparable if x)
                if len(mstates) != len(states):
                    corr.append({"case": c["line"], "impl": ri[:400], "model": (rm or "")[:400]})
                else:
                    for k, okc in enumerate(comparable):
                        if okc and mstates[k] != states[k]:
                            corr.append({"case": c["line"], "op": "%d (%s)" % (k, c["ops"][k]), "impl": states[k][:300], "model": mstates[k][:300]})
                            break
            if ri not in seen:
                seen.add(ri)
            if msg:
                orc.append({"case": c["line"], "what": msg, "known": None, "cls": c["cls"]})
        elif c["mode"] == "P":
            halves = ri.split(";")
            doc = c["docs"][0]
            m = doc.n - 1
            expect = "".join("1" if i > j else "0" for i in range(1, doc.n) for j in range(1, doc.n))
            ctx.cov["evaluations"] += 2 * m * m
            seen.add((doc.shape, doc.kind))
            for which, h in zip(("DOMSupport::isNodeAfter", "DOMServices::isNodeAfter"), halves):
                if h != expect:
                    bad = next((k for k in range(min(len(h), len(expect))) if h[k] != expect[k]), -1)
                    orc.append({"case": c["line"], "what": "%s(node %d, node %d) = %s but the pre-order numbers say %s" % (
                        which, bad // m + 1, bad % m + 1, h[bad] if bad >= 0 else "?", expect[bad] if bad >= 0 else "(length)"), "known": None, "cls": c["cls"]})
                    break
        else:
            outs = ri.split(";")
            ctx.cov["evaluations"] += len(outs)
            seen.add(ri)
            msg = oracle_ns(c["docs"][0], c["nsctx"], outs) if "nsctx" in c else oracle_x(c["exprs"], outs)
            if msg:
                orc.append({"case": c["line"] + "\n#   expressions: " + " ;; ".join(c["exprs"]), "what": msg, "known": None, "cls": c["cls"]})
    ctx.cov["distinct_nontrivial"] = ctx.cov.get("distinct_nontrivial", 0) + len(seen)
    return corr, orc


def run(ctx):
    ctx.assumptions += [
        "a document is a finite rose tree; a node is identified with its chain of ancestors (pointer identity of DOM nodes = equality of chains); text/comment/PI nodes are childless, attribute-less elements for document order",
        "getIndex() of an indexed document numbers nodes in pre-order from 1 (document node) - not proved from the tree builders, checked on every run by the all-pairs isNodeAfter oracle on XalanSourceTree and indexed Xerces wrappers",
        "DOCUMENT_FRAGMENT roots (result tree fragments) are not modelled",
        "the order flag of an operand list is honest (set only on lists that are in that order): producers are not modelled, XPath results are oracle-checked only",
    ]
    ctx.notes["rule"] = "distinct_nontrivial = distinct result lines of list histories / XPath groups plus distinct (document shape, representation) pairs of the all-pairs comparison; evaluations = list states + node pairs + expressions checked"
    ok_lib, liblog = core.build_lib("plain")
    if not ok_lib:
        ctx.broken.append("library does not build from the working tree: " + liblog[-500:])
        return ctx.finish(LEVEL)
    proved = ctx.prove(["Properties_C12.v"], ["GenNodelist"])
    model, ok_m, mlog = core.build_model(FAMILY)
    if not ok_m:
        ctx.broken.append("model extraction/build failed: " + mlog[-500:])
        model = None
    impl, ok_h, hlog = core.build_harness(FAMILY, "plain")
    if not ok_h:
        ctx.broken.append("harness does not compile against the working tree: " + hlog[-500:])
        return ctx.finish(LEVEL)

    known = {k["key"]: k for k in ctx.known.for_property("C12")}
    corpus = [{"id": "f7", "mode": "L", "cls": "corpus:F7", "line": F7_REPLAY, "ops": F7_REPLAY.split("|O:")[1].split(), "docs": []}]
    cases = corpus + make_cases(ctx, 3 if not ctx.thorough else 48, impl)
    ctx.cov["samples"] = [c["line"][:300] for c in cases[:3] + cases[len(cases) // 2: len(cases) // 2 + 3]]
    corr, orc = evaluate(ctx, cases, impl, model)
    try:
        orc += evaluate_s(ctx, 80 if not ctx.thorough else 1500)
        orc += evaluate_d(ctx, 60 if not ctx.thorough else 1200)
    except RuntimeError as e:
        ctx.broken.append("stylesheet stream: " + str(e)[-300:])
    new = [o for o in orc if not (o["known"] and o["known"] in known)]
    if (corr or not proved or not model) and not new and not ctx.thorough:
        ctx.escalated = True
        c2, o2 = evaluate(ctx, make_cases(ctx, 8, impl), impl, model)
        corr += c2
        orc += o2
        new = [o for o in orc if not (o["known"] and o["known"] in known)]
    hits = {}
    for o in orc:
        if o["known"] and o["known"] in known:
            hits[o["known"]] = hits.get(o["known"], 0) + 1
    for k in sorted(hits):
        ctx.known_finding("%s %s" % (k, known[k]["what"]))
    ctx.notes["known_class_hits"] = hits
    if corr:
        ctx.broken.append("correspondence nodelist: %d of %d cases differ between model and library, e.g. %s" % (
            len(corr), ctx.cov["traces_validated_against_impl"], corr[0]))
        ctx.notes["correspondence_mismatches"] = corr[:20]
    if new:
        new.sort(key=lambda o: len(o["case"]))
        txt = "\n".join("%s\n#   %s" % (o["case"], o["what"]) for o in new[:40])
        ctx.violation("oracle", "# C12 oracle failures (replay: python3 check.py C12 --replay <this file>; node ids are <document>.<pre-order number>)\n" + txt)
    ctx.notes["oracle_failures"] = len(new)
    return ctx.finish(LEVEL, explanation="theorems over the Gallina model of isNodeAfter / MutableNodeRefList + correspondence of the extracted model with the rebuilt library on insertion histories and all node pairs + independent set/sorted oracle on list states, all-pairs order and XPath union laws")


def untok(t):
    body = t[2:]
    return "" if not body else "".join(chr(int(h, 16)) for h in body.split(","))


def replay(ctx, path):
    """re-run the case lines of a replay file against the library and re-apply the oracle; exit status 1 if it still fails"""
    core.build_lib("plain")
    impl, ok_h, hlog = core.build_harness(FAMILY, "plain")
    lines = [l.rstrip("\n") for l in open(path) if l.strip() and not l.startswith("#")]
    rc, res, raw = core.run_lines(impl, "\n".join(lines) + "\n", timeout=300) if lines else (0, {}, "")
    bad = 0
    # stylesheet cases are stored as comment lines "# stylesheet case (...); expressions: A ;; B ;; ..."
    scases = []
    for l in open(path):
        if l.startswith("# stylesheet case") and "expressions: " in l:
            exprs = l.rstrip("\n").split("expressions: ", 1)[1].split(" ;; ")
            scases.append({"id": "s%d" % len(scases), "sheet": s_sheet(exprs), "source": S_SOURCE, "files": S_FILES, "exprs": exprs})
    dcases = []
    for l in open(path):
        if l.startswith("# document() case; references: "):
            refs = ["" if u == "(empty)" else u for u in l.rstrip("\n").split("references: ", 1)[1].split(" ;; ")]
            src = "<s>" + "".join('<r u="%s"/>' % u for u in refs) + "</s>"
            dcases.append({"id": "d%d" % len(dcases), "sheet": d_sheet(), "source": src, "files": D_FILES, "refs": refs})
    if dcases:
        from vlib import xsltrun
        out = xsltrun.run(dcases, timeout=300)
        for c in dcases:
            o = out.get(c["id"])
            msg = ("transformation failed: %r" % (o,)) if (not o or o[0] != "ok") else d_oracle(c, o[1].decode("utf-8", "replace"))
            print("%s: document() over %s" % (c["id"], c["refs"]))
            if msg:
                print("# FAILS: " + msg)
                bad = 1
    if scases:
        from vlib import xsltrun
        out = xsltrun.run(scases, timeout=300)
        for c in scases:
            o = out.get(c["id"])
            msg = ("transformation failed: %r" % (o,)) if (not o or o[0] != "ok") else s_oracle(c, o[1].decode("utf-8", "replace"))[0]
            print("%s: %s" % (c["id"], " ;; ".join(c["exprs"])[:200]))
            if msg:
                print("# FAILS: " + msg)
                bad = 1
    for l in lines:
        f = l.split("|")
        if len(f) < 4:
            continue
        o = res.get(f[0])
        print("%s -> %s" % (f[0], o))
        msg = None
        if o is None:
            msg = "no result (crash or hang)"
        elif f[1] == "L":
            msg, multi = oracle_history(f[-1][2:].split(), o.split(";") if o else [])
            if msg and multi:
                msg += "   [list holds nodes of more than one document]"
        elif f[1] == "X":
            exprs = [untok(x.split("=", 1)[1]) for x in f[-1][2:].split()]
            outs = o.split(";")
            if len(exprs) == 9:
                msg = oracle_x(exprs, outs)
            else:
                for e, t in zip(exprs, outs):
                    v = parse_ids(t)
                    if v is None or not strictly(v, True):
                        msg = "%s -> %s" % (e, t)
        elif f[1] == "P":
            for h in o.split(";"):
                m = int(round(len(h) ** 0.5))
                if h != "".join("1" if i > j else "0" for i in range(m) for j in range(m)):
                    msg = "isNodeAfter disagrees with the pre-order numbers: " + h[:120]
        if msg:
            print("# FAILS: " + msg)
            bad = 1
    return bad
