(* C12 - the order flag stays honest under reverse() and setNode(i,0)/clearNulls() *)
From Coq Require Import List Arith Bool Lia.
Import ListNotations.
Require Import XV.NodeListDefs XV.DocOrderModel XV.NodeListModel.

Inductive subseq {A} : list A -> list A -> Prop :=
| ss_nil : forall l, subseq [] l
| ss_keep : forall x a b, subseq a b -> subseq (x :: a) (x :: b)
| ss_skip : forall x a b, subseq a b -> subseq a (x :: b).

Lemma subseq_refl : forall A (l : list A), subseq l l.
Proof. induction l; constructor; assumption. Qed.

Lemma subseq_in : forall A (a b : list A), subseq a b -> forall m, In m a -> In m b.
Proof.
  intros A a b H. induction H; intros m Hm.
  - contradiction.
  - destruct Hm as [->|Hm]; [left; reflexivity | right; auto].
  - right; auto.
Qed.

Lemma subseq_app : forall A (a b c d : list A), subseq a b -> subseq c d -> subseq (a ++ c) (b ++ d).
Proof.
  intros A a b c d H. revert c d. induction H; intros c d Hcd; simpl.
  - induction l; simpl; [assumption | constructor; assumption].
  - constructor. apply IHsubseq. assumption.
  - apply ss_skip. apply IHsubseq. assumption.
Qed.

Lemma subseq_rev : forall A (a b : list A), subseq a b -> subseq (rev a) (rev b).
Proof.
  intros A a b H. induction H; simpl.
  - constructor.
  - apply subseq_app; [assumption | apply subseq_refl].
  - rewrite <- (app_nil_r (rev a)). apply subseq_app; [assumption | constructor].
Qed.

Lemma sorted_subseq : forall W a b, subseq a b -> sorted W b = true -> sorted W a = true.
Proof.
  intros W a b H. induction H; intro Hs.
  - reflexivity.
  - apply sorted_cons in Hs. destruct Hs as [Hf Hs]. apply sorted_cons. split; [|auto].
    intros m Hm. apply Hf. eapply subseq_in; eassumption.
  - apply sorted_cons in Hs. destruct Hs as [_ Hs]. auto.
Qed.

Lemma remove_positions_subseq : forall ps l pos, subseq (remove_positions pos ps l) l.
Proof.
  intros ps l. induction l as [|x r IH]; intro pos; simpl; [constructor|].
  destruct (existsb (Nat.eqb pos) ps); [apply ss_skip | apply ss_keep]; apply IH.
Qed.

Theorem nullClear_keeps_flag_honest_lemma : forall W l ps, honest W l = true -> honest W (nl_nullClear l ps) = true.
Proof.
  intros W [l o] ps H. unfold honest, nl_nullClear in *. simpl in *.
  pose proof (remove_positions_subseq ps l 0) as Hss.
  destruct (remove_positions 0 ps l) as [|x r] eqn:E; [reflexivity|]. simpl.
  destruct o; try reflexivity.
  - eapply sorted_subseq; eassumption.
  - change (rev r ++ [x]) with (rev (x :: r)). eapply sorted_subseq; [apply subseq_rev; eassumption | assumption].
Qed.


