(* XpSpecSubstrModel.v -- substring() as coded (f_substring of XpDefs.v, the model of
   FunctionSubstring.cpp: getStartIndex / getSubstringLength) equals the definition of
   XPath 1.0 section 4.2:

     "The returned substring contains those characters for which the position of the
      character is greater than or equal to the rounded value of the second argument and, if
      the third argument is specified, less than the sum of the rounded value of the second
      argument and the rounded value of the third argument; the comparisons and addition used
      for the above follow the standard IEEE 754 rules; rounding is done as if by a call to
      the round function."

   The specification below is that sentence, character by character: positions are 1-based
   and count UTF-16 code units (known finding K6), a position is turned into a double by
   d_of_nat, round is d_round of NumDefs.v (related to the mathematical round-half-up by
   d_round_spec / rounding_fixed_points of NumModel.v), and +, <=, < are the IEEE double
   operations d_add / d_le / d_lt (SFadd / SFleb / SFltb at prec 53, emax 1024), so that NaN
   compares false with everything.  Nothing of getStartIndex / getSubstringLength (subtraction
   of 1, conversions to size_type, special-casing of NaN and the infinities) appears in it. *)
From Coq Require Import ZArith NArith Lia Reals SpecFloat List Bool Arith ZifyBool ZifyNat.
Require Import XV.GenNum XV.NumDefs XV.NumModel XV.XpAst XV.DomDefs XV.XpDefs.
From Flocq Require Import IEEE754.BinarySingleNaN.
Require Import XV.XpSpecSubstrAuxModel.
Import ListNotations.

(** * the specification *)

Definition position_selected (a : dbl) (b : option dbl) (p : nat) : bool :=
  d_le (d_round a) (d_of_nat p) &&
  match b with
  | None => true
  | Some b => d_lt (d_of_nat p) (d_add (d_round a) (d_round b))
  end.

Definition substring_spec (s : str) (a : dbl) (b : option dbl) : str :=
  map snd (filter (fun pc => position_selected a b (fst pc)) (combine (seq 1 (length s)) s)).

(** * sanity checks: the examples of section 4.2, on the model and on the specification *)

Definition s12345 : str := [49;50;51;52;53]%N.
Definition num (s : str) : dbl := string_to_number s.
Definition n_1_5 := num [49;46;53]%N.      (* 1.5 *)
Definition n_2_6 := num [50;46;54]%N.      (* 2.6 *)
Definition n_0 := num [48]%N.
Definition n_2 := num [50]%N.
Definition n_3 := num [51]%N.
Definition n_m42 := num [45;52;50]%N.      (* -42 *)
Definition pinf : dbl := S754_infinity false.   (* 1 div 0 *)
Definition minf : dbl := S754_infinity true.    (* -1 div 0 *)

Example ex_model_1 : f_substring s12345 n_2 (Some n_3) = [50;51;52]%N.  Proof. vm_compute. reflexivity. Qed.
Example ex_model_2 : f_substring s12345 n_2 None = [50;51;52;53]%N.  Proof. vm_compute. reflexivity. Qed.
Example ex_model_3 : f_substring s12345 n_1_5 (Some n_2_6) = [50;51;52]%N.  Proof. vm_compute. reflexivity. Qed.
Example ex_model_4 : f_substring s12345 n_0 (Some n_3) = [49;50]%N.  Proof. vm_compute. reflexivity. Qed.
Example ex_model_5 : f_substring s12345 S754_nan (Some n_3) = [].  Proof. vm_compute. reflexivity. Qed.
Example ex_model_6 : f_substring s12345 n_2 (Some S754_nan) = [].  Proof. vm_compute. reflexivity. Qed.
Example ex_model_7 : f_substring s12345 n_m42 (Some pinf) = s12345.  Proof. vm_compute. reflexivity. Qed.
Example ex_model_8 : f_substring s12345 minf (Some pinf) = [].  Proof. vm_compute. reflexivity. Qed.

Example ex_spec_1 : substring_spec s12345 n_2 (Some n_3) = [50;51;52]%N.  Proof. vm_compute. reflexivity. Qed.
Example ex_spec_2 : substring_spec s12345 n_2 None = [50;51;52;53]%N.  Proof. vm_compute. reflexivity. Qed.
Example ex_spec_3 : substring_spec s12345 n_1_5 (Some n_2_6) = [50;51;52]%N.  Proof. vm_compute. reflexivity. Qed.
Example ex_spec_4 : substring_spec s12345 n_0 (Some n_3) = [49;50]%N.  Proof. vm_compute. reflexivity. Qed.
Example ex_spec_5 : substring_spec s12345 S754_nan (Some n_3) = [].  Proof. vm_compute. reflexivity. Qed.
Example ex_spec_6 : substring_spec s12345 n_2 (Some S754_nan) = [].  Proof. vm_compute. reflexivity. Qed.
Example ex_spec_7 : substring_spec s12345 n_m42 (Some pinf) = s12345.  Proof. vm_compute. reflexivity. Qed.
Example ex_spec_8 : substring_spec s12345 minf (Some pinf) = [].  Proof. vm_compute. reflexivity. Qed.

(** * selecting an interval of positions is firstn / skipn *)

Lemma filter_interval : forall (s : str) (o j k : nat) (f : nat -> bool),
  (forall p, o <= p < o + length s -> f p = (o + j <=? p) && (p <? o + j + k)) ->
  map snd (filter (fun pc => f (fst pc)) (combine (seq o (length s)) s)) = firstn k (skipn j s).
Proof.
  induction s as [|x s IH]; intros o j k f Hf.
  - destruct j, k; reflexivity.
  - cbn [length seq combine filter fst].
    assert (Ho := Hf o). cbn [length] in Ho, Hf.
    destruct j as [|j].
    + destruct k as [|k].
      * rewrite Ho by lia. replace ((o + 0 <=? o) && (o <? o + 0 + 0)) with false by lia.
        rewrite (IH (S o) 0 0) by (intros p Hp; rewrite Hf; lia). reflexivity.
      * rewrite Ho by lia. replace ((o + 0 <=? o) && (o <? o + 0 + S k)) with true by lia.
        cbn [map snd skipn firstn]. f_equal.
        rewrite (IH (S o) 0 k) by (intros p Hp; rewrite Hf; lia). reflexivity.
    + rewrite Ho by lia. replace ((o + S j <=? o) && (o <? o + S j + k)) with false by lia.
      rewrite (IH (S o) j k) by (intros p Hp; rewrite Hf; lia). reflexivity.
Qed.

Lemma spec_interval : forall s a b j k,
  (forall p, 1 <= p <= length s -> position_selected a b p = (j <? p) && (p <=? j + k)) ->
  substring_spec s a b = firstn k (skipn j s).
Proof.
  intros s a b j k H. unfold substring_spec.
  apply (filter_interval s 1 j k). intros p Hp. rewrite H; lia.
Qed.

(** * the two halves of the code: getStartIndex and getSubstringLength *)

Definition sub_start (second : dbl) (len : nat) : nat :=
  match second with
  | S754_nan | S754_infinity false => len
  | _ => if d_le second d_one then 0
         else let r := d_sub second d_one in
              if d_le (d_of_nat len) r then len else d_to_nat_trunc r
  end.

Definition sub_len (second : dbl) (a3 : option dbl) (len start : nat) : nat :=
  let maxlen := len - start in
  match a3 with
  | None => maxlen
  | Some third =>
      match third with
      | S754_nan | S754_infinity true => 0
      | S754_infinity false => (match second with S754_infinity true => 0 | _ => maxlen end)
      | _ =>
          let total := d_add (d_round third) second in
          if d_le total (d_of_nat (S start)) then 0
          else let sl := d_sub total (d_of_nat (S start)) in
               if d_lt (d_of_nat maxlen) sl then maxlen else d_to_nat_trunc sl
      end
  end.

Lemma f_substring_unfold : forall s a2 a3, f_substring s a2 a3 =
  let len := length s in
  if Nat.eqb len 0 then [] else
  let start := sub_start (d_round a2) len in
  if Nat.leb len start then []
  else firstn (sub_len (d_round a2) a3 len start) (skipn start s).
Proof. reflexivity. Qed.

Lemma sub_start_finite : forall x len, is_finite_SF x = true ->
  sub_start x len =
  if d_le x d_one then 0
  else let r := d_sub x d_one in
       if d_le (d_of_nat len) r then len else d_to_nat_trunc r.
Proof. intros [s|s| |s m e] len F; try discriminate; reflexivity. Qed.

Lemma sub_len_finite : forall second third len start, is_finite_SF third = true ->
  sub_len second (Some third) len start =
  let total := d_add (d_round third) second in
  if d_le total (d_of_nat (S start)) then 0
  else let sl := d_sub total (d_of_nat (S start)) in
       if d_lt (d_of_nat (len - start)) sl then len - start else d_to_nat_trunc sl.
Proof. intros second [s|s| |s m e] len start F; try discriminate; reflexivity. Qed.

(* what getSubstringLength may rely on about the rounded second argument *)
Definition second_ok (second : dbl) (len start : nat) : Prop :=
  (second = S754_infinity true /\ start = 0) \/
  exists A, isint second A /\ Z.of_nat start = Z.min (Z.max (A - 1) 0) (Z.of_nat len).

Local Open Scope Z_scope.

Lemma finite_cmp_minf : forall y Y, isint y Y ->
  d_le (S754_infinity true) y = true /\ d_lt y (S754_infinity true) = false.
Proof. intros y Y (_ & F & _). destruct y; try discriminate; split; reflexivity. Qed.

Lemma finite_cmp_pinf : forall y Y, isint y Y ->
  d_le (S754_infinity false) y = false /\ d_lt y (S754_infinity false) = true.
Proof. intros y Y (_ & F & _). destruct y; try discriminate; split; reflexivity. Qed.

Lemma cmp_nan : forall y, d_le S754_nan y = false /\ d_lt y S754_nan = false.
Proof. intros y. destruct y; split; reflexivity. Qed.

Lemma start_correct : forall a len,
  valid_binary prec emax a = true -> Z.of_nat len < M53 ->
  let second := d_round a in
  let start := sub_start second len in
  (forall p, (1 <= p <= len)%nat -> d_le second (d_of_nat p) = (start <? p)%nat) /\
  ((start < len)%nat -> second_ok second len start).
Proof.
  intros a len V Hlen second start.
  assert (HP : forall p, (p <= len)%nat -> isint (d_of_nat p) (Z.of_nat p))
    by (intros p Hp; apply isint_of_nat; lia).
  destruct (is_finite_SF a) eqn:F.
  - destruct (d_round_int a V F) as [A HA]. fold second in HA.
    assert (HS : forall p, (p <= len)%nat -> d_le second (d_of_nat p) = (A <=? Z.of_nat p))
      by (intros p Hp; apply isint_le; auto).
    assert (E := sub_start_finite second len (isint_finite _ _ HA)). fold start in E.
    rewrite (isint_le _ _ _ _ HA isint_one) in E. cbv zeta in E.
    destruct (Z.leb_spec A 1) as [HA1|HA1].
    + split.
      * intros p Hp. rewrite HS by lia. lia.
      * intros _. right. exists A. split; [exact HA|lia].
    + destruct (isint_sub _ _ _ _ HA isint_one) as [(Hs & Hr)|[(Hb & Hr)|(Hb & _)]]; [| |lia].
      * rewrite (isint_le _ _ _ _ (HP len (le_n _)) Hr) in E.
        rewrite (trunc_isint _ _ Hr) in E by lia.
        destruct (Z.leb_spec (Z.of_nat len) (A - 1)) as [Hl|Hl].
        -- split; [intros p Hp; rewrite HS by lia; lia | lia].
        -- split; [intros p Hp; rewrite HS by lia; lia |].
           intros _. right. exists A. split; [exact HA|lia].
      * destruct (atleast_cmp _ _ _ _ Hr (HP len (le_n _)) Hlen) as (_ & _ & Hle).
        rewrite Hle in E.
        split; [intros p Hp; rewrite HS by lia; lia | lia].
  - assert (E : second = a) by (apply d_round_nonfinite; exact F).
    subst start. rewrite E.
    destruct a as [s|[|]| |s m e]; try discriminate.
    + (* -infinity *)
      change (sub_start (S754_infinity true) len) with 0%nat. split.
      * intros p Hp. destruct (finite_cmp_minf _ _ (HP p (proj2 Hp))) as [-> _]. lia.
      * intros _. left. auto.
    + (* +infinity *)
      change (sub_start (S754_infinity false) len) with len. split; [|lia].
      intros p Hp. destruct (finite_cmp_pinf _ _ (HP p (proj2 Hp))) as [-> _]. lia.
    + (* NaN *)
      change (sub_start S754_nan len) with len. split; [|lia].
      intros p Hp. destruct (cmp_nan (d_of_nat p)) as [-> _]. lia.
Qed.

Definition below_end (second : dbl) (b : option dbl) (p : nat) : bool :=
  match b with
  | None => true
  | Some b => d_lt (d_of_nat p) (d_add second (d_round b))
  end.

Lemma add_minf_finite : forall x X, isint x X ->
  d_add x (S754_infinity true) = S754_infinity true /\
  d_add (S754_infinity true) x = S754_infinity true.
Proof. intros x X (_ & F & _). destruct x; try discriminate; split; reflexivity. Qed.

Lemma add_pinf_finite : forall x X, isint x X ->
  d_add x (S754_infinity false) = S754_infinity false.
Proof. intros x X (_ & F & _). destruct x; try discriminate; reflexivity. Qed.

Lemma len_correct : forall second b len start,
  second_ok second len start -> (start < len)%nat -> Z.of_nat len < M53 ->
  match b with Some t => valid_binary prec emax t = true | None => True end ->
  forall p, (start < p <= len)%nat ->
  below_end second b p = (p <=? start + sub_len second b len start)%nat.
Proof.
  intros second b len start Hsec Hst Hlen Vb p Hp.
  assert (HP : forall p, (p <= len)%nat -> isint (d_of_nat p) (Z.of_nat p))
    by (intros q Hq; apply isint_of_nat; lia).
  assert (Pp := HP p (proj2 Hp)).
  destruct b as [third|]; [|cbn [below_end sub_len]; lia].
  cbn [below_end].
  destruct (is_finite_SF third) eqn:F.
  - (* finite third argument *)
    destruct (d_round_int third Vb F) as [B HB].
    rewrite sub_len_finite by exact F. cbv zeta.
    destruct Hsec as [(-> & ->)|(A & HA & Hstart)].
    + destruct (add_minf_finite _ _ HB) as [-> ->].
      destruct (finite_cmp_minf _ _ Pp) as [_ ->].
      destruct (finite_cmp_minf _ _ (HP 1%nat ltac:(lia))) as [-> _]. lia.
    + assert (N1 := HP (S start) ltac:(lia)).
      assert (NM := HP (len - start)%nat ltac:(lia)).
      assert (Tm := isint_add _ _ _ _ HB HA).
      assert (Ts := isint_add _ _ _ _ HA HB).
      replace (B + A) with (A + B) in Tm by lia.
      set (T := A + B) in *.
      set (total := d_add (d_round third) second) in *.
      destruct Tm as [(HT & Tm)|[(HT & Tm)|(HT & Tm)]];
      destruct Ts as [(HT' & Ts)|[(HT' & Ts)|(HT' & Ts)]]; try lia.
      * (* exact sum *)
        rewrite (isint_lt _ _ _ _ Pp Ts), (isint_le _ _ _ _ Tm N1).
        destruct (Z.leb_spec T (Z.of_nat (S start))) as [H1|H1]; [lia|].
        assert (Sl := isint_sub _ _ _ _ Tm N1).
        destruct Sl as [(_ & Sl)|[(Hx & _)|(Hx & _)]]; try lia.
        rewrite (isint_lt _ _ _ _ NM Sl), (trunc_isint _ _ Sl) by lia.
        destruct (Z.ltb_spec (Z.of_nat (len - start)) (T - Z.of_nat (S start))); lia.
      * (* the sum is at least 2^53 *)
        destruct (atleast_cmp _ _ _ _ Ts Pp ltac:(lia)) as (_ & -> & _).
        destruct (atleast_cmp _ _ _ _ Tm N1 ltac:(lia)) as (-> & _ & _).
        assert (Sl := atleast_sub _ _ _ _ Tm N1 ltac:(lia)).
        destruct (d_lt (d_of_nat (len - start)) (d_sub total (d_of_nat (S start)))) eqn:Hlt; [lia|].
        destruct (atleast_not_lt _ _ _ _ Sl NM ltac:(lia) Hlt) as (Si & Hm).
        rewrite (trunc_isint _ _ Si) by lia. lia.
      * (* the sum is at most -2^53 *)
        destruct (atmost_cmp _ _ _ _ Ts Pp ltac:(lia)) as (_ & ->).
        destruct (atmost_cmp _ _ _ _ Tm N1 ltac:(lia)) as (-> & _). lia.
  - (* NaN or infinite third argument *)
    rewrite (d_round_nonfinite _ F).
    destruct third as [s|[|]| |s m e]; try discriminate; cbn [sub_len].
    + (* -infinity *)
      assert (E : d_add second (S754_infinity true) = S754_infinity true).
      { destruct Hsec as [(-> & _)|(A & HA & _)]; [reflexivity|].
        now destruct (add_minf_finite _ _ HA). }
      rewrite E. destruct (finite_cmp_minf _ _ Pp) as [_ ->]. lia.
    + (* +infinity *)
      destruct Hsec as [(-> & ->)|(A & HA & _)].
      * change (d_add (S754_infinity true) (S754_infinity false)) with S754_nan.
        destruct (cmp_nan (d_of_nat p)) as [_ ->]. lia.
      * rewrite (add_pinf_finite _ _ HA).
        destruct (finite_cmp_pinf _ _ Pp) as [_ ->].
        assert (Fs := isint_finite _ _ HA).
        destruct second as [s|s| |s m e]; try discriminate; lia.
    + (* NaN *)
      assert (E : d_add second S754_nan = S754_nan) by (destruct second; reflexivity).
      rewrite E. destruct (cmp_nan (d_of_nat p)) as [_ ->]. lia.
Qed.

(** * the theorem

   Hypotheses:
   - the two numbers are doubles ([valid_binary]: canonical mantissa/exponent of the binary64
     format; [spec_float] also contains non-canonical triples that no 64-bit pattern denotes;
     every 64-bit pattern is valid, see [substring_correct_bits] below);
   - the string has fewer than 2^53 UTF-16 units, so that every position converts exactly to
     a double.  This is realistic (2^53 units = 16 PiB of XalanDOMChar; size_type has 64 bits)
     and it is needed: with 2^53 + 2 units or more, d_of_nat (2^53 + 1) = 2^53, so the
     Recommendation's "position >= round(a)" read on doubles rejects position 2^53 + 1 for
     a = 2^53 + 2 while the code (start index = double(a - 1) = 2^53 after rounding to even)
     keeps it. *)
Theorem substring_correct : forall (s : str) (a : dbl) (b : option dbl),
  valid_binary prec emax a = true ->
  match b with Some t => valid_binary prec emax t = true | None => True end ->
  Z.of_nat (length s) < 2 ^ 53 ->
  f_substring s a b = substring_spec s a b.
Proof.
  intros s a b Va Vb Hlen. rewrite M53_pow in Hlen.
  rewrite f_substring_unfold. cbv zeta.
  destruct (Nat.eqb_spec (length s) 0) as [E0|E0].
  - destruct s; [reflexivity|discriminate].
  - destruct (start_correct a (length s) Va Hlen) as [Hlo Hsec].
    set (second := d_round a) in *. set (start := sub_start second (length s)) in *.
    symmetry.
    assert (Hsel : forall p, position_selected a b p =
                             d_le second (d_of_nat p) && below_end second b p)
      by (intros p; destruct b; reflexivity).
    destruct (Nat.leb_spec (length s) start) as [Hge|Hlt].
    + change (@nil N) with (firstn 0 (skipn start s)).
      apply spec_interval. intros p Hp. rewrite Hsel, Hlo by lia.
      replace (start <? p)%nat with false by lia. reflexivity.
    + apply spec_interval. intros p Hp. rewrite Hsel, Hlo by lia.
      destruct (Nat.ltb_spec start p) as [H|H]; [|reflexivity].
      rewrite (len_correct second b (length s) start (Hsec Hlt) Hlt Hlen Vb) by lia.
      reflexivity.
Qed.

(* the same for arguments given as 64-bit patterns: no hypothesis on the numbers is left *)
Theorem substring_correct_bits : forall (s : str) (ba : Z) (bb : option Z),
  Z.of_nat (length s) < 2 ^ 53 ->
  f_substring s (of_bits ba) (option_map of_bits bb)
  = substring_spec s (of_bits ba) (option_map of_bits bb).
Proof.
  intros s ba bb Hlen. apply substring_correct; [apply of_bits_valid| |exact Hlen].
  destruct bb; [apply of_bits_valid|exact I].
Qed.

(* the hypotheses are satisfiable, on an input that goes through the rounding, the
   subtraction, the addition and both conversions *)
Example substring_correct_hyps :
  valid_binary prec emax n_1_5 = true /\ valid_binary prec emax n_2_6 = true /\
  Z.of_nat (length s12345) < 2 ^ 53 /\
  f_substring s12345 n_1_5 (Some n_2_6) = [50;51;52]%N.
Proof. vm_compute. auto. Qed.

(* the first hypothesis is needed: on a non-canonical triple (value 1 written as 1 * 2^0,
   which no 64-bit pattern denotes) SpecFloat's comparison, which looks at the exponents
   first, is meaningless, and the two sides differ *)
Example substring_noncanonical_differs :
  f_substring s12345 (S754_finite false 1 0) None
  <> substring_spec s12345 (S754_finite false 1 0) None.
Proof. vm_compute. discriminate. Qed.
