(* model side of the C01 core2 + core3 correspondence (extracted XsltCore2Defs: machine_main2 / sem_main2; XsltCore3Defs:
   gval / force_all).  Line protocol: that of ocaml/xsltCore2_driver.ml (see its and ocaml/xsltCore_driver.ml's head
   comments), with a section for the top-level bindings between the two variant flags and P:
      G <k> (<name> <0|1 param> <expr|->)^k     the top-level bindings in push order
      E <k> (<name> <value>)^k                  external params
      M <k> (<exprid> <k> <name>^k)^k           expression identity -> the top-level names it mentions (after its xvars)
      R <k> <name>^k                            the order in which the reference run first referenced top-level names
   Every expression is evaluated on its local values followed by the reference values (gval) of the top-level bindings it
   mentions (XsltCore3Pkg.mech3_to_2).
   -> <id> <machine> <sem2 guarded> <sem2 unguarded> <misses m,g,u> <lazy>
      lazy = Lok<k> (forcing the R names lazily from the initial state, in that order, gave the k reference values)
           | Lbad (a forced value differs from gval) | Lcirc | Lunbound | Lfuel | Lundef (some binding has no reference value:
             then both sem2 fields are NONE) *)

exception Bad of string

let enc (s : n list) : string = String.concat "." (List.map (fun c -> Printf.sprintf "%x" (int_of_n c)) s)
let dec (t : string) : n list =
  if t = "" then [] else List.map (fun h -> n_of_int (int_of_string ("0x" ^ h))) (String.split_on_char '.' t)
let ids_of (t : string) : n list =
  if t = "" then [] else List.map (fun h -> n_of_int (int_of_string h)) (String.split_on_char '.' t)
let show_ids (l : n list) : string = String.concat "." (List.map (fun x -> string_of_int (int_of_n x)) l)
let tail (t : string) : string = String.sub t 1 (String.length t - 1)
let of_ascii (s : string) : n list = List.init (String.length s) (fun i -> n_of_int (Char.code s.[i]))
let nat_big (i : int) : nat = let rec go acc k = if k <= 0 then acc else go (S acc) (k - 1) in go O i

type cur = { a : string array; mutable i : int }
let mk_cur (l : string list) : cur = { a = Array.of_list l; i = 0 }
let next (c : cur) : string =
  if c.i >= Array.length c.a then raise (Bad "unexpected end") else (let t = c.a.(c.i) in c.i <- c.i + 1; t)
let int_tok (c : cur) : int = let t = next c in try int_of_string t with _ -> raise (Bad ("number expected: " ^ t))
let rec rep (k : int) (f : unit -> 'a) : 'a list = if k <= 0 then [] else (let x = f () in x :: rep (k - 1) f)
let expect (c : cur) (s : string) : unit = let t = next c in if t <> s then raise (Bad ("expected " ^ s ^ " got " ^ t))

(* ---- trees and items (comma atoms) ---- *)
let rec p_rnodes (c : cur) : rnode list = let k = int_tok c in rep k (fun () -> p_rnode c)
and p_rnode (c : cur) : rnode =
  match next c with
  | "e" ->
      let nm = dec (next c) in
      let na = int_tok c in
      let at = rep na (fun () -> let a = dec (next c) in let v = dec (next c) in (a, v)) in
      let ch = p_rnodes c in
      RElem (nm, at, ch)
  | "t" -> RText (dec (next c))
  | "c" -> RComment (dec (next c))
  | "p" -> let t = dec (next c) in let d = dec (next c) in RPI (t, d)
  | x -> raise (Bad ("tree atom " ^ x))

let rec p_items (c : cur) : item list = let k = int_tok c in rep k (fun () -> p_item c)
and p_item (c : cur) : item =
  match next c with
  | "e" -> let nm = dec (next c) in let ch = p_items c in GElem (nm, [], ch)
  | "a" -> let a = dec (next c) in let v = dec (next c) in GCopyAttr (a, v)
  | "t" -> GText (dec (next c))
  | "c" -> GComment (dec (next c))
  | "p" -> let t = dec (next c) in let d = dec (next c) in GPI (t, d)
  | x -> raise (Bad ("item atom " ^ x))

let atoms (t : string) : cur = mk_cur (String.split_on_char ',' t)

let cmp_str (a : n list) (b : n list) : int = compare (List.map int_of_n a) (List.map int_of_n b)

let rec show_nodes (b : Buffer.t) (l : rnode list) : unit =
  Buffer.add_string b (string_of_int (List.length l));
  List.iter (show_node b) l
and show_node (b : Buffer.t) (x : rnode) : unit =
  match x with
  | RElem (nm, at, ch) ->
      let at = List.stable_sort (fun (a, _) (a', _) -> cmp_str a a') at in
      Buffer.add_string b (",e," ^ enc nm ^ "," ^ string_of_int (List.length at));
      List.iter (fun (a, v) -> Buffer.add_string b ("," ^ enc a ^ "," ^ enc v)) at;
      Buffer.add_string b ",";
      show_nodes b ch
  | RText s -> Buffer.add_string b (",t," ^ enc s)
  | RComment s -> Buffer.add_string b (",c," ^ enc s)
  | RPI (t, d) -> Buffer.add_string b (",p," ^ enc t ^ "," ^ enc d)

let show_tree (t : rnode list) : string =
  let b = Buffer.create 256 in show_nodes b (canon_list t); Buffer.contents b

(* ---- program ---- *)
let p_str (t : string) : n list =
  if String.length t >= 1 && t.[0] = 's' then dec (tail t) else raise (Bad ("string expected: " ^ t))

let p_expr_tok (t : string) : expr =
  if String.length t < 2 || t.[0] <> 'x' then raise (Bad ("expr expected: " ^ t)) else
  match String.split_on_char ':' (tail t) with
  | i :: vs -> { xid = n_of_int (int_of_string i); xvars = List.map (fun v -> n_of_int (int_of_string v)) vs }
  | [] -> raise (Bad "expr")

let p_expr (c : cur) : expr = p_expr_tok (next c)
let p_expr_opt (c : cur) : expr option = let t = next c in if t = "-" then None else Some (p_expr_tok t)
let p_name (c : cur) : n = n_of_int (int_tok c)

let p_part (c : cur) : avtpart =
  let t = next c in
  if t.[0] = 's' then ALit (p_str t) else AExp (p_expr_tok t)

let rec p_instrs (c : cur) : instr2 list = let k = int_tok c in rep k (fun () -> p_instr c)
and p_instr (c : cur) : instr2 =
  match next c with
  | "L" ->
      let nm = p_str (next c) in
      let na = int_tok c in
      let at = rep na (fun () -> let a = p_str (next c) in let k = int_tok c in let ps = rep k (fun () -> p_part c) in (a, ps)) in
      let body = p_instrs c in
      JLre (nm, at, body)
  | "T" -> JText (p_str (next c))
  | "V" -> JValueOf (p_expr c)
  | "I" -> let e = p_expr c in let b = p_instrs c in JIf (e, b)
  | "C" -> JChoose (p_instrs c)
  | "W" -> let e = p_expr c in let b = p_instrs c in JWhen (e, b)
  | "O" -> JOtherwise (p_instrs c)
  | "F" -> let e = p_expr c in let s = p_expr_opt c in let b = p_instrs c in JForEach (e, s, b)
  | "K" -> let t = p_name c in let w = p_instrs c in JCall (t, w)
  | "A" ->
      let e = p_expr c in
      let m = (let t = next c in if t = "-" then None else Some (n_of_int (int_of_string t))) in
      let s = p_expr_opt c in
      let w = p_instrs c in
      JApply (e, m, s, w)
  | "P" -> let nm = p_name c in let s = p_expr_opt c in let b = p_instrs c in JWithParam (nm, s, b)
  | "D" -> let nm = p_name c in let s = p_expr_opt c in let b = p_instrs c in JVar (nm, s, b)
  | "Q" -> let nm = p_name c in let s = p_expr_opt c in JParam (nm, s)
  | "Y" -> JCopy (p_instrs c)
  | "Z" -> JCopyOf (p_expr c)
  | "B" -> let nm = p_str (next c) in let k = int_tok c in let ps = rep k (fun () -> p_part c) in JAttribute (nm, ps)
  | "M" -> let ps = p_instrs c in let b = p_instrs c in JTemplate (ps, b)
  | "E" -> let k = int_tok c in let ps = rep k (fun () -> p_part c) in let b = p_instrs c in JElement (ps, b)
  | "N" -> JComment (p_instrs c)
  | "LU" ->
      let nm = p_str (next c) in
      let ku = int_tok c in
      let use = rep ku (fun () -> p_name c) in
      let na = int_tok c in
      let at = rep na (fun () -> let a = p_str (next c) in let k = int_tok c in let ps = rep k (fun () -> p_part c) in (a, ps)) in
      let body = p_instrs c in
      JLreU (nm, use, at, body)
  | "EU" ->
      let k = int_tok c in let ps = rep k (fun () -> p_part c) in
      let ku = int_tok c in
      let use = rep ku (fun () -> p_name c) in
      let b = p_instrs c in
      JElementU (ps, use, b)
  | "AS" ->
      let ku = int_tok c in
      let use = rep ku (fun () -> p_name c) in
      let na = int_tok c in
      let at = rep na (fun () -> let a = p_str (next c) in let k = int_tok c in let ps = rep k (fun () -> p_part c) in (a, ps)) in
      JAttrSet (use, at)
  | "J" -> let k = int_tok c in let ps = rep k (fun () -> p_part c) in let b = p_instrs c in JPI (ps, b)
  | x -> raise (Bad ("instruction " ^ x))

(* ---- values ---- *)
let ser_value (v : value) : string =
  match v with
  | VAtom (k, _) -> "A" ^ enc k
  | VNodes l -> "N" ^ show_ids l
  | VRtf t -> "R" ^ show_tree t

let p_value (t : string) : value =
  if t = "" then raise (Bad "value") else
  match t.[0] with
  | 'A' -> (match String.split_on_char '/' (tail t) with
            | [k; s] -> VAtom (dec k, dec s)
            | _ -> raise (Bad ("atom " ^ t)))
  | 'N' -> VNodes (ids_of (tail t))
  | 'R' -> VRtf (p_rnodes (atoms (tail t)))
  | _ -> raise (Bad ("value " ^ t))

let key5 (id : n) (vals : value list) (node : n) (pos : n) (size : n) : string =
  Printf.sprintf "%d|%s|%d|%d|%d" (int_of_n id) (String.concat ";" (List.map ser_value vals)) (int_of_n node) (int_of_n pos) (int_of_n size)

let miss_atom : value = VAtom (of_ascii "?MISS", of_ascii "?MISS")

let handle (toks : string list) : string =
  let c = mk_cur toks in
  let fuel_m = int_tok c in
  let fuel_s = int_tok c in
  let root = n_of_int (int_tok c) in
  let fxf = (next c = "1") in
  let fxc = (next c = "1") in
  expect c "G";
  let k = int_tok c in
  let gdefs = rep k (fun () -> let nm = p_name c in let par = (next c = "1") in let sel = p_expr_opt c in { g_name = nm; g_par = par; g_sel = sel }) in
  expect c "E";
  let k = int_tok c in
  let ext_toks = rep k (fun () -> let nm = p_name c in let v = next c in (nm, v)) in
  expect c "M";
  let k = int_tok c in
  let gment : (int, n list) Hashtbl.t = Hashtbl.create 64 in
  for _ = 1 to k do
    let id = int_tok c in
    let kk = int_tok c in
    Hashtbl.replace gment id (rep kk (fun () -> p_name c))
  done;
  expect c "R";
  let k = int_tok c in
  let rnames = rep k (fun () -> p_name c) in
  expect c "P";
  let templates = p_instrs c in
  expect c "X";
  let k = int_tok c in
  let evt : (string, value * n list * bool * n list) Hashtbl.t = Hashtbl.create (2 * k + 16) in
  for _ = 1 to k do
    let key = next c in
    let v = p_value (next c) in
    let s = p_str (next c) in
    let b = (next c = "1") in
    let nl = ids_of (tail (next c)) in
    Hashtbl.replace evt key (v, s, b, nl)
  done;
  expect c "S";
  let k = int_tok c in
  let sortt : (string, n list) Hashtbl.t = Hashtbl.create (2 * k + 16) in
  for _ = 1 to k do
    let key = next c in
    let nl = ids_of (tail (next c)) in
    Hashtbl.replace sortt key nl
  done;
  expect c "T";
  let k = int_tok c in
  let tmplt : (int * int, n option) Hashtbl.t = Hashtbl.create (2 * k + 16) in
  for _ = 1 to k do
    let nd = int_tok c in
    let md = int_tok c in
    let t = next c in
    Hashtbl.replace tmplt (nd, md) (if t = "-" then None else Some (n_of_int (int_of_string t)))
  done;
  expect c "C";
  let k = int_tok c in
  let copyt : (int, item list) Hashtbl.t = Hashtbl.create (2 * k + 16) in
  for _ = 1 to k do
    let nd = int_tok c in
    let its = p_items (atoms (tail (next c))) in
    Hashtbl.replace copyt nd its
  done;
  expect c "H";
  let k = int_tok c in
  let shal : (int, shallow) Hashtbl.t = Hashtbl.create (2 * k + 16) in
  for _ = 1 to k do
    let nd = int_tok c in
    let t = next c in
    let sh = (match t.[0] with
              | 'E' -> ShElem (dec (tail t))
              | 'R' -> ShRoot
              | 'L' -> ShLeaf (p_items (atoms (tail t)))
              | _ -> raise (Bad ("shallow " ^ t))) in
    Hashtbl.replace shal nd sh
  done;
  let misses = ref 0 in
  let look id vals node pos size =
    match Hashtbl.find_opt evt (key5 id vals node pos size) with
    | Some r -> Some r
    | None -> incr misses; (if Sys.getenv_opt "XV_DEBUG_MISS" <> None then prerr_endline ("MISS " ^ key5 id vals node pos size)); None in
  let ev_value id vals node pos size = match look id vals node pos size with Some (v, _, _, _) -> v | None -> miss_atom in
  let ev_string id vals node pos size = match look id vals node pos size with Some (_, s, _, _) -> s | None -> of_ascii "?MISS" in
  let ev_bool id vals node pos size = match look id vals node pos size with Some (_, _, b, _) -> b | None -> false in
  let ev_nodes id vals node pos size = match look id vals node pos size with Some (_, _, _, l) -> l | None -> [] in
  let ev_sort id vals node pos size inp =
    match Hashtbl.find_opt sortt (key5 id vals node pos size ^ "|" ^ show_ids inp) with
    | Some l -> l
    | None -> incr misses; inp in
  let sel_template node mode =
    match Hashtbl.find_opt tmplt (int_of_n node, int_of_n mode) with
    | Some r -> r
    | None -> incr misses; None in
  let node_copy node = match Hashtbl.find_opt copyt (int_of_n node) with Some l -> l | None -> incr misses; [] in
  let node_shallow node = match Hashtbl.find_opt shal (int_of_n node) with Some s -> s | None -> incr misses; ShLeaf [] in
  (* ---- top-level bindings ---- *)
  let ext = List.map (fun (nm, v) -> (nm, p_value v)) ext_toks in
  let ge = genv gdefs in
  let gvalue k = gval ev_value root gdefs ext (gfuel gdefs) k in
  let undefined = ref false in
  let gvals (id : n) : value list =
    match Hashtbl.find_opt gment (int_of_n id) with
    | None -> []
    | Some names -> List.map (fun nm -> match lookup nm ge with
                                        | Some k -> (match gvalue k with Some v -> v | None -> undefined := true; miss_atom)
                                        | None -> undefined := true; miss_atom) names in
  let gcache : (int, value option) Hashtbl.t = Hashtbl.create 16 in
  let gvalue k = match Hashtbl.find_opt gcache (int_of_n k) with
                 | Some r -> r
                 | None -> let r = gvalue k in Hashtbl.replace gcache (int_of_n k) r; r in
  let all_defined = List.for_all (fun (_, k) -> match gvalue k with Some _ -> true | None -> false) ge in
  let lazy_res =
    if not all_defined then "Lundef" else
    (match force_all ev_value root gdefs (gfuel gdefs) rnames (l_init gdefs ext) with
     | FOk (vs, _) ->
         let expect = List.map (fun nm -> match lookup nm ge with Some k -> gvalue k | None -> None) rnames in
         if List.for_all2 (fun v e -> match e with Some w -> ser_value v = ser_value w | None -> false) vs expect
         then "Lok" ^ string_of_int (List.length vs) else "Lbad"
     | FCirc _ -> "Lcirc" | FUnbound _ -> "Lunbound" | FFuel -> "Lfuel") in
  (* a binding the reference run never referenced has no table entry: its (unused) value is the sentinel *)
  misses := 0;
  let b_value = ev_value and b_string = ev_string and b_bool = ev_bool and b_nodes = ev_nodes and b_sort = ev_sort in
  let ev_value id vals = b_value id (vals @ gvals id) in
  let ev_string id vals = b_string id (vals @ gvals id) in
  let ev_bool id vals = b_bool id (vals @ gvals id) in
  let ev_nodes id vals = b_nodes id (vals @ gvals id) in
  let ev_sort id vals = b_sort id (vals @ gvals id) in
  let ncname (s : n list) : bool =
    let l = List.map int_of_n s in
    let letter ch = (ch >= 65 && ch <= 90) || (ch >= 97 && ch <= 122) || ch = 95 in
    let namech ch = letter ch || (ch >= 48 && ch <= 57) || ch = 45 || ch = 46 in
    (match l with [] -> false | ch :: r -> letter ch && List.for_all namech r) in
  let name_ok = ncname in
  let pi_ok (s : n list) : bool =
    ncname s && (String.lowercase_ascii (String.concat "" (List.map (fun ch -> String.make 1 (Char.chr (int_of_n ch land 127))) s)) <> "xml") in
  let mres =
    (match machine_main2 fxf fxc ev_value ev_string ev_bool ev_nodes ev_sort sel_template node_copy node_shallow templates name_ok pi_ok (nat_big fuel_m) root with
     | Done2 s -> (match result_tree2 s with Some t -> show_tree t | None -> "ILL")
     | Stuck2 -> "STUCK"
     | Run2 (_, _) -> "NONE") in
  let mm = !misses in
  misses := 0;
  let sem gd =
    (match sem_main2 gd ev_value ev_string ev_bool ev_nodes ev_sort sel_template node_copy node_shallow templates name_ok pi_ok (nat_big fuel_s) root with
     | Some its -> show_tree (result_of its)
     | None -> "NONE") in
  let sem gd = if all_defined then sem gd else "NONE" in
  let sres = sem true in
  let ms = !misses in
  misses := 0;
  let ures = sem false in
  Printf.sprintf "%s %s %s %d,%d,%d %s" mres sres ures mm ms !misses lazy_res

let () =
  let ic = if Array.length Sys.argv > 1 then open_in Sys.argv.(1) else stdin in
  iter_lines ic (fun line ->
    match split_ws line with
    | id :: toks ->
        Printf.printf "%s %s\n" id
          (try handle toks with
           | Bad m -> "ERR " ^ m
           | Failure m -> "ERR " ^ m
           | Invalid_argument m -> "ERR " ^ m
           | Not_found -> "ERR not-found"
           | Stack_overflow -> "ERR stack-overflow")
    | [] -> ())
