<?xml version="1.0"?>
<xsl:stylesheet version="1.0" xmlns:xsl="http://www.w3.org/1999/XSL/Transform">
  <xsl:output method="xml"/>
  <xsl:key name="g" match="g" use="@k"/>
  <xsl:strip-space elements="*"/>
  <xsl:template match="t">
    <groups>
      <xsl:for-each select="g[generate-id() = generate-id(key('g', @k)[1])]">
        <xsl:sort select="@k" order="descending"/>
        <xsl:variable name="members"><xsl:for-each select="key('g', @k)"><m><xsl:value-of select="."/></m></xsl:for-each></xsl:variable>
        <grp k="{@k}" n="{count(key('g', @k))}" sum="{sum(key('g', @k))}"><xsl:copy-of select="$members"/></grp>
      </xsl:for-each>
    </groups>
  </xsl:template>
</xsl:stylesheet>
