#!/usr/bin/env python3
"""Entry point of every registered check:  python3 check.py <ID> [--tier quick|thorough] [--replay FILE]
   python3 check.py --setup     builds everything once (MANIFEST.setup_cmd)."""
import os, sys, argparse, importlib, traceback

VERIF = os.path.dirname(os.path.abspath(__file__))
sys.path.insert(0, VERIF)
from vlib import core  # noqa: E402


def escalate_if_modelled_source_changed(prop, tier, seed, rc):
    """DESIGN.md section 2, step 2: the quick tier found nothing, but source files this property's model
    mirrors differ from the text the model was last validated against (vlib/anchors.py).  Run the property
    once more with the thorough budgets and another seed, in a child process bounded by
    VERIF_ESCALATE_BUDGET_S; its verdict and evidence replace the quick ones.  If the child does not finish
    in time the quick verdict stands."""
    if rc != 0 or tier != "quick" or os.environ.get("VERIF_ESCALATE", "1") == "0" or os.environ.get("VERIF_FORCE_ESCALATED"):
        return rc
    from vlib import anchors
    changed = anchors.changed_for(prop)
    if not changed:
        return rc
    import subprocess
    budget = int(os.environ.get("VERIF_ESCALATE_BUDGET_S", "1500"))
    core.log("%s: modelled source differs from the validated text (%s): second pass with the thorough budgets, seed %d, at most %d s"
             % (prop, ", ".join(changed[:6]), seed + 1, budget))
    env = dict(os.environ, VERIF_ESCALATE="0", VERIF_FORCE_ESCALATED=",".join(changed), VERIF_SEED=str(seed + 1), VERIF_NO_COQCHK="1")
    try:
        p = subprocess.run([sys.executable, os.path.abspath(__file__), prop, "--tier", "quick"], env=env, timeout=budget)
        return p.returncode
    except subprocess.TimeoutExpired:
        core.log("%s: the second pass did not finish within %d s; the quick verdict stands" % (prop, budget))
        return rc


def main():
    ap = argparse.ArgumentParser()
    ap.add_argument("prop", nargs="?")
    ap.add_argument("--tier", default=os.environ.get("VERIF_TIER", "quick"))
    ap.add_argument("--replay")
    ap.add_argument("--setup", action="store_true")
    a = ap.parse_args()
    seed = int(os.environ.get("VERIF_SEED", "1") or 1)
    if a.setup:
        from vlib import setup
        return setup.run()
    if not a.prop:
        ap.error("property id required")
    tier = a.tier if a.tier in ("quick", "thorough") else "quick"
    mod = importlib.import_module("props." + a.prop)
    ctx = core.Ctx(a.prop, tier, seed)
    try:
        if a.replay:
            return mod.replay(ctx, a.replay)
        rc = mod.run(ctx)
        return escalate_if_modelled_source_changed(a.prop, tier, seed, rc)
    except Exception:
        # an internal error must not pass silently: report as a broken check
        traceback.print_exc()
        ctx.broken.append("internal error in the check: " + traceback.format_exc()[-800:])
        return ctx.finish(level=getattr(mod, "LEVEL", "proof"))


if __name__ == "__main__":
    sys.exit(main())
