(* C10, part "currule": the current template rule (XSLT 1.0 sections 5.6 and 6).
   Definitions only (no proofs): the m_currentTemplateStack / m_elementInvokerStack discipline of
   the non-recursive engine AS CODED, over the execution tree of instruction instances, next to
   the independent specification; and an executable interpreter of small stylesheet programs that
   builds the execution tree through the same primitives (extracted for the correspondence).

   Source (src/xalanc/XSLT):
     StylesheetExecutionContextDefault::reset()               m_currentTemplateStack = [0]
     ElemTemplateElement::execute()                           pushInvoker(getParentNodeElem()) .. popInvoker()
     ElemTemplate::startElement / endElement                  pushCurrentTemplate(this | caller's) / popCurrentTemplate()
     ElemForEach::startElement / endElement                   pushCurrentTemplate(0) before the select, pop at the end
     ElemCallTemplate / ElemApplyTemplates / ElemApplyImport  pushInvoker(this) .. popInvoker()
     ElemTemplateElement::getFirstChildElemToExecute /        the "direct template" shortcut of an element whose only
       endExecuteChildren                                     child is a parameter-less xsl:call-template:
                                                              pushInvoker(this), the template is instantiated directly
     ElemApplyImport::startElement                            error when getCurrentTemplate() == 0
     ElemTemplateElement::findTemplateToTransformChild        apply-imports searches getCurrentTemplate()->getStylesheet()
     VariablesStack::findXObject -> ElemVariable::getValue    a top-level variable is evaluated at its first use, on the
       -> ElemTemplateElement::executeChildren                stacks as they are at that moment; every child through
                                                              execute() (invoker = the child's parent; for the template
                                                              of the shortcut that is the template's parent: null) *)
From Coq Require Import List NArith ZArith Bool.
Require Import XV.TmplDefs.
Import ListNotations.

(* an ElemTemplate object: its identity and the stylesheet it belongs to (getStylesheet()), as the
   path of that stylesheet in the import tree.  The built-in rule for elements and the root
   (StylesheetRoot::m_defaultRule / m_defaultRootRule) is such an object too, owned by the root *)
Record tref := { tr_id : N; tr_path : list nat }.
Definition cur := option tref.                 (* a null pointer is None *)

(* what ElemTemplate::startElement asks of getInvoker(): a null pointer, an xsl:call-template, an
   element with hasDirectTemplate(), anything else (xsl:apply-templates, xsl:apply-imports, ...) *)
Inductive invk := InvNull | InvCall | InvDirect | InvOther.

(* shapes of the source the translator tells apart (coq/GenCurRule.v):
   v_call_keeps     ElemTemplate::startElement pushes the caller's rule when the invoker is a
                    call-template or has the shortcut (true: the code since 9c1f5e3), or `this`
                    in every case (false: the code before)
   v_global_null    VariablesStack::findXObject pushes a null current rule around the evaluation of
                    a top-level variable (true: since fbf271b, by an RAII helper; false: the stacks are used as they are)
   v_global_direct  no direct-template shortcut is set up for a top-level variable (the template sees
                    the xsl:call-template as its invoker: since 59004ef; false: the template of the
                    shortcut is run by execute() and sees its own parent, null) *)
Record variant := { v_call_keeps : bool; v_global_null : bool; v_global_direct : bool }.

(* ------------------------------------------------------------------------------------------ *)
(* the execution tree: one node per instruction instance *)

Inductive inst :=
| IText (k : N)                                  (* anything that touches neither stack *)
| IObs (site : N)                                (* the same, and it is watched *)
| IBlock (direct : bool) (l : list inst)         (* literal result element, xsl:if, xsl:when, xsl:variable, xsl:with-param,
                                                    xsl:element, xsl:copy ...: children through begin/endExecuteChildren *)
| IForEach (sel : list inst) (iters : list inst) (* select / sort keys (top-level variables they are the first to use), then
                                                    one IBlock per selected node *)
| ITemplate (t : tref) (direct : bool) (l : list inst)
| ICall (params : list inst) (callee : list inst)  (* xsl:call-template that is not short-cut; [callee] = the template instance
                                                    (missing when a parameter could not be evaluated) *)
| IApply (params : list inst) (insts : list inst)      (* xsl:apply-templates: one template instance per node that has one *)
| IImports (site node : N) (mode : option N) (chosen : option N) (res : list inst)
                                                 (* xsl:apply-imports for [node] in [mode]; [chosen] = what findTemplate
                                                    returned (template id), [res] = what was instantiated *)
| IGlobal (direct : bool) (l : list inst).       (* first use of a top-level variable with content *)

Definition is_template (i : inst) : bool := match i with ITemplate _ _ _ => true | _ => false end.
Definition is_global (i : inst) : bool := match i with IGlobal _ _ => true | _ => false end.
Definition is_block (i : inst) : bool := match i with IBlock _ _ => true | _ => false end.

(* what is seen at a watched instruction or an xsl:apply-imports *)
Record obs := { o_site : N; o_cur : cur; o_ai : option (N * option N * option N) }.

(* ------------------------------------------------------------------------------------------ *)
(* the code *)

Record st := { ts : list cur; iv : list invk }.
Definition st_reset : st := {| ts := [None]; iv := [] |}.     (* reset(): clear(); push_back(0) / clear() *)

Definition top (s : st) : cur := match ts s with c :: _ => c | [] => None end.          (* getCurrentTemplate() *)
Definition itop (s : st) : invk := match iv s with k :: _ => k | [] => InvNull end.       (* getInvoker() *)
Definition push_t (c : cur) (s : st) : st := {| ts := c :: ts s; iv := iv s |}.
Definition pop_t (s : st) : st := {| ts := tl (ts s); iv := iv s |}.
Definition push_i (k : invk) (s : st) : st := {| ts := ts s; iv := k :: iv s |}.
Definition pop_i (s : st) : st := {| ts := ts s; iv := tl (iv s) |}.

(* ElemTemplate::startElement *)
Definition keeps (k : invk) : bool := match k with InvCall | InvDirect => true | _ => false end.
Definition tmpl_start (v : variant) (t : tref) (s : st) : st :=
  push_t (if v_call_keeps v && keeps (itop s) then top s else Some t) s.

(* result of a walk: final state, what was seen, and whether no error was raised *)
Definition res := (st * list obs * bool)%type.
Definition ret (s : st) : res := (s, [], true).
Definition bind (r : res) (f : st -> res) : res :=
  match r with
  | (s, o, true) => match f s with (s', o', ok) => (s', o ++ o', ok) end
  | (s, o, false) => (s, o, false)
  end.
Definition walk_list (f : inst -> st -> res) : list inst -> st -> res :=
  fix go (l : list inst) (s : st) : res :=
    match l with
    | [] => ret s
    | i :: r => bind (f i s) (go r)
    end.

Definition mk_obs (site : N) (s : st) (ai : option (N * option N * option N)) : obs :=
  {| o_site := site; o_cur := top s; o_ai := ai |}.

Fixpoint walk (v : variant) (i : inst) (s : st) {struct i} : res :=
  match i with
  | IText _ => ret s
  | IObs site => (s, [mk_obs site s None], true)
  | IBlock d l =>
      (* beginExecuteChildren -> getFirstChildElemToExecute ... endExecuteChildren *)
      if d then bind (walk_list (walk v) l (push_i InvDirect s)) (fun s' => ret (pop_i s'))
      else walk_list (walk v) l s
  | IForEach sel iters =>
      bind (walk_list (walk v) sel (push_t None s)) (fun s1 =>
      bind (walk_list (walk v) iters s1) (fun s2 => ret (pop_t s2)))
  | ITemplate t d l =>
      let s1 := tmpl_start v t s in
      let s2 := if d then push_i InvDirect s1 else s1 in
      bind (walk_list (walk v) l s2) (fun s3 =>
        let s4 := pop_t s3 in ret (if d then pop_i s4 else s4))
  | ICall ps callee =>
      bind (walk_list (walk v) ps (push_i InvCall s)) (fun s1 =>
      bind (walk_list (walk v) callee s1) (fun s2 => ret (pop_i s2)))
  | IApply ps insts =>
      bind (walk_list (walk v) ps (push_i InvOther s)) (fun s1 =>
      bind (walk_list (walk v) insts s1) (fun s2 => ret (pop_i s2)))
  | IImports site n m ch r =>
      let o := mk_obs site s (Some (n, m, ch)) in
      match top s with
      | None => (s, [o], false)                                   (* XalanMessages::NoCurrentTemplate *)
      | Some _ =>
          match bind (walk_list (walk v) r (push_i InvOther s)) (fun s1 => ret (pop_i s1)) with
          | (s', o', ok) => (s', o :: o', ok)
          end
      end
  | IGlobal d l =>
      let s0 := if v_global_null v then push_t None s else s in
      bind (if d
            then (* getFirstChildElemToExecute: pushInvoker(this); the template's execute(): pushInvoker(its parent) *)
                 bind (walk_list (walk v) l (push_i (if v_global_direct v then InvCall else InvNull) (push_i InvDirect s0)))
                      (fun s' => ret (pop_i (pop_i s')))
            else (* every child through execute(): pushInvoker(the variable) .. popInvoker() *)
                 walk_list (fun c s' => bind (walk v c (push_i InvOther s')) (fun s'' => ret (pop_i s''))) l s0)
           (fun s1 => ret (if v_global_null v then pop_t s1 else s1))
  end.

(* ------------------------------------------------------------------------------------------ *)
(* the specification: XSLT 1.0 section 5.6 ("Whenever a template rule is chosen by matching a
   pattern, the template rule becomes the current template rule for the instantiation of the
   rule's template.  When an xsl:for-each element is instantiated, the current template rule
   becomes null for the instantiation of the content of the xsl:for-each element"), section 6
   ("xsl:call-template does not change the current template rule"), section 5.6 again ("It is an
   error if xsl:apply-imports is instantiated when the current template rule is null"); no rule has
   been chosen for the content of a top-level variable: null.
   The current rule is an inherited attribute of the tree; how a template instance was reached is
   read off its parent: callee of a call-template (also the short-cut one) or chosen by matching *)

Inductive how := Ord | ByCall | ByMatch.
Definition sres := (list obs * bool)%type.
Definition sbind (a : sres) (b : sres) : sres :=
  match a with (o, true) => (o ++ fst b, snd b) | (o, false) => (o, false) end.
Definition spec_list (f : inst -> sres) : list inst -> sres :=
  fix go (l : list inst) : sres :=
    match l with
    | [] => ([], true)
    | i :: r => sbind (f i) (go r)
    end.
Definition kid_how (d : bool) : how := if d then ByCall else Ord.

Fixpoint spec (h : how) (c : cur) (i : inst) {struct i} : sres :=
  match i with
  | IText _ => ([], true)
  | IObs site => ([{| o_site := site; o_cur := c; o_ai := None |}], true)
  | IBlock d l => spec_list (spec (kid_how d) c) l
  | IForEach sel iters => sbind (spec_list (spec Ord c) sel) (spec_list (spec Ord None) iters)
  | ITemplate t d l =>
      let c' := match h with ByMatch => Some t | _ => c end in
      spec_list (spec (kid_how d) c') l
  | ICall ps callee => sbind (spec_list (spec Ord c) ps) (spec_list (spec ByCall c) callee)
  | IApply ps insts => sbind (spec_list (spec Ord c) ps) (spec_list (spec ByMatch c) insts)
  | IImports site n m ch r =>
      let o := {| o_site := site; o_cur := c; o_ai := Some (n, m, ch) |} in
      match c with
      | None => ([o], false)
      | Some _ => match spec_list (spec ByMatch c) r with (o', ok) => (o :: o', ok) end
      end
  | IGlobal d l => spec_list (spec (kid_how d) None) l
  end.

(* ------------------------------------------------------------------------------------------ *)
(* trees that executions produce: template instances occur only where something instantiates a
   template (callee, short-cut child, result of apply-templates / apply-imports), the select of a
   for-each holds nothing but first uses of top-level variables, its iterations are blocks *)

Definition how_eqb (a b : how) : bool :=
  match a, b with Ord, Ord | ByCall, ByCall | ByMatch, ByMatch => true | _, _ => false end.

Fixpoint wf (h : how) (i : inst) {struct i} : bool :=
  let kids (d : bool) (l : list inst) : bool :=
    if d then match l with [c] => is_template c && wf ByCall c | _ => false end
    else forallb (wf Ord) l in
  match i with
  | IText _ | IObs _ => how_eqb h Ord
  | IBlock d l => how_eqb h Ord && kids d l
  | IForEach sel iters =>
      how_eqb h Ord && forallb is_global sel && forallb (wf Ord) sel && forallb is_block iters && forallb (wf Ord) iters
  | ITemplate _ d l => negb (how_eqb h Ord) && kids d l
  | ICall ps callee => how_eqb h Ord && forallb (wf Ord) ps && forallb is_template callee && forallb (wf ByCall) callee
  | IApply ps insts => how_eqb h Ord && forallb (wf Ord) ps && forallb is_template insts && forallb (wf ByMatch) insts
  | IImports _ _ _ _ r => how_eqb h Ord && forallb is_template r && forallb (wf ByMatch) r
  | IGlobal d l => how_eqb h Ord && kids d l
  end.

(* the state in which an instance of kind [h] is reached *)
Definition compat (h : how) (k : invk) : bool :=
  match h with
  | Ord => true
  | ByCall => keeps k
  | ByMatch => negb (keeps k)
  end.

(* guard of the partial theorem: every first use of a top-level variable happens where the current
   rule of the specification is null, and its content is not the short-cut (each conjunct is
   dropped by the variant that repairs it) *)
Definition is_none (c : cur) : bool := match c with None => true | Some _ => false end.

Fixpoint glob_ok (v : variant) (h : how) (c : cur) (i : inst) {struct i} : bool :=
  match i with
  | IText _ | IObs _ => true
  | IBlock d l => forallb (glob_ok v (kid_how d) c) l
  | IForEach sel iters => forallb (glob_ok v Ord None) sel && forallb (glob_ok v Ord None) iters
      (* the select is evaluated after the null rule was pushed *)
  | ITemplate t d l =>
      let c' := match h with ByMatch => Some t | _ => c end in
      forallb (glob_ok v (kid_how d) c') l
  | ICall ps callee => forallb (glob_ok v Ord c) ps && forallb (glob_ok v ByCall c) callee
  | IApply ps insts => forallb (glob_ok v Ord c) ps && forallb (glob_ok v ByMatch c) insts
  | IImports _ _ _ _ r => forallb (glob_ok v ByMatch c) r
  | IGlobal d l =>
      (v_global_null v || is_none c) && (negb d || v_global_direct v) && forallb (glob_ok v (kid_how d) None) l
  end.

Definition fixed_variant : variant := {| v_call_keeps := true; v_global_null := true; v_global_direct := true |}.

(* ------------------------------------------------------------------------------------------ *)
(* xsl:apply-imports end to end (composition with coq/TmplDefs.v) *)

Section Choice.
  Variable node : Type.
  Variable key_of : node -> nkey.
  Variable pmatch : N -> node -> bool.
  Variable per_alt : bool.
  Variable node_of : N -> node.
  Variable s : sheet.

  (* as coded: findTemplateToTransformChild searches the compiled stylesheet of the rule on top of
     m_currentTemplateStack with onlyUseImports *)
  Definition coded_choice (o : obs) : Prop :=
    match o_ai o, o_cur o with
    | Some (n, mode, ch), Some t =>
        exists cs, csubsheet (compile s) (tr_path t) = Some cs /\
                   ch = option_map t_id (find_template node key_of pmatch per_alt true cs mode (node_of n) true)
    | _, _ => True
    end.

  (* as specified: the section 5.5 choice among the rules imported into the stylesheet of the
     current template rule *)
  Definition specified_choice (o : obs) : Prop :=
    match o_ai o, o_cur o with
    | Some (n, mode, ch), Some t =>
        exists sub r, subsheet s (tr_path t) = Some sub /\
                      spec_choice node pmatch (imported_rules sub) mode (node_of n) r /\ ch = option_map t_id r
    | _, _ => True
    end.
End Choice.

(* ------------------------------------------------------------------------------------------ *)
(* an interpreter of small programs: it builds the execution tree, deciding every
   xsl:apply-imports with the rule on top of the coded stack.  The source document is a table of
   element nodes (node 0 is the root node); patterns are abstract as in TmplDefs *)

Inductive sel := SelChildren | SelSelf.

Inductive instr :=
| SText (k : N)
| SBlock (l : list instr)
| SForEach (s : sel) (l : list instr)
| SCall (name : N) (wp : option (list instr))      (* with one xsl:with-param with content, or without *)
| SApply (s : sel) (mode : option N)
| SImports (site : N)
| SGRef (g : N)                                    (* xsl:value-of select="$g", g a top-level variable with content *)
| SDirect (name : N)                               (* internal: the template of a short-cut, instantiated by the element itself *)
| SRoot.                                           (* internal: StylesheetRoot::process, the rule for the root node *)

Record tdef := { td_ref : tref; td_body : list instr }.

Record program := {
  p_sheet : sheet;                                 (* the match rules, for TmplDefs *)
  p_rules : list (N * tdef);                       (* template id -> stylesheet and body *)
  p_named : list (N * tdef);                       (* name -> template (in any module) *)
  p_globals : list (N * list instr);               (* top-level variables with content *)
  p_children : list (N * list N);                  (* source tree *)
  p_keys : list (N * nkey) }.

Fixpoint assoc {A : Type} (l : list (N * A)) (k : N) : option A :=
  match l with
  | [] => None
  | (k', a) :: r => if N.eqb k k' then Some a else assoc r k
  end.

Definition builtin_ref : tref := {| tr_id := 0; tr_path := [] |}.

(* hasDirectTemplate(): the only child is an xsl:call-template without xsl:with-param *)
Definition direct_of (l : list instr) : option N :=
  match l with [SCall name None] => Some name | _ => None end.

Inductive status := Done | Failed (* NoCurrentTemplate *) | Stuck (* circular variable definition, unknown name *) | OutOfFuel.

(* interpreter state: the coded stacks, the values of the top-level variables evaluated so far, the
   variables being evaluated (VariablesStack::m_guardStack) *)
Record xst := { x_st : st; x_vals : list (N * list N); x_guard : list N }.
Definition xres := (xst * list inst * list N * status)%type.    (* state, instances, text written, status *)

Definition with_st (x : xst) (s : st) : xst := {| x_st := s; x_vals := x_vals x; x_guard := x_guard x |}.

Section Exec.
  Variable v : variant.
  Variable per_alt : bool.
  Variable pmatch : N -> N -> bool.
  Variable p : program.

  Definition key_of_node (n : N) : nkey := match assoc (p_keys p) n with Some k => k | None => KOther end.
  Definition kids_of (n : N) : list N := match assoc (p_children p) n with Some l => l | None => [] end.
  Definition cs_root : csheet := compile (p_sheet p).

  (* findTemplateToTransformChild *)
  Definition find_from (only_imports : bool) (c : cur) (mode : option N) (n : N) : option N :=
    let start := if only_imports
                 then match c with
                      | Some t => csubsheet cs_root (tr_path t)
                      | None => None
                      end
                 else Some cs_root in
    match start with
    | Some cs => option_map t_id (find_template N key_of_node pmatch per_alt true cs mode n only_imports)
    | None => None
    end.
  Definition find (only_imports : bool) (x : xst) : option N -> N -> option N :=
    find_from only_imports (top (x_st x)).

  Definition seq (f : xst -> xres) (g : xst -> xres) (x : xst) : xres :=
    match f x with
    | (x1, t1, o1, Done) => match g x1 with (x2, t2, o2, stt) => (x2, t1 ++ t2, o1 ++ o2, stt) end
    | r => r
    end.
  Definition xret (x : xst) : xres := (x, [], [], Done).
  Definition xfail (x : xst) : xres := (x, [], [], Stuck).
  Definition seq_list {A : Type} (f : A -> xst -> xres) : list A -> xst -> xres :=
    fix go (l : list A) (x : xst) : xres :=
      match l with
      | [] => xret x
      | a :: r => seq (f a) (go r) x
      end.
  (* wrap the instances produced by [f] into one node *)
  Definition wrap (mk : list inst -> inst) (f : xst -> xres) (x : xst) : xres :=
    match f x with (x1, t1, o1, stt) => (x1, [mk t1], o1, stt) end.
  Definition upd (f : st -> st) (x : xst) : xres := xret (with_st x (f (x_st x))).

  Fixpoint exec (fuel : nat) (mode : option N) (n : N) (i : instr) (x : xst) {struct fuel} : xres :=
    match fuel with
    | O => (x, [], [], OutOfFuel)
    | S fuel' =>
      (* the children of an element for node [n'] (begin/endExecuteChildren) *)
      let kids (mk : bool -> list inst -> inst) (mode' : option N) (n' : N) (l : list instr) : xst -> xres :=
        match direct_of l with
        | Some name => wrap (mk true) (seq (upd (push_i InvDirect)) (seq (exec fuel' mode' n' (SDirect name)) (upd pop_i)))
        | None => wrap (mk false) (seq_list (exec fuel' mode' n') l)
        end in
      (* a template instance (ElemTemplate::startElement .. endElement) for node [n'] in [mode'] *)
      let template (mode' : option N) (n' : N) (td : tdef) : xst -> xres :=
        match direct_of (td_body td) with
        | Some name =>
            wrap (ITemplate (td_ref td) true)
              (seq (upd (fun s => push_i InvDirect (tmpl_start v (td_ref td) s)))
              (seq (exec fuel' mode' n' (SDirect name)) (upd (fun s => pop_i (pop_t s)))))
        | None =>
            wrap (ITemplate (td_ref td) false)
              (seq (upd (tmpl_start v (td_ref td))) (seq (seq_list (exec fuel' mode' n') (td_body td)) (upd pop_t)))
        end in
      (* the built-in rule for elements and the root: a template whose content is xsl:apply-templates *)
      let instantiate (mode' : option N) (n' : N) (ch : option N) : xst -> xres :=
        match ch with
        | Some tid => match assoc (p_rules p) tid with
                      | Some td => template mode' n' td
                      | None => xfail
                      end
        | None => match key_of_node n' with
                  | KElem _ | KRoot => template mode' n' {| td_ref := builtin_ref; td_body := [SApply SelChildren mode'] |}
                  | _ => xret
                  end
        end in
      let nodes_of (sl : sel) : list N := match sl with SelChildren => kids_of n | SelSelf => [n] end in
      match i with
      | SText k => (x, [IText k], [k], Done)
      | SBlock l => kids IBlock mode n l x
      | SForEach sl l =>
          wrap (fun t => IForEach [] t)
            (seq (upd (push_t None)) (seq (seq_list (fun n' => kids IBlock mode n' l) (nodes_of sl)) (upd pop_t))) x
      | SDirect name =>
          match assoc (p_named p) name with
          | Some td => template mode n td x
          | None => xfail x
          end
      | SCall name wp =>
          match assoc (p_named p) name with
          | None => xfail x
          | Some td =>
              let ps := match wp with Some l => exec fuel' mode n (SBlock l) | None => xret end in
              match seq (upd (push_i InvCall)) ps x with
              | (x1, tp, o1, Done) =>
                  match seq (template mode n td) (upd pop_i) x1 with
                  | (x2, callee, o2, stt) => (x2, [ICall tp callee], o1 ++ o2, stt)
                  end
              | (x1, tp, o1, stt) => (x1, [ICall tp []], o1, stt)
              end
          end
      | SApply sl m =>
          wrap (IApply [])
            (seq (upd (push_i InvOther))
            (seq (seq_list (fun n' x' => instantiate m n' (find false x' m n') x') (nodes_of sl)) (upd pop_i))) x
      | SRoot => instantiate mode n (find false x mode n) x
      | SImports site =>
          match top (x_st x) with
          | None => (x, [IImports site n mode None []], [], Failed)
          | Some _ =>
              let ch := find true x mode n in
              match seq (upd (push_i InvOther)) (seq (instantiate mode n ch) (upd pop_i)) x with
              | (x1, t1, o1, stt) => (x1, [IImports site n mode ch t1], o1, stt)
              end
          end
      | SGRef g =>
          match assoc (x_vals x) g with
          | Some txt => (x, map IText txt, txt, Done)
          | None =>
              if existsb (N.eqb g) (x_guard x) then xfail x                       (* CircularVariableDefWasDetected *)
              else
                match assoc (p_globals p) g with
                | None => xfail x
                | Some l =>
                    let x0 := {| x_st := x_st x; x_vals := x_vals x; x_guard := g :: x_guard x |} in
                    let pre (s : st) : st := if v_global_null v then push_t None s else s in
                    let post (s : st) : st := if v_global_null v then pop_t s else s in
                    let r :=
                      match direct_of l with
                      | Some name =>
                          wrap (IGlobal true)
                            (seq (upd (fun s => push_i (if v_global_direct v then InvCall else InvNull) (push_i InvDirect (pre s))))
                            (seq (exec fuel' mode 0%N (SDirect name)) (upd (fun s => post (pop_i (pop_i s)))))) x0
                      | None =>
                          wrap (IGlobal false)
                            (seq (upd pre)
                            (seq (seq_list (fun c => seq (upd (push_i InvOther)) (seq (exec fuel' mode 0%N c) (upd pop_i))) l)
                                 (upd post))) x0
                      end in
                    match r with
                    | (x1, t1, o1, Done) =>
                        ({| x_st := x_st x1; x_vals := (g, o1) :: x_vals x1; x_guard := x_guard x |}, t1, o1, Done)
                    | other => other
                    end
                end
          end
      end
    end.

  (* StylesheetRoot::process: reset(); the rule for the root node, through execute() *)
  Definition run (fuel : nat) : xres :=
    seq (upd (push_i InvNull)) (seq (exec fuel None 0%N SRoot) (upd pop_i))
        {| x_st := st_reset; x_vals := []; x_guard := [] |}.

  (* the decisions recorded in a tree against the stack the walk reconstructs *)
  Definition coded_choice_b (o : obs) : bool :=
    match o_ai o with
    | Some (n, mode, ch) =>
        match o_cur o with
        | Some _ => match ch, find_from true (o_cur o) mode n with
                    | Some a, Some b => N.eqb a b
                    | None, None => true
                    | _, _ => false
                    end
        | None => true
        end
    | None => true
    end.
End Exec.
