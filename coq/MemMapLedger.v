(* MemMapLedger.v — XalanMap ledger model: the ownership invariant (every block the manager has outstanding is the
   bucket table, a bucket's storage, a head node, an entry node or an entry's value block - of this map or the other
   one) over all histories of insert / erase / clear / operator= / swap on two maps with a refusal anywhere. *)
From Coq Require Import List Arith Bool Lia Permutation.
Require Import XV.GenCont XV.GenMem XV.MemDefs XV.MemModel XV.MemListModel XV.MemMapDefs XV.MemMapModel.
Import ListNotations.

Definition olist (o : option nat) : list nat := match o with Some x => [x] | None => [] end.
Definition bkowned (bs : list bucket) : list (nat * mgr) := concat (map (fun b => vowned (bvec b)) bs).
Definition entry_ids (es : list mentry) : list nat := map enode es ++ map evalue es.
Definition mowned (x : xmap) : list (nat * mgr) :=
  vowned (mtab x) ++ bkowned (mbuckets x) ++
  tagm (mmgr x) (olist (mehead x) ++ olist (mfhead x) ++ entry_ids (mentries x) ++ entry_ids (mfrees x)).

Definition vwfm (m : mgr) (v : vec) : Prop := vwf v /\ vm v = m.
Definition bwf (m : mgr) (b : bucket) : Prop := vwfm m (bvec b) /\ length (brefs b) = vsize (bvec b).

Definition mwf (x : xmap) : Prop :=
  vwfm (mmgr x) (mtab x) /\ Forall (bwf (mmgr x)) (mbuckets x) /\
  length (mbuckets x) = vsize (mtab x) /\ msize x = length (mentries x) /\
  (mentries x <> [] -> mehead x <> None) /\
  (mentries x <> [] \/ mfrees x <> [] -> mfhead x <> None /\ vsize (mtab x) <> 0) /\
  0 < mminb x.

Lemma linv_nodup : forall r h, linv r h -> NoDup (map fst r).
Proof.
  intros r h [[ND _] [P _]]. eapply Permutation_NoDup; [apply Permutation_map; exact P | exact ND].
Qed.

Lemma vec_insert_end_size : forall tag v n h h1 v1, vwf v -> vec_insert_end tag v n h = (h1, v1, true) ->
  vsize v1 = vsize v + n.
Proof.
  intros tag v n h h1 v1 W H. unfold vec_insert_end in H.
  destruct (vec_reserve tag v (vsize v + n) h) as [[h2 v2] ok2] eqn:R.
  destruct ok2; inversion H; subst. cbn. f_equal.
  unfold vec_reserve in R. destruct (vcap v <? vsize v + n).
  - unfold vec_realloc in R. destruct (vec_copy tag v (vm v) (vsize v + n) h) as [h3 [t|]] eqn:C; [|inversion R].
    unfold vec_copy in C. destruct (vec_new tag (vm v) (Nat.max (vsize v) (vsize v + n)) h) as [h4 [t0|]] eqn:N; inversion C; subst.
    cbn in R. inversion R; subst. cbn. lia.
  - inversion R; subst; auto.
Qed.

Lemma bkowned_app : forall a b, bkowned (a ++ b) = bkowned a ++ bkowned b.
Proof. intros; unfold bkowned. rewrite map_app, concat_app. reflexivity. Qed.

Lemma bkowned_repeat : forall m n, bkowned (repeat (bucket0 m) n) = [].
Proof. intros m n; induction n; cbn; auto. Qed.

Lemma repeat_bwf : forall m n, Forall (bwf m) (repeat (bucket0 m) n).
Proof. intros m n; induction n; cbn; constructor; auto. split; [split; [apply vwf_empty | reflexivity] | reflexivity]. Qed.

Lemma nth_split_upd : forall (A : Type) (i : nat) (l : list A) (d : A), i < length l ->
  exists l1 l2, l = l1 ++ nth i l d :: l2 /\ (forall f, upd_nth i f l = l1 ++ f (nth i l d) :: l2).
Proof.
  intros A i; induction i as [|i IH]; intros [|a t] d L; cbn in L; try lia.
  - exists [], t. cbn. auto.
  - destruct (IH t d ltac:(lia)) as [l1 [l2 [E1 E2]]].
    exists (a :: l1), l2. cbn. rewrite <- E1. split; auto. intros f. rewrite E2. reflexivity.
Qed.

Lemma upd_nth_length : forall (A : Type) (i : nat) (f : A -> A) (l : list A), length (upd_nth i f l) = length l.
Proof. intros A i f l; revert i; induction l as [|a t IH]; intros [|i]; cbn; auto. Qed.

Lemma bucket_push_spec : forall m b nd h h1 b1 ok F, bwf m b -> linv (vowned (bvec b) ++ F) h ->
  bucket_push b nd h = (h1, b1, ok) ->
  linv (vowned (bvec b1) ++ F) h1 /\ bwf m b1 /\ (ok = false -> b1 = b /\ live h1 = live h).
Proof.
  intros m b nd h h1 b1 ok F [[W M] Lr] I H. unfold bucket_push in H.
  destruct (vec_push TAG_BREF (bvec b) h) as [[h2 v2] ok2] eqn:P.
  pose proof (vec_push_spec _ _ _ _ _ _ _ W I P) as [[I2 [W2 [M2 T2]]] S2].
  inversion H; subst; clear H. destruct ok.
  - cbn. split; auto. split; [split; [split; cbn; congruence|] | discriminate].
    cbn. rewrite app_length, (S2 eq_refl). cbn. lia.
  - destruct (T2 eq_refl) as [-> L]. split; auto. split; [split; [split; auto | auto] | auto].
Qed.

Lemma buckets_dtor_spec : forall m bs h F, Forall (bwf m) bs -> linv (bkowned bs ++ F) h -> linv F (buckets_dtor bs h).
Proof.
  intros m bs; induction bs as [|b r IH]; intros h F W I; cbn in *; auto.
  inversion W; subst. apply IH; auto. apply vec_dtor_spec; [apply H1|].
  unfold bkowned in I. cbn in I. rewrite <- app_assoc in I. exact I.
Qed.

Lemma bkowned_split : forall bs l1 b l2 F, bs = l1 ++ b :: l2 ->
  Permutation (vowned (bvec b) ++ bkowned l1 ++ bkowned l2 ++ F) (bkowned bs ++ F).
Proof.
  intros bs l1 b l2 F ->. rewrite bkowned_app. change (bkowned (b :: l2)) with (vowned (bvec b) ++ bkowned l2). permp.
Qed.

Lemma rehash_fill_spec : forall m es n bs h h1 bs1 ok F, 0 < n -> length bs = n -> Forall (bwf m) bs ->
  linv (bkowned bs ++ F) h -> rehash_fill es n bs h = (h1, bs1, ok) ->
  length bs1 = n /\ Forall (bwf m) bs1 /\ linv (bkowned bs1 ++ F) h1.
Proof.
  intros m es; induction es as [|e r IH]; intros n bs h h1 bs1 ok F N L W I H; cbn in H.
  - inversion H; subst; auto.
  - assert (IL : ekey e mod n < length bs) by (rewrite L; apply Nat.mod_upper_bound; lia).
    destruct (nth_split_upd _ _ bs (bucket0 0) IL) as [l1 [l2 [E1 E2]]].
    remember (nth (ekey e mod n) bs (bucket0 0)) as b eqn:Eb.
    assert (Wb : bwf m b).
    { rewrite E1 in W. apply Forall_app in W. destruct W as [_ W]. inversion W; auto. }
    destruct (bucket_push b (enode e) h) as [[h2 b2] ok2] eqn:P.
    assert (I' : linv (vowned (bvec b) ++ (bkowned l1 ++ bkowned l2 ++ F)) h).
    { eapply linv_perm; [|exact I]. apply Permutation_sym. apply (bkowned_split _ _ _ _ _ E1). }
    pose proof (bucket_push_spec _ _ _ _ _ _ _ _ Wb I' P) as [I2 [W2 T2]].
    destruct ok2.
    + eapply IH in H; eauto.
      * rewrite upd_nth_length. exact L.
      * rewrite E2. rewrite E1 in W. apply Forall_app in W. destruct W as [Wa Wc].
        inversion Wc; subst. apply Forall_app. split; auto.
      * eapply linv_perm; [|exact I2]. apply (bkowned_split _ _ _ _ _ (E2 (fun _ => b2))).
    + destruct (T2 eq_refl) as [-> Lv]. inversion H; subst. split; auto. split; auto.
      eapply linv_perm; [|exact I2]. apply (bkowned_split _ _ _ _ _ E1).
Qed.

Definition mrest (x : xmap) : list (nat * mgr) :=
  tagm (mmgr x) (olist (mehead x) ++ olist (mfhead x) ++ entry_ids (mentries x) ++ entry_ids (mfrees x)).

Lemma mowned_eq : forall x, mowned x = vowned (mtab x) ++ bkowned (mbuckets x) ++ mrest x.
Proof. reflexivity. Qed.

(* everything but the bucket table *)
Definition mcore (x : xmap) := (mmgr x, msize x, mehead x, mfhead x, mentries x, mfrees x, (mec x, mthr x, mminb x)).

Lemma grow_pos : forall n, 0 < n -> 0 < n * map_grow_num / map_grow_den.
Proof.
  intros n H. unfold map_grow_num, map_grow_den. apply Nat.div_le_lower_bound; lia.
Qed.

Lemma mwf_set_tab : forall x t bs, mwf x -> vwf t -> vm t = mmgr x -> Forall (bwf (mmgr x)) bs ->
  length bs = vsize t -> vsize t <> 0 -> mwf (set_tab x t bs).
Proof.
  intros x t bs [Wt [Wb [Wl [Ws [We [Wf Wm]]]]]] Vt Mt Fb Lb Nz. unfold mwf. cbn.
  split; [split; auto|]. split; auto. split; auto. split; auto. split; auto. split; auto.
  intros X. split; auto. apply Wf; auto.
Qed.

Lemma rehash_spec : forall x h h1 x1 ok F, mwf x -> 0 < msize x -> linv (mowned x ++ F) h ->
  rehash x h = (h1, x1, ok) ->
  mwf x1 /\ linv (mowned x1 ++ F) h1 /\ mcore x1 = mcore x /\ (ok = false -> x1 = x) /\
  (vsize (mtab x) <> 0 -> vsize (mtab x1) <> 0).
Proof.
  intros x h h1 x1 ok F W SZ I H. unfold rehash in H.
  pose proof (grow_pos _ SZ) as NP. set (n := msize x * map_grow_num / map_grow_den) in *.
  destruct (vec_insert_end TAG_BUCKET (vempty (mmgr x)) n h) as [[h2 t] ok2] eqn:VI.
  assert (I0 : linv (vowned (vempty (mmgr x)) ++ (mowned x ++ F)) h) by exact I.
  pose proof (vec_insert_end_spec _ _ _ _ _ _ _ _ (vwf_empty _) I0 VI) as [I2 [Wt [Mt Tt]]].
  destruct ok2.
  2:{ inversion H; subst. destruct (Tt eq_refl) as [-> _]. sp; auto. }
  assert (St : vsize t = n) by (rewrite (vec_insert_end_size _ _ _ _ _ _ (vwf_empty _) VI); reflexivity). cbn in Mt.
  destruct (rehash_fill (mentries x) n (repeat (bucket0 (mmgr x)) n) h2) as [[h3 bs] ok3] eqn:RF.
  assert (I2' : linv (bkowned (repeat (bucket0 (mmgr x)) n) ++ (vowned t ++ mowned x ++ F)) h2).
  { rewrite bkowned_repeat. exact I2. }
  pose proof (rehash_fill_spec _ _ _ _ _ _ _ _ _ NP (repeat_length _ _) (repeat_bwf _ _) I2' RF) as [Lb [Wb I3]].
  destruct ok3; inversion H; subst; clear H.
  - split; [apply mwf_set_tab; auto; try lia|]. split; [|split; [reflexivity | split; [discriminate | cbn; lia]]].
    destruct W as [[Wtab _] [Wbk _]].
    rewrite mowned_eq. cbn [mtab mbuckets set_tab]. change (mrest (set_tab x t bs)) with (mrest x).
    apply vec_dtor_spec; [exact Wtab|]. eapply buckets_dtor_spec; [exact Wbk|].
    eapply linv_perm; [|exact I3]. rewrite mowned_eq. permp.
  - split; auto. split; [|sp; auto].
    apply vec_dtor_spec; [exact Wt|]. eapply buckets_dtor_spec; [exact Wb|]. exact I3.
Qed.

Lemma get_ehead_spec : forall m hd h h1 hd1 ok F, linv (tagm m (olist hd) ++ F) h -> get_ehead m hd h = (h1, hd1, ok) ->
  linv (tagm m (olist hd1) ++ F) h1 /\ (ok = true -> hd1 <> None) /\ (ok = false -> hd1 = hd) /\ (hd <> None -> hd1 = hd).
Proof.
  intros m hd h h1 hd1 ok F I H. unfold get_ehead in H. destruct hd as [x|].
  - inversion H; subst. sp; auto; discriminate.
  - destruct (alloc m TAG_MNODE 1 h) as [h2 [id|]] eqn:A; inversion H; subst; sp; auto; try discriminate; try tauto.
    + cbn in *. eapply linv_alloc; eauto.
    + eapply linv_throw; eauto.
Qed.

(* stage 1 of doCreateEntry: the initial bucket table *)
Lemma create_table_spec : forall x h h1 x1 ok F, mwf x -> linv (mowned x ++ F) h ->
  (if vsize (mtab x) =? 0 then
      match vec_insert_end TAG_BUCKET (mtab x) (mminb x) h with
      | (h1, t, true) => (h1, set_tab x t (repeat (bucket0 (mmgr x)) (mminb x)), true)
      | (h1, _, false) => (h1, x, false)
      end
    else (h, x, true)) = (h1, x1, ok) ->
  mwf x1 /\ linv (mowned x1 ++ F) h1 /\ mcore x1 = mcore x /\ (ok = false -> x1 = x) /\ (ok = true -> vsize (mtab x1) <> 0).
Proof.
  intros x h h1 x1 ok F W I H. destruct (vsize (mtab x) =? 0) eqn:Z.
  2:{ inversion H; subst. apply Nat.eqb_neq in Z. sp; auto; discriminate. }
  apply Nat.eqb_eq in Z. pose proof W as [[Wt Mt] [Wb [Wl [Ws [We [Wf Wm]]]]]]. cbn in Wt, Mt.
  assert (B0 : mbuckets x = []) by (destruct (mbuckets x); [auto | cbn in Wl; lia]).
  destruct (vec_insert_end TAG_BUCKET (mtab x) (mminb x) h) as [[h2 t] ok2] eqn:VI.
  rewrite mowned_eq, <- app_assoc in I.
  pose proof (vec_insert_end_spec _ _ _ _ _ _ _ _ Wt I VI) as [I2 [Wt2 [Mt2 Tt]]].
  destruct ok2; inversion H; subst; clear H.
  - pose proof (vec_insert_end_size _ _ _ _ _ _ Wt VI) as St.
    assert (NZ : vsize t <> 0) by lia.
    split; [apply mwf_set_tab; auto; try congruence; try apply repeat_bwf; rewrite repeat_length; lia|].
    split; [|sp; auto; discriminate].
    rewrite mowned_eq. cbn [mtab mbuckets set_tab]. change (mrest (set_tab x t (repeat (bucket0 (mmgr x)) (mminb x)))) with (mrest x).
    rewrite bkowned_repeat. rewrite B0 in I2. rewrite <- app_assoc. exact I2.
  - destruct (Tt eq_refl) as [-> _]. sp; auto; try discriminate. rewrite mowned_eq, <- app_assoc. exact I2.
Qed.

(* stages 4 and 5-6 of doCreateEntry, as functions of their own (create_entry_stages: definitional unfolding) *)
Definition ce_free (ge : bool) (x3 : xmap) (h3 : heap) : heap * xmap * bool :=
    match mfrees x3 with
    | _ :: _ => (h3, x3, true)
    | [] =>
        match alloc (mmgr x3) TAG_MVALUE 1 h3 with
        | (h4, None) => (h4, x3, false)
        | (h4, Some v) =>
            match get_ehead (mmgr x3) (mfhead x3) h4 with
            | (h4', fh', false) => (if ge then free (mmgr x3) v h4' else h4', x3, false)
            | (h4', fh', true) =>
                match alloc (mmgr x3) TAG_MNODE 1 h4' with
                | (h5, None) => (if ge then free (mmgr x3) v h5 else h5,
                                 set_lists x3 (msize x3) (mehead x3) fh' (mentries x3) (mfrees x3), false)
                | (h5, Some nd) =>
                    (h5, set_lists x3 (msize x3) (mehead x3) fh' (mentries x3) [mkentry nd v 0 false], true)
                end
            end
        end
    end.

Definition ce_link (x4 : xmap) (k idx : nat) (h4 : heap) : heap * xmap * bool :=
  let e0 := last (mfrees x4) (mkentry 0 0 0 false) in
  let e := mkentry (enode e0) (evalue e0) k false in
  let fr := removelast (mfrees x4) in
  let '(h5, eh, ok5) := get_ehead (mmgr x4) (mehead x4) h4 in
  if negb ok5 then (h5, set_lists x4 (msize x4) eh (mfhead x4) (mentries x4) (fr ++ [e]), false) else
  let x5 := set_lists x4 (msize x4) eh (mfhead x4) (mentries x4 ++ [e]) fr in
  let '(h6, b6, ok6) := bucket_push (nth idx (mbuckets x5) (bucket0 0)) (enode e) h5 in
  if negb ok6 then
    (h6, set_lists x4 (msize x4) eh (mfhead x4) (mentries x4) (fr ++ [mkentry (enode e) (evalue e) k true]), false)
  else
  let x6 := set_tab x5 (mtab x5) (upd_nth idx (fun _ => b6) (mbuckets x5)) in
  (h6, set_lists x6 (S (msize x6)) (mehead x6) (mfhead x6) (mentries x6) (mfrees x6), true).

Lemma create_entry_stages : forall ge x k h, create_entry ge x k h =
  let '(h1, x1, ok1) :=
    if vsize (mtab x) =? 0 then
      match vec_insert_end TAG_BUCKET (mtab x) (mminb x) h with
      | (h1, t, true) => (h1, set_tab x t (repeat (bucket0 (mmgr x)) (mminb x)), true)
      | (h1, _, false) => (h1, x, false)
      end
    else (h, x, true) in
  if negb ok1 then (h1, x1, false) else
  let '(h2, x2, ok2) :=
    if vsize (mtab x1) <? msize x1 * map_default_lf_num / map_default_lf_den then rehash x1 h1 else (h1, x1, true) in
  if negb ok2 then (h2, x2, false) else
  let '(h4, x4, ok4) := ce_free ge (set_lists x2 (msize x2) (mehead x2) (mfhead x2) (mentries x2) (mfrees x2)) h2 in
  if negb ok4 then (h4, x4, false) else ce_link x4 k (k mod (vsize (mtab x2))) h4.
Proof. reflexivity. Qed.

Definition mfix (x : xmap) := (mmgr x, msize x, mehead x, mentries x, mtab x, mbuckets x, mminb x).

Ltac lperm H := unfold bkowned in *; eapply linv_perm; [|exact H]; unfold entry_ids, olist; rewrite ?map_app; cbn [map app enode evalue]; permp.

Ltac fin := unfold mwf, mfix, bwf, vwfm; try rewrite mowned_eq; unfold mrest; cbn; sp; auto; try discriminate; try (intros; discriminate).

Lemma ce_free_spec : forall x h h1 x1 ok F, mwf x -> vsize (mtab x) <> 0 -> linv (mowned x ++ F) h ->
  ce_free true x h = (h1, x1, ok) ->
  mwf x1 /\ linv (mowned x1 ++ F) h1 /\ mfix x1 = mfix x /\ (ok = true -> mfrees x1 <> []).
Proof.
  intros x h h1 x1 ok F W NZ I H.
  destruct x as [m sz eh fh es fs tab bks ec thr minb].
  destruct W as [[Wt Mt] [Wbk [Wl [Ws [We [Wf Wm]]]]]]. rewrite mowned_eq in I. unfold mrest in I.
  unfold ce_free in H. cbn [mmgr msize mehead mfhead mentries mfrees mtab mbuckets mec mthr mminb bvec] in *.
  destruct fs as [|f0 fr0].
  2:{ inversion H; subst x1 h1 ok. fin. }
  destruct (alloc m TAG_MVALUE 1 h) as [h2 [v|]] eqn:A1.
  2:{ inversion H; subst x1 h1 ok. fin. eapply linv_throw; eauto. }
  pose proof (linv_alloc _ _ _ _ _ _ _ I A1) as I2.
  destruct (get_ehead m fh h2) as [[h3 fh'] ok3] eqn:G.
  set (R := (v, m) :: vowned tab ++ bkowned bks ++ tagm m (olist eh ++ entry_ids es) ++ F).
  assert (I2' : linv (tagm m (olist fh) ++ R) h2) by (unfold R; lperm I2).
  pose proof (get_ehead_spec _ _ _ _ _ _ _ I2' G) as [I3 [S3 [N3 K3]]].
  destruct ok3.
  2:{ inversion H; subst x1 h1 ok. rewrite (N3 eq_refl) in *. fin.
      apply linv_free. unfold R in I3. lperm I3. }
  specialize (S3 eq_refl).
  assert (FH : es <> [] -> fh' <> None /\ vsize tab <> 0) by (intros X; split; auto).
  destruct (alloc m TAG_MNODE 1 h3) as [h4 [nd|]] eqn:A2; inversion H; subst x1 h1 ok; clear H.
  - pose proof (linv_alloc _ _ _ _ _ _ _ I3 A2) as I4. fin.
    all: try (intros [X|X]; auto; contradiction).
    unfold R in I4. lperm I4.
  - pose proof (linv_throw _ _ _ _ _ _ I3 A2) as I4. fin.
    all: try (intros [X|X]; auto; contradiction).
    apply linv_free. unfold R in I4. lperm I4.
Qed.

Lemma ce_link_spec : forall x k idx h h1 x1 ok F, mwf x -> mfrees x <> [] -> idx < length (mbuckets x) ->
  linv (mowned x ++ F) h -> ce_link x k idx h = (h1, x1, ok) ->
  mwf x1 /\ linv (mowned x1 ++ F) h1 /\ mmgr x1 = mmgr x /\ mminb x1 = mminb x /\
  (ok = false -> mentries x1 = mentries x /\ msize x1 = msize x).
Proof.
  intros x k idx h h1 x1 ok F W NE IL I H.
  destruct x as [m sz eh fh es fs tab bks ec thr minb].
  destruct W as [[Wt Mt] [Wbk [Wl [Ws [We [Wf Wm]]]]]]. rewrite mowned_eq in I. unfold mrest in I.
  unfold ce_link in H. cbn [mmgr msize mehead mfhead mentries mfrees mtab mbuckets mec mthr mminb bvec set_lists set_tab] in *.
  destruct (exists_last NE) as [fr [e0 Efs]]. subst fs.
  rewrite last_last, removelast_last in H.
  destruct (Wf (or_intror NE)) as [FH NZ].
  destruct (get_ehead m eh h) as [[h2 eh'] ok2] eqn:G.
  set (R := vowned tab ++ bkowned bks ++ tagm m (olist fh ++ entry_ids es ++ entry_ids (fr ++ [e0])) ++ F).
  assert (I' : linv (tagm m (olist eh) ++ R) h) by (unfold R; lperm I).
  pose proof (get_ehead_spec _ _ _ _ _ _ _ I' G) as [I2 [S2 [N2 K2]]].
  destruct ok2; cbn [negb] in H.
  2:{ inversion H; subst x1 h1 ok. rewrite (N2 eq_refl) in *. fin.
      all: try (intros [X|X]; auto; contradiction).
      unfold R in I2. lperm I2. }
  specialize (S2 eq_refl). cbv zeta in H.
  cbn [mmgr msize mehead mfhead mentries mfrees mtab mbuckets mec mthr mminb set_lists set_tab enode evalue ekey eerased] in H.
  destruct (nth_split_upd _ _ bks (bucket0 0) IL) as [l1 [l2 [E1 E2]]].
  remember (nth idx bks (bucket0 0)) as b eqn:Eb.
  assert (Wb : bwf m b).
  { rewrite E1 in Wbk. apply Forall_app in Wbk. destruct Wbk as [_ Wbk]. inversion Wbk; auto. }
  destruct (bucket_push b (enode e0) h2) as [[h3 b3] ok3] eqn:P.
  set (R2 := tagm m (olist eh' ++ olist fh ++ entry_ids es ++ entry_ids (fr ++ [e0])) ++ vowned tab ++ F).
  assert (I2' : linv (vowned (bvec b) ++ (bkowned l1 ++ bkowned l2 ++ R2)) h2).
  { eapply linv_perm; [apply Permutation_sym; apply (bkowned_split _ _ _ _ _ E1)|]. unfold R2. unfold R in I2. lperm I2. }
  pose proof (bucket_push_spec _ _ _ _ _ _ _ _ Wb I2' P) as [I3 [W3 T3]].
  destruct ok3; cbn [negb] in H; inversion H; subst x1 h1 ok; clear H.
  - pose proof (linv_perm _ _ _ (bkowned_split _ _ _ _ _ (E2 (fun _ => b3))) I3) as I4.
    fin.
    all: try (intros [X|X]; auto; contradiction).
    + rewrite E2. rewrite E1 in Wbk. apply Forall_app in Wbk. destruct Wbk as [Wa Wc].
      inversion Wc; subst. apply Forall_app. split; auto.
    + rewrite upd_nth_length. exact Wl.
    + rewrite app_length. cbn. lia.
    + unfold R2 in I4. lperm I4.
  - destruct (T3 eq_refl) as [-> _].
    pose proof (linv_perm _ _ _ (bkowned_split _ _ _ _ _ E1) I3) as I4.
    fin.
    all: try (intros [X|X]; auto; contradiction).
    unfold R2 in I4. lperm I4.
Qed.

Lemma create_entry_spec : forall x k h h1 x1 ok F, mwf x -> linv (mowned x ++ F) h ->
  create_entry true x k h = (h1, x1, ok) ->
  mwf x1 /\ linv (mowned x1 ++ F) h1 /\ mmgr x1 = mmgr x /\ mminb x1 = mminb x /\
  (ok = false -> mentries x1 = mentries x /\ msize x1 = msize x).
Proof.
  intros x k h h1 x1 ok F W I H. rewrite create_entry_stages in H.
  destruct (if vsize (mtab x) =? 0 then _ else _) as [[ha xa] oka] eqn:E1.
  pose proof (create_table_spec _ _ _ _ _ _ W I E1) as [Wa [Ia [Ca [Fa Za]]]].
  destruct oka; cbn [negb] in H.
  2:{ inversion H; subst. pose proof (Fa eq_refl); subst. sp; auto. }
  specialize (Za eq_refl). clear E1 Fa.
  destruct (if vsize (mtab xa) <? _ then _ else _) as [[hb xb] okb] eqn:E2.
  assert (R2 : mwf xb /\ linv (mowned xb ++ F) hb /\ mcore xb = mcore xa /\ (okb = false -> xb = xa) /\ vsize (mtab xb) <> 0).
  { destruct (vsize (mtab xa) <? msize xa * map_default_lf_num / map_default_lf_den) eqn:LT.
    - assert (SZ : 0 < msize xa).
      { apply Nat.ltb_lt in LT. destruct (msize xa); [cbn in LT; lia | lia]. }
      pose proof (rehash_spec _ _ _ _ _ _ Wa SZ Ia E2) as [A [B [C [D E]]]]. sp; auto.
    - inversion E2; subst. sp; auto. }
  destruct R2 as [Wb [Ib [Cb [Fb Zb]]]].
  assert (Cx : mcore xb = mcore x) by congruence. unfold mcore in Cx. inversion Cx as [[C1 C2 C3 C4 C5 C6 C7 C8 C9]].
  destruct okb; cbn [negb] in H.
  2:{ inversion H; subst. sp; auto. }
  set (x3 := set_lists xb (msize xb) (mehead xb) (mfhead xb) (mentries xb) (mfrees xb)) in *.
  assert (W3 : mwf x3) by exact Wb.
  assert (I3 : linv (mowned x3 ++ F) hb) by exact Ib.
  destruct (ce_free true x3 hb) as [[h4 x4] ok4] eqn:CF.
  pose proof (ce_free_spec _ _ _ _ _ _ W3 Zb I3 CF) as [W4 [I4 [X4 N4]]].
  unfold mfix in X4. inversion X4 as [[D1 D2 D3 D4 D5 D6 D7]]. cbn in D1, D2, D3, D4, D5, D6, D7.
  destruct ok4; cbn [negb] in H.
  2:{ inversion H; subst. sp; auto; try congruence. }
  assert (IL : k mod vsize (mtab xb) < length (mbuckets x4)).
  { rewrite D6. destruct Wb as [_ [_ [Wl _]]]. rewrite Wl. apply Nat.mod_upper_bound. exact Zb. }
  pose proof (ce_link_spec _ _ _ _ _ _ _ _ W4 (N4 eq_refl) IL I4 H) as [W5 [I5 [M5 [B5 T5]]]].
  sp; auto; try congruence.
Qed.

Definition mnoeh (x : xmap) := (mmgr x, msize x, mfhead x, mentries x, mfrees x, mtab x, mbuckets x, (mec x, mthr x, mminb x)).

Lemma with_ehead_spec : forall x h h1 x1 ok F, mwf x -> linv (mowned x ++ F) h -> with_ehead x h = (h1, x1, ok) ->
  mwf x1 /\ linv (mowned x1 ++ F) h1 /\ mnoeh x1 = mnoeh x.
Proof.
  intros x h h1 x1 ok F W I H.
  destruct x as [m sz eh fh es fs tab bks ec thr minb].
  destruct W as [[Wt Mt] [Wbk [Wl [Ws [We [Wf Wm]]]]]]. rewrite mowned_eq in I. unfold mrest in I.
  unfold with_ehead in H. cbn [mmgr msize mehead mfhead mentries mfrees mtab mbuckets mec mthr mminb bvec set_lists] in *.
  destruct (get_ehead m eh h) as [[h2 eh'] ok2] eqn:G.
  set (R := vowned tab ++ bkowned bks ++ tagm m (olist fh ++ entry_ids es ++ entry_ids fs) ++ F).
  assert (I' : linv (tagm m (olist eh) ++ R) h) by (unfold R; lperm I).
  pose proof (get_ehead_spec _ _ _ _ _ _ _ I' G) as [I2 [S2 [N2 K2]]].
  inversion H; subst x1 h1 ok; clear H. unfold mnoeh. fin.
  - intros X. rewrite (K2 (We X)). auto.
  - unfold R in I2. lperm I2.
Qed.

Lemma map_insert_spec : forall x k h h1 x1 ok F, mwf x -> linv (mowned x ++ F) h ->
  map_insert true x k h = (h1, x1, ok) ->
  mwf x1 /\ linv (mowned x1 ++ F) h1 /\ mmgr x1 = mmgr x /\ mminb x1 = mminb x /\
  (ok = false -> mentries x1 = mentries x /\ msize x1 = msize x).
Proof.
  intros x k h h1 x1 ok F W I H. unfold map_insert in H.
  destruct (with_ehead x h) as [[h2 x2] o] eqn:E.
  pose proof (with_ehead_spec _ _ _ _ _ _ W I E) as [W2 [I2 C2]]. unfold mnoeh in C2. inversion C2 as [[C1 C3 C4 C5 C6 C7 C8 C9 C10 C11]].
  destruct o; [|inversion H; subst; sp; auto].
  destruct (map_find x2 k); [inversion H; subst; sp; auto|].
  pose proof (create_entry_spec _ _ _ _ _ _ _ W2 I2 H) as [W3 [I3 [M3 [B3 T3]]]].
  sp; auto; try congruence.
Qed.

Lemma nodup_app_r : forall (A : Type) (a b : list A), NoDup (a ++ b) -> NoDup b.
Proof. intros A a; induction a as [|x r IH]; intros b H; cbn in H; auto. inversion H; auto. Qed.

Lemma nodup_app_l : forall (A : Type) (a b : list A), NoDup (a ++ b) -> NoDup a.
Proof.
  intros A a; induction a as [|x r IH]; intros b H; cbn in H; [constructor|].
  inversion H; subst. constructor; [|eapply IH; eauto]. intro X. apply H2. apply in_or_app. left; exact X.
Qed.

(* node ids of the live entries are distinct *)
Lemma mowned_nodup : forall x F h, linv (mowned x ++ F) h -> NoDup (map enode (mentries x)).
Proof.
  intros x F h I. apply linv_nodup in I. rewrite mowned_eq in I. unfold mrest in I.
  rewrite !map_app in I. apply nodup_app_l in I. apply nodup_app_r in I. apply nodup_app_r in I.
  unfold tagm in I. rewrite map_map in I. cbn in I. rewrite map_id in I.
  apply nodup_app_r in I. apply nodup_app_r in I. apply nodup_app_l in I.
  unfold entry_ids in I. apply nodup_app_l in I. exact I.
Qed.

Lemma find_filter_perm : forall nd es e, NoDup (map enode es) -> find (fun e => enode e =? nd) es = Some e ->
  Permutation es (e :: filter (fun e' => negb (enode e' =? nd)) es) /\ enode e = nd.
Proof.
  intros nd es; induction es as [|a r IH]; intros e ND Fd; cbn in Fd; [discriminate|].
  cbn in ND. inversion ND; subst. cbn. destruct (enode a =? nd) eqn:E.
  - inversion Fd; subst. apply Nat.eqb_eq in E. split; auto. cbn. constructor.
    rewrite filter_all; auto. intros y Iy. apply negb_true_iff. apply Nat.eqb_neq. intro X.
    apply H1. rewrite E, <- X. apply in_map. exact Iy.
  - destruct (IH e H2 Fd) as [P En]. split; auto. cbn. eapply perm_trans; [apply perm_skip; exact P|]. apply perm_swap.
Qed.

Lemma entry_ids_perm : forall a b, Permutation a b -> Permutation (entry_ids a) (entry_ids b).
Proof. intros a b P. unfold entry_ids. apply Permutation_app; apply Permutation_map; exact P. Qed.

Definition mnoent (x : xmap) := (mmgr x, mehead x, mfhead x, mtab x, mbuckets x, (mec x, mthr x, mminb x)).

Lemma remove_entry_spec : forall x nd h F, mwf x -> linv (mowned x ++ F) h ->
  mwf (remove_entry x nd) /\ linv (mowned (remove_entry x nd) ++ F) h /\ mnoent (remove_entry x nd) = mnoent x /\
  (find (fun e => enode e =? nd) (mentries x) <> None -> S (length (mentries (remove_entry x nd))) = length (mentries x)).
Proof.
  intros x nd h F W I. pose proof (mowned_nodup _ _ _ I) as ND. unfold remove_entry.
  destruct (find (fun e => enode e =? nd) (mentries x)) as [e|] eqn:Fd.
  2:{ sp; auto. intros X; contradiction. }
  destruct (find_filter_perm _ _ _ ND Fd) as [P En].
  destruct x as [m sz eh fh es fs tab bks ec thr minb].
  destruct W as [[Wt Mt] [Wbk [Wl [Ws [We [Wf Wm]]]]]]. rewrite mowned_eq in I. unfold mrest in I.
  cbn [mmgr msize mehead mfhead mentries mfrees mtab mbuckets mec mthr mminb bvec set_lists] in *.
  remember (filter (fun e0 : mentry => negb (enode e0 =? nd)) es) as flt eqn:Ef.
  assert (NE : es <> []) by (intro X; subst es; discriminate).
  pose proof (Permutation_length P) as PL. cbn in PL.
  assert (I1 : linv ((vowned tab ++ bkowned bks ++ tagm m (olist eh ++ olist fh ++ entry_ids (e :: flt) ++ entry_ids fs)) ++ F) h).
  { eapply linv_perm; [|exact I]. apply Permutation_app_tail. apply Permutation_app_head. apply Permutation_app_head.
    apply tagm_perm. apply Permutation_app_head. apply Permutation_app_head. apply Permutation_app_tail.
    apply entry_ids_perm. exact P. }
  unfold mnoent. fin.
  - lia.
  - lperm I1.
Qed.

Lemma remove_entries_spec : forall fuel x h F, mwf x -> linv (mowned x ++ F) h ->
  mwf (remove_entries fuel x) /\ linv (mowned (remove_entries fuel x) ++ F) h /\
  mnoent (remove_entries fuel x) = mnoent x /\
  (length (mentries x) <= fuel -> mentries (remove_entries fuel x) = []).
Proof.
  induction fuel as [|f IH]; intros x h F W I; cbn [remove_entries].
  - sp; auto. intros L. destruct (mentries x); [auto | cbn in L; lia].
  - pose proof W as [_ [_ [_ [Ws _]]]].
    destruct (msize x =? 0) eqn:Z.
    + apply Nat.eqb_eq in Z. sp; auto. intros _. destruct (mentries x); [auto | cbn in Ws; lia].
    + destruct (mentries x) as [|e r] eqn:E.
      * sp; auto.
      * pose proof (remove_entry_spec x (enode e) h F W I) as [W1 [I1 [C1 L1]]].
        rewrite E in L1. cbn [find] in L1. rewrite Nat.eqb_refl in L1. specialize (L1 ltac:(discriminate)).
        destruct (IH _ _ _ W1 I1) as [W2 [I2 [C2 L2]]].
        sp; auto; try congruence. intros L. apply L2. cbn in L1, L. lia.
Qed.

Lemma vec_copy_spec : forall tag src m init h h1 r F, linv F h -> vec_copy tag src m init h = (h1, r) ->
  match r with
  | Some t => vwf (vset_size t 0) /\ vm t = m /\ vsize t = vsize src /\ vsize src <= vcap t /\ linv (vowned t ++ F) h1
  | None => linv F h1
  end.
Proof.
  intros tag src m init h h1 r F I H. unfold vec_copy in H.
  destruct (vec_new tag m (Nat.max (vsize src) init) h) as [h2 [t|]] eqn:N.
  - pose proof (vec_new_spec _ _ _ _ _ _ _ I N) as [Wt [Mt [St [Ct It]]]]. inversion H; subst. cbn.
    destruct Wt as [A B]. sp; auto; try lia; try apply B. split; cbn; [lia | exact B].
  - pose proof (vec_new_spec _ _ _ _ _ _ _ I N) as [It _]. inversion H; subst. exact It.
Qed.

Lemma filter_len : forall (A : Type) (f : A -> bool) l, length (filter f l) <= length l.
Proof. intros A f l; induction l as [|a r IH]; cbn; auto. destruct (f a); cbn; lia. Qed.

(* compactBuckets *)
Lemma compact_spec : forall x todo done h h1 bs ok F, Forall (bwf (mmgr x)) todo -> Forall (bwf (mmgr x)) done ->
  linv (bkowned done ++ bkowned todo ++ F) h -> compact x todo done h = (h1, bs, ok) ->
  Forall (bwf (mmgr x)) bs /\ length bs = length done + length todo /\ linv (bkowned bs ++ F) h1.
Proof.
  intros x todo; induction todo as [|b r IH]; intros done h h1 bs ok F Wt Wd I H; cbn [compact] in H.
  - inversion H; subst. cbn in I. sp; auto.
  - inversion Wt as [|b' r' [[Wb Mb] Lb] Wr]; subst.
    remember (filter (fun nd => negb (ref_erased x nd)) (brefs b)) as refs eqn:Er.
    assert (LR : length refs <= vsize (bvec b)).
    { rewrite <- Lb, Er. apply filter_len. }
    set (v := vset_size (bvec b) (length refs)) in *.
    assert (Wv : vwf v) by (apply vset_size_wf; auto; destruct Wb; lia).
    assert (Bv : bwf (mmgr x) (mkbucket v refs)) by (split; [split; auto|]; reflexivity).
    assert (Ov : vowned v = vowned (bvec b)) by reflexivity.
    change (bkowned (b :: r)) with (vowned (bvec b) ++ bkowned r) in I.
    destruct (vsize v <? vcap v - vsize v) eqn:C.
    + destruct (vec_copy TAG_BREF v (mmgr x) (if vsize v =? 0 then map_min_bucket_size else vcap v - vsize v) h) as [h2 [t|]] eqn:VC.
      * pose proof (vec_copy_spec _ _ _ _ _ _ _ _ I VC) as [W0 [Mt [St [Ct It]]]].
        cbn [vec_swap] in H. unfold vec_swap in H. cbn in H.
        eapply IH in H; eauto.
        -- destruct H as [A [B C']]. split; [exact A|]. split; [|exact C']. rewrite B, app_length. cbn. lia.
        -- apply Forall_app. split; auto. constructor; auto. split; [split; auto|]; cbn; auto.
           destruct W0 as [_ W0]. split; [lia | exact W0].
        -- rewrite bkowned_app. change (bkowned [mkbucket t refs]) with (vowned t ++ []).
           apply vec_dtor_spec; [exact Wv|]. rewrite Ov. eapply linv_perm; [|exact It]. permp.
      * pose proof (vec_copy_spec _ _ _ _ _ _ _ _ I VC) as It. inversion H; subst h1 bs ok.
        split; [apply Forall_app; split; auto|]. split; [rewrite app_length; cbn; lia|].
        rewrite bkowned_app. change (bkowned (mkbucket v refs :: r)) with (vowned v ++ bkowned r). rewrite Ov.
        eapply linv_perm; [|exact It]. permp.
    + eapply IH in H; eauto.
      * destruct H as [A [B C']]. split; [exact A|]. split; [|exact C']. rewrite B, app_length. cbn. lia.
      * apply Forall_app. split; auto.
      * rewrite bkowned_app. change (bkowned [mkbucket v refs]) with (vowned v ++ []). rewrite Ov.
        eapply linv_perm; [|exact I]. permp.
Qed.

Lemma mwf_set_buckets : forall x bs c, mwf x -> Forall (bwf (mmgr x)) bs -> length bs = length (mbuckets x) ->
  mwf (set_ec (set_tab x (mtab x) bs) c).
Proof.
  intros x bs c [Wt [Wb [Wl [Ws [We [Wf Wm]]]]]] Fb Lb. unfold mwf. cbn. sp; auto; try apply Wt; try apply Wf; auto. congruence.
Qed.

Lemma mwf_set_ec : forall x c, mwf x -> mwf (set_ec x c).
Proof. intros x c [Wt [Wb [Wl [Ws [We [Wf Wm]]]]]]. unfold mwf. cbn. sp; auto; try apply Wt; try apply Wf; auto. Qed.

Lemma map_erase_spec : forall x k h h1 x1 ok F, mwf x -> linv (mowned x ++ F) h ->
  map_erase x k h = (h1, x1, ok) ->
  mwf x1 /\ linv (mowned x1 ++ F) h1 /\ mmgr x1 = mmgr x /\ mminb x1 = mminb x.
Proof.
  intros x k h h1 x1 ok F W I H. unfold map_erase in H.
  destruct (with_ehead x h) as [[h2 x2] o] eqn:E.
  pose proof (with_ehead_spec _ _ _ _ _ _ W I E) as [W2 [I2 C2]]. unfold mnoeh in C2. inversion C2 as [[C1 C3 C4 C5 C6 C7 C8 C9 C10 C11]].
  destruct o; [|inversion H; subst; sp; auto].
  destruct (map_find x2 k) as [nd|]; [|inversion H; subst; sp; auto].
  pose proof (remove_entry_spec x2 nd h2 F W2 I2) as [W3 [I3 [C3' _]]].
  unfold mnoent in C3'. inversion C3' as [[D1 D2 D3 D4 D5 D6 D7 D8]].
  set (x3 := set_ec (remove_entry x2 nd) (S (mec x2))) in *.
  assert (W3' : mwf x3) by (apply mwf_set_ec; exact W3).
  assert (I3' : linv (mowned x3 ++ F) h2) by exact I3.
  destruct (mec x3 =? mthr x3).
  - destruct (compact x3 (mbuckets x3) [] h2) as [[h3 bs] okc] eqn:CP.
    assert (Ic : linv (bkowned [] ++ bkowned (mbuckets x3) ++ (vowned (mtab x3) ++ mrest x3 ++ F)) h2).
    { eapply linv_perm; [|exact I3']. rewrite mowned_eq. cbn [bkowned map concat app]. permp. }
    pose proof W3' as [_ [Wbk _]].
    pose proof (compact_spec _ _ _ _ _ _ _ _ Wbk (Forall_nil _) Ic CP) as [Fb [Lb Ib]].
    assert (Io : forall c, linv (mowned (set_ec (set_tab x3 (mtab x3) bs) c) ++ F) h3).
    { intros c. eapply linv_perm; [|exact Ib]. rewrite mowned_eq. cbn [mtab mbuckets set_tab set_ec].
      change (mrest (set_ec (set_tab x3 (mtab x3) bs) c)) with (mrest x3). permp. }
    destruct okc; inversion H; subst x1 h1 ok.
    + split; [exact (mwf_set_buckets x3 bs 0 W3' Fb Lb)|]. split; [apply Io|]. cbn. split; congruence.
    + split; [exact (mwf_set_buckets x3 bs (mec x3) W3' Fb Lb)|]. split; [apply (Io (mec x3))|]. cbn. split; congruence.
  - inversion H; subst x1 h1 ok. sp; auto; cbn; congruence.
Qed.

Lemma bkowned_clear : forall bs, bkowned (map (fun b => mkbucket (vset_size (bvec b) 0) []) bs) = bkowned bs.
Proof. induction bs as [|b r IH]; auto. unfold bkowned in *. cbn. rewrite IH. reflexivity. Qed.

Lemma map_clear_spec : forall x h F, mwf x -> linv (mowned x ++ F) h ->
  mwf (map_clear x) /\ linv (mowned (map_clear x) ++ F) h /\ mmgr (map_clear x) = mmgr x /\ mminb (map_clear x) = mminb x.
Proof.
  intros x h F W I. unfold map_clear. cbn [map_clear_recycles].
  pose proof (remove_entries_spec (length (mentries x)) x h F W I) as [W1 [I1 [C1 _]]].
  set (x1 := remove_entries (length (mentries x)) x) in *.
  unfold mnoent in C1. inversion C1 as [[D1 D2 D3 D4 D5 D6 D7 D8]].
  split.
  - apply mwf_set_buckets; auto; [|rewrite map_length; reflexivity].
    destruct W1 as [_ [Wb _]]. apply Forall_forall. intros b Ib. apply in_map_iff in Ib. destruct Ib as [b0 [Eb Ib]].
    rewrite Forall_forall in Wb. destruct (Wb b0 Ib) as [[[A B] M] L]. subst b. split; [split; [split|]|]; cbn; auto. lia.
  - split; [|cbn; split; congruence].
    rewrite mowned_eq. cbn [mtab mbuckets set_tab set_ec]. rewrite bkowned_clear.
    rewrite mowned_eq in I1. exact I1.
Qed.

(* the members' destructors: bucket table, buckets, and the nodes of the two entry lists (not the value blocks) *)
Lemma members_dtor_spec : forall x h F, mwf x ->
  linv ((vowned (mtab x) ++ bkowned (mbuckets x) ++
         tagm (mmgr x) (olist (mehead x) ++ olist (mfhead x) ++ map enode (mentries x) ++ map enode (mfrees x))) ++ F) h ->
  linv F (members_dtor x h).
Proof.
  intros x h F W I.
  destruct x as [m sz eh fh es fs tab bks ec thr minb].
  destruct W as [[Wt Mt] [Wbk [Wl [Ws [We [Wf Wm]]]]]].
  unfold members_dtor. cbn [mmgr msize mehead mfhead mentries mfrees mtab mbuckets mec mthr mminb bvec] in *.
  set (h1 := vec_dtor tab (buckets_dtor bks h)).
  assert (I1 : linv (tagm m (olist fh ++ map enode fs) ++ tagm m (olist eh ++ map enode es) ++ F) h1).
  { unfold h1. apply vec_dtor_spec; [exact Wt|]. eapply buckets_dtor_spec; [exact Wbk|]. lperm I. }
  set (h2 := match fh with Some hd => free m hd (free_all m (map enode fs) h1) | None => h1 end).
  assert (I2 : linv (tagm m (olist eh ++ map enode es) ++ F) h2).
  { unfold h2. destruct fh as [hd|].
    - apply linv_free. apply linv_free_all. lperm I1.
    - assert (fs = []) as ->.
      { destruct fs as [|f0 fr]; [reflexivity|]. assert (N : f0 :: fr <> []) by discriminate.
        destruct (Wf (or_intror N)) as [X _]. contradiction. }
      exact I1. }
  destruct eh as [hd|].
  - apply linv_free. apply linv_free_all. lperm I2.
  - assert (es = []) as ->.
    { destruct es as [|e0 er]; [reflexivity|]. exfalso. apply We; [discriminate | reflexivity]. }
    exact I2.
Qed.

(* ~XalanMap / doReleaseEntries + the members: everything the map owns goes back to its manager *)
Lemma map_dtor_spec : forall x h h1 ok F, mwf x -> linv (mowned x ++ F) h -> map_dtor x h = (h1, ok) ->
  ok = true /\ linv F h1.
Proof.
  intros x h h1 ok F W I H. unfold map_dtor in H.
  pose proof (remove_entries_spec (length (mentries x)) x h F W I) as [W1 [I1 [C1 L1]]].
  specialize (L1 (le_n _)).
  set (x1 := remove_entries (length (mentries x)) x) in *.
  cbn [map_dtor_guard_buckets map_dtor_frees_values] in H.
  rewrite mowned_eq in I1. unfold mrest in I1. rewrite L1 in I1.
  pose proof W1 as [_ [_ [_ [_ [_ [Wf _]]]]]].
  destruct (negb (vsize (mtab x1) =? 0) && negb (length (mfrees x1) =? 0)) eqn:EN.
  - apply andb_prop in EN. destruct EN as [_ EN]. apply negb_true_iff in EN. apply Nat.eqb_neq in EN.
    assert (NEf : mfrees x1 <> []) by (intro X; rewrite X in EN; apply EN; reflexivity).
    destruct (Wf (or_intror NEf)) as [FH _].
    unfold get_ehead in H. destruct (mfhead x1) as [hd|] eqn:Efh; [|contradiction].
    inversion H; subst h1 ok; clear H. split; auto.
    apply members_dtor_spec.
    + unfold mwf in *. cbn. rewrite Efh in *. exact W1.
    + cbn [mmgr msize mehead mfhead mentries mfrees mtab mbuckets set_lists]. rewrite L1.
      apply linv_free_all. lperm I1.
  - inversion H; subst h1 ok; clear H. split; auto.
    assert (NF : mfrees x1 = []).
    { destruct (mfrees x1) as [|f0 r] eqn:Ef; auto. assert (N : f0 :: r <> []) by discriminate. destruct (Wf (or_intror N)) as [_ NZ].
      apply Nat.eqb_neq in NZ. rewrite NZ in EN. cbn in EN. discriminate. }
    apply members_dtor_spec; auto. rewrite L1, NF. rewrite NF in I1. lperm I1.
Qed.

Lemma copy_fill_spec : forall es x h h1 x1 ok F, mwf x -> linv (mowned x ++ F) h ->
  copy_fill true es x h = (h1, x1, ok) ->
  mwf x1 /\ linv (mowned x1 ++ F) h1 /\ mmgr x1 = mmgr x /\ mminb x1 = mminb x.
Proof.
  induction es as [|e r IH]; intros x h h1 x1 ok F W I H; cbn [copy_fill] in H.
  - inversion H; subst; auto.
  - destruct (map_insert true x (ekey e) h) as [[h2 x2] o] eqn:E.
    pose proof (map_insert_spec _ _ _ _ _ _ _ W I E) as [W2 [I2 [M2 [B2 _]]]].
    destruct o.
    + destruct (IH _ _ _ _ _ _ W2 I2 H) as [A [B [C D]]]. sp; auto; congruence.
    + inversion H; subst. sp; auto.
Qed.

(* XalanMap(rhs, manager) with the K-new-2 repair *)
Lemma map_copy_spec : forall rhs m h h1 rhs1 r F, mwf rhs -> linv (mowned rhs ++ F) h ->
  map_copy true true rhs m h = (h1, rhs1, r) ->
  mwf rhs1 /\ mnoeh rhs1 = mnoeh rhs /\
  match r with
  | Some t => mwf t /\ mmgr t = m /\ linv (mowned t ++ mowned rhs1 ++ F) h1
  | None => linv (mowned rhs1 ++ F) h1
  end.
Proof.
  intros rhs m h h1 rhs1 r F W I H. unfold map_copy in H.
  set (n := msize rhs * map_default_lf_num / map_default_lf_den + 1) in *.
  destruct (vec_insert_end TAG_BUCKET (vempty m) n h) as [[h2 t] ok2] eqn:VI.
  assert (I0 : linv (vowned (vempty m) ++ (mowned rhs ++ F)) h) by exact I.
  pose proof (vec_insert_end_spec _ _ _ _ _ _ _ _ (vwf_empty _) I0 VI) as [I2 [Wt [Mt Tt]]].
  destruct ok2.
  2:{ inversion H; subst. destruct (Tt eq_refl) as [-> _]. sp; auto. }
  assert (St : vsize t = n) by (rewrite (vec_insert_end_size _ _ _ _ _ _ (vwf_empty _) VI); reflexivity). cbn in Mt.
  set (x0 := mkmap m 0 None None [] [] t (repeat (bucket0 m) n) 0 (mthr rhs) (mminb rhs)) in *.
  assert (W0 : mwf x0).
  { pose proof W as [_ [_ [_ [_ [_ [_ Wm]]]]]]. unfold mwf, x0. cbn.
    split; [split; [exact Wt | exact Mt]|]. split; [apply repeat_bwf|]. split; [rewrite repeat_length; auto|].
    split; [reflexivity|]. split; [intros X; contradiction|]. split; [intros [X|X]; contradiction | exact Wm]. }
  assert (O0 : mowned x0 = vowned t ++ []).
  { rewrite mowned_eq. unfold mrest, x0. cbn [mtab mbuckets mmgr mehead mfhead mentries mfrees]. rewrite bkowned_repeat. reflexivity. }
  destruct (with_ehead rhs h2) as [[h3 rhs2] o] eqn:E.
  assert (I2' : linv (mowned rhs ++ (vowned t ++ F)) h2) by (eapply linv_perm; [|exact I2]; permp).
  pose proof (with_ehead_spec _ _ _ _ _ _ W I2' E) as [W2 [I3 C2]].
  assert (I3' : linv (mowned x0 ++ (mowned rhs2 ++ F)) h3) by (rewrite O0; eapply linv_perm; [|exact I3]; permp).
  destruct o.
  2:{ inversion H; subst. sp; auto.
      pose proof (map_dtor_spec x0 h3 (members_dtor x0 h3) true (mowned rhs1 ++ F) W0 I3') as X.
      assert (Dx : map_dtor x0 h3 = (members_dtor x0 h3, true)).
      { unfold map_dtor, x0. cbn. destruct (negb (vsize t =? 0)); reflexivity. }
      destruct (X Dx) as [_ Y]. exact Y. }
  destruct (copy_fill true (mentries rhs2) x0 h3) as [[h4 x1] okc] eqn:CF.
  pose proof (copy_fill_spec _ _ _ _ _ _ _ W0 I3' CF) as [W1 [I4 [M1 B1]]].
  destruct okc; inversion H; subst; clear H.
  - sp; auto.
  - sp; auto. destruct (map_dtor x1 h4) as [h5 okd] eqn:D. cbn.
    destruct (map_dtor_spec _ _ _ _ _ W1 I4 D) as [_ Y]. exact Y.
Qed.

(* the logical contents of a map: its live entries (keys, in order of insertion) and size() *)
Definition mlogical (x : xmap) := (map ekey (mentries x), msize x).

(* operator=(rhs): copy + swap + ~theTemp *)
Lemma map_assign_spec : forall x rhs h h1 x1 rhs1 ok F, mwf x -> mwf rhs -> linv (mowned x ++ mowned rhs ++ F) h ->
  map_assign true true x rhs h = (h1, x1, rhs1, ok) ->
  mwf x1 /\ mwf rhs1 /\ linv (mowned x1 ++ mowned rhs1 ++ F) h1 /\ mlogical rhs1 = mlogical rhs /\
  (ok = false -> x1 = x).
Proof.
  intros x rhs h h1 x1 rhs1 ok F W Wr I H. unfold map_assign in H.
  destruct (map_copy true true rhs (mmgr x) h) as [[h2 rhs2] [t|]] eqn:MC.
  - assert (I' : linv (mowned rhs ++ (mowned x ++ F)) h) by (eapply linv_perm; [|exact I]; permp).
    pose proof (map_copy_spec _ _ _ _ _ _ _ Wr I' MC) as [W2 [C2 [Wt [Mt It]]]].
    unfold mnoeh in C2. inversion C2 as [[C1 C3 C4 C5 C6 C7 C8 C9 C10 C11]].
    match type of H with (let '(_, _) := map_dtor ?tt _ in _) = _ => set (t' := tt) in * end.
    destruct (map_dtor t' h2) as [h3 okd] eqn:D.
    assert (Wt' : mwf t').
    { pose proof Wt as [_ [_ [_ [_ [_ [_ Wm]]]]]]. destruct W as [A [B [C [D' [E [G _]]]]]]. unfold mwf, t'. cbn. sp; auto. }
    assert (It' : linv (mowned t' ++ (mowned t ++ mowned rhs2 ++ F)) h2).
    { eapply linv_perm; [|exact It]. change (mowned t') with (mowned x). permp. }
    destruct (map_dtor_spec _ _ _ _ _ Wt' It' D) as [-> I3].
    inversion H; subst; clear H. split.
    + pose proof W as [_ [_ [_ [_ [_ [_ Wm]]]]]]. destruct Wt as [A [B [C [D' [E [G _]]]]]]. unfold mwf. cbn. sp; auto.
    + sp; auto; try discriminate. unfold mlogical. congruence.
  - assert (I' : linv (mowned rhs ++ (mowned x ++ F)) h) by (eapply linv_perm; [|exact I]; permp).
    pose proof (map_copy_spec _ _ _ _ _ _ _ Wr I' MC) as [W2 [C2 It]].
    unfold mnoeh in C2. inversion C2 as [[C1 C3 C4 C5 C6 C7 C8 C9 C10 C11]].
    inversion H; subst; clear H. sp; auto.
    + eapply linv_perm; [|exact It]. permp.
    + unfold mlogical. congruence.
Qed.

(* two maps (managers 0 and 1 at the start; swap exchanges them) *)
Definition minv2 (w : xmap * xmap) (h : heap) : Prop :=
  mwf (fst w) /\ mwf (snd w) /\ linv (mowned (fst w) ++ mowned (snd w)) h.

Definition mlog2 (w : xmap * xmap) := (mlogical (fst w), mlogical (snd w)).

Lemma minv2_sel : forall i w h, minv2 w h ->
  mwf (sel i w) /\ mwf (sel (negb i) w) /\ linv (mowned (sel i w) ++ mowned (sel (negb i) w) ++ []) h.
Proof.
  intros i [a b] h [Wa [Wb I]]. rewrite app_nil_r. destruct i; cbn in *; sp; auto.
  eapply linv_perm; [apply Permutation_app_comm | exact I].
Qed.

Lemma minv2_upd : forall i w h x1, mwf x1 -> mwf (sel (negb i) w) ->
  linv (mowned x1 ++ mowned (sel (negb i) w) ++ []) h -> minv2 (upd i w x1) h.
Proof.
  intros i [a b] h x1 W1 W2 I. rewrite app_nil_r in I. unfold minv2. destruct i; cbn in *.
  - split; [exact W2 | split; [exact W1 | eapply linv_perm; [apply Permutation_app_comm | exact I]]].
  - split; [exact W1 | split; [exact W2 | exact I]].
Qed.

Definition is_erase (op : mop) : bool := match op with MErase _ _ => true | _ => false end.

Lemma mstep_spec : forall op w h h1 w1 ok, minv2 w h -> mstep true true op w h = (h1, w1, ok) ->
  minv2 w1 h1 /\ (ok = false -> is_erase op = false -> mlog2 w1 = mlog2 w).
Proof.
  intros op w h h1 w1 ok V H. destruct op; cbn [mstep] in H.
  - destruct (map_insert true (sel i w) k h) as [[h2 x2] o] eqn:E. inversion H; subst; clear H.
    destruct (minv2_sel i w h V) as [Wi [Wo Ii]].
    pose proof (map_insert_spec _ _ _ _ _ _ _ Wi Ii E) as [W2 [I2 [M2 [B2 T2]]]].
    split; [apply minv2_upd; auto|]. intros Eo _. destruct (T2 Eo) as [A B].
    destruct w as [a b]; destruct i; cbn in *; unfold mlog2, mlogical; cbn; congruence.
  - destruct (map_erase (sel i w) k h) as [[h2 x2] o] eqn:E. inversion H; subst; clear H.
    destruct (minv2_sel i w h V) as [Wi [Wo Ii]].
    pose proof (map_erase_spec _ _ _ _ _ _ _ Wi Ii E) as [W2 [I2 _]].
    split; [apply minv2_upd; auto | discriminate].
  - inversion H; subst; clear H. destruct (minv2_sel i w h1 V) as [Wi [Wo Ii]].
    pose proof (map_clear_spec _ _ _ Wi Ii) as [W2 [I2 _]].
    split; [apply minv2_upd; auto | discriminate].
  - destruct (map_assign true true (sel i w) (sel (negb i) w) h) as [[[h2 x2] r2] o] eqn:E. inversion H; subst; clear H.
    destruct (minv2_sel i w h V) as [Wi [Wo Ii]].
    pose proof (map_assign_spec _ _ _ _ _ _ _ _ Wi Wo Ii E) as [W2 [Wr2 [I2 [L2 T2]]]].
    split.
    + destruct w as [a b]; destruct i; cbn in *; unfold minv2; cbn; rewrite app_nil_r in I2; sp; auto.
      eapply linv_perm; [apply Permutation_app_comm | exact I2].
    + intros Eo _. rewrite (T2 Eo). destruct w as [a b]; destruct i; cbn in *; unfold mlog2; cbn; congruence.
  - destruct w as [a b]. cbn in H. inversion H; subst; clear H. split; [|discriminate].
    destruct V as [Wa [Wb I]]. cbn in *. unfold minv2. cbn.
    split; [|split].
    + destruct Wb as [A [B [C [D' [E [G _]]]]]]. destruct Wa as [_ [_ [_ [_ [_ [_ Wm]]]]]]. unfold mwf. cbn. sp; auto.
    + destruct Wa as [A [B [C [D' [E [G _]]]]]]. destruct Wb as [_ [_ [_ [_ [_ [_ Wm]]]]]]. unfold mwf. cbn. sp; auto.
    + eapply linv_perm; [|exact I]. change (mowned (mkmap (mmgr b) (msize b) (mehead b) (mfhead b) (mentries b) (mfrees b) (mtab b) (mbuckets b) (mec b) (mthr b) (mminb a))) with (mowned b).
      change (mowned (mkmap (mmgr a) (msize a) (mehead a) (mfhead a) (mentries a) (mfrees a) (mtab a) (mbuckets a) (mec a) (mthr a) (mminb b))) with (mowned a).
      apply Permutation_app_comm.
Qed.

Lemma mrun_inv : forall ops w h w1 h1, minv2 w h -> run _ _ (mstep true true) ops w h = (w1, h1) -> minv2 w1 h1.
Proof.
  induction ops as [|op r IH]; intros w h w1 h1 V H; cbn in H.
  - inversion H; subst; auto.
  - destruct (mstep true true op w h) as [[h2 w2] ok] eqn:E. eapply IH; [|exact H].
    eapply mstep_spec in E; eauto. tauto.
Qed.

Lemma minv20 : forall minb thr f, 0 < minb -> minv2 (map0 0 minb thr, map0 1 minb thr) (heap0 f).
Proof.
  intros minb thr f P. unfold minv2, mwf, linv, heap_ok, vwfm, vwf. cbn.
  sp; auto; try constructor; try lia; try tauto; try (intros [X|X]; contradiction); try (intros p []).
Qed.

(* destroying both maps *)
Lemma mdestroy_spec : forall w h h1 ok1 h2 ok2, minv2 w h ->
  map_dtor (fst w) h = (h1, ok1) -> map_dtor (snd w) h1 = (h2, ok2) ->
  ok1 = true /\ ok2 = true /\ live h2 = [] /\ bad h2 = false.
Proof.
  intros [a b] h h1 ok1 h2 ok2 [Wa [Wb I]] D1 D2. cbn [fst snd] in *.
  destruct (map_dtor_spec _ _ _ _ _ Wa I D1) as [-> I1].
  rewrite <- (app_nil_r (mowned b)) in I1.
  destruct (map_dtor_spec _ _ _ _ _ Wb I1 D2) as [-> [_ [P B]]].
  sp; auto. apply Permutation_nil. apply Permutation_sym. exact P.
Qed.

(* K-new-2 repaired: every history on two maps, a refusal anywhere, then both destructors: nothing is outstanding,
   no foreign / double free, the destructors complete; a refused insert or operator= leaves the entries and size()
   of both maps as they were (a refused erase - the compaction of the buckets could not allocate - has erased the entry) *)
Lemma map_safe_guarded : forall (ops : list mop) (f : option nat) (minb thr : nat) w h, 0 < minb ->
  run _ _ (mstep true true) ops (map0 0 minb thr, map0 1 minb thr) (heap0 f) = (w, h) ->
  bad h = false /\
  (forall op h1 w1, mstep true true op w h = (h1, w1, false) ->
     bad h1 = false /\ (is_erase op = false -> mlog2 w1 = mlog2 w)) /\
  (forall h1 ok1 h2 ok2, map_dtor (fst w) h = (h1, ok1) -> map_dtor (snd w) h1 = (h2, ok2) ->
     ok1 = true /\ ok2 = true /\ live h2 = [] /\ bad h2 = false).
Proof.
  intros ops f minb thr w h P R.
  pose proof (mrun_inv _ _ _ _ _ (minv20 minb thr f P) R) as V.
  split; [apply V|]. split.
  - intros op h1 w1 S. destruct (mstep_spec _ _ _ _ _ _ V S) as [V1 T]. split; [apply V1 | auto].
  - intros h1 ok1 h2 ok2 D1 D2. eapply mdestroy_spec; eauto.
Qed.

(* the statement for one pair of shapes (doCreateEntry, copy constructor): both repaired - the full guarantee; otherwise
   what holds of the code as found is that the destructors complete without asking the manager for memory *)
Definition map_full_at (ge gc : bool) : Prop :=
  forall (ops : list mop) (f : option nat) (minb thr : nat) w h, 0 < minb ->
  run _ _ (mstep ge gc) ops (map0 0 minb thr, map0 1 minb thr) (heap0 f) = (w, h) ->
  bad h = false /\
  (forall op h1 w1, mstep ge gc op w h = (h1, w1, false) ->
     bad h1 = false /\ (is_erase op = false -> mlog2 w1 = mlog2 w)) /\
  (forall h1 ok1 h2 ok2, map_dtor (fst w) h = (h1, ok1) -> map_dtor (snd w) h1 = (h2, ok2) ->
     ok1 = true /\ ok2 = true /\ live h2 = [] /\ bad h2 = false).

Definition map_dtor_at (ge gc : bool) : Prop :=
  forall (ops : list mop) (f : option nat) (minb thr : nat) w h (i : bool) h' h1 ok,
  run _ _ (mstep ge gc) ops (map0 0 minb thr, map0 1 minb thr) (heap0 f) = (w, h) ->
  map_dtor (sel i w) h' = (h1, ok) -> ok = true /\ next h1 = next h' /\ fuse h1 = fuse h'.

Lemma map_dtor_any : forall ge gc, map_dtor_at ge gc.
Proof.
  intros ge gc ops f minb thr w h i h' h1 ok R D.
  pose proof (mrun_heads _ _ _ _ _ _ _ (mheads20 minb thr) R) as W.
  eapply map_dtor_no_alloc; [apply mheads2_sel; exact W | exact D].
Qed.

(* ------------------------------------------------------------------------------------------- *)
(* the shapes of the two sites only matter in an operation that is refused: an operation that succeeds does exactly the
   same whatever the shapes are - so histories without a refused step are balanced for the code as found, too *)

Lemma ce_free_ok_eq : forall ge x h h1 x1, ce_free ge x h = (h1, x1, true) -> ce_free true x h = (h1, x1, true).
Proof.
  intros ge x h h1 x1 H. unfold ce_free in *. destruct (mfrees x); auto.
  destruct (alloc (mmgr x) TAG_MVALUE 1 h) as [h2 [v|]]; [|inversion H].
  destruct (get_ehead (mmgr x) (mfhead x) h2) as [[h3 fh] [|]]; [|inversion H].
  destruct (alloc (mmgr x) TAG_MNODE 1 h3) as [h4 [nd|]]; [exact H | inversion H].
Qed.

Lemma create_entry_ok_eq : forall ge x k h h1 x1, create_entry ge x k h = (h1, x1, true) -> create_entry true x k h = (h1, x1, true).
Proof.
  intros ge x k h h1 x1 H. rewrite create_entry_stages in *.
  destruct (if vsize (mtab x) =? 0 then _ else _) as [[ha xa] [|]]; cbn [negb] in *; [|inversion H].
  destruct (if vsize (mtab xa) <? _ then _ else _) as [[hb xb] [|]]; cbn [negb] in *; [|inversion H].
  destruct (ce_free ge _ hb) as [[h4 x4] ok4] eqn:CF. destruct ok4; cbn [negb] in H; [|inversion H].
  rewrite (ce_free_ok_eq _ _ _ _ _ CF). cbn [negb]. exact H.
Qed.

Lemma map_insert_ok_eq : forall ge x k h h1 x1, map_insert ge x k h = (h1, x1, true) -> map_insert true x k h = (h1, x1, true).
Proof.
  intros ge x k h h1 x1 H. unfold map_insert in *. destruct (with_ehead x h) as [[h2 x2] [|]]; auto.
  destruct (map_find x2 k); auto. eapply create_entry_ok_eq; eauto.
Qed.

Lemma copy_fill_ok_eq : forall ge es x h h1 x1, copy_fill ge es x h = (h1, x1, true) -> copy_fill true es x h = (h1, x1, true).
Proof.
  intros ge es; induction es as [|e r IH]; intros x h h1 x1 H; cbn [copy_fill] in *; auto.
  destruct (map_insert ge x (ekey e) h) as [[h2 x2] o] eqn:E. destruct o; [|inversion H].
  rewrite (map_insert_ok_eq _ _ _ _ _ _ E). apply IH. exact H.
Qed.

Lemma map_copy_ok_eq : forall ge gc rhs m h h1 rhs1 t, map_copy ge gc rhs m h = (h1, rhs1, Some t) ->
  map_copy true true rhs m h = (h1, rhs1, Some t).
Proof.
  intros ge gc rhs m h h1 rhs1 t H. unfold map_copy in *.
  destruct (vec_insert_end TAG_BUCKET (vempty m) _ h) as [[h2 tb] [|]]; [|inversion H].
  destruct (with_ehead rhs h2) as [[h3 rhs2] [|]]; [|inversion H].
  destruct (copy_fill ge (mentries rhs2) _ h3) as [[h4 x1] o] eqn:CF. destruct o; [|inversion H].
  rewrite (copy_fill_ok_eq _ _ _ _ _ _ CF). exact H.
Qed.

Lemma map_assign_ok_eq : forall ge gc x rhs h h1 x1 rhs1, map_assign ge gc x rhs h = (h1, x1, rhs1, true) ->
  map_assign true true x rhs h = (h1, x1, rhs1, true).
Proof.
  intros ge gc x rhs h h1 x1 rhs1 H. unfold map_assign in *.
  destruct (map_copy ge gc rhs (mmgr x) h) as [[h2 rhs2] [t|]] eqn:MC; [|inversion H].
  rewrite (map_copy_ok_eq _ _ _ _ _ _ _ _ MC). exact H.
Qed.

Lemma mstep_ok_eq : forall ge gc op w h h1 w1, mstep ge gc op w h = (h1, w1, true) -> mstep true true op w h = (h1, w1, true).
Proof.
  intros ge gc op w h h1 w1 H. destruct op; cbn [mstep] in *; auto.
  - destruct (map_insert ge (sel i w) k h) as [[h2 x2] o] eqn:E. inversion H; subst.
    rewrite (map_insert_ok_eq _ _ _ _ _ _ E). reflexivity.
  - destruct (map_assign ge gc (sel i w) (sel (negb i) w) h) as [[[h2 x2] r2] o] eqn:E. inversion H; subst.
    rewrite (map_assign_ok_eq _ _ _ _ _ _ _ _ E). reflexivity.
Qed.

(* a history every step of which succeeds *)
Fixpoint run_ok (ge gc : bool) (ops : list mop) (w : xmap * xmap) (h : heap) : option (xmap * xmap * heap) :=
  match ops with
  | [] => Some (w, h)
  | op :: r => match mstep ge gc op w h with
               | (h1, w1, true) => run_ok ge gc r w1 h1
               | (_, _, false) => None
               end
  end.

Lemma run_ok_eq : forall ge gc ops w h w1 h1, run_ok ge gc ops w h = Some (w1, h1) ->
  run _ _ (mstep true true) ops w h = (w1, h1).
Proof.
  intros ge gc ops; induction ops as [|op r IH]; intros w h w1 h1 H; cbn in *.
  - inversion H; reflexivity.
  - destruct (mstep ge gc op w h) as [[h2 w2] o] eqn:E. destruct o; [|discriminate].
    rewrite (mstep_ok_eq _ _ _ _ _ _ _ E). apply IH. exact H.
Qed.

(* for BOTH shapes: a history in which no step was refused (with or without a fuse set), then both destructors:
   nothing outstanding, no foreign / double free *)
Lemma map_balanced_any : forall (ge gc : bool) (ops : list mop) (f : option nat) (minb thr : nat) w h, 0 < minb ->
  run_ok ge gc ops (map0 0 minb thr, map0 1 minb thr) (heap0 f) = Some (w, h) ->
  forall h1 ok1 h2 ok2, map_dtor (fst w) h = (h1, ok1) -> map_dtor (snd w) h1 = (h2, ok2) ->
  ok1 = true /\ ok2 = true /\ live h2 = [] /\ bad h2 = false.
Proof.
  intros ge gc ops f minb thr w h P R. apply run_ok_eq in R.
  destruct (map_safe_guarded _ _ _ _ _ _ P R) as [_ [_ D]]. exact D.
Qed.

Definition map_partial_at (ge gc : bool) : Prop :=
  forall (ops : list mop) (f : option nat) (minb thr : nat) w h, 0 < minb ->
  run_ok ge gc ops (map0 0 minb thr, map0 1 minb thr) (heap0 f) = Some (w, h) ->
  forall h1 ok1 h2 ok2, map_dtor (fst w) h = (h1, ok1) -> map_dtor (snd w) h1 = (h2, ok2) ->
  ok1 = true /\ ok2 = true /\ live h2 = [] /\ bad h2 = false.

(* the statement for one pair of shapes: the destructors never allocate; histories without a refused step are balanced;
   and, when both sites are repaired, the full guarantee *)
Definition map_safe_at (ge gc : bool) : Prop :=
  map_dtor_at ge gc /\ map_partial_at ge gc /\ (if ge && gc then map_full_at ge gc else True).

Lemma map_safe_any : forall ge gc, map_safe_at ge gc.
Proof.
  intros ge gc. split; [apply map_dtor_any|]. split; [exact (map_balanced_any ge gc)|].
  destruct ge, gc; cbn; auto. exact map_safe_guarded.
Qed.
