# KN11 (apply to <doc/>): xmlns:p="u7" is written on q:a although u7 is excluded
<xsl:stylesheet version="1.0" xmlns:xsl="http://www.w3.org/1999/XSL/Transform" xmlns:q="u7" exclude-result-prefixes="q"><xsl:template match="/"><c xmlns:q="u6"><q:a xmlns:p="u7" xsl:exclude-result-prefixes="q"/></c></xsl:template></xsl:stylesheet>
