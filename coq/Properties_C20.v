(* Properties_C20.v — property theorems for C20 (Xalan's containers behave like their standard
   models). Statements closed by [exact] and their assumptions; examples showing the hypotheses are
   satisfiable; regression examples for the repaired defects K-C20-1..6. *)
From Coq Require Import List Arith Bool Lia.
Require Import XV.GenCont XV.ContVecDefs XV.ContVecModel XV.ContMapDefs XV.ContMapModel XV.ContStrDefs XV.ContStrModel XV.ContDeqDefs XV.ContDeqModel XV.ContListDefs XV.ContListModel.
Import ListNotations.

(* ---- XalanVector ------------------------------------------------------------------------------ *)
(* Every finite op sequence (push/pop/insert x3/erase x2/resize/reserve/clear/assign/at/[]/front/
   back/reverse iteration/copy construction with an initial allocation/operator=/self-assignment/
   swap/three constructors, on two vectors) observes exactly what the list specification (std::vector)
   observes: return values, size and element sequence after every op; ops outside their C++
   precondition are skipped on both sides. *)
Theorem vector_refines_list : forall ops,
  map strip_cap (vrun vinit ops) = lrun linit ops.
Proof. intros. apply vector_refines_list_lemma. Qed.
Print Assumptions vector_refines_list.

(* the allocation always covers the size (no construct past the buffer); uses the regenerated growth
   constants: fails to check if XalanVector::grow stops growing strictly *)
Theorem vector_allocation_covers_size : forall ops,
  vsize (reg0 (vfinal vinit ops)) <= vcap (reg0 (vfinal vinit ops)) /\
  vsize (reg1 (vfinal vinit ops)) <= vcap (reg1 (vfinal vinit ops)).
Proof. intros. apply vector_refines_list_lemma. Qed.
Print Assumptions vector_allocation_covers_size.

(* an insert that fits the allocation does not reallocate (iterators, and the position returned by
   insert(pos, value) in its m_allocation > m_size branch, stay valid) and yields the spec *)
Theorem vector_insert_in_capacity : forall fill v pos src,
  pos <= vsize v -> vsize v + length src <= vcap v ->
  vcap (insert_list fill v pos src) = vcap v /\
  vdata (insert_list fill v pos src) = ins_spec pos src (vdata v).
Proof. intros. split; [apply insert_in_capacity_keeps_cap | apply insert_list_data]; assumption. Qed.
Print Assumptions vector_insert_in_capacity.

(* push_back on a full vector reallocates to the regenerated growth policy (whatever its constants) *)
Theorem vector_push_growth : forall v x, 1 <= vsize v -> vsize v = vcap v ->
  vcap (do_push_back v x) = grow_cap (vsize v) /\ vsize v < grow_cap (vsize v).
Proof. exact push_growth. Qed.
Print Assumptions vector_push_growth.

(* insert(pos, n, value) when [value] is a reference to element i of the vector itself (std::vector
   is required to handle it; repaired by fix K-C20-1: the value is copied first): the result is the
   insertion of n copies of the element's value, on every path (at end, reallocating, in capacity).
   The same ops (and resize(n, v[i]), push_back(v[i]), assign(n, x)) are part of vector_refines_list. *)
Theorem vector_insert_alias : forall v pos n i, pos <= vsize v ->
  vdata (insert_alias v pos n i) = ins_spec pos (repeat (nth i (vdata v) 0) n) (vdata v).
Proof. intros. unfold insert_alias. apply insert_list_data. assumption. Qed.
Print Assumptions vector_insert_alias.

(* regression of K-C20-1: [1..6], capacity 20, insert(begin()+1, 2, v[5]) inserts 6,6 (was 4,4);
   resize(9, v[0]); push_back(v[1]) on a full vector; assign(3, 7) *)
Example vector_alias_regression :
  map (fun o => match o with Some (_, _, _, d) => d | None => [] end)
      (vrun vinit [VReserve 20; VPush 1; VPush 2; VPush 3; VPush 4; VPush 5; VPush 6; VInsA 1 2 5; VNewR [5; 6]; VResizeA 4 0;
                   VPushA 1; VAssignN 3 7])
  = [[]; [1]; [1;2]; [1;2;3]; [1;2;3;4]; [1;2;3;4;5]; [1;2;3;4;5;6]; [1;6;6;2;3;4;5;6]; [5;6]; [5;6;5;5]; [5;6;5;5;6]; [7;7;7]].
Proof. vm_compute. reflexivity. Qed.
Print Assumptions vector_alias_regression.

(* ---- XalanMap --------------------------------------------------------------------------------- *)
(* For every hash function, every pair of parameter sets with minBuckets >= 1 and every finite op
   sequence (insert, operator[] read and write, find, erase by key and by iterator, clear, copy
   construction, operator=, self-assignment, swap, re-construction with new parameters; two maps):
   return values (found pair / end / erase count / operator[] value), size() and the iteration
   sequence equal those of the ordered association-list specification (a finite map + insertion
   order of the live keys). *)
Theorem map_refines_fmap : forall (hash : nat -> nat) a b c d e f g h ops,
  1 <= c -> 1 <= g -> forallb mop_ok ops = true ->
  map (fun '(r, n, cts, _) => (r, n, cts)) (mrun hash (mkms (new_map a b c d) (new_map e f g h) false 0) ops)
  = srun (mkss [] [] false) ops.
Proof. exact map_refines_fmap_lemma. Qed.
Print Assumptions map_refines_fmap.

(* the representation invariant holds after every op: node ids unique, entries' erased bit clear and
   free nodes' set, keys unique, m_size = number of entries, every live entry referenced from bucket
   hash(key) mod n, every bucket reference denotes a node of this map (entries or free list — no
   dangling reference), bucket vectors within their allocation *)
Theorem map_invariant_always : forall (hash : nat -> nat) a b c d e f g h ops,
  1 <= c -> 1 <= g -> forallb mop_ok ops = true ->
  Forall (fun '(_, _, _, m) => exists nx, minv hash m nx)
         (mrun hash (mkms (new_map a b c d) (new_map e f g h) false 0) ops).
Proof. exact map_invariant_lemma. Qed.
Print Assumptions map_invariant_always.

(* find() through the bucket vector = lookup of the key among the live entries *)
Theorem map_find_is_lookup : forall (hash : nat -> nat) m nx k, minv hash m nx ->
  map_find hash m k = find (fun nd => nkey nd =? k) (m_entries m).
Proof. exact map_find_correct. Qed.
Print Assumptions map_find_is_lookup.

(* the hypotheses are satisfiable and the mechanisms are exercised: with threshold 2 and 3 buckets
   the second erase compacts the buckets (erase count back to 0, the stale reference gone while the
   reused node is referenced twice); with load factor 3/4 and 3 buckets the 7th insert rehashes to
   floor(growth * 6) buckets (growth regenerated from the header: 1.6 -> 9) *)
Example map_compaction_and_rehash :
  let run := mrun (fun k => k) (mkms (new_map 3 4 3 2) (new_map 3 4 29 50) false 0) in
  forallb mop_ok [MIns 1 10; MIns 4 40; MIns 7 70; MErase 4; MIns 10 100; MErase 1] = true /\
  map (fun '(_, _, _, m) => (m_ec m, map vdata (m_buckets m)))
      (run [MIns 1 10; MIns 4 40; MIns 7 70; MErase 4; MIns 10 100; MErase 1])
  = [(0, [[]; [0]; []]); (0, [[]; [0; 1]; []]); (0, [[]; [0; 1; 2]; []]); (1, [[]; [0; 1; 2]; []]);
     (1, [[]; [0; 1; 2; 1]; []]); (0, [[]; [1; 2; 1]; []])] /\
  map (fun '(_, _, _, m) => length (m_buckets m))
      (run [MIns 1 1; MIns 2 1; MIns 3 1; MIns 4 1; MIns 5 1; MIns 6 1; MIns 7 1])
  = [3; 3; 3; 3; 3; 3; 6 * map_grow_num / map_grow_den].
Proof. vm_compute. repeat split. Qed.
Print Assumptions map_compaction_and_rehash.

(* XalanSet<V> = XalanMap<V,bool> with the default parameters (minimum buckets regenerated from the
   header; the proof needs it to be >= 1): every set op sequence observes what the association-list
   specification observes — membership, size and insertion order of the live values *)
Theorem set_refines_fmap : forall (hash : nat -> nat) ops,
  map (fun '(r, n, cts, _) => (r, n, cts)) (set_run hash ops) = srun (mkss [] [] false) (map set_to_map ops).
Proof. exact set_refines_lemma. Qed.
Print Assumptions set_refines_fmap.

(* ---- XalanDOMString --------------------------------------------------------------------------- *)
(* Every finite op sequence over two strings (append x3, push_back, insert x3, erase x4, resize,
   reserve, clear, assign x2, substr, assign from own substring, append of a substring / of the other
   string, compare x2, operator[], c_str, reverse iteration, copy construction, operator=,
   self-assignment, swap, append / substr with npos): whenever the model performs an op (i.e. inside
   the C++ precondition, no NUL argument) the std::u16string specification
   returns the same value, the code units and length() agree afterwards and c_str()[length()] is
   NUL. *)
Theorem string_refines_u16 : forall ops, st_refines stinit uinit ops.
Proof. intros. apply string_refines_u16_lemma. unfold strel. simpl. split; [apply ok_sempty | split; [apply ok_sempty | reflexivity]]. Qed.
Print Assumptions string_refines_u16.

(* the NUL-terminator invariant: after any op sequence the buffer is completely empty, or it is the
   code units followed by exactly one NUL, with no NUL among the units, m_size = their number, and
   the vector's allocation covers the buffer *)
Theorem string_nul_inv : forall ops,
  nul_inv (sreg0 (stfinal stinit ops)) /\ nul_inv (sreg1 (stfinal stinit ops)).
Proof. exact string_nul_inv_lemma. Qed.
Print Assumptions string_nul_inv.

Example string_ops_are_performed :
  strun stinit [SApp [97; 98; 99]; SIns 1 [120; 121]; SErase 0 2; SResize0 2; SEraseNpos 1; SClear; SResize 2 122]
  = [Some (SRNone, 3, [97; 98; 99], true, 3); Some (SRNone, 5, [97; 120; 121; 98; 99], true, 5);
     Some (SRNone, 3, [121; 98; 99], true, 5); Some (SRNone, 2, [121; 98], true, 5);
     Some (SRNone, 1, [121], true, 5); Some (SRNone, 0, [], true, 5); Some (SRNone, 2, [122; 122], true, 5)].
Proof. vm_compute. reflexivity. Qed.
Print Assumptions string_ops_are_performed.

(* resize(n, c) (repaired by fix K-C20-3: the old terminator is overwritten before the buffer grows):
   the first n units padded with c, for every string; shrinking works for any c *)
Theorem string_resize : forall s cs n c, str_ok s cs -> (n <= length cs \/ c <> 0) ->
  str_ok (sresize s n c) (resize_spec n c cs).
Proof. exact sresize_ok. Qed.
Print Assumptions string_resize.

(* regressions of K-C20-3..6: "abc".resize(6,'x'); append(other, 1, npos) on a non-empty target;
   substr(r, 2) with the default count; erase(begin(), end()) on a string without a buffer *)
Example string_regressions :
  strun stinit [SApp [97; 98; 99]; SResize 6 120] =
    [Some (SRNone, 3, [97; 98; 99], true, 3); Some (SRNone, 6, [97; 98; 99; 120; 120; 120], true, 6)] /\
  strun stinit [SApp [97; 98; 99; 100; 101; 102]; SSel true; SApp [120; 121]; SAppSubNpos 1; SSel false; SSubstrNpos 2] =
    [Some (SRNone, 6, [97; 98; 99; 100; 101; 102], true, 6); Some (SRNone, 0, [], true, 0);
     Some (SRNone, 2, [120; 121], true, 2); Some (SRNone, 7, [120; 121; 98; 99; 100; 101; 102], true, 7);
     Some (SRNone, 6, [97; 98; 99; 100; 101; 102], true, 6);
     Some (SRList [99; 100; 101; 102], 6, [97; 98; 99; 100; 101; 102], true, 6)] /\
  strun stinit [SEraseIt 0 0] = [Some (SRNum 0, 0, [], true, 0)].
Proof. vm_compute. repeat split. Qed.
Print Assumptions string_regressions.

(* ---- XalanDeque ------------------------------------------------------------------------------- *)
(* Two deques of ANY block sizes >= 1 (swap carries the block size with the blocks: fix K-C20-2), every
   finite op sequence (push_back, pop_back, back, operator[] read and write, resize, clear, forward /
   reverse iteration, copy construction, operator=, self-assignment, swap, re-construction with an
   initial size): return values, size(), empty() and the element sequence seen through operator[]
   equal the list specification (std::deque).  Rests on the block invariant: all blocks but the last
   are full, no indexed block is empty, free blocks are empty. *)
Theorem deque_refines_list : forall bs0 bs1 ops, 1 <= bs0 -> 1 <= bs1 ->
  drun (mkds (new_deq bs0) (new_deq bs1) false) ops = dlrun linit ops.
Proof.
  intros. apply deque_refines_list_lemma; [unfold drel; simpl; auto|].
  split; apply new_deq_ok; assumption.
Qed.
Print Assumptions deque_refines_list.

(* size() = (blocks - 1) * blockSize + last block's size, and operator[] through index / blockSize
   and index % blockSize, are right exactly because of the block invariant *)
Theorem deque_size_and_index : forall d, dinv d ->
  dsize d = length (flat d) /\ (forall i, i < length (flat d) -> dindex d i = nth i (flat d) 0).
Proof. intros d I. split; [apply dsize_flat; assumption | intros; apply dindex_flat; assumption]. Qed.
Print Assumptions deque_size_and_index.

Example deque_block_recycling :
  drun (mkds (new_deq 2) (new_deq 2) false) [DPush 1; DPush 2; DPush 3; DPop; DPop; DPush 4; DPush 5; DResize 1; DBack]
  = [Some (RNone, 1, false, [1]); Some (RNone, 2, false, [1; 2]); Some (RNone, 3, false, [1; 2; 3]);
     Some (RNone, 2, false, [1; 2]); Some (RNone, 1, false, [1]); Some (RNone, 2, false, [1; 4]);
     Some (RNone, 3, false, [1; 4; 5]); Some (RNone, 1, false, [1]); Some (RNum 1, 1, false, [1])].
Proof. vm_compute. reflexivity. Qed.
Print Assumptions deque_block_recycling.

(* regression of K-C20-2: 12 elements in a deque of block size 10 swapped into one of block size 3 *)
Example deque_swap_regression :
  last (drun (mkds (new_deq 10) (new_deq 3) false) (map DPush [1;2;3;4;5;6;7;8;9;10;11;12] ++ [DSwap; DSel true; DSetIdx 11 99; DBack])) None
  = Some (RNum 99, 12, false, [1;2;3;4;5;6;7;8;9;10;11;99]).
Proof. vm_compute. reflexivity. Qed.
Print Assumptions deque_swap_regression.

(* ---- XalanList -------------------------------------------------------------------------------- *)
(* Node-sequence model (node recycling through the per-list free chain, splice moving nodes between
   lists, swap exchanging head and chain; the prev/next pointer surgery itself is NOT modelled): for
   every finite op sequence (push_back/front, pop_back/front, insert, erase, front, back, reverse
   iteration, clear, swap, the three splice forms; two lists) return values, size and value sequence
   equal the std::list specification — recycling never shows through. *)
Theorem list_refines_list : forall ops, map strip_nodes (grun ginit ops) = llrun linit ops.
Proof. intros. apply list_refines_list_lemma. unfold grel. simpl. auto. Qed.
Print Assumptions list_refines_list.

(* node discipline: over both lists and both free chains every node occurs exactly once and was
   allocated before — no node is ever in two places, and a recycled node was free *)
Theorem list_nodes_unique : forall ops,
  NoDup (ids_all (gfinal ginit ops)) /\ Forall (fun id => id < gnext (gfinal ginit ops)) (ids_all (gfinal ginit ops)).
Proof. intros. apply list_nodes_unique_lemma. split; [constructor | constructor]. Qed.
Print Assumptions list_nodes_unique.

Example list_node_recycling :
  grun ginit [LPushB 5; LPushB 6; LPushF 4; LErase 1; LPushB 7; LClear; LPushB 8]
  = [Some (RNone, 1, [5], [0], 0); Some (RNone, 2, [5; 6], [0; 1], 0); Some (RNone, 3, [4; 5; 6], [2; 0; 1], 0);
     Some (RNone, 2, [4; 6], [2; 1], 1); Some (RNone, 3, [4; 6; 7], [2; 1; 0], 0); Some (RNone, 0, [], [], 3);
     Some (RNone, 1, [8], [0], 2)].
Proof. vm_compute. reflexivity. Qed.
Print Assumptions list_node_recycling.
