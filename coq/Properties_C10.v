(* Properties_C10.v — property theorems for C10 (template conflict resolution: import
   precedence, then priority, then last).  Model: TmplDefs.v (Stylesheet::addTemplate /
   addToList / addToTable / findTemplate / findTemplateInImports as they are); generated facts:
   GenTmpl.v (XPath::getTargetData, getMatchScoreValue, the dispatch of addTemplate), rebuilt
   from /repo on every run.  Pattern matching is abstract: [pmatch alt n]. *)
From Coq Require Import List Bool ZArith NArith Lia Sorting.Sorted.
Require Import XV.TmplDefs XV.GenTmpl XV.TmplModel XV.TmplSelect XV.TmplNq XV.TmplTree XV.TmplShape XV.TmplBest.
Import ListNotations.
Local Open Scope Z_scope.

(* ---------------------------------------------------------------------------------------- *)
(* 1. the lists *)

(* every insertion history (any entries, any order, starting from any sorted list) leaves a
   list sorted by (priority-or-default, position), descending *)
Theorem list_sorted_inv : forall es l,
  StronglySorted ge_entry l -> StronglySorted ge_entry (fold_left add_to_list es l).
Proof. exact insertions_sorted. Qed.
Print Assumptions list_sorted_inv.

(* after addTemplate* and postConstruction: the list a node is looked up in is sorted and holds
   exactly the entries (one per union alternative, numbered in document order) whose target
   covers the node's type/local name *)
Theorem node_list_sorted : forall ts k, StronglySorted ge_entry (locate (build_tables ts) k).
Proof. exact locate_sorted. Qed.
Print Assumptions node_list_sorted.

Theorem node_list_contents : forall ts k x,
  In x (locate (build_tables ts) k) <->
  In x (entries ts 0) /\ covers (a_target (e_alt x)) k = true.
Proof. exact locate_contents. Qed.
Print Assumptions node_list_contents.

(* so the quiet path's "first hit" is the maximum of the list *)
Theorem first_match_is_maximum : forall (node : Type) (pmatch : N -> node -> bool) pa l mode n t,
  StronglySorted ge_entry l -> find_in_list node pmatch pa l mode n = Some t ->
  exists e, In e l /\ e_tmpl e = t /\ ok node pmatch pa mode n e = true /\
            forall e', In e' l -> ok node pmatch pa mode n e' = true -> ge_entry e e'.
Proof. exact find_in_list_some. Qed.
Print Assumptions first_match_is_maximum.

(* ---------------------------------------------------------------------------------------- *)
(* 2. the choice against XSLT 1.0 section 5.5 *)

(* The model has both variants of Stylesheet::findTemplate: [pa = true]: a table entry is tested
   with the alternative it was created for (after the repair of K1); [pa = false]: with the whole
   match pattern.  Which one the current tree has is the generated fact [gen_per_alternative].

   For a matcher that respects the shapes of the alternatives (every alternative's target is what
   getTargetData reports for its shape; the matcher accepts only nodes the last step can match),
   findTemplate over the compiled import tree returns a template iff some rule of the mode
   matches, and then the template of a rule that is maximal in (import precedence [post-order
   number of its stylesheet], priority [explicit or default of the alternative], position) —
   without any guard in the per-alternative variant, and in the whole-pattern variant under the
   guard left by the refutation K1 below: a template without priority attribute has alternatives
   of one default priority. *)
Definition matcher_respects_shapes (node : Type) (key_of : node -> nkey) (pmatch : N -> node -> bool)
           (s : sheet) (n : node) (shape_of : alt -> shape) : Prop :=
  forall t a, In t (all_templates s) -> In a (t_alts t) ->
    a_target a = fst (target_data (shape_of a)) /\
    (pmatch (a_pat a) n = true -> step_may_match (sh_last (shape_of a)) (key_of n) = true).

Theorem find_template_spec_partial :
  forall (node : Type) (key_of : node -> nkey) (pmatch : N -> node -> bool) pa s mode n shape_of,
  pa = true \/ uniform_union_priorities s = true ->
  matcher_respects_shapes node key_of pmatch s n shape_of ->
  spec_choice node pmatch (rules_of s) mode n
              (find_template node key_of pmatch pa true (compile s) mode n false).
Proof.
  intros node key_of pmatch pa s mode n shape_of Hu Hm.
  apply find_template_spec_lemma; [exact Hu|]. exact (filed_from_shapes node key_of pmatch s n shape_of Hm).
Qed.
Print Assumptions find_template_spec_partial.

(* the full statement for the per-alternative variant: every set of template rules *)
Theorem find_template_spec :
  forall (node : Type) (key_of : node -> nkey) (pmatch : N -> node -> bool) s mode n shape_of,
  matcher_respects_shapes node key_of pmatch s n shape_of ->
  spec_choice node pmatch (rules_of s) mode n
              (find_template node key_of pmatch true true (compile s) mode n false).
Proof.
  intros node key_of pmatch s mode n shape_of Hm.
  exact (find_template_spec_partial node key_of pmatch true s mode n shape_of (or_introl eq_refl) Hm).
Qed.
Print Assumptions find_template_spec.

(* ... and for the tree the facts were generated from *)
Theorem find_template_spec_this_tree :
  forall (node : Type) (key_of : node -> nkey) (pmatch : N -> node -> bool) s mode n shape_of,
  gen_per_alternative = true \/ uniform_union_priorities s = true ->
  matcher_respects_shapes node key_of pmatch s n shape_of ->
  spec_choice node pmatch (rules_of s) mode n
              (find_template node key_of pmatch gen_per_alternative true (compile s) mode n false).
Proof. intros node key_of pmatch. exact (find_template_spec_partial node key_of pmatch gen_per_alternative). Qed.
Print Assumptions find_template_spec_this_tree.

(* the same as an equation: [best_5_5] is the executable maximum of (precedence, priority,
   position) over the applicable rules; it satisfies [spec_choice], and [spec_choice] has a single
   answer because (precedence, position) identifies the template *)
Theorem best_5_5_is_the_specified_choice :
  forall (node : Type) (pmatch : N -> node -> bool) rules mode n,
  spec_choice node pmatch rules mode n (option_map r_tmpl (best_5_5 node pmatch rules mode n)).
Proof. exact best_5_5_spec. Qed.
Print Assumptions best_5_5_is_the_specified_choice.

Theorem find_template_eq_best_partial :
  forall (node : Type) (key_of : node -> nkey) (pmatch : N -> node -> bool) pa s mode n shape_of,
  pa = true \/ uniform_union_priorities s = true ->
  matcher_respects_shapes node key_of pmatch s n shape_of ->
  find_template node key_of pmatch pa true (compile s) mode n false =
  option_map r_tmpl (best_5_5 node pmatch (rules_of s) mode n) /\
  find_template node key_of pmatch pa true (compile s) mode n true =
  option_map r_tmpl (best_5_5 node pmatch (imported_rules s) mode n).
Proof.
  intros node key_of pmatch pa s mode n shape_of Hu Hm.
  pose proof (filed_from_shapes node key_of pmatch s n shape_of Hm) as Hf. split.
  - apply (spec_choice_unique node pmatch (postorder s) 0%nat mode n).
    + apply find_template_spec_lemma; assumption.
    + apply best_5_5_spec.
  - apply (spec_choice_unique node pmatch (removelast (postorder s)) 0%nat mode n).
    + apply apply_imports_lemma; assumption.
    + apply best_5_5_spec.
Qed.
Print Assumptions find_template_eq_best_partial.

Theorem find_template_eq_best :
  forall (node : Type) (key_of : node -> nkey) (pmatch : N -> node -> bool) s mode n shape_of,
  matcher_respects_shapes node key_of pmatch s n shape_of ->
  find_template node key_of pmatch true true (compile s) mode n false =
  option_map r_tmpl (best_5_5 node pmatch (rules_of s) mode n) /\
  find_template node key_of pmatch true true (compile s) mode n true =
  option_map r_tmpl (best_5_5 node pmatch (imported_rules s) mode n).
Proof.
  intros node key_of pmatch s mode n shape_of Hm.
  exact (find_template_eq_best_partial node key_of pmatch true s mode n shape_of (or_introl eq_refl) Hm).
Qed.
Print Assumptions find_template_eq_best.

(* a stylesheet used by the witnesses: match="a" then match="a[b]|*"; local name a = 5 *)
Definition alt_a : alt := {| a_pat := 0; a_target := {| tg_name := TNName 5; tg_type := TTElement |}; a_score := ScQName |}.
Definition alt_ab : alt := {| a_pat := 1; a_target := {| tg_name := TNName 5; tg_type := TTElement |}; a_score := ScOther |}.
Definition alt_star : alt := {| a_pat := 2; a_target := {| tg_name := TNAny; tg_type := TTElement |}; a_score := ScNodeTest |}.
Definition k1_t1 : template := {| t_id := 1; t_mode := None; t_prio := None; t_alts := [alt_a] |}.
Definition k1_t2 : template := {| t_id := 2; t_mode := None; t_prio := None; t_alts := [alt_ab; alt_star] |}.
Definition k1_sheet : sheet := Sheet [ITmpl k1_t1; ITmpl k1_t2] [].
(* the only node: an element a without a child b *)
Definition k1_key (_ : N) : nkey := KElem 5.
Definition k1_match (p : N) (_ : N) : bool := negb (p =? 1)%N.

(* K1, whole-pattern variant: the entry of alternative a[b] (0.5) is tested with the whole union,
   which matches through '*' (-0.5); the union's template beats match="a" (0).  So the guard of
   find_template_spec_partial is needed there *)
Theorem find_template_spec_refuted : exists s mode (n : N),
  filed_where_matching N k1_key k1_match s n = true /\
  ~ spec_choice N k1_match (rules_of s) mode n
                (find_template N k1_key k1_match false true (compile s) mode n false).
Proof.
  exists k1_sheet, None, 0%N. split; [reflexivity|].
  replace (find_template N k1_key k1_match false true (compile k1_sheet) None 0%N false) with (Some k1_t2) by reflexivity.
  intros (r & Hin & Happ & Ht & Hmax).
  cbn in Hin. destruct Hin as [<-|[<-|[<-|[]]]].
  - discriminate Ht.
  - discriminate Happ.
  - specialize (Hmax {| r_prec := 0; r_prio := 0; r_pos := 0; r_tmpl := k1_t1; r_alt := alt_a |}).
    assert (H : rule_le {| r_prec := 0; r_prio := 0; r_pos := 0; r_tmpl := k1_t1; r_alt := alt_a |}
                        {| r_prec := 0; r_prio := -500; r_pos := 1; r_tmpl := k1_t2; r_alt := alt_star |}).
    { apply Hmax; [left; reflexivity | reflexivity]. }
    unfold rule_le in H; cbn in H. lia.
Qed.
Print Assumptions find_template_spec_refuted.

(* the same instance in the per-alternative variant: match="a" is chosen, on both paths *)
Example union_alternatives_are_separate_rules :
  find_template N k1_key k1_match true true (compile k1_sheet) None 0%N false = Some k1_t1 /\
  find_template N k1_key k1_match true false (compile k1_sheet) None 0%N false = Some k1_t1 /\
  option_map r_tmpl (best_5_5 N k1_match (rules_of k1_sheet) None 0%N) = Some k1_t1.
Proof. vm_compute. repeat split. Qed.
Print Assumptions union_alternatives_are_separate_rules.

(* regression example for the repaired defect K2 (function-headed patterns were filed under the
   element and attribute wildcards only): match="key(..)" now fires for a text node *)
Definition alt_key : alt := {| a_pat := 0; a_target := {| tg_name := TNAny; tg_type := TTAny |}; a_score := ScOther |}.
Definition k2_t : template := {| t_id := 1; t_mode := None; t_prio := None; t_alts := [alt_key] |}.
Definition k2_sheet : sheet := Sheet [ITmpl k2_t] [].

Example function_pattern_fires_for_every_node_kind :
  forall pa k, In k [KText; KComment; KPI; KRoot; KElem 5; KAttr 5] ->
  find_template N (fun _ => k) (fun _ _ => true) pa true (compile k2_sheet) None 0%N false = Some k2_t.
Proof. intros pa k Hk. cbn in Hk. destruct pa; destruct Hk as [<-|[<-|[<-|[<-|[<-|[<-|[]]]]]]]; reflexivity. Qed.
Print Assumptions function_pattern_fires_for_every_node_kind.

(* the hypotheses of the partial theorem are satisfiable on a non-trivial instance: an import
   tree (main imports A then B; A imports C), an include, ties, a union with explicit priority *)
Definition alt_b : alt := {| a_pat := 3; a_target := {| tg_name := TNName 6; tg_type := TTElement |}; a_score := ScQName |}.
Definition ex_t (id : N) (p : option Z) (alts : list alt) : template :=
  {| t_id := id; t_mode := None; t_prio := p; t_alts := alts |}.
Definition ex_sheet : sheet :=
  Sheet [ITmpl (ex_t 10 None [alt_star]); IIncl [ITmpl (ex_t 11 (Some 0) [alt_ab; alt_star])]]
        [Sheet [ITmpl (ex_t 20 (Some 2000) [alt_b])] [Sheet [ITmpl (ex_t 30 None [alt_a]); ITmpl (ex_t 31 None [alt_a])] []];
         Sheet [ITmpl (ex_t 40 None [alt_b]); ITmpl (ex_t 41 (Some 0) [alt_b])] []].
(* nodes: 0 = <a> without b, 1 = <b> *)
Definition ex_key (n : N) : nkey := if (n =? 0)%N then KElem 5 else KElem 6.
Definition ex_match (p n : N) : bool :=
  match p, n with
  | 0%N, 0%N => true | 2%N, _ => true | 3%N, 1%N => true | _, _ => false
  end.

Definition ex_shape (a : alt) : shape :=
  match a_pat a with
  | 0%N => {| sh_last := LStep false (NTName 5); sh_multi := false |}      (* a *)
  | 1%N => {| sh_last := LStep false (NTName 5); sh_multi := true |}       (* a[b] *)
  | 2%N => {| sh_last := LStep false NTWild; sh_multi := false |}          (* * *)
  | _ => {| sh_last := LStep false (NTName 6); sh_multi := false |}        (* b *)
  end.

Example matcher_premise_satisfiable :
  matcher_respects_shapes N ex_key ex_match ex_sheet 0%N ex_shape /\
  matcher_respects_shapes N ex_key ex_match ex_sheet 1%N ex_shape.
Proof.
  split; intros t a Ht Ha; vm_compute in Ht;
    repeat (destruct Ht as [<-|Ht]; [cbn in Ha; repeat (destruct Ha as [<-|Ha]; [split; [reflexivity | vm_compute; auto]|]); contradiction|]);
    contradiction.
Qed.
Print Assumptions matcher_premise_satisfiable.

Definition ex_facts (pa : bool) : Prop :=
  (* main wins over its imports: the later of two rules of priority 0 / -0.5 ... *)
  option_map t_id (find_template N ex_key ex_match pa true (compile ex_sheet) None 0%N false) = Some 11%N /\
  option_map t_id (find_template N ex_key ex_match pa true (compile ex_sheet) None 1%N false) = Some 11%N /\
  (* apply-imports from main: B (imported later) before A; inside B the later of equal priorities;
     for <a> only C (imported by A) has rules: the later of the two *)
  option_map t_id (find_template N ex_key ex_match pa true (compile ex_sheet) None 1%N true) = Some 41%N /\
  option_map t_id (find_template N ex_key ex_match pa true (compile ex_sheet) None 0%N true) = Some 31%N.

Example partial_theorem_applies :
  uniform_union_priorities ex_sheet = true /\
  filed_where_matching N ex_key ex_match ex_sheet 0%N = true /\
  filed_where_matching N ex_key ex_match ex_sheet 1%N = true /\
  ex_facts true /\ ex_facts false /\
  option_map (fun r => t_id (r_tmpl r)) (best_5_5 N ex_match (rules_of ex_sheet) None 1%N) = Some 11%N /\
  option_map (fun r => t_id (r_tmpl r)) (best_5_5 N ex_match (imported_rules ex_sheet) None 1%N) = Some 41%N.
Proof. vm_compute. repeat split. Qed.
Print Assumptions partial_theorem_applies.

(* ---------------------------------------------------------------------------------------- *)
(* 3. apply-imports *)

(* apply-imports in a template of the stylesheet at path p searches csubsheet(p) with
   onlyUseImports; that is the compiled sub-tree, and the choice is the section 5.5 maximum over
   the rules imported into that stylesheet (its own rules excluded), or none of them matches *)
Theorem apply_imports_scope :
  forall (node : Type) (key_of : node -> nkey) (pmatch : N -> node -> bool) pa s p sub mode n shape_of,
  subsheet s p = Some sub ->
  pa = true \/ uniform_union_priorities sub = true ->
  matcher_respects_shapes node key_of pmatch sub n shape_of ->
  csubsheet (compile s) p = Some (compile sub) /\
  spec_choice node pmatch (imported_rules sub) mode n
              (find_template node key_of pmatch pa true (compile sub) mode n true).
Proof.
  intros node key_of pmatch pa s p sub mode n shape_of Hs Hu Hm. split.
  - rewrite csubsheet_compile, Hs. reflexivity.
  - apply apply_imports_lemma; [exact Hu|]. exact (filed_from_shapes node key_of pmatch sub n shape_of Hm).
Qed.
Print Assumptions apply_imports_scope.

(* ---------------------------------------------------------------------------------------- *)
(* 4. default priorities and filing, over the table regenerated from XPath.cpp *)

(* for every shape of union alternative, the eMatchScore getTargetData assigns has, by
   getMatchScoreValue, the default priority of section 5.5 (-0.5 / -0.25 / 0 / 0.5) *)
Theorem default_priority_correct : forall sh,
  gen_score_value (snd (target_data sh)) = Some (spec_default_priority sh).
Proof. exact default_priority_lemma. Qed.
Print Assumptions default_priority_correct.

(* the numbers and the dispatch used by the model are the generated ones *)
Theorem model_tables_are_the_generated_ones :
  (forall s, gen_score_value s = match s with ScNone => None | _ => Some (score_value s) end) /\
  (forall tg, gen_slots tg = slots_of_target tg).
Proof. split; [exact score_values_agree | exact gen_slots_agree]. Qed.
Print Assumptions model_tables_are_the_generated_ones.

(* filing is complete for every shape of alternative, function-headed ones included: a node the
   last step can match is looked up in a list that received the entry *)
Theorem filing_complete_by_shape : forall sh k,
  step_may_match (sh_last sh) k = true -> covers (fst (target_data sh)) k = true.
Proof. exact filing_by_shape. Qed.
Print Assumptions filing_complete_by_shape.

(* ---------------------------------------------------------------------------------------- *)
(* 5. "conflict warnings never change the choice" *)

(* in both variants, for every import tree, mode, node, for apply-templates and apply-imports
   alike, the conflict-reporting path of findTemplate (scan by table priority, skip of further
   entries of the template just examined, conflict array) returns what the quiet path returns *)
Theorem quiet_eq_nonquiet :
  forall (node : Type) (key_of : node -> nkey) (pmatch : N -> node -> bool) pa s mode n only,
  find_template node key_of pmatch pa false (compile s) mode n only =
  find_template node key_of pmatch pa true (compile s) mode n only.
Proof. exact quiet_eq_nonquiet_lemma. Qed.
Print Assumptions quiet_eq_nonquiet.

(* regression examples for the repaired defects K-new-1..3 (run-time score used as priority;
   same match string skipped): the instances on which the two paths used to differ, and an
   instance for the skip of the per-alternative variant (the first alternative of the union
   fails, the second one must still be examined) *)
Definition st_t1 : template := {| t_id := 1; t_mode := None; t_prio := None; t_alts := [alt_a] |}.
Definition st_t2 : template := {| t_id := 2; t_mode := None; t_prio := None;
                                  t_alts := [{| a_pat := 9; a_target := a_target alt_a; a_score := ScQName |}] |}.
Definition alt_ax : alt := {| a_pat := 1; a_target := a_target alt_a; a_score := ScOther |}.
Definition rt_t1 : template := {| t_id := 1; t_mode := None; t_prio := Some 250; t_alts := [alt_a] |}.
Definition rt_t2 : template := {| t_id := 2; t_mode := None; t_prio := None; t_alts := [alt_ax] |}.
Definition un_t : template := {| t_id := 3; t_mode := None; t_prio := Some 1000; t_alts := [alt_ab; alt_a] |}.

Definition nq_facts (pa : bool) : Prop :=
  (* two templates, the later one does not match: the earlier one is examined and chosen *)
  option_map t_id (find_template N k1_key (fun p _ => (p =? 0)%N) pa false (compile (Sheet [ITmpl st_t1; ITmpl st_t2] [])) None 0%N false) = Some 1%N /\
  (* match="a" priority="0.25" against match="a[@x]" (0.5): a[@x] *)
  option_map t_id (find_template N k1_key (fun _ _ => true) pa false (compile (Sheet [ITmpl rt_t1; ITmpl rt_t2] [])) None 0%N false) = Some 2%N /\
  (* match="a[b]|a" priority="1" on <a/>: adjacent entries of one template, the first fails *)
  option_map t_id (find_template N k1_key k1_match pa false (compile (Sheet [ITmpl un_t] [])) None 0%N false) = Some 3%N.

Example conflict_reporting_regressions :
  nq_facts true /\ nq_facts false /\
  (* match="a" / match="a[b]|*" on <a/>: whole-pattern variant: both paths take the union (K1) *)
  option_map t_id (find_template N k1_key k1_match false false (compile k1_sheet) None 0%N false) = Some 2%N /\
  option_map t_id (find_template N k1_key k1_match false true (compile k1_sheet) None 0%N false) = Some 2%N.
Proof. vm_compute. repeat split. Qed.
Print Assumptions conflict_reporting_regressions.
